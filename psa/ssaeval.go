package main

import (
	"fmt"
	"go/constant"
	"go/token"
	"go/types"
	"sort"
	"strings"
	"unicode/utf8"

	"golang.org/x/tools/go/ssa"
)

// Decision-table evaluation of comparison-only code on the SSA form.
//
// A region of a function (a loop body, a guard, a classifier helper) is evaluated abstractly: the
// inputs are *symbols* (or constants chosen from a finite partition), every comparison between
// symbols is answered by an oracle that fixes one cell of the decision table, arithmetic on
// symbols yields canonical terms, phi nodes select by the edge taken, calls of module functions
// are evaluated in place (so an extracted helper and inline code are the same thing), and
// anything with an effect is recorded, not performed.  The result of one evaluation is the path
// taken and the symbolic values of the SSA registers on it.  Since the form of the source
// (if/switch, inverted tests, hoisted locals, helper functions) has disappeared in this
// representation, rules stated on it do not depend on that form.
//
// Nothing of the repository is executed: the evaluator interprets the IR over symbols and over
// the finitely many cells of a partition, never over program inputs.

const (
	svUnknown = iota
	svInt
	svBool
	svFloat
	svString
	svSym   // a named symbol or canonical term
	svTuple // multiple results
	svAddr  // address of a modelled cell
	svNil
	svList   // a slice with known elements: s = storage id, i = offset, n = length
	svStruct // a struct value assembled from its field cells (for rendering only)
)

type sv struct {
	k   int
	i   int64
	b   bool
	f   float64
	s   string
	tup []sv
	// for terms: operator and operands (s holds the canonical rendering)
	op   string
	args []sv
	n    int64 // length of a list
	// a function value: the function and, for a closure, the values of its bindings
	fn *ssa.Function
	fv []sv
	// dynamic type of a value that was boxed into an interface
	typ types.Type
}

func (v sv) String() string {
	switch v.k {
	case svInt:
		return fmt.Sprint(v.i)
	case svBool:
		return fmt.Sprint(v.b)
	case svFloat:
		return fmt.Sprint(v.f)
	case svString:
		return fmt.Sprintf("%q", v.s)
	case svSym:
		return v.s
	case svAddr:
		return "&" + v.s
	case svNil:
		return "nil"
	case svList:
		return fmt.Sprintf("list(%s,%d,%d)", v.s, v.i, v.n)
	case svStruct:
		return v.s
	case svTuple:
		var p []string
		for _, t := range v.tup {
			p = append(p, t.String())
		}
		return "(" + strings.Join(p, ", ") + ")"
	}
	return "?"
}

func symV(name string) sv { return sv{k: svSym, s: name} }
func intV(i int64) sv     { return sv{k: svInt, i: i} }
func boolV(b bool) sv     { return sv{k: svBool, b: b} }
func (v sv) isConst() bool {
	return v.k == svInt || v.k == svBool || v.k == svFloat || v.k == svString || v.k == svNil
}
func (v sv) known() bool { return v.k != svUnknown }

type ssaEffect struct {
	ins  ssa.Instruction
	what string // "store", "call", "mapupdate", "return", …
	args []sv
	addr string
}

type ssaEval struct {
	c *Ctx
	// presets for SSA values (parameters, results of particular instructions)
	bind map[ssa.Value]sv
	// oracle decides a comparison between two values of which at least one is not a constant
	oracle func(op token.Token, x, y sv) (bool, bool)
	// load supplies the value of a load whose address is not a modelled cell
	load func(ld *ssa.UnOp, addr sv) (sv, bool)
	// call models a call (library functions, methods with known meaning); handled=false lets the
	// evaluator inline a module function or record an opaque call
	call func(call ssa.CallInstruction, args []sv) (res sv, handled bool)
	// lookup models a map lookup (checked before call); fr is the frame of the call that is
	// being handed to the call hook (for hooks that evaluate function-valued arguments)
	lookup func(x *ssa.Lookup, m, k sv) (sv, bool)
	fr     *frame
	// noInline: module functions that must be treated as opaque
	noInline func(fn *ssa.Function) bool
	// guide chooses the successor at a branch whose condition has no value (directed
	// evaluation towards a target block); the choice is recorded in assumed
	guide   func(ifi *ssa.If) (succ int, ok bool)
	assumed []string
	// inlineLib: functions outside the module that are evaluated in place too (generic helpers of
	// package slices, …); maxDepth: inlining depth (default 4)
	inlineLib func(fn *ssa.Function) bool
	maxDepth  int
	// makeLists (concrete mode, ext_a.go): make([]T, constant) yields a list of zero values instead
	// of a slice term, []byte(s) a writable copy, slice literals can be appended to and converted,
	// copy is performed, function values that are known are called, slice elements that are
	// structs are assembled from their fields
	makeLists bool

	mem     map[string]sv
	lists   map[string][]sv
	iters   map[string]*strIter
	effects []ssaEffect
	path    []*ssa.BasicBlock
	why     string // why the evaluation stopped early
	depth   int
	steps   int
	nalloc  int
	intBits int
	xb      *evalExtB // function values and closures seen (ext_b.go)
	// orderMinMax: min/max of values that are not both constants are decided by the oracle
	orderMinMax bool
	// flatEmbedded: a field promoted from a struct embedded by value has the address it would have as
	// a direct field (s.grp.f is the cell s.f), so that grouping fields into an embedded struct is invisible
	flatEmbedded bool
	// arrays: small arrays of basic elements are values (ext_d.go): an allocation (`var iv [4]byte`)
	// starts as modelled zero cells, as the language defines it — not only the storage of make —,
	// a load of the whole array yields its elements, a store of such a value sets the elements
	arrays bool
	// composeSlices (ext_x10.go): a slice of a slice of an array cell is a slice of that cell
	// (arr[:][1:] is arr[1:]), so its length and elements are those of the array
	composeSlices bool
}

type strIter struct {
	s   string
	pos int
}

type frame struct {
	vals map[ssa.Value]sv
}

func (e *ssaEval) val(fr *frame, v ssa.Value) sv {
	if b, ok := e.bind[v]; ok {
		return b
	}
	if x, ok := fr.vals[v]; ok {
		return x
	}
	switch x := v.(type) {
	case *ssa.Const:
		if x.Value == nil {
			if _, isB := x.Type().Underlying().(*types.Basic); isB {
				// zero value of a basic type
				switch bt := x.Type().Underlying().(*types.Basic); {
				case bt.Info()&types.IsBoolean != 0:
					return boolV(false)
				case bt.Info()&types.IsInteger != 0:
					return intV(0)
				case bt.Info()&types.IsFloat != 0:
					return sv{k: svFloat}
				case bt.Info()&types.IsString != 0:
					return sv{k: svString}
				}
			}
			return sv{k: svNil}
		}
		switch x.Value.Kind() {
		case constant.Bool:
			return boolV(constant.BoolVal(x.Value))
		case constant.Int:
			if i, ok := constant.Int64Val(x.Value); ok {
				return intV(i)
			}
		case constant.Float:
			f, _ := constant.Float64Val(x.Value)
			return sv{k: svFloat, f: f}
		case constant.String:
			return sv{k: svString, s: constant.StringVal(x.Value)}
		}
	case *ssa.Global:
		return sv{k: svAddr, s: "global:" + x.String()}
	case *ssa.Function:
		e.noteFunc(x)
		return sv{k: svSym, s: "func:" + x.String(), fn: x}
	}
	return sv{}
}

// runFunc evaluates fn from its entry with the given argument values and returns the values of
// the return statement reached (nil if the evaluation stopped before a return; see e.why).
func (e *ssaEval) runFunc(fn *ssa.Function, args []sv) []sv {
	fr := &frame{vals: map[ssa.Value]sv{}}
	for i, p := range fn.Params {
		if i < len(args) {
			fr.vals[p] = args[i]
		}
	}
	_, _, ret := e.runBlocks(fr, fn.Blocks[0], nil, nil)
	return ret
}

// runBlocks evaluates from block b (entered from pred) until a return, until stop(b) holds for
// the block about to be entered, or until the evaluation cannot continue.  It returns the block
// at which it stopped, the block it came from, and the returned values if a return was reached.
func (e *ssaEval) runBlocks(fr *frame, b, pred *ssa.BasicBlock, stop func(next, from *ssa.BasicBlock) bool) (*ssa.BasicBlock, *ssa.BasicBlock, []sv) {
	for {
		if e.steps++; e.steps > 20000 {
			e.why = "evaluation budget exceeded"
			return b, pred, nil
		}
		if e.depth == 0 {
			e.path = append(e.path, b)
		}
		// phis first, all read the values at the end of pred
		newVals := map[ssa.Value]sv{}
		for _, ins := range b.Instrs {
			phi, ok := ins.(*ssa.Phi)
			if !ok {
				break
			}
			idx := -1
			for i, p := range b.Preds {
				if p == pred {
					idx = i
				}
			}
			if idx >= 0 {
				newVals[phi] = e.val(fr, phi.Edges[idx])
			}
		}
		for k, v := range newVals {
			fr.vals[k] = v
		}
		for _, ins := range b.Instrs {
			switch x := ins.(type) {
			case *ssa.Phi, *ssa.DebugRef:
				continue
			case *ssa.If:
				cv := e.val(fr, x.Cond)
				if cv.k != svBool && e.guide != nil && e.depth == 0 {
					if succ, ok := e.guide(x); ok {
						cv = boolV(succ == 0)
						e.assumed = append(e.assumed, fmt.Sprintf("%s = %v", e.c.valShape(x.Cond), succ == 0))
					}
				}
				if cv.k != svBool {
					e.why = "a branch depends on a value the table does not fix: " + e.c.valShape(x.Cond) + " at " + e.c.pos(x.Pos())
					return b, pred, nil
				}
				next := b.Succs[1]
				if cv.b {
					next = b.Succs[0]
				}
				if stop != nil && stop(next, b) {
					return next, b, nil
				}
				pred, b = b, next
			case *ssa.Jump:
				next := b.Succs[0]
				if stop != nil && stop(next, b) {
					return next, b, nil
				}
				pred, b = b, next
			case *ssa.Return:
				var res []sv
				for _, r := range x.Results {
					res = append(res, e.val(fr, r))
				}
				if e.depth == 0 {
					e.effects = append(e.effects, ssaEffect{ins: x, what: "return", args: res})
				}
				return b, pred, res
			case *ssa.Panic:
				e.effects = append(e.effects, ssaEffect{ins: x, what: "panic"})
				e.why = "panic"
				return b, pred, nil
			default:
				e.instr(fr, ins)
				continue
			}
			break
		}
		if e.why != "" {
			return b, pred, nil
		}
	}
}

func (e *ssaEval) wrapInt(t types.Type, i int64) int64 {
	b, ok := t.Underlying().(*types.Basic)
	if !ok {
		return i
	}
	switch b.Kind() {
	case types.Uint8:
		return int64(uint8(i))
	case types.Int8:
		return int64(int8(i))
	case types.Uint16:
		return int64(uint16(i))
	case types.Int16:
		return int64(int16(i))
	case types.Uint32:
		return int64(uint32(i))
	case types.Int32:
		return int64(int32(i))
	case types.Int:
		if e.intBits == 32 {
			return int64(int32(i))
		}
	case types.Uint, types.Uintptr:
		if e.intBits == 32 {
			return int64(uint32(i))
		}
	}
	return i
}

// term builds a canonical term: operands of associative-commutative operators are flattened
// and sorted, so that a|b|c, c|(a|b) and (b|a)|c are the same term.
func term(op string, args ...sv) sv {
	// bit operations are associative and commutative; + and * are only commutative here
	// (floating-point addition and multiplication do not associate)
	base := op
	for _, tag := range []string{"u8", "i8", "u16", "i16", "u32", "i32"} {
		base = strings.TrimSuffix(base, tag)
	}
	assoc := base == "|" || base == "&" || base == "^"
	ac := assoc || base == "+" || base == "*"
	var flat []sv
	for _, a := range args {
		if !a.known() {
			return sv{}
		}
		if assoc && a.k == svSym && a.op == op {
			flat = append(flat, a.args...)
		} else {
			flat = append(flat, a)
		}
	}
	if ac {
		sort.SliceStable(flat, func(i, j int) bool { return flat[i].String() < flat[j].String() })
	}
	var p []string
	for _, a := range flat {
		p = append(p, a.String())
	}
	return sv{k: svSym, s: op + "(" + strings.Join(p, ",") + ")", op: op, args: flat}
}

func (e *ssaEval) instr(fr *frame, ins ssa.Instruction) {
	set := func(v ssa.Value, x sv) { fr.vals[v] = x }
	switch x := ins.(type) {
	case *ssa.BinOp:
		a, b := e.val(fr, x.X), e.val(fr, x.Y)
		set(x, e.binop(x, a, b))
	case *ssa.UnOp:
		a := e.val(fr, x.X)
		switch x.Op {
		case token.NOT:
			if a.k == svBool {
				set(x, boolV(!a.b))
			} else if a.k == svSym {
				set(x, term("!", a))
			}
		case token.SUB:
			switch a.k {
			case svInt:
				set(x, intV(e.wrapInt(x.Type(), -a.i)))
			case svFloat:
				set(x, sv{k: svFloat, f: -a.f})
			case svSym:
				set(x, term("neg", a))
			}
		case token.XOR:
			if a.k == svInt {
				set(x, intV(e.wrapInt(x.Type(), ^a.i)))
			}
		case token.MUL: // load
			if a.k == svAddr && strings.HasPrefix(a.s, "const:") {
				var b int64
				fmt.Sscan(a.s[6:], &b)
				set(x, intV(b))
				return
			}
			if a.k == svAddr && strings.HasPrefix(a.s, "list:") && !strings.Contains(a.s, ".") {
				var id string
				var k int
				parts := strings.Split(a.s, ":")
				id = parts[1]
				fmt.Sscan(parts[2], &k)
				if k < len(e.lists[id]) {
					set(x, e.lists[id][k])
				}
				return
			}
			if a.k == svAddr && strings.HasPrefix(a.s, "list:") {
				if v, ok := e.listFieldLoad(a.s); ok { // a field of a struct held in a list slot (ext_h.go)
					set(x, v)
					return
				}
			}
			if a.k == svAddr {
				if v, ok := e.mem[a.s]; ok {
					set(x, v)
					return
				}
				if v, ok := e.loadArray(x, a); ok {
					set(x, v)
					return
				}
				// a struct whose fields are modelled
				if _, isStruct := x.Type().Underlying().(*types.Struct); isStruct {
					var keys []string
					for k := range e.mem {
						if strings.HasPrefix(k, a.s+".") && !strings.Contains(k[len(a.s)+1:], ".") {
							keys = append(keys, k)
						}
					}
					if len(keys) > 0 {
						sort.Strings(keys)
						var p []string
						st := sv{k: svStruct}
						for _, k := range keys {
							p = append(p, k[len(a.s)+1:]+":"+e.render(e.mem[k]))
							st.args, st.tup = append(st.args, sv{k: svString, s: k[len(a.s)+1:]}), append(st.tup, e.mem[k]) // field names and values (ext_h.go)
						}
						st.s = "{" + strings.Join(p, ",") + "}"
						// positional view (ext_g.go): one entry per field of the type, in declaration order,
						// unknown where the field has no value; the names go with it (ext_h.go)
						if pos := e.structFieldsG(a.s, x.Type()); pos != nil {
							if stt, ok := x.Type().Underlying().(*types.Struct); ok && stt.NumFields() == len(pos) {
								st.args, st.tup = nil, pos
								for i := 0; i < stt.NumFields(); i++ {
									st.args = append(st.args, sv{k: svString, s: stt.Field(i).Name()})
								}
							}
						}
						set(x, st)
						return
					}
				}
			}
			if e.load != nil {
				if v, ok := e.load(x, a); ok {
					set(x, v)
					return
				}
			}
			if v, ok := e.fixedTableLoad(x, a); ok { // an element of a package-level table that is never written (ext_x8.go)
				set(x, v)
				return
			}
			if a.k == svAddr {
				if v, ok := e.symFieldLoadY2(a.s); ok { // a field of a cell that holds a symbolic struct (ext_y2.go)
					set(x, v)
					return
				}
				set(x, symV("*"+a.s))
			}
		}
	case *ssa.Convert:
		a := e.val(fr, x.X)
		if a.k == svList || (e.concrete() && a.op == "slice" && len(a.args) == 3 && a.args[0].k == svAddr) {
			// []byte → string of known bytes
			if bt, ok := x.Type().Underlying().(*types.Basic); ok && bt.Info()&types.IsString != 0 {
				if el, ok := e.elems(a); ok && (a.k == svList || len(el) > 0) {
					buf := make([]byte, 0, len(el))
					for _, v := range el {
						if v.k != svInt {
							buf = nil
							break
						}
						buf = append(buf, byte(v.i))
					}
					if buf != nil || len(el) == 0 {
						set(x, sv{k: svString, s: string(buf)})
						return
					}
				}
			}
		}
		if a.k == svNil {
			if bt, ok := x.Type().Underlying().(*types.Basic); ok && bt.Info()&types.IsString != 0 {
				set(x, sv{k: svString})
				return
			}
		}
		if a.k == svString && e.concrete() {
			// string → []byte: a fresh, writable copy of the bytes
			if sl, ok := x.Type().Underlying().(*types.Slice); ok {
				if bt, ok := sl.Elem().Underlying().(*types.Basic); ok && bt.Kind() == types.Uint8 {
					if _, fromString := x.X.Type().Underlying().(*types.Basic); fromString {
						el := make([]sv, len(a.s))
						for i := range el {
							el[i] = intV(int64(a.s[i]))
						}
						set(x, e.newList(el))
						return
					}
				}
			}
		}
		if a.k == svSym && intSize(x.Type()) > 0 && intSize(x.X.Type()) > intSize(x.Type()) {
			// a narrowing conversion of a symbolic value truncates
			set(x, term(narrowTag(x.Type()), a))
			return
		}
		if a.k == svFloat {
			if bt, ok := x.Type().Underlying().(*types.Basic); ok && bt.Info()&types.IsInteger != 0 {
				a = intV(e.wrapInt(x.Type(), int64(a.f)))
			}
		}
		if a.k == svInt {
			if bt, ok := x.Type().Underlying().(*types.Basic); ok {
				if bt.Info()&types.IsInteger != 0 {
					a = intV(e.wrapInt(x.Type(), a.i))
				} else if bt.Info()&types.IsFloat != 0 {
					a = sv{k: svFloat, f: float64(a.i)}
				}
			}
		}
		set(x, a)
	case *ssa.ChangeType:
		set(x, e.val(fr, x.X))
	case *ssa.MakeInterface:
		v := e.val(fr, x.X)
		if v.typ == nil && v.known() {
			v.typ = x.X.Type()
		}
		set(x, v)
	case *ssa.ChangeInterface:
		set(x, e.val(fr, x.X))
	case *ssa.Alloc:
		e.nalloc++
		key := fmt.Sprintf("cell%d", e.nalloc)
		set(x, sv{k: svAddr, s: key})
		e.zeroMakeslice(x, key)
	case *ssa.FieldAddr:
		a := e.val(fr, x.X)
		fld := x.X.Type().Underlying().(*types.Pointer).Elem().Underlying().(*types.Struct).Field(x.Field)
		if e.flatEmbedded && (fld.Embedded() || partFieldX4(x.X.Type().Underlying().(*types.Pointer).Elem(), fld)) && (a.k == svAddr || a.k == svSym) {
			if _, isStruct := fld.Type().Underlying().(*types.Struct); isStruct {
				set(x, sv{k: svAddr, s: a.s})
				return
			}
		}
		if a.k == svAddr || a.k == svSym {
			set(x, sv{k: svAddr, s: a.s + "." + fld.Name()})
		} else if !a.known() {
			// a field of something defined outside the evaluated region
			set(x, sv{k: svAddr, s: "?" + x.X.Name() + "." + fld.Name()})
		}
	case *ssa.IndexAddr:
		a, i := e.val(fr, x.X), e.val(fr, x.Index)
		a = e.arrayCellList(x.X, a)
		if a.k == svString && i.k == svInt && i.i >= 0 && i.i < int64(len(a.s)) {
			// element of a concrete byte sequence
			set(x, sv{k: svAddr, s: fmt.Sprintf("const:%d", a.s[i.i])})
			return
		}
		if a.k == svList && i.k == svInt {
			if i.i < 0 || i.i >= a.n {
				e.why = fmt.Sprintf("index %d out of range for a slice of length %d at %s", i.i, a.n, e.c.pos(x.Pos()))
				e.effects = append(e.effects, ssaEffect{ins: x, what: "panic"})
				return
			}
			set(x, sv{k: svAddr, s: fmt.Sprintf("list:%s:%d", a.s, a.i+i.i)})
			return
		}
		if a.op == "slice" && len(a.args) == 3 && a.args[0].k == svAddr && a.args[1].s == "_" && i.k == svInt {
			// an element of a whole-array slice is the element of the array
			set(x, sv{k: svAddr, s: fmt.Sprintf("%s[%d]", a.args[0].s, i.i)})
			return
		}
		if a.op == "slice" && len(a.args) == 3 && a.args[0].k == svAddr && a.args[1].k == svInt && i.k == svInt && i.i >= 0 {
			// an element of arr[lo:] is element lo+i of the array
			set(x, sv{k: svAddr, s: fmt.Sprintf("%s[%d]", a.args[0].s, a.args[1].i+i.i)})
			return
		}
		if pt, ok := x.X.Type().Underlying().(*types.Pointer); ok && a.k == svAddr && i.k == svInt {
			// an element of an array cell: the index is checked against the array's length
			if at, ok := pt.Elem().Underlying().(*types.Array); ok && (i.i < 0 || i.i >= at.Len()) {
				e.why = fmt.Sprintf("index %d out of range for an array of length %d at %s", i.i, at.Len(), e.c.pos(x.Pos()))
				e.effects = append(e.effects, ssaEffect{ins: x, what: "panic"})
				return
			}
		}
		if (a.k == svAddr || a.k == svSym) && i.known() {
			set(x, sv{k: svAddr, s: a.s + "[" + i.String() + "]"})
		}
	case *ssa.Field:
		a := e.val(fr, x.X)
		fld := x.X.Type().Underlying().(*types.Struct).Field(x.Field)
		if a.k == svSym || a.k == svAddr {
			set(x, symV(a.s+"."+fld.Name()))
		} else if a.k == svStruct && x.Field < len(a.tup) {
			// a struct value that carries the values of its fields (ext_g.go)
			set(x, a.tup[x.Field])
		}
	case *ssa.Index:
		a, i := e.val(fr, x.X), e.val(fr, x.Index)
		if a.k == svList && i.k == svInt && i.i >= 0 && i.i < a.n {
			set(x, e.lists[a.s][a.i+i.i])
			return
		}
		if a.k == svString && i.k == svInt && i.i >= 0 && i.i < int64(len(a.s)) {
			set(x, intV(int64(a.s[i.i])))
		} else if (a.k == svSym || a.k == svAddr) && i.known() {
			set(x, symV(a.s+"["+i.String()+"]"))
		} else if a.k == svString && i.k == svSym && e.call != nil {
			// a constant string used as a table, indexed by a value that is not fixed
			if r, ok := e.call(nil, []sv{symV("strindex"), a, i}); ok && r.k != svTuple {
				set(x, r)
			}
		}
	case *ssa.Lookup:
		a, i := e.val(fr, x.X), e.val(fr, x.Index)
		looked := false
		if a.k == svString && i.k == svInt && i.i >= 0 && i.i < int64(len(a.s)) {
			set(x, intV(int64(a.s[i.i])))
			looked = true
		} else if r, ok := e.modelLookup(x, a, i); ok {
			set(x, r)
			looked = true
		} else if e.call != nil {
			if r, ok := e.call(nil, []sv{symV("lookup"), a, i}); ok {
				if !x.CommaOk && r.k == svTuple && len(r.tup) > 0 {
					r = r.tup[0]
				}
				set(x, r)
				looked = true
			}
		}
		if !looked {
			if r, ok := e.roLookup(x, i); ok { // a read-only table with constant entries (ext_x3.go)
				set(x, r)
			} else if r, ok := e.funcTableLookupY5(x, i); ok { // a read-only table of functions (ext_y5.go)
				set(x, r)
			} else if r, ok := e.roFuncLookup(x, i); ok { // a read-only table of functions (ext_y6.go)
				set(x, r)
			}
		}
	case *ssa.Slice:
		a := e.val(fr, x.X)
		a = e.arrayCellList(x.X, a)
		if a.k == svList || a.k == svNil {
			lo, hi := int64(0), a.n
			ok := true
			if x.Low != nil {
				if l := e.val(fr, x.Low); l.k == svInt {
					lo = l.i
				} else {
					ok = false
				}
			}
			if x.High != nil {
				if h := e.val(fr, x.High); h.k == svInt {
					hi = h.i
				} else {
					ok = false
				}
			}
			if ok && a.k == svList && 0 <= lo && lo <= hi && a.i+hi <= int64(len(e.lists[a.s])) {
				set(x, sv{k: svList, s: a.s, i: a.i + lo, n: hi - lo})
			} else if ok && a.k == svNil && lo == 0 && hi == 0 {
				set(x, a)
			}
			return
		}
		if al, isAlloc := x.X.(*ssa.Alloc); isAlloc && e.concrete() && a.k == svAddr && al.Comment == "makeslice" {
			// make([]T, constant): go/ssa allocates the array and slices it; the evaluator makes a
			// list of zero values
			if at, ok := al.Type().Underlying().(*types.Pointer).Elem().Underlying().(*types.Array); ok && at.Len() <= 1<<16 {
				if z, ok := aZeroSV(at.Elem()); ok {
					hi := at.Len()
					if x.High != nil {
						if h := e.val(fr, x.High); h.k == svInt {
							hi = h.i
						}
					}
					if x.Low == nil && hi >= 0 && hi <= at.Len() {
						el := make([]sv, at.Len())
						for i := range el {
							el[i] = z
						}
						l := e.newList(el)
						l.n = hi
						set(x, l)
						return
					}
				}
			}
		}
		if al, isAlloc := x.X.(*ssa.Alloc); isAlloc && e.concrete() && a.k == svAddr && (al.Comment == "slicelit" || al.Comment == "varargs") && x.Low == nil && x.High == nil {
			// a slice literal: the elements have just been stored into the array
			if at, ok := al.Type().Underlying().(*types.Pointer).Elem().Underlying().(*types.Array); ok && at.Len() <= 1<<12 {
				el := make([]sv, 0, at.Len())
				for i := int64(0); i < at.Len(); i++ {
					key := fmt.Sprintf("%s[%d]", a.s, i)
					v, ok := e.mem[key]
					if !ok {
						v, ok = e.structAt(key)
					}
					if !ok {
						v, ok = aZeroSV(at.Elem())
					}
					if !ok {
						break
					}
					el = append(el, v)
				}
				if int64(len(el)) == at.Len() {
					set(x, e.newList(el))
					return
				}
			}
		}
		if e.composeSlices {
			if r, ok := e.composeSliceX10(fr, x, a); ok {
				set(x, r)
				return
			}
		}
		if a.k == svSym || a.k == svAddr {
			lo, hi := sv{k: svSym, s: "_"}, sv{k: svSym, s: "_"}
			if x.Low != nil {
				lo = e.val(fr, x.Low)
			}
			if x.High != nil {
				hi = e.val(fr, x.High)
			}
			if lo.known() && hi.known() {
				set(x, term("slice", a, lo, hi))
			}
			return
		}
		if a.k == svString {
			lo, hi := int64(0), int64(len(a.s))
			ok := true
			if x.Low != nil {
				l := e.val(fr, x.Low)
				if l.k == svInt {
					lo = l.i
				} else {
					ok = false
				}
			}
			if x.High != nil {
				h := e.val(fr, x.High)
				if h.k == svInt {
					hi = h.i
				} else {
					ok = false
				}
			}
			if ok && 0 <= lo && lo <= hi && hi <= int64(len(a.s)) {
				set(x, sv{k: svString, s: a.s[lo:hi]})
			}
		}
	case *ssa.Extract:
		a := e.val(fr, x.Tuple)
		if a.k == svTuple && x.Index < len(a.tup) {
			set(x, a.tup[x.Index])
		}
	case *ssa.Store:
		a, v := e.val(fr, x.Addr), e.val(fr, x.Val)
		if a.k == svAddr && strings.HasPrefix(a.s, "list:") && !strings.Contains(a.s, ".") {
			parts := strings.Split(a.s, ":")
			var k int
			fmt.Sscan(parts[2], &k)
			if k < len(e.lists[parts[1]]) {
				e.lists[parts[1]][k] = v
			}
			e.effects = append(e.effects, ssaEffect{ins: x, what: "store", args: []sv{v}, addr: a.s})
			return
		}
		if a.k == svAddr && e.storeArray(x, a, v) {
			return
		}
		if a.k == svAddr && e.concrete() && e.storeZeroStructX10(x, a) {
			return
		}
		if a.k == svAddr {
			if e.mem == nil {
				e.mem = map[string]sv{}
			}
			e.mem[a.s] = v
			e.structFieldStore(a.s, v) // fields of a struct value, field of a struct in a list slot (ext_h.go)
		}
		e.effects = append(e.effects, ssaEffect{ins: x, what: "store", args: []sv{v}, addr: a.s})
	case *ssa.MapUpdate:
		e.effects = append(e.effects, ssaEffect{ins: x, what: "mapupdate", args: []sv{e.val(fr, x.Key), e.val(fr, x.Value)}, addr: e.val(fr, x.Map).String()})
	case *ssa.Call:
		set(x, e.doCall(fr, x))
	case *ssa.Defer, *ssa.Go:
		e.effects = append(e.effects, ssaEffect{ins: ins, what: "defer"})
	case *ssa.TypeAssert:
		a := e.val(fr, x.X)
		if x.CommaOk {
			if e.call != nil {
				if r, ok := e.call(nil, []sv{symV("typeassert:" + x.AssertedType.String()), a}); ok {
					set(x, r)
				}
			}
		} else {
			set(x, a)
		}
	case *ssa.Range:
		if a := e.val(fr, x.X); a.k == svString {
			// iteration over a known string: the iterator is modelled
			if e.iters == nil {
				e.iters = map[string]*strIter{}
			}
			e.nalloc++
			id := fmt.Sprintf("iter%d", e.nalloc)
			e.iters[id] = &strIter{s: a.s}
			set(x, sv{k: svSym, s: id})
			return
		}
		set(x, symV("range("+e.val(fr, x.X).String()+")"))
	case *ssa.Next:
		if it := e.iters[e.val(fr, x.Iter).s]; it != nil && x.IsString {
			if it.pos >= len(it.s) {
				set(x, sv{k: svTuple, tup: []sv{boolV(false), intV(0), intV(0)}})
				return
			}
			r, n := utf8.DecodeRuneInString(it.s[it.pos:])
			set(x, sv{k: svTuple, tup: []sv{boolV(true), intV(int64(it.pos)), intV(int64(r))}})
			it.pos += n
			return
		}
		if e.call != nil {
			if r, ok := e.call(nil, []sv{symV("next"), e.val(fr, x.Iter)}); ok {
				set(x, r)
			}
		}
	case *ssa.MakeSlice:
		if l := e.val(fr, x.Len); l.k == svInt && l.i >= 0 && l.i < 4096 {
			zero := sv{k: svFloat}
			if bt, ok := x.Type().Underlying().(*types.Slice).Elem().Underlying().(*types.Basic); ok && bt.Info()&types.IsInteger != 0 {
				zero = intV(0)
			}
			el := make([]sv, l.i)
			for i := range el {
				el[i] = zero
			}
			set(x, e.newList(el))
			return
		}
		e.nalloc++
		set(x, symV(fmt.Sprintf("fresh%d", e.nalloc)))
	case *ssa.MakeClosure:
		e.nalloc++
		cl := symV(fmt.Sprintf("fresh%d", e.nalloc))
		if f, ok := x.Fn.(*ssa.Function); ok {
			cl.fn = f
			for _, b := range x.Bindings {
				cl.fv = append(cl.fv, e.val(fr, b))
			}
		}
		set(x, cl)
		e.noteClosure(fr, ins, cl.s)
	case *ssa.MakeMap, *ssa.MakeChan:
		e.nalloc++
		set(x.(ssa.Value), symV(fmt.Sprintf("fresh%d", e.nalloc)))
		e.noteClosure(fr, ins, fmt.Sprintf("fresh%d", e.nalloc))
	}
}

// arrayCellList: an array variable whose cell holds a list (a rule modelled the elements of a
// fixed-size buffer): indexing and slicing the array is indexing and slicing that list.
func (e *ssaEval) arrayCellList(x ssa.Value, a sv) sv {
	if a.k != svAddr {
		return a
	}
	if p, ok := x.Type().Underlying().(*types.Pointer); ok {
		if _, isArr := p.Elem().Underlying().(*types.Array); isArr {
			if l, ok := e.mem[a.s]; ok && l.k == svList {
				return l
			}
		}
	}
	return a
}

func (e *ssaEval) modelLookup(x *ssa.Lookup, m, k sv) (sv, bool) {
	if e.lookup == nil {
		return sv{}, false
	}
	return e.lookup(x, m, k)
}

func (e *ssaEval) binop(x *ssa.BinOp, a, b sv) sv {
	isCmp := false
	switch x.Op {
	case token.EQL, token.NEQ, token.LSS, token.LEQ, token.GTR, token.GEQ:
		isCmp = true
	}
	if isCmp {
		if a.isConst() && b.isConst() && a.k == b.k {
			var r int
			switch a.k {
			case svInt:
				r = cmpInt(a.i, b.i)
			case svFloat:
				switch {
				case a.f < b.f:
					r = -1
				case a.f > b.f:
					r = 1
				}
			case svString:
				r = strings.Compare(a.s, b.s)
			case svBool:
				if a.b != b.b {
					r = 1
				}
			case svNil:
				r = 0
			}
			switch x.Op {
			case token.EQL:
				return boolV(r == 0)
			case token.NEQ:
				return boolV(r != 0)
			case token.LSS:
				return boolV(r < 0)
			case token.LEQ:
				return boolV(r <= 0)
			case token.GTR:
				return boolV(r > 0)
			case token.GEQ:
				return boolV(r >= 0)
			}
		}
		if a.known() && b.known() && e.oracle != nil {
			if r, ok := e.oracle(x.Op, a, b); ok {
				return boolV(r)
			}
		}
		return sv{}
	}
	if a.k == svBool && b.k == svBool {
		switch x.Op {
		case token.AND, token.LAND:
			return boolV(a.b && b.b)
		case token.OR, token.LOR:
			return boolV(a.b || b.b)
		}
	}
	if a.k == svInt && b.k == svInt {
		var r int64
		switch x.Op {
		case token.ADD:
			r = a.i + b.i
		case token.SUB:
			r = a.i - b.i
		case token.MUL:
			r = a.i * b.i
		case token.QUO:
			if b.i == 0 {
				return sv{}
			}
			r = a.i / b.i
		case token.REM:
			if b.i == 0 {
				return sv{}
			}
			r = a.i % b.i
		case token.AND:
			r = a.i & b.i
		case token.OR:
			r = a.i | b.i
		case token.XOR:
			r = a.i ^ b.i
		case token.SHL:
			r = a.i << uint(b.i)
		case token.SHR:
			r = a.i >> uint(b.i)
		case token.AND_NOT:
			r = a.i &^ b.i
		default:
			return sv{}
		}
		return intV(e.wrapInt(x.Type(), r))
	}
	if a.k == svFloat && b.k == svFloat {
		switch x.Op {
		case token.ADD:
			return sv{k: svFloat, f: a.f + b.f}
		case token.SUB:
			return sv{k: svFloat, f: a.f - b.f}
		case token.MUL:
			return sv{k: svFloat, f: a.f * b.f}
		case token.QUO:
			return sv{k: svFloat, f: a.f / b.f}
		}
	}
	if a.k == svString && b.k == svString && x.Op == token.ADD {
		return sv{k: svString, s: a.s + b.s}
	}
	// arithmetic in a narrow integer type wraps: the width is part of the operator
	return term(x.Op.String()+narrowTag(x.Type()), a, b)
}

// narrowTag: "u8", "i16", "u32" … for integer types narrower than 64 bits, "" otherwise.
func narrowTag(t types.Type) string {
	b, ok := t.Underlying().(*types.Basic)
	if !ok {
		return ""
	}
	switch b.Kind() {
	case types.Uint8:
		return "u8"
	case types.Int8:
		return "i8"
	case types.Uint16:
		return "u16"
	case types.Int16:
		return "i16"
	case types.Uint32:
		return "u32"
	case types.Int32:
		return "i32"
	}
	return ""
}

func intSize(t types.Type) int {
	b, ok := t.Underlying().(*types.Basic)
	if !ok || b.Info()&types.IsInteger == 0 {
		return 0
	}
	switch b.Kind() {
	case types.Uint8, types.Int8:
		return 1
	case types.Uint16, types.Int16:
		return 2
	case types.Uint32, types.Int32:
		return 4
	}
	return 8
}

func cmpInt(a, b int64) int {
	switch {
	case a < b:
		return -1
	case a > b:
		return 1
	}
	return 0
}

func (e *ssaEval) doCall(fr *frame, x *ssa.Call) sv {
	var args []sv
	for _, a := range x.Call.Args {
		args = append(args, e.val(fr, a))
	}
	if x.Call.IsInvoke() {
		args = append([]sv{e.val(fr, x.Call.Value)}, args...)
	}
	if b, ok := x.Call.Value.(*ssa.Builtin); ok {
		switch b.Name() {
		case "len", "cap":
			if len(args) == 1 && args[0].k == svString {
				return intV(int64(len(args[0].s)))
			}
			if len(args) == 1 && args[0].k == svList {
				if b.Name() == "cap" {
					return intV(int64(len(e.lists[args[0].s])) - args[0].i)
				}
				return intV(args[0].n)
			}
			if len(args) == 1 && args[0].k == svNil {
				return intV(0)
			}
			if len(args) == 1 && args[0].op == "slice" {
				if el, ok := e.elems(args[0]); ok && len(el) > 0 {
					return intV(int64(len(el)))
				}
			}
		case "append":
			if e.concrete() && len(args) == 2 && args[0].op == "slice" && len(args[0].args) == 3 && args[0].args[1].s == "_" && args[0].args[2].s == "_" {
				// a whole-array slice (a slice literal) has no spare capacity: append copies it
				if el, ok := e.elems(args[0]); ok && len(el) > 0 {
					args[0] = e.newList(el)
				}
			}
			if e.concrete() && len(args) == 2 && args[1].k == svString && (args[0].k == svList || args[0].k == svNil) {
				// append(b, s...) with the bytes of a known string
				el := make([]sv, len(args[1].s))
				for i := range el {
					el[i] = intV(int64(args[1].s[i]))
				}
				r := e.listAppend(args[0], el)
				e.effects = append(e.effects, ssaEffect{ins: x, what: "append", args: []sv{args[0], args[1], r}})
				return r
			}
			if len(args) == 2 && (args[0].k == svList || args[0].k == svNil) {
				if el, ok := e.elems(args[1]); ok {
					r := e.listAppend(args[0], el)
					e.effects = append(e.effects, ssaEffect{ins: x, what: "append", args: []sv{args[0], args[1], r}})
					return r
				}
			}
			if len(args) == 1 && args[0].known() {
				return term(b.Name(), args[0])
			}
		case "copy":
			if e.concrete() && len(args) == 2 && args[0].k == svList {
				var src []sv
				ok := false
				if args[1].k == svString {
					for i := 0; i < len(args[1].s); i++ {
						src = append(src, intV(int64(args[1].s[i])))
					}
					ok = true
				} else if el, isL := e.elems(args[1]); isL {
					src, ok = append([]sv{}, el...), true
				}
				if dst, isL := e.elems(args[0]); ok && isL {
					n := copy(dst, src)
					return intV(int64(n))
				}
			}
			if e.concrete() && len(args) == 2 && args[0].k == svNil {
				return intV(0)
			}
		case "min", "max":
			if r, ok := e.foldMinMax(b.Name(), args); ok {
				return r
			}
			if r, ok := foldMinMaxOracle(e, b.Name(), args); ok {
				return r
			}
			return term(b.Name(), args...)
		}
	}
	if e.call != nil {
		e.fr = fr
		if r, ok := e.call(x, args); ok {
			return r
		}
	}
	if r, ok := e.stdlibModel(x, args); ok {
		return r
	}
	if r, ok := e.stringFunc(callName(x), args); ok {
		return r
	}
	if r, ok := e.stdFunc(callName(x), args); ok {
		return r
	}
	fn, fvals := e.calleeOf(fr, x)
	if fn == nil && !x.Call.IsInvoke() && e.concrete() {
		// a call of a function value that is known (a parameter bound to a function, a closure)
		if v := e.val(fr, x.Call.Value); v.fn != nil {
			fn, fvals = v.fn, v.fv
		}
	}
	maxDepth := 4
	if e.maxDepth > 0 {
		maxDepth = e.maxDepth
	}
	if fn == nil {
		fn = e.tableFnCallee(fr, x) // a function looked up in a read-only table of functions (ext_y6.go)
	}
	if g := e.c.thunkTarget(fn); g != nil { // a method expression held as a function value (ext_x8.go)
		fn = g
	}
	if fn != nil && len(fn.Blocks) > 0 && (e.c.inModule(fn) || pureStdHelper(fn) || e.inlineLib != nil && e.inlineLib(fn)) && e.depth < maxDepth && (e.noInline == nil || !e.noInline(fn)) {
		// closures: bind the free variables to the values of the bindings
		sub := &frame{vals: map[ssa.Value]sv{}}
		for i, fv := range fn.FreeVars {
			if i < len(fvals) {
				sub.vals[fv] = fvals[i]
			}
		}
		if mc, ok := x.Call.Value.(*ssa.MakeClosure); ok {
			for i, fv := range fn.FreeVars {
				if i < len(mc.Bindings) {
					sub.vals[fv] = e.val(fr, mc.Bindings[i])
				}
			}
		}
		for i, p := range fn.Params {
			if i < len(args) {
				sub.vals[p] = args[i]
			}
		}
		e.depth++
		_, _, ret := e.runBlocks(sub, fn.Blocks[0], nil, nil)
		e.depth--
		if e.why != "" {
			return sv{}
		}
		switch len(ret) {
		case 0:
			return sv{}
		case 1:
			return ret[0]
		}
		return sv{k: svTuple, tup: ret}
	}
	e.effects = append(e.effects, ssaEffect{ins: x, what: "call", args: args})
	if b, ok := x.Call.Value.(*ssa.Builtin); ok && b.Name() == "len" && len(args) == 1 && args[0].known() {
		return term("len", args[0])
	}
	// an opaque call of known arguments is a term in them (pure library functions); a call with
	// several results yields the projections of that term
	if n := callName(x); n != "" {
		t := term(n, args...)
		if t.known() {
			if tup, ok := x.Type().(*types.Tuple); ok && tup.Len() > 1 {
				r := sv{k: svTuple}
				for i := 0; i < tup.Len(); i++ {
					r.tup = append(r.tup, symV(fmt.Sprintf("%s#%d", t.s, i)))
				}
				return r
			}
			return t
		}
	}
	return sv{}
}

// callName returns the qualified name of the static callee or invoked method of a call.
func callName(call ssa.CallInstruction) string {
	if call == nil {
		return ""
	}
	cc := call.Common()
	if cc.IsInvoke() {
		return "invoke " + cc.Method.FullName()
	}
	if fn := cc.StaticCallee(); fn != nil {
		if o := fn.Origin(); o != nil {
			fn = o
		}
		return fn.String()
	}
	if b, ok := cc.Value.(*ssa.Builtin); ok {
		return "builtin " + b.Name()
	}
	return ""
}

// guideTo returns a guide that, at an undecided branch, takes the successor from which target is
// reachable when the other one cannot reach it.
func guideTo(target *ssa.BasicBlock) func(ifi *ssa.If) (int, bool) {
	reach := func(from *ssa.BasicBlock) bool {
		seen := map[*ssa.BasicBlock]bool{}
		stack := []*ssa.BasicBlock{from}
		for len(stack) > 0 {
			b := stack[len(stack)-1]
			stack = stack[:len(stack)-1]
			if b == target {
				return true
			}
			if seen[b] {
				continue
			}
			seen[b] = true
			stack = append(stack, b.Succs...)
		}
		return false
	}
	return func(ifi *ssa.If) (int, bool) {
		b := ifi.Block()
		r0, r1 := reach(b.Succs[0]), reach(b.Succs[1])
		switch {
		case r0 && !r1:
			return 0, true
		case r1 && !r0:
			return 1, true
		}
		return 0, false
	}
}

// ---- lists: slices whose elements are known (symbols or constants)

func (e *ssaEval) newList(elems []sv) sv {
	if e.lists == nil {
		e.lists = map[string][]sv{}
	}
	e.nalloc++
	id := fmt.Sprintf("L%d", e.nalloc)
	e.lists[id] = append([]sv{}, elems...)
	return sv{k: svList, s: id, n: int64(len(elems))}
}

// elems returns the elements of a list value, or of a slice of a modelled array cell.
func (e *ssaEval) elems(v sv) ([]sv, bool) {
	switch {
	case v.k == svList:
		st := e.lists[v.s]
		if v.i+v.n > int64(len(st)) {
			return nil, false
		}
		return st[v.i : v.i+v.n], true
	case v.k == svNil:
		return nil, true
	case v.op == "slice" && len(v.args) == 3 && v.args[0].k == svAddr:
		var out []sv
		for i := 0; ; i++ {
			x, ok := e.mem[fmt.Sprintf("%s[%d]", v.args[0].s, i)]
			if !ok && e.concrete() {
				// an element that is a struct whose fields were stored one by one
				x, ok = e.structAt(fmt.Sprintf("%s[%d]", v.args[0].s, i))
			}
			if !ok {
				break
			}
			out = append(out, x)
		}
		lo, hi := int64(0), int64(len(out))
		if v.args[1].k == svInt {
			lo = v.args[1].i
		}
		if v.args[2].k == svInt {
			hi = v.args[2].i
		}
		if lo < 0 || hi > int64(len(out)) || lo > hi {
			return nil, false
		}
		return out[lo:hi], true
	}
	return nil, false
}

func (e *ssaEval) render(v sv) string {
	if el, ok := e.elems(v); ok && (v.k == svList || v.op == "slice") {
		var p []string
		for _, x := range el {
			p = append(p, e.render(x))
		}
		return "[" + strings.Join(p, " ") + "]"
	}
	return v.String()
}

func (e *ssaEval) listAppend(l sv, vals []sv) sv {
	if l.k == svNil {
		return e.newList(vals)
	}
	st := e.lists[l.s]
	if l.i+l.n == int64(len(st)) {
		e.lists[l.s] = append(st, vals...)
		return sv{k: svList, s: l.s, i: l.i, n: l.n + int64(len(vals))}
	}
	cur, _ := e.elems(l)
	return e.newList(append(append([]sv{}, cur...), vals...))
}

// stringFunc: pure functions of package strings on known arguments.
func (e *ssaEval) stringFunc(name string, args []sv) (sv, bool) {
	str := func(i int) (string, bool) {
		if i < len(args) && args[i].k == svString {
			return args[i].s, true
		}
		return "", false
	}
	switch name {
	case "strings.IndexByte":
		if a, ok := str(0); ok && len(args) == 2 && args[1].k == svInt {
			return intV(int64(strings.IndexByte(a, byte(args[1].i)))), true
		}
	case "strings.HasPrefix":
		a, ok1 := str(0)
		b, ok2 := str(1)
		if ok1 && ok2 {
			return boolV(strings.HasPrefix(a, b)), true
		}
	case "strings.HasSuffix":
		a, ok1 := str(0)
		b, ok2 := str(1)
		if ok1 && ok2 {
			return boolV(strings.HasSuffix(a, b)), true
		}
	case "strings.Split":
		a, ok1 := str(0)
		b, ok2 := str(1)
		if ok1 && ok2 {
			var el []sv
			for _, p := range strings.Split(a, b) {
				el = append(el, sv{k: svString, s: p})
			}
			return e.newList(el), true
		}
	}
	return sv{}, false
}

// structAt assembles the struct value whose fields are modelled cells addr.f (for rendering).
func (e *ssaEval) structAt(addr string) (sv, bool) {
	var keys []string
	for k := range e.mem {
		if strings.HasPrefix(k, addr+".") && !strings.Contains(k[len(addr)+1:], ".") {
			keys = append(keys, k)
		}
	}
	if len(keys) == 0 {
		return sv{}, false
	}
	sort.Strings(keys)
	var p []string
	for _, k := range keys {
		p = append(p, k[len(addr)+1:]+":"+e.render(e.mem[k]))
	}
	return sv{k: svStruct, s: "{" + strings.Join(p, ",") + "}"}, true
}

// aConcreteAll switches every evaluator into concrete mode (set by a rule of ext_a.go around the
// use of another rule's machine).
var aConcreteAll bool

func (e *ssaEval) concrete() bool { return e.makeLists || aConcreteAll }
