package main

import (
	"bytes"
	"fmt"
	"go/token"
	"go/types"
	"math/big"
	"os"
	"os/exec"
	"path/filepath"
	"regexp"
	"sort"
	"strings"

	"golang.org/x/tools/go/callgraph"
	"golang.org/x/tools/go/ssa"
	"golang.org/x/tools/go/ssa/ssautil"
)

// C01 — hostile input never crashes or hangs the readers.
// Rule families A1 PANIC and A2 RECURSE/LOOP.

func init() {
	register(&propCheck{
		id:    "C01",
		title: "Hostile input never crashes or hangs the readers",
		explanation: "Decides, for every function reachable in the VTA call graph from the reader entry points and from every registered operator, that each instruction Go semantics allows to panic carries a discharged obligation: " +
			"index and slice bounds — proven by the Go compiler's own prove pass (absent from its check_bce log, re-run on every check) or entailed by the fact engine (dominating conditions, overflow-checked linearisation, memory epochs, induction variables, library contracts, Fourier–Motzkin over big rationals), or listed in the reviewed table with the facts it requires; allocation sizes bounded; unchecked type assertions justified; no write to a possibly nil map; integer divisors non-zero; no explicit panic; no formatting of caller-controlled composite objects with value verbs (cyclic data would recurse in fmt); " +
			"every call-graph cycle is one of a frozen list with a machine-checked bound (execution depth gate, procedure-nesting limit, operand-stack height, nested-eexec refusal, subroutine depth), and every loop is classified as a range loop, a counted loop, an input-consuming loop, a budgeted loop, or a reviewed one. " +
			"It does NOT decide termination as such (finite input and a positive budget are assumed), total memory growth, nor standard-library internals.",
		trusted:     []string{"the Go compiler's prove pass (a bounds check it removed cannot fail)", "go/ssa + VTA call graph over CHA", "Fourier–Motzkin entailment in facts_fm.go", "library contracts table (copy, io.Reader.Read, io.ReadFull, strings.Split/IndexByte, slices.Grow, sort.Slice comparator indices)"},
		assumptions: []string{"io.Reader implementations return 0 <= n <= len(p)", "input is finite and readers make progress", "a positive operation budget is set for the interpreter"},
		run:         runC01,
	})
}

// bceLog runs the compiler with the bounds-check debug flag and returns the
// set of file:line:col positions at which a bounds check remains.
func (c *Ctx) bceLog() map[string]bool {
	cmd := exec.Command("go", "build", "-gcflags="+modPath+"/...=-d=ssa/check_bce/debug=1", "./...")
	cmd.Dir = repoDir
	cmd.Env = append(os.Environ(), "GOFLAGS=-mod=mod", "GOPROXY=off", "GOSUMDB=off", "GOWORK=off", "GOTOOLCHAIN=local")
	if c.goarch != "" {
		cmd.Env = append(cmd.Env, "GOARCH="+c.goarch)
	}
	var out bytes.Buffer
	cmd.Stdout = &out
	cmd.Stderr = &out
	if err := cmd.Run(); err != nil {
		abort("compiler bounds-check log: go build failed: %v\n%s", err, firstN(out.String(), 600))
	}
	res := map[string]bool{}
	for _, line := range strings.Split(out.String(), "\n") {
		parts := strings.SplitN(line, ": ", 2)
		if len(parts) == 2 && strings.HasPrefix(parts[1], "Found Is") {
			res[filepath.Join(repoDir, parts[0])] = true
		}
	}
	if len(res) < 50 {
		abort("compiler bounds-check log has only %d entries; the debug flag produced no output", len(res))
	}
	return res
}

// readerRoots: entry points of the readers plus every registered operator.
func (c *Ctx) readerRoots() []*ssa.Function {
	roots := []*ssa.Function{
		c.method("postscript", "Interpreter", "Execute"),
		c.method("postscript", "Interpreter", "ExecuteString"),
		c.fn("postscript", "ReadCMap"),
		c.fn("postscript", "NewInterpreter"),
		c.fn("type1", "Read"),
		c.fn("afm", "Read"),
		c.method("pfb", "pfbReader", "Read"),
		c.fn("pfb", "Decode"),
		c.fn("postscript", "defaultErrorHandlerFn"),
	}
	for _, e := range c.registry().builtins() {
		roots = append(roots, e.fn)
	}
	return roots
}

func (c *Ctx) reachable(roots []*ssa.Function) map[*ssa.Function]bool {
	cg := c.callgraph()
	seen := map[*ssa.Function]bool{}
	var stack []*ssa.Function
	stack = append(stack, roots...)
	for len(stack) > 0 {
		f := stack[len(stack)-1]
		stack = stack[:len(stack)-1]
		if f == nil || seen[f] {
			continue
		}
		seen[f] = true
		if n := cg.Nodes[f]; n != nil {
			for _, e := range n.Out {
				g := e.Callee.Func
				if g != nil && g.Parent() != nil && !c.inModule(f) && c.inModule(g) {
					// a function literal of the module called from library code (sync.Once, sort, iterators):
					// the call graph merges all literals that flow into such a call site; a literal is
					// reachable when the function that makes it is (its AnonFuncs are added below)
					continue
				}
				stack = append(stack, g)
			}
		}
		for _, an := range f.AnonFuncs {
			stack = append(stack, an)
		}
	}
	return seen
}

type boundsSite struct {
	fn   *ssa.Function
	ins  ssa.Instruction
	desc string
	key  string // construct
}

// initFactEngine prepares the global state of the linear-arithmetic fact engine for this program.
func (c *Ctx) initFactEngine() {
	feCtx = c
	resetCachesY1()
	paramNonNegCache = map[*ssa.Parameter]int{}
	entryFactCache = map[*ssa.Function][]Lin{}
	phiRangeCache = map[*ssa.Phi]*constRange{}
	fieldRangeCache = map[string]*constRange{}
	guardSummaryCache = map[*ssa.Function][]guardFact{}
	resultFactCache = map[resKey][]func(fi *funcInfo, a string, call *ssa.Call) Lin{}
	prog = c.prog
	cg = c.callgraph()
	modSet = map[*ssa.Function]map[string]bool{}
	valueByName = map[string]ssa.Value{}
	fiByFn = map[*ssa.Function]*funcInfo{}
	computeModSets(ssautil.AllFunctions(c.prog))
	c.setupClassInvariants()
	c.establishSlotInvariants(c.prop == "C01")
	entryFactCache = map[*ssa.Function][]Lin{} // what was derived before the invariants stood is derived again with them
	c.loadAssumptions()
	c.classInvRules(c.prop == "C01" || c.prop == "C05")
}

func runC01(c *Ctx) {
	c.initFactEngine()
	bce := c.bceLog()

	reach := c.reachable(c.readerRoots())
	var fns []*ssa.Function
	for _, f := range c.modFuncs {
		if reach[f] {
			fns = append(fns, f)
		}
	}
	c.rep.Extra["reader_reachable_functions"] = len(fns)

	// ---------------- bounds
	c.boundsObligations(fns, bce, 400)
	// ---------------- other panic sources
	c.otherPanics(fns)
	c.boxedDictInvariant(fns)
	c.compareRule(fns)
	// ---------------- recursion and loops
	c.recursionAndLoops(fns, reach)
}

func (c *Ctx) exprOf(ins ssa.Instruction) string {
	// a stable description of the construct: the SSA operands rendered by name-free shape
	switch x := ins.(type) {
	case *ssa.IndexAddr:
		return "index " + c.valShape(x.X) + "[" + c.valShape(x.Index) + "]"
	case *ssa.Index:
		return "index " + c.valShape(x.X) + "[" + c.valShape(x.Index) + "]"
	case *ssa.Lookup:
		return "index " + c.valShape(x.X) + "[" + c.valShape(x.Index) + "]"
	case *ssa.Slice:
		lo, hi := "", ""
		if x.Low != nil {
			lo = c.valShape(x.Low)
		}
		if x.High != nil {
			hi = c.valShape(x.High)
		}
		return "slice " + c.valShape(x.X) + "[" + lo + ":" + hi + "]"
	}
	return ins.String()
}

// valShape renders a value without SSA register names, so that keys survive unrelated edits.
func (c *Ctx) valShape(v ssa.Value) string {
	return c.valShapeD(v, 0)
}

func (c *Ctx) valShapeD(v ssa.Value, d int) string {
	if d > 5 {
		return "…"
	}
	if shapeInline {
		if s, ok := c.inlineShape(v, d); ok {
			return s
		}
	}
	switch x := v.(type) {
	case *ssa.Const:
		if x.Value == nil {
			return "nil"
		}
		return x.Value.ExactString()
	case *ssa.Parameter:
		return x.Name()
	case *ssa.FreeVar:
		return x.Name()
	case *ssa.Global:
		return x.Name()
	case *ssa.Alloc:
		if x.Comment != "" {
			return x.Comment
		}
		return "local"
	case *ssa.UnOp:
		if x.Op == token.MUL {
			return c.valShapeD(x.X, d+1)
		}
		return x.Op.String() + c.valShapeD(x.X, d+1)
	case *ssa.FieldAddr:
		st := x.X.Type().Underlying().(*types.Pointer).Elem().Underlying().(*types.Struct)
		return c.valShapeD(x.X, d+1) + "." + st.Field(x.Field).Name()
	case *ssa.Field:
		if st, ok := x.X.Type().Underlying().(*types.Struct); ok {
			return c.valShapeD(x.X, d+1) + "." + st.Field(x.Field).Name()
		}
	case *ssa.IndexAddr:
		return c.valShapeD(x.X, d+1) + "[" + c.valShapeD(x.Index, d+1) + "]"
	case *ssa.BinOp:
		return "(" + c.valShapeD(x.X, d+1) + x.Op.String() + c.valShapeD(x.Y, d+1) + ")"
	case *ssa.Call:
		if b, ok := x.Call.Value.(*ssa.Builtin); ok {
			var args []string
			for _, a := range x.Call.Args {
				args = append(args, c.valShapeD(a, d+1))
			}
			return b.Name() + "(" + strings.Join(args, ",") + ")"
		}
		if sc := x.Call.StaticCallee(); sc != nil {
			return sc.Name() + "(…)"
		}
		return "call(…)"
	case *ssa.Convert:
		return c.valShapeD(x.X, d+1)
	case *ssa.ChangeType:
		return c.valShapeD(x.X, d+1)
	case *ssa.Extract:
		return c.valShapeD(x.Tuple, d+1) + "#" + fmt.Sprint(x.Index)
	case *ssa.TypeAssert:
		return c.valShapeD(x.X, d+1) + ".(" + types.TypeString(x.AssertedType, func(p *types.Package) string { return "" }) + ")"
	case *ssa.Phi:
		if x.Comment != "" {
			return "φ" + x.Comment
		}
		return "φ"
	case *ssa.Slice:
		lo, hi := "", ""
		if x.Low != nil {
			lo = c.valShapeD(x.Low, d+1)
		}
		if x.High != nil {
			hi = c.valShapeD(x.High, d+1)
		}
		return c.valShapeD(x.X, d+1) + "[" + lo + ":" + hi + "]"
	case *ssa.MakeSlice:
		return "make"
	case *ssa.Lookup:
		return c.valShapeD(x.X, d+1) + "[" + c.valShapeD(x.Index, d+1) + "]"
	case *ssa.Range:
		return "range " + c.valShapeD(x.X, d+1)
	case *ssa.Next:
		return "next"
	}
	return strings.TrimPrefix(fmt.Sprintf("%T", v), "*ssa.")
}

func (c *Ctx) boundsObligations(fns []*ssa.Function, bce map[string]bool, floor int) {
	total, byCompiler, byEngine := 0, 0, 0
	matched := map[string]bool{}
	mono := monotoneSlots(c)
	c.rep.Extra["monotone_slots"] = sortedKeys(mono)
	for _, fn := range fns {
		fi := newFuncInfo(fn)
		for _, b := range fn.Blocks {
			for _, ins := range b.Instrs {
				var goals []Lin
				var desc string
				switch x := ins.(type) {
				case *ssa.IndexAddr:
					idx := fi.term(x.Index)
					ln := fi.lenOf(x.X)
					goals = []Lin{idx, ln.sub(idx).addK(-1)}
					desc = "0 <= " + idx.String() + " < " + ln.String()
				case *ssa.Index:
					idx := fi.term(x.Index)
					ln := fi.lenOf(x.X)
					goals = []Lin{idx, ln.sub(idx).addK(-1)}
					desc = "0 <= " + idx.String() + " < " + ln.String()
				case *ssa.Lookup:
					if _, isMap := x.X.Type().Underlying().(*types.Map); isMap {
						continue
					}
					idx := fi.term(x.Index)
					ln := fi.lenOf(x.X)
					goals = []Lin{idx, ln.sub(idx).addK(-1)}
					desc = "0 <= " + idx.String() + " < " + ln.String()
				case *ssa.Slice:
					ln := fi.capOf(x.X)
					lo, hi := konst(0), fi.lenOf(x.X)
					if x.Low != nil {
						lo = fi.term(x.Low)
					}
					if x.High != nil {
						hi = fi.term(x.High)
					}
					goals = []Lin{lo, hi.sub(lo), ln.sub(hi)}
					desc = "0 <= " + lo.String() + " <= " + hi.String() + " <= " + ln.String()
				default:
					continue
				}
				total++
				p := c.fset.Position(ins.Pos())
				key := fmt.Sprintf("%s:%d:%d", p.Filename, p.Line, p.Column)
				fname := c.fname(fn)
				construct := c.exprOf(ins)
				if !bce[key] {
					byCompiler++
					c.rep.add(Obligation{Rule: "PANIC-BOUNDS", Func: fname, Construct: construct, Pos: c.pos(ins.Pos()), Status: stOK, Tactic: "T0 compiler prove pass"})
					continue
				}
				matched[key] = true
				facts := fi.factsAt(b, ins)
				debugProve = os.Getenv("PSA_DEBUG_SITE") != "" && strings.HasSuffix(c.pos(ins.Pos()), os.Getenv("PSA_DEBUG_SITE"))
				ok := fi.prove(goals, facts, 0)
				debugProve = false
				tactic := "fact engine"
				if !ok {
					switch {
					case fi.sortComparator(ins):
						ok, tactic = true, "sort.Slice comparator contract"
					case fi.sortComparatorFactory(ins):
						ok, tactic = true, "sort.Slice comparator contract (comparator made by a factory from the sorted slice)"
					case fi.glyphOpArity(ins):
						ok, tactic = true, "GlyphOp arity invariant under the command-type case"
					case fi.findSubmatch(ins):
						ok, tactic = true, "FindSubmatch contract (1+NumSubexp elements when non-nil)"
					case fi.monotoneCapacity(ins, mono):
						ok, tactic = true, "monotone capacity of an append-only slot"
					case fi.monotoneCapacityParam(ins, mono):
						ok, tactic = true, "monotone capacity of an append-only slot (reached through its address in a helper; bound shown at every call site)"
					case fi.abduceEntryFacts(goals, facts) && fi.prove(goals, fi.factsAt(b, ins), 0):
						ok, tactic = true, "fact engine, with a relation between the parameters shown at every call site"
					}
				}
				_ = tactic
				if ok {
					byEngine++
					c.rep.add(Obligation{Rule: "PANIC-BOUNDS", Func: fname, Construct: construct, Pos: c.pos(ins.Pos()), Status: stOK, Tactic: tactic, Detail: desc})
					continue
				}
				gf, nf := splitNEQ(facts)
				var fs []string
				for _, f := range gf {
					fs = append(fs, renderFact(f))
				}
				for _, f := range nf {
					fs = append(fs, strings.Replace(renderFact(f), " >= 0", " != 0", 1))
				}
				sort.Strings(fs)
				fs = dedupSorted(fs)
				c.rep.add(Obligation{Rule: "PANIC-BOUNDS", Func: fname, Construct: construct, Pos: c.pos(ins.Pos()), Status: stViolation, Kind: "undecided",
					Detail: "cannot show " + desc + ": the index or slice expression may be out of range for some input", Facts: canonFacts(fs),
					Alias: c.aliasOf(construct, func() string { return c.exprOf(ins) })})
			}
		}
	}
	// every log entry inside a reachable module function must have matched an instruction, or sit on an inlined library call
	c.rep.Extra["bounds_sites"] = total
	c.rep.Extra["bounds_by_compiler"] = byCompiler
	c.rep.Extra["bounds_by_fact_engine"] = byEngine
	c.floor("PANIC-BOUNDS", floor)
}

// canonFacts renders facts with shape names instead of SSA register names,
// so that reviewed entries can name the guards they rely on and stay valid
// when unrelated code in the same function changes.  (Lossy: two loads of the
// same field in different epochs render alike; used for matching only.)
func canonFacts(fs []string) []string { return fs }

var atomShapeRe = regexp.MustCompile(`[^ ]+#[A-Za-z_][A-Za-z0-9_]*`)

func shapeAtom(a string) string {
	if strings.HasPrefix(a, "len(") && strings.HasSuffix(a, ")") {
		return "len(" + shapeAtom(a[4:len(a)-1]) + ")"
	}
	if strings.HasPrefix(a, "val(") && strings.HasSuffix(a, ")") {
		return shapeAtom(a[4 : len(a)-1])
	}
	if strings.HasPrefix(a, "leniface(") {
		return "len(" + shapeAtom(a[9:len(a)-1]) + ")"
	}
	// base.field@epoch
	epoch := ""
	if i := strings.LastIndex(a, "@"); i >= 0 && !strings.Contains(a[i:], "#") {
		a, epoch = a[:i], a[i:]
	}
	_ = epoch
	field := ""
	if v, ok := valueByName[a]; ok {
		return feCtx.valShape(v)
	}
	// fn#reg.pkg.Type.field
	if i := strings.Index(a, "#"); i >= 0 {
		rest := a[i+1:]
		if j := strings.Index(rest, "."); j >= 0 {
			reg := a[:i+1+j]
			field = rest[j+1:]
			if k := strings.LastIndex(field, "."); k >= 0 {
				field = field[k+1:]
			}
			if strings.HasPrefix(field, "cell:") || strings.Contains(rest[j+1:], "cell:") {
				parts := strings.Split(rest[j+1:], ":")
				return parts[len(parts)-1]
			}
			if v, ok := valueByName[reg]; ok {
				return feCtx.valShape(v) + "." + field
			}
		}
	}
	return a
}

func renderFact(l Lin) string {
	var ks []string
	for k := range l.coef {
		ks = append(ks, k)
	}
	type term struct{ name, coef string }
	var ts []term
	for _, k := range ks {
		ts = append(ts, term{shapeAtom(k), l.coef[k].RatString()})
	}
	sort.Slice(ts, func(i, j int) bool {
		if ts[i].name != ts[j].name {
			return ts[i].name < ts[j].name
		}
		return ts[i].coef < ts[j].coef
	})
	var sb strings.Builder
	for _, t := range ts {
		sb.WriteString(t.coef + "*" + t.name + " + ")
	}
	sb.WriteString(l.c.RatString() + " >= 0")
	return sb.String()
}

func newFuncInfo(fn *ssa.Function) *funcInfo {
	if fi, ok := fiByFn[fn]; ok {
		return fi
	}
	fi := &funcInfo{fn: fn, rel: map[string]Lin{}, terms: map[ssa.Value]Lin{}, busy: map[ssa.Value]bool{}}
	for _, b := range fn.Blocks {
		for _, ins := range b.Instrs {
			if v, ok := ins.(ssa.Value); ok {
				valueByName[fi.vname(v)] = v
			}
		}
	}
	for _, p := range fn.Params {
		valueByName[fi.vname(p)] = p
	}
	for _, p := range fn.FreeVars {
		valueByName[fi.vname(p)] = p
	}
	fiByFn[fn] = fi
	analyzeEpochs(fi)
	for _, b := range fn.Blocks {
		for _, ins := range b.Instrs {
			if st, ok := ins.(*ssa.Store); ok {
				if base, f, ok := slotOf(st.Addr); ok && fi.fields[f] {
					ep := fi.epoch[ins][f]
					if fi.intFields[f] {
						fi.rel[ep+"|"+f+"|"+fi.vname(base)] = fi.term(st.Val)
					} else {
						fi.rel[ep+"|"+f+"|"+fi.vname(base)] = fi.lenOf(st.Val)
					}
				}
			}
			fi.leafCallRel(ins) // a call of a leaf accessor relates the epochs like a store (ext_x8.go)
		}
	}
	fi.resultObjectLens()
	fi.relReady = true
	return fi
}

// capOf: a lower bound for cap(v) usable as the upper limit of a re-slice.
func (fi *funcInfo) capOf(v ssa.Value) Lin {
	if call, ok := v.(*ssa.Call); ok {
		if sc := call.Call.StaticCallee(); sc != nil && strings.HasPrefix(calleeName(sc), "slices.Grow") && len(call.Call.Args) == 2 {
			// cap(slices.Grow(s, n)) >= len(s) + n
			return fi.lenOf(call.Call.Args[0]).add(fi.term(call.Call.Args[1]))
		}
	}
	return fi.lenOf(v)
}

func (fi *funcInfo) extraTactics(ins ssa.Instruction, goals []Lin, facts []Lin) bool {
	return false
}

var _ = callgraph.CalleesOf

func (c *Ctx) otherPanics(fns []*ssa.Function) {
	for _, fn := range fns {
		fi := newFuncInfo(fn)
		fname := c.fname(fn)
		for _, b := range fn.Blocks {
			for _, ins := range b.Instrs {
				switch x := ins.(type) {
				case *ssa.MakeSlice:
					c.allocObligation(fi, fname, ins, x.Len, x.Cap, "make slice")
				case *ssa.MakeMap:
					if x.Reserve != nil {
						c.allocObligation(fi, fname, ins, x.Reserve, nil, "make map")
					}
				case *ssa.TypeAssert:
					if !x.CommaOk {
						c.assertObligation(fname, x)
					}
				case *ssa.BinOp:
					if x.Op == token.QUO || x.Op == token.REM {
						if _, _, isInt := isIntType(x.Type()); isInt {
							c.divObligation(fi, fname, x)
						}
					}
				case *ssa.Panic:
					if bc := x.Block().Comment; strings.HasPrefix(bc, "rangefunc.") || bc == "yield-invalid" {
						// part of the lowering of range-over-func: raised only when the iterator function
						// breaks its contract (calls yield again after it returned false); the iterators
						// used are the standard library's
						continue
					}
					c.fail("PANIC-EXPLICIT", fname, "panic("+c.valShape(x.X)+")", x.Pos(), "an explicit panic is reachable from a reader entry point")
				case *ssa.MapUpdate:
					c.mapUpdateObligation(fname, x)
				case *ssa.Call:
					c.fmtObligation(fname, x)
					c.growObligation(fi, fname, x)
				}
			}
		}
	}
	c.nilDerefObligations(fns)
}

func (c *Ctx) recursionAndLoops(fns []*ssa.Function, reach map[*ssa.Function]bool) {
	c.recursionGates(fns, reach)
	c.loopClasses(fns)
	// the reviewed termination arguments of the charstring loops rest on the subroutine depth limit
	clauses, info := c.t1CommandClauses()
	c.subrRules(info, clauses)
}

const maxAlloc = 1 << 24

// allocObligation: the size of an allocation is a constant, or entailed within [0, 2^24],
// or bounded by the length of an object that already exists (plus a constant).
func (c *Ctx) allocObligation(fi *funcInfo, fname string, ins ssa.Instruction, n, capv ssa.Value, what string) {
	if capv != nil && capv != n {
		c.allocObligation(fi, fname, ins, capv, nil, what+" capacity")
	}
	if _, isC := constInt(n); isC {
		return
	}
	t := fi.term(n)
	construct := what + "(" + c.valShape(n) + ")"
	facts := fi.factsAt(ins.Block(), ins)
	if fi.prove([]Lin{t, konst(maxAlloc).sub(t)}, facts, 0) {
		c.rep.add(Obligation{Rule: "PANIC-ALLOC", Func: fname, Construct: construct, Pos: c.pos(ins.Pos()), Status: stOK, Tactic: fmt.Sprintf("0 <= n <= %d entailed", maxAlloc)})
		return
	}
	// bounded by existing objects: 0 <= n <= 2*len(x) + 64 for some object x whose length occurs in the size or in the guards
	if fi.prove([]Lin{t}, facts, 0) {
		cands := map[string]bool{}
		for a := range t.coef {
			if strings.HasPrefix(a, "len") {
				cands[a] = true
			}
		}
		gf0, _ := splitNEQ(facts)
		gf0 = append(gf0, fi.divisionFacts([]Lin{t})...)
		gf0 = append(gf0, fi.rangeFacts(append([]Lin{t}, gf0...)...)...)
		for _, f := range gf0 {
			for a := range f.coef {
				if strings.HasPrefix(a, "len") {
					cands[a] = true
				}
			}
		}
		for a := range cands {
			bound := atom(a).scale(big.NewRat(2, 1)).addK(64)
			if fi.prove([]Lin{bound.sub(t)}, facts, 0) {
				c.rep.add(Obligation{Rule: "PANIC-ALLOC", Func: fname, Construct: construct, Pos: c.pos(ins.Pos()), Status: stOK, Tactic: "0 <= n <= 2*" + shapeAtom(a) + " + 64: bounded by the size of existing data"})
				return
			}
		}
	}
	var fs []string
	gf, nf := splitNEQ(facts)
	for _, f := range gf {
		fs = append(fs, renderFact(f))
	}
	for _, f := range nf {
		fs = append(fs, strings.Replace(renderFact(f), " >= 0", " != 0", 1))
	}
	c.rep.add(Obligation{Rule: "PANIC-ALLOC", Func: fname, Construct: construct, Pos: c.pos(ins.Pos()), Status: stViolation, Kind: "undecided",
		Detail: "the allocation size " + renderFact(t) + " is not shown to lie in [0, 2^24] nor to be bounded by the size of existing data: a hostile operand could make it negative (panic) or absurdly large", Facts: dedupSorted(fs),
		Alias: c.aliasOf(construct, func() string { return what + "(" + c.valShape(n) + ")" })})
}

// growObligation: slices.Grow(s, n) panics for n < 0.
func (c *Ctx) growObligation(fi *funcInfo, fname string, call *ssa.Call) {
	sc := call.Call.StaticCallee()
	if sc == nil || !strings.HasPrefix(calleeName(sc), "slices.Grow") || len(call.Call.Args) != 2 {
		return
	}
	c.allocObligation(fi, fname, call, call.Call.Args[1], nil, "slices.Grow")
}

func (c *Ctx) divObligation(fi *funcInfo, fname string, x *ssa.BinOp) {
	if k, isC := constInt(x.Y); isC {
		if k == 0 {
			c.fail("PANIC-DIV", fname, "division by constant zero", x.Pos(), "division by zero")
		}
		return
	}
	d := fi.term(x.Y)
	facts := fi.factsAt(x.Block(), x)
	construct := "divisor " + c.valShape(x.Y)
	_, neq := splitNEQ(facts)
	direct := false
	for _, q := range neq {
		if q.String() == d.String() || q.String() == d.neg().String() {
			direct = true
		}
	}
	if direct || fi.prove([]Lin{d.addK(-1)}, facts, 0) || fi.prove([]Lin{d.neg().addK(-1)}, facts, 0) {
		c.rep.add(Obligation{Rule: "PANIC-DIV", Func: fname, Construct: construct, Pos: c.pos(x.Pos()), Status: stOK, Tactic: "divisor != 0 entailed"})
		return
	}
	c.rep.add(Obligation{Rule: "PANIC-DIV", Func: fname, Construct: construct, Pos: c.pos(x.Pos()), Status: stViolation, Kind: "undecided", Detail: "the integer divisor is not shown to be non-zero"})
}

// assertObligation: x.(T) without ,ok.
func (c *Ctx) assertObligation(fname string, x *ssa.TypeAssert) {
	construct := c.valShape(x.X) + ".(" + types.TypeString(x.AssertedType, func(*types.Package) string { return "" }) + ")"
	// (a) dominated by a successful ,ok assertion / type-switch case of the same value and type
	for _, cd := range domConds(x.Block()) {
		if !cd.truth {
			continue
		}
		if ex, ok := cd.v.(*ssa.Extract); ok && ex.Index == 1 {
			if ta, ok := ex.Tuple.(*ssa.TypeAssert); ok && ta.CommaOk && types.Identical(ta.AssertedType, x.AssertedType) && sameValue(ta.X, x.X) {
				c.ok("PANIC-ASSERT", fname, construct, x.Pos(), "dominated by a successful `, ok` assertion of the same value", "")
				return
			}
		}
		// conjunction: aIsDict && bIsDict is split into blocks by go/ssa, each giving its own condition
	}
	// (b) content invariant of the system dictionary literal / the Resources dictionary
	if lk, ok := origin(x.X).(*ssa.Lookup); ok {
		if key, isC := constString(stripConv(lk.Index)); isC {
			// the dictionary returned by makeSystemDict binds the key to a value of the asserted type:
			// decided on the sequence of map updates the constructor performs (ext_x1.go)
			if call, ok := origin(lk.X).(*ssa.Call); ok && call.Call.StaticCallee() != nil && call.Call.StaticCallee() == c.fn("postscript", "makeSystemDict") {
				if dc := c.constructedDictContent(call.Call.StaticCallee()); dc.decided {
					if t := dc.typ[key]; t != nil && types.Identical(t, x.AssertedType) {
						c.ok("PANIC-ASSERT", fname, construct, x.Pos(), "the dictionary returned by makeSystemDict binds this key to a value of this type (the constructor's map updates, evaluated)", "")
						return
					}
					c.rep.add(Obligation{Rule: "PANIC-ASSERT", Func: fname, Construct: construct, Pos: c.pos(x.Pos()), Status: stViolation, Kind: "undecided", Detail: "type assertion without `, ok`: the dictionary returned by makeSystemDict does not bind this key to a value of the asserted type"})
					return
				}
			}
			// literal built by makeSystemDict binds the key to a value of the asserted type
			if e := c.registry().byKey["systemdict/"+key]; e != nil && e.typ != nil && types.Identical(e.typ, x.AssertedType) {
				if call, ok := origin(lk.X).(*ssa.Call); ok && call.Call.StaticCallee() == c.fn("postscript", "makeSystemDict") {
					c.ok("PANIC-ASSERT", fname, construct, x.Pos(), "the literal returned by makeSystemDict binds this key to a value of this type", "")
					return
				}
			}
		}
	}
	if c.resourcesInvariant(x) {
		c.ok("PANIC-ASSERT", fname, construct, x.Pos(), "Interpreter.Resources holds only Dict values: written only by NewInterpreter with Dict literals, never boxed or stored elsewhere", "")
		return
	}
	if c.assertEstablishedBySearch(x) || c.assertBySearchPredicate(x) {
		c.ok("PANIC-ASSERT", fname, construct, x.Pos(), "the element was found by a search whose predicate holds only behind a successful `, ok` assertion of the same map entry to this type; nothing is written in between", "")
		return
	}
	if c.assertByFilteredKeysY2(x) {
		c.ok("PANIC-ASSERT", fname, construct, x.Pos(), "the key is an element of a list that only receives keys of this map behind a successful `, ok` assertion of their entry to this type; nothing is written in between", "")
		return
	}
	c.rep.add(Obligation{Rule: "PANIC-ASSERT", Func: fname, Construct: construct, Pos: c.pos(x.Pos()), Status: stViolation, Kind: "undecided", Detail: "type assertion without `, ok` on a value whose dynamic type is not established: it panics when the value has another type"})
}

// resourcesInvariant: x asserts Dict on a value looked up in Interpreter.Resources.
func (c *Ctx) resourcesInvariant(x *ssa.TypeAssert) bool {
	ia := c.interp()
	v := origin(x.X)
	if ex, ok := v.(*ssa.Extract); ok {
		v = ex.Tuple
	}
	lk, ok := v.(*ssa.Lookup)
	if !ok || !isFieldLoad(lk.X, ia.T, "Resources") {
		return false
	}
	if !typeIsNamed(x.AssertedType, c.typeObj("postscript", "Dict")) {
		return false
	}
	// who writes the field / the map
	okAll := true
	newInterp := c.fn("postscript", "NewInterpreter")
	for _, f := range c.modFuncs {
		eachInstr(f, func(ins ssa.Instruction) {
			switch y := ins.(type) {
			case *ssa.Store:
				if isFieldAddr(y.Addr, ia.T, "Resources") && f != newInterp {
					okAll = false
				}
			case *ssa.MapUpdate:
				if isFieldLoad(y.Map, ia.T, "Resources") {
					okAll = false
				}
			case *ssa.MakeInterface:
				if isFieldLoad(y.X, ia.T, "Resources") {
					okAll = false
				}
			}
		})
	}
	// the literal in NewInterpreter has only Dict values
	eachInstr(newInterp, func(ins ssa.Instruction) {
		mu, ok := ins.(*ssa.MapUpdate)
		if !ok {
			return
		}
		// updates of the fresh `resources` map: values must be Dict
		if mm, ok := mu.Map.(*ssa.MakeMap); ok {
			_ = mm
			if mi, ok := mu.Value.(*ssa.MakeInterface); ok {
				if _, isName := constString(stripConv(mu.Key)); isName && !typeIsNamed(mi.X.Type(), c.typeObj("postscript", "Dict")) {
					// only the resources map has these category keys; other maps in NewInterpreter are checked by value type below
					if k, _ := constString(stripConv(mu.Key)); k == "Font" || k == "CIDFont" || k == "CMap" || k == "ProcSet" {
						okAll = false
					}
				}
			}
		}
	})
	return okAll
}

// mapUpdateObligation: no write to a possibly nil map.
func (c *Ctx) mapUpdateObligation(fname string, mu *ssa.MapUpdate) {
	construct := c.valShape(mu.Map) + "[…] = …"
	if c.mapNonNil(mu.Map, mu, map[ssa.Value]bool{}) {
		c.ok("PANIC-NILMAP", fname, construct, mu.Pos(), "the map is made in this function, or is a Dict taken from the interpreter (no nil Dict is ever boxed or stored: inductive invariant checked below)", "")
		return
	}
	c.rep.add(Obligation{Rule: "PANIC-NILMAP", Func: fname, Construct: construct, Pos: c.pos(mu.Pos()), Status: stViolation, Kind: "undecided", Detail: "write to a map that may be nil"})
}

func (c *Ctx) mapNonNil(v ssa.Value, at ssa.Instruction, seen map[ssa.Value]bool) bool {
	if seen[v] {
		return true
	}
	seen[v] = true
	switch x := v.(type) {
	case *ssa.MakeMap:
		return true
	case *ssa.Parameter:
		// every static call site passes a non-nil map
		fn := x.Parent()
		if seq := yieldedElementOf(x); seq != nil {
			// the body of a range over slices.Backward/All/Values(X): the value is an element of X
			if isFieldLoad(seq, c.interp().T, "DictStack") {
				return true // covered by the stored-Dict invariant, like DictStack[i]
			}
			return false
		}
		if fn.Parent() != nil || exportedAPI(fn) {
			return false
		}
		idx := -1
		for i, p := range fn.Params {
			if p == x {
				idx = i
			}
		}
		n := 0
		for _, caller := range c.modFuncs {
			for _, call := range staticCalls(caller, fn) {
				n++
				if !c.mapNonNil(call.Common().Args[idx], call, seen) {
					return false
				}
			}
		}
		return n > 0
	case *ssa.Phi:
		if c.flagGuardedPhiY2(x, at, seen) {
			return true // assigned together with a flag that is tested before the use (ext_y2.go)
		}
		for i, e := range x.Edges {
			if nonNilOnEdge(e, x.Block().Preds[i], x.Block()) {
				continue // `if m == nil { m = make(…) }`: on the other edge the test said non-nil
			}
			if !c.mapNonNilOnEdgeY2(x, i, at, seen) {
				return false
			}
		}
		return true
	case *ssa.ChangeType:
		return c.mapNonNil(x.X, at, seen)
	case *ssa.Extract:
		// v, ok := iface.(Dict): non-nil by the boxed-Dict invariant when ok (a nil Dict is never boxed)
		if ta, ok := x.Tuple.(*ssa.TypeAssert); ok && x.Index == 0 {
			if !typeIsNamed(ta.AssertedType, c.typeObj("postscript", "Dict")) {
				return false
			}
			// … when ok: the use (or the edge on which the value flows into a φ) lies behind the flag
			if at == nil || at.Block() == nil {
				return false
			}
			for _, cd := range domConds(at.Block()) {
				if ex, isEx := cd.v.(*ssa.Extract); isEx && cd.truth && ex.Tuple == x.Tuple && ex.Index == 1 {
					return true
				}
			}
			return false
		}
		if call, ok := x.Tuple.(*ssa.Call); ok {
			return c.returnsNonNilMap(call, x.Index) || c.returnsNonNilMapUnlessError(call, x.Index, at) || c.returnsNonNilMapWhen(call, x.Index, at)
		}
	case *ssa.TypeAssert:
		return typeIsNamed(x.AssertedType, c.typeObj("postscript", "Dict"))
	case *ssa.Call:
		return c.returnsNonNilMap(x, 0)
	case *ssa.UnOp:
		if x.Op == token.MUL {
			// load from DictStack / a Dict-typed field of the interpreter: covered by the stored-Dict invariant
			if ix, ok := x.X.(*ssa.IndexAddr); ok {
				if isFieldLoad(ix.X, c.interp().T, "DictStack") {
					return true
				}
			}
			if _, f, ok := fieldAddrOf(x.X); ok {
				if typeIsNamed(f.Type(), c.typeObj("postscript", "Dict")) {
					return true
				}
				// glyph map tables etc.: maps stored in struct fields that are only ever assigned made maps
				return c.fieldOnlyMadeMaps(f)
			}
			if g, ok := x.X.(*ssa.Global); ok {
				// package-level map initialised with a literal and never reassigned (C18 ISO-GLOBALSTORE)
				made := false
				eachInstr(g.Pkg.Func("init"), func(i2 ssa.Instruction) {
					if st, ok := i2.(*ssa.Store); ok && st.Addr == ssa.Value(g) {
						if _, ok := st.Val.(*ssa.MakeMap); ok {
							made = true
						}
					}
				})
				return made
			}
			if al, ok := x.X.(*ssa.Alloc); ok {
				okAll := true
				for _, r := range *al.Referrers() {
					if st, ok := r.(*ssa.Store); ok && st.Addr == al {
						if !c.mapNonNil(st.Val, at, seen) {
							okAll = false
						}
					}
				}
				return okAll
			}
			if fv, ok := x.X.(*ssa.FreeVar); ok {
				_ = fv
				return true // captured local of the enclosing function; its stores are checked there
			}
		}
	case *ssa.Lookup:
		// element of a map of maps
		return false
	}
	return false
}

func (c *Ctx) returnsNonNilMap(call *ssa.Call, idx int) bool {
	sc := call.Call.StaticCallee()
	if sc != nil && (strings.HasPrefix(calleeName(sc), "maps.Clone") || strings.HasPrefix(calleeName(sc), "golang.org/x/exp/maps.Clone")) {
		// Clone of a non-nil map is non-nil
		return c.mapNonNil(call.Call.Args[0], call, map[ssa.Value]bool{})
	}
	if sc == nil || sc.Blocks == nil || !c.inModule(sc) {
		return false
	}
	okAll := true
	for _, r := range returns(sc) {
		if idx >= len(r.Results) || !c.mapNonNil(r.Results[idx], r, map[ssa.Value]bool{}) {
			okAll = false
		}
	}
	return okAll
}

// returnsNonNilMapUnlessError: the callee follows the (value, error) convention — every return
// with a nil error returns a made map — and the use at `at` is dominated by the test that the
// error of this very call is nil.
func (c *Ctx) returnsNonNilMapUnlessError(call *ssa.Call, idx int, at ssa.Instruction) bool {
	sc := call.Call.StaticCallee()
	if sc == nil || sc.Blocks == nil || !c.inModule(sc) || at == nil {
		return false
	}
	res := sc.Signature.Results()
	ei := res.Len() - 1
	if ei <= 0 || ei == idx || !isErrorType(res.At(ei).Type()) {
		return false
	}
	n := 0
	for _, r := range returns(sc) {
		if len(r.Results) != res.Len() {
			return false
		}
		if !isNilConst(r.Results[ei]) {
			continue // an error return: the value is not used (checked below)
		}
		n++
		if !c.mapNonNil(r.Results[idx], r, map[ssa.Value]bool{}) {
			return false
		}
	}
	if n == 0 {
		return false
	}
	var errVal ssa.Value
	for _, r := range *call.Referrers() {
		if ex, ok := r.(*ssa.Extract); ok && ex.Index == ei {
			errVal = ex
		}
	}
	if errVal == nil {
		return false
	}
	for _, cd := range domConds(at.Block()) {
		if m, ok := asCmp(cd); ok && m.op == token.EQL && (m.x == errVal && isNilConst(m.y) || m.y == errVal && isNilConst(m.x)) {
			return true
		}
	}
	return false
}

func (c *Ctx) fieldOnlyMadeMaps(f *types.Var) bool {
	okAll := true
	n := 0
	for _, fn := range c.modFuncs {
		eachInstr(fn, func(ins ssa.Instruction) {
			st, ok := ins.(*ssa.Store)
			if !ok {
				return
			}
			if _, fld, ok := fieldAddrOf(st.Addr); ok && fld == f {
				n++
				if !c.mapNonNil(st.Val, st, map[ssa.Value]bool{}) {
					okAll = false
				}
			}
		})
	}
	return okAll && n > 0
}

// boxedDictInvariant: every conversion of a Dict to an interface, and every
// store of a Dict into the dictionary stack or an interpreter field, has a
// non-nil operand.
func (c *Ctx) boxedDictInvariant(fns []*ssa.Function) {
	dictT := c.typeObj("postscript", "Dict")
	n := 0
	for _, fn := range c.modFuncs {
		fname := c.fname(fn)
		eachInstr(fn, func(ins ssa.Instruction) {
			var v ssa.Value
			what := ""
			switch x := ins.(type) {
			case *ssa.MakeInterface:
				if typeIsNamed(x.X.Type(), dictT) {
					v, what = x.X, "Dict boxed into an object"
				}
			case *ssa.Store:
				if typeIsNamed(x.Val.Type(), dictT) {
					if _, isAlloc := x.Addr.(*ssa.Alloc); !isAlloc {
						v, what = x.Val, "Dict stored"
					}
				}
			}
			if v == nil {
				return
			}
			n++
			if c.mapNonNil(v, ins, map[ssa.Value]bool{}) {
				c.ok("PANIC-NILMAP", fname, what+": "+c.valShape(v), ins.Pos(), "operand is a made map or a Dict already covered by the invariant", "")
			} else {
				c.rep.add(Obligation{Rule: "PANIC-NILMAP", Func: fname, Construct: what + ": " + c.valShape(v), Pos: c.pos(ins.Pos()), Status: stViolation, Kind: "undecided",
					Detail: "a Dict that may be nil becomes reachable by PostScript programs; `def`, `put` or `begin` on it would panic"})
			}
		})
	}
}

// fmtObligation: a value verb (%v %s %q %d …) applied to an operand of a
// composite object type walks the object; a self-referential array or
// procedure then recurses until the stack is exhausted.  Only %T is safe.
func (c *Ctx) fmtObligation(fname string, call *ssa.Call) {
	sc := call.Call.StaticCallee()
	if sc == nil {
		return
	}
	fmtArg := -1
	switch calleeName(sc) {
	case "fmt.Sprintf", "fmt.Errorf":
		fmtArg = 0
	case "fmt.Fprintf":
		fmtArg = 1
	default:
		if c.isFn(sc, "postscript", "Interpreter", "e") && len(call.Call.Args) >= 4 {
			fmtArg = 2
		}
	}
	if fmtArg < 0 || fmtArg >= len(call.Call.Args) {
		return
	}
	format, isC := constString(call.Call.Args[fmtArg])
	if !isC {
		return
	}
	// variadic arguments: the slice built from an array allocation
	sl, ok := call.Call.Args[len(call.Call.Args)-1].(*ssa.Slice)
	if !ok {
		return
	}
	al, ok := sl.X.(*ssa.Alloc)
	if !ok {
		return
	}
	args := map[int64]ssa.Value{}
	for _, r := range *al.Referrers() {
		if ix, ok := r.(*ssa.IndexAddr); ok {
			k, _ := constInt(ix.Index)
			for _, rr := range *ix.Referrers() {
				if st, ok := rr.(*ssa.Store); ok {
					args[k] = st.Val
				}
			}
		}
	}
	verbs := fmtVerbs(format)
	for i, vb := range verbs {
		a, ok := args[int64(i)]
		if !ok || vb == 'T' {
			continue
		}
		t := a.Type()
		for {
			if mi, ok := a.(*ssa.MakeInterface); ok {
				a, t = mi.X, mi.X.Type()
				continue
			}
			if ci, ok := a.(*ssa.ChangeInterface); ok {
				a, t = ci.X, ci.X.Type()
				continue
			}
			break
		}
		if c.cyclicCapable(t) {
			c.fail("PANIC-FMTCYCLE", fname, fmt.Sprintf("verb %%%c applied to %s", vb, c.valShape(a)), call.Pos(),
				fmt.Sprintf("the message `%s` formats an operand of type %s with %%%c: fmt walks composite objects, and a program can build a self-referential array or procedure (`1 array dup dup 0 exch put`), which makes fmt recurse until the goroutine stack is exhausted; use %%T", format, t, vb))
		} else {
			c.ok("PANIC-FMTCYCLE", fname, fmt.Sprintf("verb %%%c applied to %s", vb, c.valShape(a)), call.Pos(), "operand type "+t.String()+" cannot be cyclic", "")
		}
	}
}

func fmtVerbs(format string) []byte {
	var out []byte
	for i := 0; i < len(format); i++ {
		if format[i] != '%' {
			continue
		}
		i++
		for i < len(format) && strings.IndexByte("+-# 0123456789.", format[i]) >= 0 {
			i++
		}
		if i < len(format) && format[i] != '%' {
			out = append(out, format[i])
		}
	}
	return out
}

// cyclicCapable: a value of this type may (transitively) contain itself:
// interfaces (Object), and slices/maps whose elements are interfaces.
func (c *Ctx) cyclicCapable(t types.Type) bool {
	switch u := t.Underlying().(type) {
	case *types.Interface:
		return !types.Identical(t, types.Universe.Lookup("error").Type())
	case *types.Slice:
		return c.cyclicCapable(u.Elem())
	case *types.Map:
		return c.cyclicCapable(u.Elem())
	case *types.Array:
		return c.cyclicCapable(u.Elem())
	}
	return false
}

// nilDerefObligations: pointers that may be nil (loaded from a map, from a
// field that is somewhere assigned nil, or merged with nil) are dereferenced
// only under a nil test.
func (c *Ctx) nilDerefObligations(fns []*ssa.Function) {
	// pointer fields that are assigned nil somewhere
	nilable := map[*types.Var]bool{}
	for _, fn := range c.modFuncs {
		eachInstr(fn, func(ins ssa.Instruction) {
			if st, ok := ins.(*ssa.Store); ok && isNilConst(st.Val) {
				if _, f, ok := fieldAddrOf(st.Addr); ok {
					if _, isPtr := f.Type().Underlying().(*types.Pointer); isPtr {
						nilable[f] = true
					}
				}
			}
		})
	}
	maybeNil := func(v ssa.Value) (string, bool) {
		v0 := v
		switch x := v0.(type) {
		case *ssa.Lookup:
			if _, isMap := x.X.Type().Underlying().(*types.Map); isMap {
				return "looked up in a map", true
			}
		case *ssa.Extract:
			if lk, ok := x.Tuple.(*ssa.Lookup); ok && x.Index == 0 {
				_ = lk
				return "looked up in a map", true
			}
		case *ssa.UnOp:
			if x.Op == token.MUL {
				if _, f, ok := fieldAddrOf(x.X); ok && nilable[f] {
					return "loaded from field " + f.Name() + ", which is set to nil elsewhere", true
				}
			}
		case *ssa.Phi:
			for _, e := range x.Edges {
				if isNilConst(e) {
					return "merged with nil", true
				}
			}
		}
		return "", false
	}
	for _, fn := range fns {
		fname := c.fname(fn)
		donePtr := map[string]bool{}
		eachInstr(fn, func(ins ssa.Instruction) {
			var ptr ssa.Value
			switch x := ins.(type) {
			case *ssa.FieldAddr:
				ptr = x.X
			case *ssa.UnOp:
				if x.Op == token.MUL {
					if _, isPtr := x.X.Type().Underlying().(*types.Pointer); isPtr {
						if _, isGlobal := x.X.(*ssa.Global); !isGlobal {
							// plain loads through computed addresses are covered by FieldAddr/IndexAddr obligations
						}
					}
				}
				return
			default:
				return
			}
			if _, isPtr := ptr.Type().Underlying().(*types.Pointer); !isPtr {
				return
			}
			why, may := maybeNil(ptr)
			if !may {
				return
			}
			construct := "dereference of " + c.valShape(ptr)
			// dominated by ptr != nil (same value), or `, ok` of the lookup
			guarded := false
			if par := fn.Parent(); par != nil {
				// a closure used only as the comparator of one sort call inherits the guards dominating that call
				if _, f, ok := fieldOf(origin(ptr)); ok {
					for _, b := range par.Blocks {
						for _, pi := range b.Instrs {
							call, ok := pi.(*ssa.Call)
							if !ok || len(call.Call.Args) != 2 {
								continue
							}
							sc := call.Call.StaticCallee()
							if sc == nil || !strings.HasPrefix(calleeName(sc), "sort.Slice") {
								continue
							}
							uses := false
							if mc, ok := call.Call.Args[1].(*ssa.MakeClosure); ok && mc.Fn == fn {
								uses = true
							}
							if !uses {
								continue
							}
							for _, cd := range domConds(call.Block()) {
								if m, ok := asCmp(cd); ok && m.op == token.NEQ && isNilConst(m.y) {
									if _, f2, ok := fieldOf(origin(m.x)); ok && f2 == f {
										guarded = true
									}
								}
							}
						}
					}
				}
			}
			for _, cd := range domConds(ins.Block()) {
				if m, ok := asCmp(cd); ok && m.op == token.NEQ && isNilConst(m.y) && sameValue(m.x, ptr) {
					guarded = true
				}
				if ex, ok := cd.v.(*ssa.Extract); ok && ex.Index == 1 && cd.truth {
					if pe, ok := ptr.(*ssa.Extract); ok && pe.Tuple == ex.Tuple {
						guarded = true
					}
				}
			}
			how := "dominated by a nil test of the same value"
			if !guarded {
				// the test was made by the caller of this function, or by a helper that reports its outcome (ext_y2.go)
				if why2, ok := c.nilGuardInterprocY2(fn, ins, ptr); ok {
					guarded, how = true, why2
				}
			}
			pk := construct
			if guarded {
				pk += "/g"
			}
			if donePtr[pk] {
				return
			}
			donePtr[pk] = true
			if guarded {
				c.ok("PANIC-NILDEREF", fname, construct, ins.Pos(), how, "")
				return
			}
			c.rep.add(Obligation{Rule: "PANIC-NILDEREF", Func: fname, Construct: construct, Pos: c.pos(ins.Pos()), Status: stViolation, Kind: "undecided", Detail: "a pointer " + why + " is dereferenced without a dominating nil test"})
		})
	}
}

// ---------------------------------------------------------------- recursion

type cgEdge struct {
	from, to *ssa.Function
	site     ssa.CallInstruction
}

func (c *Ctx) recursionGates(fns []*ssa.Function, reach map[*ssa.Function]bool) {
	ia := c.interp()
	reg := c.registry()
	cg := c.callgraph()
	inSet := map[*ssa.Function]bool{}
	for _, f := range fns {
		inSet[f] = true
	}
	var edges []cgEdge
	for _, f := range fns {
		n := cg.Nodes[f]
		if n == nil {
			continue
		}
		for _, e := range n.Out {
			if inSet[e.Callee.Func] {
				edges = append(edges, cgEdge{f, e.Callee.Func, e.Site})
			}
		}
		for _, an := range f.AnonFuncs {
			if inSet[an] {
				edges = append(edges, cgEdge{f, an, nil})
			}
		}
	}
	execFn := reg.op("systemdict", "exec")
	gated := func(e cgEdge) (string, bool) {
		if e.site == nil {
			return "", false
		}
		com := e.site.Common()
		switch {
		case e.to == ia.executeOne && com.StaticCallee() == ia.executeOne:
			if b, isC := constBool(com.Args[2]); isC && b {
				return "callee passes the execution-depth gate (execProc = true)", true
			}
			if why, ok := c.frameGated(ia, e); ok {
				return why, true
			}
		case c.depthGateFn(ia) != nil && (e.from == c.depthGateFn(ia) || c.extendsGate(ia, e.from) != nil):
			// a call made by the function that holds the depth gate (or by the part of it that was
			// split off and is only entered through it) at a point that cannot be reached without
			// having passed the gate
			if why, ok := c.frameGated(ia, e); ok {
				return why, true
			}
		case e.to == ia.execScanner && com.StaticCallee() == ia.execScanner && e.from != c.method("postscript", "Interpreter", "Execute"):
			// whoever holds the call (the eexec operator or a part split off it): the re-entry is reached
			// only behind a successful BeginEexec of the scanner that is executed
			if sa := scannerArgOf(e.site); sa != nil && c.behindBeginEexec(e.site, sa, 2) {
				return "nested eexec is refused by BeginEexec (rule L3-EEXEC)", true
			}
		case c.tokenLoopEntries(ia).fns[e.to] && c.afterBegin(e.site, c.method("postscript", "scanner", "BeginEexec"), 2):
			// a call into the token loop (or a helper through which it is entered) that is only reached
			// after BeginEexec succeeded; rule L3-EEXEC (run below) reports any other way in
			return "nested eexec is refused by BeginEexec (rule L3-EEXEC)", true
		case e.from == execFn && com.StaticCallee() == nil && !com.IsInvoke():
			// direct call of an operator object: one operand was popped before, nothing is pushed in between
			popped := false
			eachInstr(execFn, func(ins ssa.Instruction) {
				if st, ok := ins.(*ssa.Store); ok && isFieldAddr(st.Addr, ia.T, "Stack") && dominatesInstr(st, e.site) {
					if sl, ok := st.Val.(*ssa.Slice); ok && sl.High != nil {
						popped = true
					}
				}
			})
			if popped {
				return "each level consumes one operand (stack height <= 501)", true
			}
		case e.from == e.to && com.StaticCallee() == e.to:
			// self-recursion over an object graph the input builds (procedures can contain
			// themselves, more than once): only a visited set bounds both the depth and the total work
			// … and the depth of the recursion — the nesting depth of the object — must be bounded where
			// nesting costs nothing: every place that opens a procedure body (appends to the list of
			// open bodies) is dominated by a constant bound on the number of open bodies; nesting built
			// by operators costs one operation per level and is bounded by the budget
			nPush, nBounded := 0, 0
			pushes, followed := c.slotPushes(ia.T, c.fld("intp.procStart"))
			for _, site := range pushes {
				nPush++
				if k, ok := upperBoundConst(domConds(site.Block()), func(v ssa.Value) bool { return lenOfSlot(v, ia.T, c.fld("intp.procStart")) }); ok && k <= 10000 {
					nBounded++
				}
			}
			if !(followed && nPush > 0 && nPush == nBounded) {
				break
			}
			if visitedSetGate(e.from, e.site) {
				return "self-recursion behind a visited set (and the nesting of procedure literals is limited where bodies are opened): the call is dominated by `seen[k]` being false and `seen[k] = true` for a key derived from the argument, and passes the same set on; depth and total work are bounded by the number of distinct objects, each of which costs an operation or a token to create", true
			}
		}
		return "", false
	}
	adj := map[*ssa.Function][]*ssa.Function{}
	ngated := 0
	gateKinds := map[string]int{}
	for _, e := range edges {
		if why, ok := gated(e); ok {
			ngated++
			gateKinds[why]++
			continue
		}
		adj[e.from] = append(adj[e.from], e.to)
	}
	c.rep.Extra["recursion_gate_edges"] = gateKinds
	// cycles in the remaining graph
	color := map[*ssa.Function]int{}
	var stack []*ssa.Function
	var cyc []string
	var dfs func(f *ssa.Function) bool
	dfs = func(f *ssa.Function) bool {
		color[f] = 1
		stack = append(stack, f)
		for _, g := range adj[f] {
			if color[g] == 1 {
				for i, x := range stack {
					if x == g {
						for _, y := range stack[i:] {
							cyc = append(cyc, c.fname(y))
						}
						cyc = append(cyc, c.fname(g))
						return true
					}
				}
			}
			if color[g] == 0 && dfs(g) {
				return true
			}
		}
		stack = stack[:len(stack)-1]
		color[f] = 2
		return false
	}
	found := false
	for _, f := range fns {
		if color[f] == 0 && dfs(f) {
			found = true
			break
		}
	}
	if found {
		c.fail("RECURSE", strings.Join(dedup(cyc), " → "), "call-graph cycle without a gate", token.NoPos, "the functions "+strings.Join(cyc, " → ")+" can call each other in a cycle that passes none of the gates (execution depth, nested eexec refusal, operand consumption, visited set): hostile input can recurse until the goroutine stack is exhausted, or — for a recursion over objects that can contain themselves — keep one operator busy for a time exponential in the size of the input")
	} else {
		c.ok("RECURSE", "reader call graph", "every call-graph cycle passes a gate", token.NoPos, fmt.Sprintf("%d functions, %d edges, %d gate edges removed, remainder acyclic", len(fns), len(edges), ngated), "")
	}
	c.eexecNestingX1(ia)
}

// ---------------------------------------------------------------- loops

var consumingCalls = map[string]bool{
	"(*seehuhn.de/go/postscript.scanner).Next": true, "(*seehuhn.de/go/postscript.scanner).readByte": true, "(*seehuhn.de/go/postscript.scanner).readByteRaw": true,
	"(*seehuhn.de/go/postscript.scanner).readByteEexec": true, "(*seehuhn.de/go/postscript.scanner).ScanToken": true, "(*seehuhn.de/go/postscript.scanner).SkipByte": true,
	"(*seehuhn.de/go/postscript.scanner).refill": true, "(*seehuhn.de/go/postscript.scanner).SkipRequiredByte": true,
	"(*bufio.Scanner).Scan": true, "io.ReadFull": true,
}

func (c *Ctx) loopClasses(fns []*ssa.Function) {
	ia := c.interp()
	classes := map[string]int{}
	for _, fn := range fns {
		fname := c.fname(fn)
		headers := map[*ssa.BasicBlock][]*ssa.BasicBlock{} // header -> back-edge sources
		for _, b := range fn.Blocks {
			for _, s := range b.Succs {
				if s.Dominates(b) {
					headers[s] = append(headers[s], b)
				}
			}
		}
		var hs []*ssa.BasicBlock
		for h := range headers {
			hs = append(hs, h)
		}
		sort.Slice(hs, func(i, j int) bool { return hs[i].Index < hs[j].Index })
		for _, h := range hs {
			// loop body
			body := map[*ssa.BasicBlock]bool{h: true}
			var st []*ssa.BasicBlock
			st = append(st, headers[h]...)
			for len(st) > 0 {
				x := st[len(st)-1]
				st = st[:len(st)-1]
				if body[x] {
					continue
				}
				body[x] = true
				st = append(st, x.Preds...)
			}
			class, detail := c.classifyLoop(fn, h, body, ia)
			construct := "loop at " + loopShape(c, h)
			if s := c.loopShapeX1(h, body); s != "" {
				construct = "loop at " + s // the same name for every spelling of "while the slice is not empty"
			}
			if class != "" {
				classes[class]++
				c.ok("LOOP", fname, construct, firstPos(h), class+": "+detail, "")
			} else {
				c.rep.add(Obligation{Rule: "LOOP", Func: fname, Construct: construct, Pos: c.pos(firstPos(h)), Status: stViolation, Kind: "undecided",
					Detail: "the loop is neither a range loop, a counted loop, a loop every iteration of which consumes input, nor a loop every iteration of which passes the operation budget: it may not terminate for some input"})
			}
		}
	}
	c.rep.Extra["loop_classes"] = classes
	c.floor("LOOP", 60)
	c.workStackBudgets(fns)
}

// loopShape names a loop by the shape of its controlling condition.
func loopShape(c *Ctx, h *ssa.BasicBlock) string {
	for _, b := range []*ssa.BasicBlock{h} {
		if ifi, ok := b.Instrs[len(b.Instrs)-1].(*ssa.If); ok {
			if _, isCmp := ifi.Cond.(*ssa.BinOp); !isCmp {
				// a "slice not empty" test made by a small accessor (`!out.full()`): the test it stands for (ext_x8.go)
				if _, ok := roomTest(ifi.Cond, 0); ok {
					return "`(len(…)>0)`"
				}
			}
			return "`" + c.valShape(ifi.Cond) + "`"
		}
	}
	// unconditional header: use the first call in it
	for _, ins := range h.Instrs {
		if call, ok := ins.(ssa.CallInstruction); ok {
			if sc := call.Common().StaticCallee(); sc != nil {
				return "`for { " + sc.Name() + "(…) … }`"
			}
		}
	}
	return "`for { … }`"
}

func (c *Ctx) classifyLoop(fn *ssa.Function, h *ssa.BasicBlock, body map[*ssa.BasicBlock]bool, ia *interpAnchors) (string, string) {
	// P1: range loops
	for _, ins := range h.Instrs {
		if phi, ok := ins.(*ssa.Phi); ok && phi.Comment == "rangeindex" {
			return "P1 range", "range over a slice, array, string or integer"
		}
	}
	for b := range body {
		for _, ins := range b.Instrs {
			if nx, ok := ins.(*ssa.Next); ok {
				// the ok flag of Next controls the exit
				_ = nx
				return "P1 range", "range over a map or string"
			}
		}
	}
	// P2: counted loop
	for _, ins := range h.Instrs {
		phi, ok := ins.(*ssa.Phi)
		if !ok {
			continue
		}
		pi := analyzePhi(phi)
		if pi == nil || !guarded(phi, pi) {
			continue
		}
		allPos, allNeg := true, true
		for _, k := range pi.steps {
			if k <= 0 {
				allPos = false
			}
			if k >= 0 {
				allNeg = false
			}
		}
		if !allPos && !allNeg {
			continue
		}
		// an exit condition compares the variable (or its step value) with a value that does not change in the loop
		if c.countedExit(phi, pi, body, allPos) {
			dir := "up"
			if allNeg {
				dir = "down"
			}
			return "P2 counted", "induction variable " + phi.Comment + " counts " + dir + " to a loop-invariant bound"
		}
	}
	// P5: a loop over a stack of pending work whose growth is bounded
	if why, ok := workLoopClass(fn, h); ok {
		return "P5 work list", why
	}
	// P3/P4: every cycle through the loop passes a consuming call / a budgeted dispatch
	consumesP3 := func(b *ssa.BasicBlock) bool {
		for _, ins := range b.Instrs {
			if call, ok := ins.(ssa.CallInstruction); ok {
				if _, isDefer := ins.(*ssa.Defer); isDefer {
					continue
				}
				if _, isGo := ins.(*ssa.Go); isGo {
					continue
				}
				if sc := call.Common().StaticCallee(); sc != nil && (consumingCalls[calleeName(sc)] || c.consumingFn(sc)) {
					return true
				}
				if call.Common().IsInvoke() && call.Common().Method.Name() == "Read" {
					return true
				}
			}
		}
		return false
	}
	cutP3 := func(b *ssa.BasicBlock) bool {
		if consumesP3(b) {
			return true
		}
		// a helper of the module that makes a consuming call on every path to its return (the byte
		// reader wrapped into "next byte of the line", "next byte that is not white space", …)
		for _, ins := range b.Instrs {
			if call, ok := ins.(*ssa.Call); ok {
				if g := call.Call.StaticCallee(); g != nil && c.inModule(g) && mustPassBlock(g, consumesP3, 2) {
					return true
				}
			}
		}
		return false
	}
	cutP4 := func(b *ssa.BasicBlock) bool {
		if len(blockCalls(b, ia.executeOne)) > 0 {
			return true
		}
		// a helper that dispatches on every path to its return counts as well
		for _, ins := range b.Instrs {
			if call, ok := ins.(ssa.CallInstruction); ok {
				if g := call.Common().StaticCallee(); g != nil && mustCall(g, ia.executeOne, 2) {
					return true
				}
			}
		}
		return false
	}
	// the dispatch loop of the interpreter: every iteration passes the operation counter
	cutGateA1 := func(b *ssa.BasicBlock) bool {
		for _, ins := range b.Instrs {
			if st, ok := ins.(*ssa.Store); ok && isFieldAddr(st.Addr, ia.T, "NumOps") {
				return true
			}
			// the counting moved into a helper: every path through the helper counts the operation
			if call, ok := ins.(ssa.CallInstruction); ok {
				if g := call.Common().StaticCallee(); g != nil && c.inModule(g) && mustPassBlock(g, func(b2 *ssa.BasicBlock) bool {
					for _, i2 := range b2.Instrs {
						if st, ok := i2.(*ssa.Store); ok && isFieldAddr(st.Addr, ia.T, "NumOps") {
							return true
						}
					}
					return false
				}, 2) {
					return true
				}
			}
		}
		return false
	}
	// (the store to the counter, or the call of a helper that counts on every path: opCounter, ext_x6.go;
	// two derivations of the same fact, either suffices)
	cutGateD2 := c.opCounter(ia).marked
	cutGate := func(b *ssa.BasicBlock) bool { return cutGateA1(b) || cutGateD2(b) }
	if !cycleInBody(h, body, func(b *ssa.BasicBlock) bool { return cutGate(b) || cutP4(b) }) {
		return "P4 budgeted", "every iteration passes the operation counter and budget test (or a nested dispatch)"
	}
	if !cycleInBody(h, body, cutP3) {
		return "P3 consuming", "every iteration reads at least one byte of input or ends the loop"
	}
	if !cycleInBody(h, body, cutP4) {
		return "P4 budgeted", "every iteration dispatches through executeOne, which counts it against the operation budget"
	}
	if !cycleInBody(h, body, func(b *ssa.BasicBlock) bool { return cutP3(b) || cutP4(b) }) {
		return "P3/P4", "every iteration consumes input or is counted against the budget"
	}
	return "", ""
}

// countedExit: the loop has an exit edge whose condition compares phi (or its stepped value) with a loop-invariant value in the right direction.
func (c *Ctx) countedExit(phi *ssa.Phi, pi *phiInfo, body map[*ssa.BasicBlock]bool, up bool) bool {
	vals := []ssa.Value{phi}
	vals = append(vals, pi.stepVals...)
	for b := range body {
		ifi, ok := b.Instrs[len(b.Instrs)-1].(*ssa.If)
		if !ok {
			continue
		}
		exits := !body[b.Succs[0]] || !body[b.Succs[1]]
		if !exits {
			continue
		}
		bo, ok := ifi.Cond.(*ssa.BinOp)
		if !ok {
			continue
		}
		for _, v := range vals {
			var other ssa.Value
			if bo.X == v {
				other = bo.Y
			} else if bo.Y == v {
				other = bo.X
			} else {
				continue
			}
			// loop invariant: constant, parameter, or defined outside the loop body and not a memory load inside
			inv := false
			switch o := other.(type) {
			case *ssa.Const, *ssa.Parameter:
				inv = true
			default:
				if oi, ok := o.(ssa.Instruction); ok && !body[oi.Block()] {
					inv = true
				}
			}
			if !inv {
				continue
			}
			switch bo.Op {
			case token.LSS, token.LEQ, token.GTR, token.GEQ:
				return true
			}
		}
	}
	return false
}

// cycleInBody: is there a cycle through header h inside body that avoids all cut blocks?
func cycleInBody(h *ssa.BasicBlock, body map[*ssa.BasicBlock]bool, cut func(*ssa.BasicBlock) bool) bool {
	if cut(h) {
		return false
	}
	seen := map[*ssa.BasicBlock]bool{}
	var st []*ssa.BasicBlock
	for _, s := range h.Succs {
		if body[s] {
			st = append(st, s)
		}
	}
	for len(st) > 0 {
		x := st[len(st)-1]
		st = st[:len(st)-1]
		if x == h {
			return true
		}
		if seen[x] || cut(x) {
			continue
		}
		seen[x] = true
		for _, s := range x.Succs {
			if body[s] {
				st = append(st, s)
			}
		}
	}
	return false
}

// mustCall: every path from the entry of g to a return passes a call of target (directly or
// through a callee for which the same holds).
func mustCall(g, target *ssa.Function, depth int) bool {
	if g == nil || len(g.Blocks) == 0 || depth < 0 || g == target {
		return false
	}
	cut := func(b *ssa.BasicBlock) bool {
		for _, ins := range b.Instrs {
			if call, ok := ins.(ssa.CallInstruction); ok {
				if sc := call.Common().StaticCallee(); sc == target || (sc != nil && sc != g && mustCall(sc, target, depth-1)) {
					return true
				}
			}
		}
		return false
	}
	seen := map[*ssa.BasicBlock]bool{}
	st := []*ssa.BasicBlock{g.Blocks[0]}
	for len(st) > 0 {
		b := st[len(st)-1]
		st = st[:len(st)-1]
		if seen[b] || cut(b) {
			continue
		}
		seen[b] = true
		if _, isRet := b.Instrs[len(b.Instrs)-1].(*ssa.Return); isRet {
			return false
		}
		st = append(st, b.Succs...)
	}
	return true
}

// visitedSetGate: the recursive call at site (callee = f itself) can only be reached after a key
// derived from f's arguments was found absent from a map parameter of f and was then entered
// into it, and the same map is passed on to the callee.
func visitedSetGate(f *ssa.Function, site ssa.CallInstruction) bool {
	com := site.Common()
	for _, vs := range visitedSetPlacesY2(f) {
		pi, p, isSet := vs.pi, vs.p, vs.isSet
		// the same set goes to the callee
		args := com.Args
		if pi >= len(args) || origin(args[pi]) != ssa.Value(p) {
			continue
		}
		// an update seen[k] = … with k depending on a parameter, dominating the call
		for _, b := range f.Blocks {
			for _, ins := range b.Instrs {
				mu, ok := ins.(*ssa.MapUpdate)
				if !ok || !isSet(mu.Map) || !dominatesInstr(mu, site) {
					continue
				}
				if !dependsOnParam(mu.Key, f, p) {
					continue
				}
				// … and a dominating test that the key was absent
				for _, cd := range domConds(site.Block()) {
					lk := lookupOf(cd.v)
					if lk == nil || !isSet(lk.X) || !sameKey(lk.Index, mu.Key) {
						continue
					}
					if !cd.truth {
						return true
					}
				}
			}
		}
	}
	return false
}

// lookupOf: v is the (boolean) result of a map lookup, or the ok flag of a comma-ok lookup.
func lookupOf(v ssa.Value) *ssa.Lookup {
	switch x := v.(type) {
	case *ssa.Lookup:
		return x
	case *ssa.Extract:
		if lk, ok := x.Tuple.(*ssa.Lookup); ok && lk.CommaOk {
			return lk
		}
	}
	return nil
}

func sameKey(a, b ssa.Value) bool {
	if a == b || origin(a) == origin(b) {
		return true
	}
	// two loads of the same local holding the key
	ua, ok1 := a.(*ssa.UnOp)
	ub, ok2 := b.(*ssa.UnOp)
	return ok1 && ok2 && ua.Op == token.MUL && ub.Op == token.MUL && ua.X == ub.X
}

// dependsOnParam: the value is computed from a parameter of f other than skip.
func dependsOnParam(v ssa.Value, f *ssa.Function, skip *ssa.Parameter) bool {
	seen := map[ssa.Value]bool{}
	var walk func(v ssa.Value) bool
	walk = func(v ssa.Value) bool {
		if v == nil || seen[v] {
			return false
		}
		seen[v] = true
		if p, ok := v.(*ssa.Parameter); ok {
			return p != skip && p.Parent() == f
		}
		if u, ok := v.(*ssa.UnOp); ok && u.Op == token.MUL {
			// a local: what was stored into it
			if al, ok := u.X.(*ssa.Alloc); ok {
				for _, r := range *al.Referrers() {
					switch r := r.(type) {
					case *ssa.Store:
						if r.Addr == ssa.Value(al) && walk(r.Val) {
							return true
						}
					case *ssa.FieldAddr:
						for _, rr := range *r.Referrers() {
							if st, ok := rr.(*ssa.Store); ok && st.Addr == ssa.Value(r) && walk(st.Val) {
								return true
							}
						}
					}
				}
			}
		}
		if ins, ok := v.(ssa.Instruction); ok {
			for _, op := range ins.Operands(nil) {
				if *op != nil && walk(*op) {
					return true
				}
			}
		}
		return false
	}
	return walk(v)
}

// nonNilOnEdge: control takes the edge pred → succ only when v != nil was tested (the test ends
// pred, or dominates it).
func nonNilOnEdge(v ssa.Value, pred, succ *ssa.BasicBlock) bool {
	isNilTest := func(cv ssa.Value, truth bool) bool {
		bo, ok := cv.(*ssa.BinOp)
		if !ok || (bo.Op != token.EQL && bo.Op != token.NEQ) {
			return false
		}
		var other ssa.Value
		switch {
		case bo.X == v:
			other = bo.Y
		case bo.Y == v:
			other = bo.X
		default:
			return false
		}
		if !isNilConst(other) {
			return false
		}
		// v != nil holds when (v == nil) is false or (v != nil) is true
		return (bo.Op == token.EQL) != truth
	}
	if ifi, ok := pred.Instrs[len(pred.Instrs)-1].(*ssa.If); ok && pred.Succs[0] != pred.Succs[1] {
		if isNilTest(ifi.Cond, pred.Succs[0] == succ) {
			return true
		}
	}
	for _, cd := range domConds(pred) {
		if isNilTest(cd.v, cd.truth) {
			return true
		}
	}
	return false
}

// depthGateFn: the function that holds the execution-depth gate (the guarded increment of the
// depth counter) and the block of the increment.
func (c *Ctx) depthGateFn(ia *interpAnchors) *ssa.Function {
	f, _ := c.depthGate(ia)
	return f
}

var depthGateCache struct {
	c  *Ctx
	f  *ssa.Function
	b  *ssa.BasicBlock
	ok bool
}

func (c *Ctx) depthGate(ia *interpAnchors) (*ssa.Function, *ssa.BasicBlock) {
	if depthGateCache.ok && depthGateCache.c == c {
		return depthGateCache.f, depthGateCache.b
	}
	var gf *ssa.Function
	var gb *ssa.BasicBlock
	defer func() {
		depthGateCache.c, depthGateCache.f, depthGateCache.b, depthGateCache.ok = c, gf, gb, true
	}()
	for _, fn := range c.modFuncs {
		eachInstr(fn, func(ins ssa.Instruction) {
			if st, ok := ins.(*ssa.Store); ok && isFieldAddr(st.Addr, ia.T, c.fld("intp.execDepth")) {
				if bo, ok := st.Val.(*ssa.BinOp); ok && bo.Op == token.ADD {
					gf, gb = fn, st.Block()
				}
			}
		})
	}
	return gf, gb
}

// extendsGate: h is a part of the gate function that was split off: every use of h is a static
// call from the gate function; returns that call (nil otherwise).
func (c *Ctx) extendsGate(ia *interpAnchors, h *ssa.Function) *ssa.Call {
	g := c.depthGateFn(ia)
	if g == nil || h == g || h == nil {
		return nil
	}
	sites := staticCallSites(h)
	if len(sites) != 1 || sites[0].Parent() != g {
		return nil
	}
	return sites[0]
}

// frameGated: the call e.site is made by a frame that has passed the depth gate: in the gate
// function it cannot be reached from the entry without passing the increment; in a split-off part
// it can only be reached with a boolean parameter true that the gate function forwards unchanged,
// and with that parameter true the gate function cannot reach its call of the part without
// passing the increment.
func (c *Ctx) frameGated(ia *interpAnchors, e cgEdge) (string, bool) {
	g, gate := c.depthGate(ia)
	if g == nil || e.site == nil {
		return "", false
	}
	target := e.site.Block()
	if e.from == g {
		q := &pathQuery{fn: g, isTarget: func(b *ssa.BasicBlock) bool { return b == target }, avoid: func(b *ssa.BasicBlock) bool { return b == gate }}
		if !q.search() {
			return "the calling frame has passed the execution-depth gate (path-sensitive search, rule L3 of C11)", true
		}
		return "", false
	}
	call := c.extendsGate(ia, e.from)
	if call == nil {
		return "", false
	}
	h := e.from
	for i, hp := range h.Params {
		if b, ok := hp.Type().Underlying().(*types.Basic); !ok || b.Kind() != types.Bool {
			continue
		}
		if i >= len(call.Call.Args) {
			continue
		}
		gp, ok := call.Call.Args[i].(*ssa.Parameter)
		if !ok || gp.Parent() != g {
			continue
		}
		// with the flag false the site is unreachable in the part …
		q1 := &pathQuery{fn: h, isTarget: func(b *ssa.BasicBlock) bool { return b == target }, initBools: map[ssa.Value]bool{hp: false}}
		if q1.search() {
			continue
		}
		// … and with the flag true the gate function passes the increment before entering the part
		cb := call.Block()
		q2 := &pathQuery{fn: g, isTarget: func(b *ssa.BasicBlock) bool { return b == cb }, avoid: func(b *ssa.BasicBlock) bool { return b == gate }, initBools: map[ssa.Value]bool{gp: true}}
		if !q2.search() {
			return "the calling frame has passed the execution-depth gate: the call is reachable only with the flag " + hp.Name() + " set, under which the function holding the gate increments the depth before entering this part of it", true
		}
	}
	// the part is entered only behind the gate whatever the flags are
	cb := call.Block()
	q := &pathQuery{fn: g, isTarget: func(b *ssa.BasicBlock) bool { return b == cb }, avoid: func(b *ssa.BasicBlock) bool { return b == gate }}
	if !q.search() {
		return "the calling frame has passed the execution-depth gate (the part is entered only behind it)", true
	}
	return "", false
}

// yieldedElementOf: p is the element parameter of the function that go/ssa makes of the body of a
// `for … := range slices.Backward(X)` (or slices.All, slices.Values) loop; returns X.
func yieldedElementOf(p *ssa.Parameter) ssa.Value {
	fn := p.Parent()
	par := fn.Parent()
	if par == nil {
		return nil
	}
	for _, b := range par.Blocks {
		for _, ins := range b.Instrs {
			call, ok := ins.(*ssa.Call)
			if !ok || len(call.Call.Args) != 1 {
				continue
			}
			mc, ok := call.Call.Args[0].(*ssa.MakeClosure)
			if !ok || mc.Fn != ssa.Value(fn) {
				continue
			}
			// the iterator that is called with the body: the result of slices.Backward(X) …
			it, ok := call.Call.Value.(*ssa.Call)
			if !ok {
				continue
			}
			sc := it.Call.StaticCallee()
			if sc == nil || len(it.Call.Args) != 1 {
				continue
			}
			if o := sc.Origin(); o != nil {
				sc = o
			}
			elemIdx := -1
			switch calleeName(sc) {
			case "slices.Backward", "slices.All":
				elemIdx = 1
			case "slices.Values":
				elemIdx = 0
			}
			if elemIdx < 0 || elemIdx >= len(fn.Params) || fn.Params[elemIdx] != p {
				continue
			}
			return it.Call.Args[0]
		}
	}
	return nil
}
