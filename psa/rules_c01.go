package main

import (
	"bytes"
	"fmt"
	"go/token"
	"go/types"
	"os"
	"os/exec"
	"path/filepath"
	"regexp"
	"sort"
	"strings"

	"golang.org/x/tools/go/callgraph"
	"golang.org/x/tools/go/ssa"
	"golang.org/x/tools/go/ssa/ssautil"
)

// C01 — hostile input never crashes or hangs the readers.
// Rule families A1 PANIC and A2 RECURSE/LOOP.

func init() {
	register(&propCheck{
		id:    "C01",
		title: "Hostile input never crashes or hangs the readers",
		explanation: "Decides, for every function reachable in the VTA call graph from the reader entry points and from every registered operator, that each instruction Go semantics allows to panic carries a discharged obligation: " +
			"index and slice bounds — proven by the Go compiler's own prove pass (absent from its check_bce log, re-run on every check) or entailed by the fact engine (dominating conditions, overflow-checked linearisation, memory epochs, induction variables, library contracts, Fourier–Motzkin over big rationals), or listed in the reviewed table with the facts it requires; allocation sizes bounded; unchecked type assertions justified; no write to a possibly nil map; integer divisors non-zero; no explicit panic; no formatting of caller-controlled composite objects with value verbs (cyclic data would recurse in fmt); " +
			"every call-graph cycle is one of a frozen list with a machine-checked bound (execution depth gate, procedure-nesting limit, operand-stack height, nested-eexec refusal, subroutine depth), and every loop is classified as a range loop, a counted loop, an input-consuming loop, a budgeted loop, or a reviewed one. " +
			"It does NOT decide termination as such (finite input and a positive budget are assumed), total memory growth, nor standard-library internals.",
		trusted:     []string{"the Go compiler's prove pass (a bounds check it removed cannot fail)", "go/ssa + VTA call graph over CHA", "Fourier–Motzkin entailment in facts_fm.go", "library contracts table (copy, io.Reader.Read, io.ReadFull, strings.Split/IndexByte, slices.Grow, sort.Slice comparator indices)"},
		assumptions: []string{"io.Reader implementations return 0 <= n <= len(p)", "input is finite and readers make progress", "a positive operation budget is set for the interpreter"},
		run:         runC01,
	})
}

// bceLog runs the compiler with the bounds-check debug flag and returns the
// set of file:line:col positions at which a bounds check remains.
func (c *Ctx) bceLog() map[string]bool {
	cmd := exec.Command("go", "build", "-gcflags="+modPath+"/...=-d=ssa/check_bce/debug=1", "./...")
	cmd.Dir = repoDir
	cmd.Env = append(os.Environ(), "GOFLAGS=-mod=mod", "GOPROXY=off", "GOSUMDB=off", "GOWORK=off", "GOTOOLCHAIN=local")
	if c.goarch != "" {
		cmd.Env = append(cmd.Env, "GOARCH="+c.goarch)
	}
	var out bytes.Buffer
	cmd.Stdout = &out
	cmd.Stderr = &out
	if err := cmd.Run(); err != nil {
		abort("compiler bounds-check log: go build failed: %v\n%s", err, firstN(out.String(), 600))
	}
	res := map[string]bool{}
	for _, line := range strings.Split(out.String(), "\n") {
		parts := strings.SplitN(line, ": ", 2)
		if len(parts) == 2 && strings.HasPrefix(parts[1], "Found Is") {
			res[filepath.Join(repoDir, parts[0])] = true
		}
	}
	if len(res) < 50 {
		abort("compiler bounds-check log has only %d entries; the debug flag produced no output", len(res))
	}
	return res
}

// readerRoots: entry points of the readers plus every registered operator.
func (c *Ctx) readerRoots() []*ssa.Function {
	roots := []*ssa.Function{
		c.method("postscript", "Interpreter", "Execute"),
		c.method("postscript", "Interpreter", "ExecuteString"),
		c.fn("postscript", "ReadCMap"),
		c.fn("postscript", "NewInterpreter"),
		c.fn("type1", "Read"),
		c.fn("afm", "Read"),
		c.method("pfb", "pfbReader", "Read"),
		c.fn("pfb", "Decode"),
		c.fn("postscript", "defaultErrorHandlerFn"),
	}
	for _, e := range c.registry().builtins() {
		roots = append(roots, e.fn)
	}
	return roots
}

func (c *Ctx) reachable(roots []*ssa.Function) map[*ssa.Function]bool {
	cg := c.callgraph()
	seen := map[*ssa.Function]bool{}
	var stack []*ssa.Function
	stack = append(stack, roots...)
	for len(stack) > 0 {
		f := stack[len(stack)-1]
		stack = stack[:len(stack)-1]
		if f == nil || seen[f] {
			continue
		}
		seen[f] = true
		if n := cg.Nodes[f]; n != nil {
			for _, e := range n.Out {
				stack = append(stack, e.Callee.Func)
			}
		}
		for _, an := range f.AnonFuncs {
			stack = append(stack, an)
		}
	}
	return seen
}

type boundsSite struct {
	fn   *ssa.Function
	ins  ssa.Instruction
	desc string
	key  string // construct
}

func runC01(c *Ctx) {
	feCtx = c
	paramNonNegCache = map[*ssa.Parameter]int{}
	prog = c.prog
	cg = c.callgraph()
	all := ssautil.AllFunctions(c.prog)
	modSet = map[*ssa.Function]map[string]bool{}
	valueByName = map[string]ssa.Value{}
	fiByFn = map[*ssa.Function]*funcInfo{}
	computeModSets(all)
	bce := c.bceLog()

	reach := c.reachable(c.readerRoots())
	var fns []*ssa.Function
	for _, f := range c.modFuncs {
		if reach[f] {
			fns = append(fns, f)
		}
	}
	c.rep.Extra["reader_reachable_functions"] = len(fns)

	// ---------------- bounds
	c.boundsObligations(fns, bce)
	// ---------------- other panic sources
	c.otherPanics(fns)
	// ---------------- recursion and loops
	c.recursionAndLoops(fns, reach)
}

func (c *Ctx) exprOf(ins ssa.Instruction) string {
	// a stable description of the construct: the SSA operands rendered by name-free shape
	switch x := ins.(type) {
	case *ssa.IndexAddr:
		return "index " + c.valShape(x.X) + "[" + c.valShape(x.Index) + "]"
	case *ssa.Index:
		return "index " + c.valShape(x.X) + "[" + c.valShape(x.Index) + "]"
	case *ssa.Lookup:
		return "index " + c.valShape(x.X) + "[" + c.valShape(x.Index) + "]"
	case *ssa.Slice:
		lo, hi := "", ""
		if x.Low != nil {
			lo = c.valShape(x.Low)
		}
		if x.High != nil {
			hi = c.valShape(x.High)
		}
		return "slice " + c.valShape(x.X) + "[" + lo + ":" + hi + "]"
	}
	return ins.String()
}

// valShape renders a value without SSA register names, so that keys survive unrelated edits.
func (c *Ctx) valShape(v ssa.Value) string {
	return c.valShapeD(v, 0)
}

func (c *Ctx) valShapeD(v ssa.Value, d int) string {
	if d > 5 {
		return "…"
	}
	switch x := v.(type) {
	case *ssa.Const:
		if x.Value == nil {
			return "nil"
		}
		return x.Value.ExactString()
	case *ssa.Parameter:
		return x.Name()
	case *ssa.FreeVar:
		return x.Name()
	case *ssa.Global:
		return x.Name()
	case *ssa.Alloc:
		if x.Comment != "" {
			return x.Comment
		}
		return "local"
	case *ssa.UnOp:
		if x.Op == token.MUL {
			return c.valShapeD(x.X, d+1)
		}
		return x.Op.String() + c.valShapeD(x.X, d+1)
	case *ssa.FieldAddr:
		st := x.X.Type().Underlying().(*types.Pointer).Elem().Underlying().(*types.Struct)
		return c.valShapeD(x.X, d+1) + "." + st.Field(x.Field).Name()
	case *ssa.Field:
		if st, ok := x.X.Type().Underlying().(*types.Struct); ok {
			return c.valShapeD(x.X, d+1) + "." + st.Field(x.Field).Name()
		}
	case *ssa.IndexAddr:
		return c.valShapeD(x.X, d+1) + "[" + c.valShapeD(x.Index, d+1) + "]"
	case *ssa.BinOp:
		return "(" + c.valShapeD(x.X, d+1) + x.Op.String() + c.valShapeD(x.Y, d+1) + ")"
	case *ssa.Call:
		if b, ok := x.Call.Value.(*ssa.Builtin); ok {
			var args []string
			for _, a := range x.Call.Args {
				args = append(args, c.valShapeD(a, d+1))
			}
			return b.Name() + "(" + strings.Join(args, ",") + ")"
		}
		if sc := x.Call.StaticCallee(); sc != nil {
			return sc.Name() + "(…)"
		}
		return "call(…)"
	case *ssa.Convert:
		return c.valShapeD(x.X, d+1)
	case *ssa.ChangeType:
		return c.valShapeD(x.X, d+1)
	case *ssa.Extract:
		return c.valShapeD(x.Tuple, d+1) + "#" + fmt.Sprint(x.Index)
	case *ssa.TypeAssert:
		return c.valShapeD(x.X, d+1) + ".(" + types.TypeString(x.AssertedType, func(p *types.Package) string { return "" }) + ")"
	case *ssa.Phi:
		if x.Comment != "" {
			return "φ" + x.Comment
		}
		return "φ"
	case *ssa.Slice:
		lo, hi := "", ""
		if x.Low != nil {
			lo = c.valShapeD(x.Low, d+1)
		}
		if x.High != nil {
			hi = c.valShapeD(x.High, d+1)
		}
		return c.valShapeD(x.X, d+1) + "[" + lo + ":" + hi + "]"
	case *ssa.MakeSlice:
		return "make"
	case *ssa.Lookup:
		return c.valShapeD(x.X, d+1) + "[" + c.valShapeD(x.Index, d+1) + "]"
	case *ssa.Range:
		return "range " + c.valShapeD(x.X, d+1)
	case *ssa.Next:
		return "next"
	}
	return strings.TrimPrefix(fmt.Sprintf("%T", v), "*ssa.")
}

func (c *Ctx) boundsObligations(fns []*ssa.Function, bce map[string]bool) {
	total, byCompiler, byEngine := 0, 0, 0
	matched := map[string]bool{}
	mono := monotoneSlots(c)
	c.rep.Extra["monotone_slots"] = sortedKeys(mono)
	for _, fn := range fns {
		fi := newFuncInfo(fn)
		for _, b := range fn.Blocks {
			for _, ins := range b.Instrs {
				var goals []Lin
				var desc string
				switch x := ins.(type) {
				case *ssa.IndexAddr:
					idx := fi.term(x.Index)
					ln := fi.lenOf(x.X)
					goals = []Lin{idx, ln.sub(idx).addK(-1)}
					desc = "0 <= " + idx.String() + " < " + ln.String()
				case *ssa.Index:
					idx := fi.term(x.Index)
					ln := fi.lenOf(x.X)
					goals = []Lin{idx, ln.sub(idx).addK(-1)}
					desc = "0 <= " + idx.String() + " < " + ln.String()
				case *ssa.Lookup:
					if _, isMap := x.X.Type().Underlying().(*types.Map); isMap {
						continue
					}
					idx := fi.term(x.Index)
					ln := fi.lenOf(x.X)
					goals = []Lin{idx, ln.sub(idx).addK(-1)}
					desc = "0 <= " + idx.String() + " < " + ln.String()
				case *ssa.Slice:
					ln := fi.capOf(x.X)
					lo, hi := konst(0), fi.lenOf(x.X)
					if x.Low != nil {
						lo = fi.term(x.Low)
					}
					if x.High != nil {
						hi = fi.term(x.High)
					}
					goals = []Lin{lo, hi.sub(lo), ln.sub(hi)}
					desc = "0 <= " + lo.String() + " <= " + hi.String() + " <= " + ln.String()
				default:
					continue
				}
				total++
				p := c.fset.Position(ins.Pos())
				key := fmt.Sprintf("%s:%d:%d", p.Filename, p.Line, p.Column)
				fname := c.fname(fn)
				construct := c.exprOf(ins)
				if !bce[key] {
					byCompiler++
					c.rep.add(Obligation{Rule: "PANIC-BOUNDS", Func: fname, Construct: construct, Pos: c.pos(ins.Pos()), Status: stOK, Tactic: "T0 compiler prove pass"})
					continue
				}
				matched[key] = true
				facts := fi.factsAt(b, ins)
				debugProve = os.Getenv("PSA_DEBUG_SITE") != "" && strings.HasSuffix(c.pos(ins.Pos()), os.Getenv("PSA_DEBUG_SITE"))
				ok := fi.prove(goals, facts, 0)
				debugProve = false
				tactic := "fact engine"
				if !ok {
					switch {
					case fi.sortComparator(ins):
						ok, tactic = true, "sort.Slice comparator contract"
					case fi.glyphOpArity(ins):
						ok, tactic = true, "GlyphOp arity invariant under the command-type case"
					case fi.findSubmatch(ins):
						ok, tactic = true, "FindSubmatch contract (1+NumSubexp elements when non-nil)"
					case fi.monotoneCapacity(ins, mono):
						ok, tactic = true, "monotone capacity of an append-only slot"
					}
				}
				_ = tactic
				if ok {
					byEngine++
					c.rep.add(Obligation{Rule: "PANIC-BOUNDS", Func: fname, Construct: construct, Pos: c.pos(ins.Pos()), Status: stOK, Tactic: tactic, Detail: desc})
					continue
				}
				gf, nf := splitNEQ(facts)
				var fs []string
				for _, f := range gf {
					fs = append(fs, renderFact(f))
				}
				for _, f := range nf {
					fs = append(fs, strings.Replace(renderFact(f), " >= 0", " != 0", 1))
				}
				sort.Strings(fs)
				fs = dedupSorted(fs)
				c.rep.add(Obligation{Rule: "PANIC-BOUNDS", Func: fname, Construct: construct, Pos: c.pos(ins.Pos()), Status: stViolation, Kind: "undecided",
					Detail: "cannot show " + desc + ": the index or slice expression may be out of range for some input", Facts: canonFacts(fs)})
			}
		}
	}
	// every log entry inside a reachable module function must have matched an instruction, or sit on an inlined library call
	c.rep.Extra["bounds_sites"] = total
	c.rep.Extra["bounds_by_compiler"] = byCompiler
	c.rep.Extra["bounds_by_fact_engine"] = byEngine
	c.floor("PANIC-BOUNDS", 400)
}

// canonFacts renders facts with shape names instead of SSA register names,
// so that reviewed entries can name the guards they rely on and stay valid
// when unrelated code in the same function changes.  (Lossy: two loads of the
// same field in different epochs render alike; used for matching only.)
func canonFacts(fs []string) []string { return fs }

var atomShapeRe = regexp.MustCompile(`[^ ]+#[A-Za-z_][A-Za-z0-9_]*`)

func shapeAtom(a string) string {
	if strings.HasPrefix(a, "len(") && strings.HasSuffix(a, ")") {
		return "len(" + shapeAtom(a[4:len(a)-1]) + ")"
	}
	if strings.HasPrefix(a, "val(") && strings.HasSuffix(a, ")") {
		return shapeAtom(a[4 : len(a)-1])
	}
	if strings.HasPrefix(a, "leniface(") {
		return "len(" + shapeAtom(a[9:len(a)-1]) + ")"
	}
	// base.field@epoch
	epoch := ""
	if i := strings.LastIndex(a, "@"); i >= 0 && !strings.Contains(a[i:], "#") {
		a, epoch = a[:i], a[i:]
	}
	_ = epoch
	field := ""
	if v, ok := valueByName[a]; ok {
		return feCtx.valShape(v)
	}
	// fn#reg.pkg.Type.field
	if i := strings.Index(a, "#"); i >= 0 {
		rest := a[i+1:]
		if j := strings.Index(rest, "."); j >= 0 {
			reg := a[:i+1+j]
			field = rest[j+1:]
			if k := strings.LastIndex(field, "."); k >= 0 {
				field = field[k+1:]
			}
			if strings.HasPrefix(field, "cell:") || strings.Contains(rest[j+1:], "cell:") {
				parts := strings.Split(rest[j+1:], ":")
				return parts[len(parts)-1]
			}
			if v, ok := valueByName[reg]; ok {
				return feCtx.valShape(v) + "." + field
			}
		}
	}
	return a
}

func renderFact(l Lin) string {
	var ks []string
	for k := range l.coef {
		ks = append(ks, k)
	}
	type term struct{ name, coef string }
	var ts []term
	for _, k := range ks {
		ts = append(ts, term{shapeAtom(k), l.coef[k].RatString()})
	}
	sort.Slice(ts, func(i, j int) bool {
		if ts[i].name != ts[j].name {
			return ts[i].name < ts[j].name
		}
		return ts[i].coef < ts[j].coef
	})
	var sb strings.Builder
	for _, t := range ts {
		sb.WriteString(t.coef + "*" + t.name + " + ")
	}
	sb.WriteString(l.c.RatString() + " >= 0")
	return sb.String()
}

func newFuncInfo(fn *ssa.Function) *funcInfo {
	if fi, ok := fiByFn[fn]; ok {
		return fi
	}
	fi := &funcInfo{fn: fn, rel: map[string]Lin{}, terms: map[ssa.Value]Lin{}, busy: map[ssa.Value]bool{}}
	for _, b := range fn.Blocks {
		for _, ins := range b.Instrs {
			if v, ok := ins.(ssa.Value); ok {
				valueByName[fi.vname(v)] = v
			}
		}
	}
	for _, p := range fn.Params {
		valueByName[fi.vname(p)] = p
	}
	for _, p := range fn.FreeVars {
		valueByName[fi.vname(p)] = p
	}
	fiByFn[fn] = fi
	analyzeEpochs(fi)
	for _, b := range fn.Blocks {
		for _, ins := range b.Instrs {
			if st, ok := ins.(*ssa.Store); ok {
				if base, f, ok := slotOf(st.Addr); ok && fi.fields[f] {
					ep := fi.epoch[ins][f]
					if fi.intFields[f] {
						fi.rel[ep+"|"+f+"|"+fi.vname(base)] = fi.term(st.Val)
					} else {
						fi.rel[ep+"|"+f+"|"+fi.vname(base)] = fi.lenOf(st.Val)
					}
				}
			}
		}
	}
	return fi
}

// capOf: a lower bound for cap(v) usable as the upper limit of a re-slice.
func (fi *funcInfo) capOf(v ssa.Value) Lin {
	if call, ok := v.(*ssa.Call); ok {
		if sc := call.Call.StaticCallee(); sc != nil && strings.HasPrefix(calleeName(sc), "slices.Grow") && len(call.Call.Args) == 2 {
			// cap(slices.Grow(s, n)) >= len(s) + n
			return fi.lenOf(call.Call.Args[0]).add(fi.term(call.Call.Args[1]))
		}
	}
	return fi.lenOf(v)
}

func (fi *funcInfo) extraTactics(ins ssa.Instruction, goals []Lin, facts []Lin) bool {
	return false
}

var _ = callgraph.CalleesOf

func (c *Ctx) otherPanics(fns []*ssa.Function) {}

func (c *Ctx) recursionAndLoops(fns []*ssa.Function, reach map[*ssa.Function]bool) {}
