package main

import (
	"go/token"
	"go/types"
	"regexp"
	"sort"
	"strings"

	"golang.org/x/tools/go/ssa"
)

// Unexported struct fields are referred to by role, not by name: a role is resolved to the field
// that has the role's type and, where the type is not unique within the struct, the role's
// structural mark (how the field is written).  Renaming a field therefore changes nothing.

type roleSpec struct {
	pkg, typ string
	prefer   string
	typeStr  string // types.TypeString with package-less qualifier
	mark     func(c *Ctx, tn *types.TypeName, f *types.Var) bool
}

var roleSpecs = map[string]roleSpec{
	"intp.execDepth":      {"postscript", "Interpreter", "execStackDepth", "int", markIncDec},
	"intp.scanners":       {"postscript", "Interpreter", "scanners", "[]*scanner", nil},
	"intp.errors":         {"postscript", "Interpreter", "errors", "[]*postScriptError", nil},
	"intp.procStart":      {"postscript", "Interpreter", "procStart", "[]int", nil},
	"intp.cmapMappings":   {"postscript", "Interpreter", "cmapMappings", "*CMapInfo", nil},
	"scanner.err":         {"postscript", "scanner", "err", "error", nil},
	"scanner.eexec":       {"postscript", "scanner", "eexec", "int", markConstStoresOnly},
	"scanner.r":           {"postscript", "scanner", "r", "uint16", nil},
	"scanner.src":         {"postscript", "scanner", "src", "io.Reader", nil},
	"scanner.buf":         {"postscript", "scanner", "buf", "[]byte", markReadBuffer},
	"scanner.pos":         {"postscript", "scanner", "pos", "int", markBufferCursor},
	"scanner.used":        {"postscript", "scanner", "used", "int", markBufferFill},
	"scanner.peek":        {"postscript", "scanner", "peek", "[]byte", func(c *Ctx, tn *types.TypeName, f *types.Var) bool { return !markReadBuffer(c, tn, f) }},
	"pfb.r":               {"pfb", "pfbReader", "r", "io.Reader", nil},
	"pfb.state":           {"pfb", "pfbReader", "state", "int", nil},
	"pfb.len":             {"pfb", "pfbReader", "len", "int64", nil},
	"pfb.tail":            {"pfb", "pfbReader", "tail", "byte", nil},
	"peekReader.buf":      {"type1", "peekReader", "buf", "[]byte", nil},
	"peekReader.r":        {"type1", "peekReader", "r", "io.Reader", nil},
	"eexecWriter.R":       {"type1", "eexecWriter", "R", "uint16", nil},
	"eexecWriter.buf":     {"type1", "eexecWriter", "buf", "[]byte", nil},
	"eexecWriter.pos":     {"type1", "eexecWriter", "pos", "int", nil},
	"eexecWriter.w":       {"type1", "eexecWriter", "w", "io.Writer", nil},
	"glyphMap.nameToRune": {"names", "glyphMap", "nameToRune", "map[string]map[string][]rune", nil},
	"glyphMap.runeToName": {"names", "glyphMap", "runeToName", "map[rune]string", nil},
}

func relQual(p *types.Package) string {
	if p == nil {
		return ""
	}
	switch p.Path() {
	case "io", "sync":
		return p.Name()
	}
	return ""
}

// fld returns the current name of the field that plays the role.
// fldOpt: like fld, but reports whether the role could be resolved instead of aborting (for rules
// that exist only as long as the representation they describe does).
func (c *Ctx) fldOpt(role string) (name string, ok bool) {
	defer func() {
		if r := recover(); r != nil {
			if _, isAbort := r.(abortCheck); isAbort {
				name, ok = "", false
				return
			}
			panic(r)
		}
	}()
	return c.fld(role), true
}

func (c *Ctx) fld(role string) string {
	if c.roles == nil {
		c.roles = map[string]string{}
	}
	if n, ok := c.roles[role]; ok {
		return n
	}
	spec, ok := roleSpecs[role]
	if !ok {
		abort("unknown field role %s", role)
	}
	tn := c.typeObj(spec.pkg, spec.typ)
	var cands []*types.Var
	owner := map[*types.Var]*types.TypeName{}
	var collect func(t *types.TypeName, depth int)
	collect = func(t *types.TypeName, depth int) {
		st, ok := t.Type().Underlying().(*types.Struct)
		if !ok || depth > 2 {
			return
		}
		for i := 0; i < st.NumFields(); i++ {
			f := st.Field(i)
			if !f.Embedded() && partFieldX4(t.Type(), f) {
				// fields grouped into a small internal type that is held by value in a field of its own
				// (`cipher eexecCipher` with the state `r` inside) are parts of the type as well (ext_x4.go)
				collect(f.Type().(*types.Named).Obj(), depth+1)
				continue
			}
			if f.Embedded() {
				// fields grouped into an unexported struct that is embedded by value are still fields of the type
				if en, ok := f.Type().(*types.Named); ok && en.Obj().Pkg() == t.Pkg() && !en.Obj().Exported() {
					collect(en.Obj(), depth+1)
				}
				continue
			}
			if !c.fieldTypeMatches(spec.pkg, f.Type(), spec.typeStr) {
				// fields grouped into an unexported struct of the package that the type holds by value in
				// an unexported field (`in byteSource`) still are state of the type
				if en, ok := f.Type().(*types.Named); ok && !f.Exported() && en.Obj().Pkg() == t.Pkg() && !en.Obj().Exported() {
					if _, isStruct := en.Underlying().(*types.Struct); isStruct {
						collect(en.Obj(), depth+1)
					}
				}
				continue
			}
			if spec.mark != nil && !spec.mark(c, t, f) {
				continue
			}
			cands = append(cands, f)
			owner[f] = t
		}
	}
	collect(tn, 0)
	name := ""
	switch {
	case len(cands) == 1:
		name = cands[0].Name()
	default:
		for _, f := range cands {
			if f.Name() == spec.prefer {
				name = f.Name()
			}
		}
	}
	if name == "" {
		var l []string
		for _, f := range cands {
			l = append(l, f.Name())
		}
		sort.Strings(l)
		abort("field role %s of %s.%s (type %s) cannot be resolved uniquely: candidates %v", role, spec.pkg, spec.typ, spec.typeStr, l)
	}
	c.roles[role] = name
	for f, t := range owner {
		if f.Name() == name {
			if c.roleOwner == nil {
				c.roleOwner = map[string]*types.TypeName{}
			}
			c.roleOwner[role] = t
		}
	}
	return name
}

// fldOwner: the struct type that declares the field playing the role (the type the role names, or
// an unexported struct embedded in it).
func (c *Ctx) fldOwner(role string) *types.TypeName {
	c.fld(role)
	if t := c.roleOwner[role]; t != nil {
		return t
	}
	spec := roleSpecs[role]
	return c.typeObj(spec.pkg, spec.typ)
}

// fldKey: the fact engine's name for the field playing the role.
func (c *Ctx) fldKey(role string) string {
	return types.TypeString(c.fldOwner(role).Type(), nil) + "." + c.fld(role)
}

func (c *Ctx) storesTo(tn *types.TypeName, f *types.Var, visit func(fn *ssa.Function, st *ssa.Store)) {
	for _, fn := range c.modFuncs {
		fn := fn
		eachInstr(fn, func(ins ssa.Instruction) {
			if st, ok := ins.(*ssa.Store); ok && isFieldAddr(st.Addr, tn, f.Name()) {
				visit(fn, st)
			}
		})
	}
}

// markIncDec: the field is both incremented and decremented by one somewhere in the module.
func markIncDec(c *Ctx, tn *types.TypeName, f *types.Var) bool {
	if f.Exported() {
		return false
	}
	inc, dec := false, false
	c.storesTo(tn, f, func(fn *ssa.Function, st *ssa.Store) {
		if bo, ok := st.Val.(*ssa.BinOp); ok && isFieldLoad(bo.X, tn, f.Name()) {
			if k, isC := constInt(bo.Y); isC && k == 1 {
				if bo.Op == token.ADD {
					inc = true
				}
				if bo.Op == token.SUB {
					dec = true
				}
			}
		}
	})
	return inc && dec
}

// markConstStoresOnly: every store to the field stores a constant (a mode or flag field).
func markConstStoresOnly(c *Ctx, tn *types.TypeName, f *types.Var) bool {
	if f.Exported() {
		return false
	}
	n, all := 0, true
	c.storesTo(tn, f, func(fn *ssa.Function, st *ssa.Store) {
		n++
		if !constOrChoice(st.Val, 0) {
			all = false
		}
	})
	return n > 0 && all
}

// constOrChoice: a constant, or a choice (φ) between such values, possibly through a conversion.
func constOrChoice(v ssa.Value, depth int) bool {
	if depth > 4 {
		return false
	}
	switch x := v.(type) {
	case *ssa.Const:
		return true
	case *ssa.Phi:
		for _, e := range x.Edges {
			if !constOrChoice(e, depth+1) {
				return false
			}
		}
		return true
	case *ssa.Convert:
		return constOrChoice(x.X, depth+1)
	case *ssa.ChangeType:
		return constOrChoice(x.X, depth+1)
	case *ssa.Call:
		// the result of a function of the analysed program every return of which yields such a value
		// (the choice was extracted into a helper)
		callee := x.Call.StaticCallee()
		if callee == nil || len(callee.Blocks) == 0 || callee.Signature.Results().Len() != 1 {
			return false
		}
		n := 0
		for _, r := range returns(callee) {
			if len(r.Results) != 1 || !constOrChoice(r.Results[0], depth+1) {
				return false
			}
			n++
		}
		return n > 0
	}
	return false
}

func markStoredIn(c *Ctx, tn *types.TypeName, f *types.Var, fname string) bool {
	hit := false
	c.storesTo(tn, f, func(fn *ssa.Function, st *ssa.Store) {
		if fn.Name() == fname {
			hit = true
		}
	})
	return hit
}

// markReadBuffer: the field is handed to an io.Reader's Read as the destination.
func markReadBuffer(c *Ctx, tn *types.TypeName, f *types.Var) bool {
	hit := false
	for _, fn := range c.modFuncs {
		eachInstr(fn, func(ins ssa.Instruction) {
			call, ok := ins.(*ssa.Call)
			if !ok || !call.Call.IsInvoke() || call.Call.Method.Name() != "Read" || len(call.Call.Args) != 1 {
				return
			}
			v := origin(call.Call.Args[0])
			if sl, ok := v.(*ssa.Slice); ok {
				v = origin(sl.X)
			}
			if isFieldLoad(v, tn, f.Name()) {
				hit = true
			}
		})
	}
	return hit
}

// fieldTypeMatches: the declared type of a field is the one the role names — literally, after
// mapping renamed types back, or as the underlying basic type of a new unexported named type
// (`eexec int` that became `eexec eexecMode`).
func (c *Ctx) fieldTypeMatches(pkg string, t types.Type, want string) bool {
	have := types.TypeString(t, relQual)
	if have == want {
		return true
	}
	for k, nw := range c.renames().types {
		if strings.HasPrefix(k, pkg+".") {
			have = regexp.MustCompile(`\b`+regexp.QuoteMeta(nw)+`\b`).ReplaceAllString(have, strings.TrimPrefix(k, pkg+"."))
		}
	}
	if have == want {
		return true
	}
	if n, ok := t.(*types.Named); ok && !n.Obj().Exported() {
		if b, ok := n.Underlying().(*types.Basic); ok && b.Name() == want {
			return true
		}
		// likewise a new unexported named type over the same slice or map type (`procStart []int`
		// that became `openBraces braceStack`, with methods for push and pop)
		switch n.Underlying().(type) {
		case *types.Slice, *types.Map:
			if types.TypeString(n.Underlying(), relQual) == want {
				return true
			}
		}
	}
	// a fixed-size array in place of a slice of the same elements (a buffer of constant size)
	if at, ok := t.Underlying().(*types.Array); ok && strings.HasPrefix(want, "[]") {
		if types.TypeString(at.Elem(), relQual) == want[2:] {
			return true
		}
	}
	return false
}

// readBufferField: the field of the struct that plays the read-buffer role.
func readBufferField(c *Ctx, tn *types.TypeName) string {
	st := tn.Type().Underlying().(*types.Struct)
	for i := 0; i < st.NumFields(); i++ {
		f := st.Field(i)
		if types.TypeString(f.Type(), relQual) == "[]byte" && markReadBuffer(c, tn, f) {
			return f.Name()
		}
	}
	return ""
}

// markBufferCursor: the int field that indexes the read buffer (buf[pos]).
func markBufferCursor(c *Ctx, tn *types.TypeName, f *types.Var) bool {
	buf := readBufferField(c, tn)
	if buf == "" || f.Exported() {
		return false
	}
	hit := false
	for _, fn := range c.modFuncs {
		eachInstr(fn, func(ins ssa.Instruction) {
			if ix, ok := ins.(*ssa.IndexAddr); ok && isFieldLoad(origin(ix.X), tn, buf) && isFieldLoad(origin(ix.Index), tn, f.Name()) {
				hit = true
			}
		})
	}
	return hit
}

// markBufferFill: the int field that bounds the filled part of the read buffer (buf[pos:used],
// buf[used:]) and is not the cursor.
func markBufferFill(c *Ctx, tn *types.TypeName, f *types.Var) bool {
	buf := readBufferField(c, tn)
	if buf == "" || f.Exported() || markBufferCursor(c, tn, f) {
		return false
	}
	hit := false
	for _, fn := range c.modFuncs {
		eachInstr(fn, func(ins ssa.Instruction) {
			if sl, ok := ins.(*ssa.Slice); ok && isFieldLoad(origin(sl.X), tn, buf) {
				if sl.High != nil && isFieldLoad(origin(sl.High), tn, f.Name()) || sl.Low != nil && isFieldLoad(origin(sl.Low), tn, f.Name()) {
					hit = true
				}
			}
		})
	}
	return hit
}
