package main

import (
	"fmt"
	"go/token"
	"go/types"

	"golang.org/x/tools/go/ssa"
)

// ---- operators made by a factory (round 6)
//
// A registry entry whose value is the result of a factory call (`wrap("name", func…)`) stands for
// the closure the factory returns, with its free variables bound to the arguments of this call
// (registry.go: regEntry.binds).  One function literal of the factory then serves many keys; the
// operator of a key is the pair (function, bindings).  A rule that evaluates "the operator
// registered under key k" must evaluate the closure with the bindings of k: the wrapper's own code
// (a guard, say) and then the body it was given, in place.

// opBinds returns, for the operator registered under table/key, the values its free variables hold
// (nil for an operator that is not a closure from a factory).
func (r *registry) opBinds(table, key string) []ssa.Value {
	if e := r.byKey[table+"/"+key]; e != nil && e.fn != nil && len(e.fn.FreeVars) == len(e.binds) {
		return e.binds
	}
	return nil
}

// bindFreeVarsY5 makes the free variables of fn known to the evaluation: a captured variable is a
// cell (the free variable is its address) holding the bound value; a free variable captured by
// value is the bound value itself.  Values the registry could not resolve stay unknown, so that a
// branch on them stops the evaluation.
func (e *ssaEval) bindFreeVarsY5(fn *ssa.Function, binds []ssa.Value) {
	if fn == nil || len(binds) != len(fn.FreeVars) {
		return
	}
	if e.bind == nil {
		e.bind = map[ssa.Value]sv{}
	}
	fr := &frame{vals: map[ssa.Value]sv{}}
	for i, fv := range fn.FreeVars {
		if binds[i] == nil {
			continue
		}
		v := e.valueOfBindingY5(fr, binds[i], 0)
		if !v.known() && v.fn == nil {
			continue
		}
		pt, isPtr := fv.Type().Underlying().(*types.Pointer)
		if isPtr && types.Identical(pt.Elem(), binds[i].Type()) {
			cell := fmt.Sprintf("freevar:%s:%d", fn.String(), i)
			e.bind[fv] = sv{k: svAddr, s: cell}
			e.mem[cell] = v
			continue
		}
		e.bind[fv] = v
	}
}

// valueOfBindingY5: a constant, a function, or a closure whose own bindings are such values.
func (e *ssaEval) valueOfBindingY5(fr *frame, b ssa.Value, depth int) sv {
	b = stripConv(b)
	switch x := b.(type) {
	case *ssa.Const, *ssa.Function, *ssa.Global:
		return e.val(fr, x)
	case *ssa.MakeClosure:
		f, _ := x.Fn.(*ssa.Function)
		if f == nil || depth > 2 {
			return sv{}
		}
		name := fmt.Sprintf("closure:%s@%d", f.String(), x.Pos())
		r := sv{k: svSym, s: name, fn: f}
		for i, cb := range x.Bindings {
			cv := cellValue(cb)
			if _, isCell := cb.(*ssa.Alloc); isCell && cv != nil {
				cell := fmt.Sprintf("%s:%d", name, i)
				e.mem[cell] = e.valueOfBindingY5(fr, cv, depth+1)
				r.fv = append(r.fv, sv{k: svAddr, s: cell})
				continue
			}
			if cv == nil {
				r.fv = append(r.fv, sv{})
				continue
			}
			r.fv = append(r.fv, e.valueOfBindingY5(fr, cv, depth+1))
		}
		e.ext().closures[name] = closureB{fn: f, free: r.fv}
		return r
	}
	return sv{}
}

// ---- C18 ISO-SHARED: a factory that is given a function
//
// frozenFuncValueX10 (ext_x10.go) decides that a function value gives no access to mutable memory.
// For the result of a factory call it looks at what the factory returns; where that closure
// captures a parameter of the factory that is itself a function (`cmapOp(name, body)`: a guard, then
// body), the captured value is, for the call under consideration, the argument of that call.  The
// stack below holds the calls being looked into, innermost last; a parameter is resolved in the
// innermost call of its function, and its argument is then judged in the context outside that call.

type factoryCallY5 struct {
	callee *ssa.Function
	args   []ssa.Value
}

var factoryCallsY5 []factoryCallY5

func pushFactoryArgsY5(callee *ssa.Function, args []ssa.Value) (pop func()) {
	factoryCallsY5 = append(factoryCallsY5, factoryCallY5{callee, args})
	n := len(factoryCallsY5)
	return func() { factoryCallsY5 = factoryCallsY5[:n-1] }
}

// factoryArgY5: the argument bound to parameter p in the innermost call of p's function that is
// being looked into.  outer() switches to the context of that call's caller and returns the
// function that switches back.
func factoryArgY5(p *ssa.Parameter) (arg ssa.Value, outer func() func(), ok bool) {
	for k := len(factoryCallsY5) - 1; k >= 0; k-- {
		fc := factoryCallsY5[k]
		if fc.callee != p.Parent() {
			continue
		}
		for i, q := range fc.callee.Params {
			if q == p && i < len(fc.args) {
				k := k
				return fc.args[i], func() func() {
					saved := factoryCallsY5
					factoryCallsY5 = append([]factoryCallY5(nil), saved[:k]...)
					return func() { factoryCallsY5 = saved }
				}, true
			}
		}
	}
	return nil, nil, false
}

// ---- package-level records of constants and functions
//
// constRecordY5: g is an unexported package-level variable of the module of struct type that holds
// its initial value at all times: every store lies in the package initialiser and puts a constant
// or a top-level function into one field (each field at most once), and everywhere else the
// variable is only read (loaded as a whole, or a field of it loaded).  The value is then the
// record of these field values (zero values where the initialiser stores nothing); a load of it is
// a load of that record, whatever it is named (`dstInteger = dstKind{accepts: isInteger, …}`
// replacing a written-out test).
func (c *Ctx) constRecordY5(g *ssa.Global) (fields []ssa.Value, ok bool) {
	if r, done := c.constRecordsY5()[g]; done {
		return r, r != nil
	}
	return nil, false
}

var constRecordsCacheY5 = map[*Ctx]map[*ssa.Global][]ssa.Value{}

func (c *Ctx) constRecordsY5() map[*ssa.Global][]ssa.Value {
	if m, ok := constRecordsCacheY5[c]; ok {
		return m
	}
	out := map[*ssa.Global][]ssa.Value{}
	bad := map[*ssa.Global]bool{}
	stored := map[*ssa.Global]bool{}
	cand := func(g *ssa.Global) *types.Struct {
		if g.Pkg == nil || g.Object() == nil || g.Object().Exported() {
			return nil
		}
		st, _ := g.Type().(*types.Pointer).Elem().Underlying().(*types.Struct)
		return st
	}
	onlyLoaded := func(v ssa.Value) bool {
		for _, r := range *v.Referrers() {
			switch r := r.(type) {
			case *ssa.DebugRef:
			case *ssa.UnOp:
				if r.Op != token.MUL {
					return false
				}
			default:
				return false
			}
		}
		return true
	}
	for _, fn := range c.modFuncs {
		inInit := isInitFunc(fn) && fn.Parent() == nil
		for _, b := range fn.Blocks {
			for _, ins := range b.Instrs {
				for _, op := range ins.Operands(nil) {
					g, isG := (*op).(*ssa.Global)
					if !isG || bad[g] {
						continue
					}
					st := cand(g)
					if st == nil || (inInit && fn.Pkg != g.Pkg) {
						bad[g] = true
						continue
					}
					if out[g] == nil {
						out[g] = make([]ssa.Value, st.NumFields())
					}
					okUse := false
					switch x := ins.(type) {
					case *ssa.DebugRef:
						okUse = true
					case *ssa.UnOp:
						okUse = x.Op == token.MUL
					case *ssa.Store:
						// g = T{f: v, …}: the composite literal is built in a local of its own and copied
						if ld, isLd := x.Val.(*ssa.UnOp); inInit && x.Addr == ssa.Value(g) && isLd && ld.Op == token.MUL && !stored[g] {
							if tmp, isTmp := ld.X.(*ssa.Alloc); isTmp && !tmp.Heap {
								if fv, ok := literalFieldsY5(tmp, ld, st.NumFields()); ok {
									out[g], stored[g], okUse = fv, true, true
								}
							}
						}
					case *ssa.FieldAddr:
						if x.X != ssa.Value(g) {
							break
						}
						if stored[g] && inInit {
							break
						}
						if !inInit {
							okUse = onlyLoaded(x)
							break
						}
						okUse = true
						for _, r := range *x.Referrers() {
							switch r := r.(type) {
							case *ssa.DebugRef:
							case *ssa.UnOp:
								okUse = okUse && r.Op == token.MUL
							case *ssa.Store:
								v := r.Val
								if ct, isCT := v.(*ssa.ChangeType); isCT {
									v = ct.X
								}
								if r.Addr != ssa.Value(x) || out[g][x.Field] != nil || !constOrFuncY5(v) {
									okUse = false
									break
								}
								out[g][x.Field] = v
							default:
								okUse = false
							}
						}
					}
					if !okUse {
						bad[g] = true
					}
				}
			}
		}
	}
	for g := range bad {
		out[g] = nil
	}
	constRecordsCacheY5[c] = out
	return out
}

// loadConstRecordY5: the value of a load of a constant record (constRecordY5), or of one field of it.
func (e *ssaEval) loadConstRecordY5(ld *ssa.UnOp) (sv, bool) {
	fr := &frame{vals: map[ssa.Value]sv{}}
	fieldVal := func(st *types.Struct, fields []ssa.Value, i int) sv {
		if fields[i] != nil {
			return e.val(fr, fields[i])
		}
		return e.val(fr, ssa.NewConst(nil, st.Field(i).Type()))
	}
	switch a := ld.X.(type) {
	case *ssa.Global:
		fields, ok := e.c.constRecordY5(a)
		if !ok {
			return sv{}, false
		}
		st := a.Type().(*types.Pointer).Elem().Underlying().(*types.Struct)
		r := sv{k: svStruct, s: "record:" + a.Name()}
		for i := range fields {
			r.args = append(r.args, sv{k: svString, s: st.Field(i).Name()})
			r.tup = append(r.tup, fieldVal(st, fields, i))
		}
		return r, true
	case *ssa.FieldAddr:
		g, isG := a.X.(*ssa.Global)
		if !isG {
			return sv{}, false
		}
		fields, ok := e.c.constRecordY5(g)
		if !ok {
			return sv{}, false
		}
		st := g.Type().(*types.Pointer).Elem().Underlying().(*types.Struct)
		v := fieldVal(st, fields, a.Field)
		return v, v.known() || v.fn != nil
	}
	return sv{}, false
}

func constOrFuncY5(v ssa.Value) bool {
	if _, isConst := v.(*ssa.Const); isConst {
		return true
	}
	f, isFn := v.(*ssa.Function)
	return isFn && f.Parent() == nil && len(f.FreeVars) == 0
}

// literalFieldsY5: tmp is the local a composite literal is built in: its fields are stored once
// each with a constant or a top-level function, and it is read once, by the load ld.
func literalFieldsY5(tmp *ssa.Alloc, ld *ssa.UnOp, n int) ([]ssa.Value, bool) {
	out := make([]ssa.Value, n)
	for _, r := range *tmp.Referrers() {
		switch r := r.(type) {
		case *ssa.DebugRef:
		case *ssa.UnOp:
			if r != ld {
				return nil, false
			}
		case *ssa.FieldAddr:
			for _, rr := range *r.Referrers() {
				switch rr := rr.(type) {
				case *ssa.DebugRef:
				case *ssa.Store:
					v := rr.Val
					if ct, isCT := v.(*ssa.ChangeType); isCT {
						v = ct.X
					}
					if rr.Addr != ssa.Value(r) || r.Field >= n || out[r.Field] != nil || !constOrFuncY5(v) || rr.Block() != ld.Block() {
						return nil, false
					}
					out[r.Field] = v
				default:
					return nil, false
				}
			}
		default:
			return nil, false
		}
	}
	return out, true
}

// ---- package-level tables of functions
//
// funcTableLookupY5: the value of a look-up with a known string key in a package-level map of the
// module that holds its initial contents at all times (globalMapContents: assigned once, in the
// package initialiser, never updated; and here: every load of the variable is only looked up in,
// ranged over or measured, so no alias of the map exists) and whose entries are top-level functions
// or constants: the entry bound to the key, or the zero value and "absent".  A dispatch table
// `checks[class]` replacing `switch class { case "CMap": … }` evaluates to the same function.
func (e *ssaEval) funcTableLookupY5(x *ssa.Lookup, k sv) (sv, bool) {
	g := globalLoad(x.X)
	if g == nil || k.k != svString || !e.c.inModule(g.Pkg.Func("init")) {
		return sv{}, false
	}
	mt, isMap := g.Type().(*types.Pointer).Elem().Underlying().(*types.Map)
	if !isMap {
		return sv{}, false
	}
	if kb, isB := mt.Key().Underlying().(*types.Basic); !isB || kb.Info()&types.IsString == 0 {
		return sv{}, false
	}
	mc := e.c.globalMapContents(g)
	if mc == nil || len(mc.open) != 0 || !e.c.onlyLookedUpY5(g) {
		return sv{}, false
	}
	fr := &frame{vals: map[ssa.Value]sv{}}
	var r sv
	found := false
	if b := mc.by[k.s]; b != nil {
		v := stripConv(b.val)
		if v == nil || !constOrFuncY5(v) {
			return sv{}, false
		}
		r, found = e.val(fr, v), true
	} else {
		r = sv{k: svNil}
		if _, isSig := mt.Elem().Underlying().(*types.Signature); !isSig {
			z, ok := aZeroSV(mt.Elem())
			if !ok {
				return sv{}, false
			}
			r = z
		}
	}
	if x.CommaOk {
		return sv{k: svTuple, tup: []sv{r, boolV(found)}}, true
	}
	return r, true
}

var onlyLookedUpCacheY5 = map[*ssa.Global]bool{}

// onlyLookedUpY5: outside the package initialiser every use of g is a load whose value is looked
// up in, ranged over or measured; the initialiser only stores the map it builds.
func (c *Ctx) onlyLookedUpY5(g *ssa.Global) bool {
	if r, ok := onlyLookedUpCacheY5[g]; ok {
		return r
	}
	good := true
	for _, fn := range c.modFuncs {
		for _, b := range fn.Blocks {
			for _, ins := range b.Instrs {
				uses := false
				for _, op := range ins.Operands(nil) {
					if *op == ssa.Value(g) {
						uses = true
					}
				}
				if !uses {
					continue
				}
				switch x := ins.(type) {
				case *ssa.DebugRef:
				case *ssa.Store:
					if x.Addr != ssa.Value(g) || !isInitFunc(fn) {
						good = false
					}
				case *ssa.UnOp:
					if x.Op != token.MUL {
						good = false
						break
					}
					for _, r := range *x.Referrers() {
						switch y := r.(type) {
						case *ssa.Lookup:
							if y.X != ssa.Value(x) {
								good = false
							}
						case *ssa.Range, *ssa.DebugRef:
						case *ssa.Call:
							if b, isB := y.Call.Value.(*ssa.Builtin); !isB || b.Name() != "len" {
								good = false
							}
						default:
							good = false
						}
					}
				default:
					good = false
				}
			}
		}
	}
	onlyLookedUpCacheY5[g] = good
	return good
}

// mutexStructY5: t is a named struct type of which one field is a mutex; the type.
func mutexStructY5(t types.Type) *types.Named {
	if n, ok := t.(*types.Named); ok && structHasMutex(n) {
		return n
	}
	return nil
}
