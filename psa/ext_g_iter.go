package main

import (
	"go/types"
	"strings"

	"golang.org/x/tools/go/ssa"
)

// A loop body that is a function: the body of a range-over-func statement (go/ssa makes it a
// synthetic closure that is handed to the iterator), or a closure handed to an `each` helper.
// The body runs where the receiving function calls the parameter it was bound to.

type bodySiteG struct {
	site   ssa.CallInstruction // the call of the body inside the driver (iterator / each helper)
	driver *ssa.Function       // the function that contains site
	invoke ssa.CallInstruction // where the body was handed to the driver
	lib    string              // driver outside the module: its qualified name …
	libArg []ssa.Value         // … and the arguments it was made from
}

// closureReturnedG: the functions whose closures a module function returns (an iterator
// constructor returns its iterator).
func closureReturnedG(h *ssa.Function) []*ssa.Function {
	var out []*ssa.Function
	for _, r := range returns(h) {
		for _, v := range r.Results {
			switch x := origin(v).(type) {
			case *ssa.MakeClosure:
				if g, ok := x.Fn.(*ssa.Function); ok {
					out = append(out, g)
				}
			case *ssa.Function:
				out = append(out, x)
			}
		}
	}
	return out
}

// bodySitesG: for a function fn that is used as a value handed to another function, the calls
// through which it runs.  ok is false if some use of fn as a value cannot be followed.
func (c *Ctx) bodySitesG(fn *ssa.Function) (sites []bodySiteG, ok bool) {
	ok = true
	parent := fn.Parent()
	if parent == nil {
		return nil, true
	}
	var visit func(f *ssa.Function)
	seenF := map[*ssa.Function]bool{}
	handed := func(user ssa.CallInstruction, idx int) {
		cc := user.Common()
		if cc.IsInvoke() {
			ok = false
			return
		}
		var drivers []*ssa.Function
		switch v := origin(cc.Value).(type) {
		case *ssa.Function:
			drivers = []*ssa.Function{v}
		case *ssa.MakeClosure:
			if g, isF := v.Fn.(*ssa.Function); isF {
				drivers = []*ssa.Function{g}
			}
		case *ssa.Call:
			// the value called is the result of a constructor: h(args)(body)
			h := v.Common().StaticCallee()
			switch {
			case h == nil:
				ok = false
			case !c.inModule(h) || len(h.Blocks) == 0:
				sites = append(sites, bodySiteG{invoke: user, lib: callName(v), libArg: v.Common().Args})
			default:
				drivers = closureReturnedG(h)
				if len(drivers) == 0 {
					ok = false
				}
			}
		default:
			ok = false
			return
		}
		for _, g := range drivers {
			if !c.inModule(g) || len(g.Blocks) == 0 {
				sites = append(sites, bodySiteG{invoke: user, lib: g.String()})
				continue
			}
			if idx >= len(g.Params) {
				ok = false
				continue
			}
			p := g.Params[idx]
			for _, r := range *p.Referrers() {
				call, isCall := r.(ssa.CallInstruction)
				if isCall && call.Common().Value == p {
					sites = append(sites, bodySiteG{site: call, driver: g, invoke: user})
					continue
				}
				if _, isDbg := r.(*ssa.DebugRef); isDbg {
					continue
				}
				ok = false // the body is stored or passed on
			}
		}
	}
	visit = func(f *ssa.Function) {
		if seenF[f] {
			return
		}
		seenF[f] = true
		eachInstr(f, func(ins ssa.Instruction) {
			mc, isMC := ins.(*ssa.MakeClosure)
			var val ssa.Value
			if isMC && mc.Fn == fn {
				val = mc
			}
			if val == nil {
				return
			}
			for _, r := range *val.Referrers() {
				switch u := r.(type) {
				case ssa.CallInstruction:
					found := false
					for i, a := range u.Common().Args {
						if a == val {
							handed(u, i)
							found = true
						}
					}
					if !found && u.Common().Value != val {
						ok = false
					}
				case *ssa.DebugRef:
				case *ssa.Store:
					// a named local function (`write := func…`): called through the cell, which
					// the static resolution of the callers handles
				default:
					ok = false
				}
			}
		})
		for _, an := range f.AnonFuncs {
			visit(an)
		}
	}
	visit(parent)
	return sites, ok
}

// rangeFuncStateG: v is a load of the state variable go/ssa introduces for a range-over-func
// statement (`jump$N`: which way the loop body was left).  `$` cannot occur in an identifier of
// the program.
func rangeFuncStateG(v ssa.Value) bool {
	u, ok := v.(*ssa.UnOp)
	if !ok {
		return false
	}
	switch x := u.X.(type) {
	case *ssa.Alloc:
		return strings.HasPrefix(x.Comment, "jump$")
	case *ssa.FreeVar:
		return strings.HasPrefix(x.Name(), "jump$")
	}
	return false
}

// funcsOfGlobalG: v is the value of a package-level variable of function type that is only
// assigned by its initialiser; the functions a call of it runs: the function or closure stored,
// or — for the once-and-cache wrappers of package sync (OnceFunc, OnceValue, OnceValues: "returns
// a function that invokes f only once and returns the value(s) returned by f") — the function
// handed to the wrapper.
func (c *Ctx) funcsOfGlobalG(v ssa.Value) []*ssa.Function {
	g := globalLoad(v)
	if g == nil || g.Pkg == nil {
		return nil
	}
	if _, isFn := g.Type().(*types.Pointer).Elem().Underlying().(*types.Signature); !isFn {
		return nil
	}
	var out []*ssa.Function
	fnOf := func(x ssa.Value) *ssa.Function {
		switch y := origin(x).(type) {
		case *ssa.Function:
			return y
		case *ssa.MakeClosure:
			f, _ := y.Fn.(*ssa.Function)
			return f
		}
		return nil
	}
	for _, m := range g.Pkg.Members {
		f, ok := m.(*ssa.Function)
		if !ok {
			continue
		}
		var visit func(f *ssa.Function)
		visit = func(f *ssa.Function) {
			eachInstr(f, func(ins ssa.Instruction) {
				st, ok := ins.(*ssa.Store)
				if !ok || st.Addr != g {
					return
				}
				if h := fnOf(st.Val); h != nil {
					out = append(out, h)
					return
				}
				if call, ok := origin(st.Val).(*ssa.Call); ok {
					switch n := callName(call); {
					case strings.HasPrefix(n, "sync.OnceFunc"), strings.HasPrefix(n, "sync.OnceValue"):
						if len(call.Call.Args) == 1 {
							if h := fnOf(call.Call.Args[0]); h != nil {
								out = append(out, h)
							}
						}
					}
				}
			})
			for _, an := range f.AnonFuncs {
				visit(an)
			}
		}
		visit(f)
	}
	return out
}
