package main

import (
	"fmt"
	"go/ast"
	"go/token"
	"go/types"
	"strings"

	"golang.org/x/tools/go/packages"
	"golang.org/x/tools/go/types/typeutil"
)

// C17 — determinism.  Rule family A15 DETERM.
//
//   DET-MAPRANGE  every `range` over a map has an order-independent body
//   DET-COLLECT   a slice collected from a map (maps.Keys/Values, or appended
//                 in a map range) is totally sorted before any order-dependent use
//   DET-SOURCE    no call of a wall-clock / random / pid / address source
//   DET-INPUT     serialisers and query methods leave the value they are called on and all
//                 package-level state unchanged (the second call sees what the first one saw)

func init() {
	register(&propCheck{
		id:    "C17",
		title: "Output and results are deterministic",
		explanation: "Decides the structural clause of C17: every `range` over a map in library code has a body whose effects commute " +
			"(keyed writes into another map, appends into a slice that is totally sorted before any other use, whitelisted integer min/max reducers, body-local state), " +
			"or is dominated by a len==1 guard; every slice obtained from maps.Keys/Values is totally sorted (sort on the element itself as final tie-break) before an order-dependent use; " +
			"library code calls no wall-clock, random, pid, environment or address-printing source; " +
			"and no serialiser or query method writes memory reachable from its receiver or a package-level variable (repeated calls see the same input). " +
			"It does NOT decide byte equality of outputs as such: that follows only if no other nondeterminism source exists; text/template's sorted map iteration is trusted.",
		trusted:     []string{"go/types, go/ssa (x/tools v0.29.0)", "text/template ranges over maps in sorted key order (documented)", "sort.Slice/slices.Sort are deterministic functions of their input", "whitelist of commutative reducers: funit.Rect16.Extend, funit.Rect.Extend (min/max updates of integers; a floating-point reducer such as rect.Rect.Extend is order-dependent under NaN and is reported)"},
		assumptions: nil,
		run:         runC17,
	})
}

type sink func(rule, fn, construct string, pos token.Pos, ok bool, tactic, detail string)

func runC17(c *Ctx) {
	nRange := 0
	modSSA := newSSAIndex(c.prog, c.modFuncs)
	for _, p := range c.sortedPkgs() {
		d := &detAnalyzer{c: c, pkg: p, info: p.TypesInfo, ssa: modSSA, emit: func(rule, fn, construct string, pos token.Pos, ok bool, tactic, detail string) {
			if rule == "DET-MAPRANGE" {
				nRange++
			}
			if ok {
				c.ok(rule, fn, construct, pos, tactic, detail)
			} else {
				c.fail(rule, fn, construct, pos, detail)
			}
		}}
		d.run()
	}
	c.floor("DET-MAPRANGE", 4)
	c.floor("DET-COLLECT", 3)

	// DET-INPUT: output is a function of the value written only if writing leaves that value
	// and every package-level variable as they were; otherwise a history of calls shows
	c.readOnlyEntryPoints("DET-INPUT", "leaves its input and all package-level state unchanged", 12,
		": writing or querying the same value a second time (or another value afterwards) can then give a different result although the caller changed nothing")

	// reading the same bytes twice gives equal results only if no read can change what a later
	// read sees: memory owned by a package-level variable (or by the value of a memoising function)
	// is not written after initialisation and no un-cloned reference to it is handed to a
	// PostScript program, which could write through it (`put`, `putinterval`).  Same analysis as
	// C18 (ISO-SHARED, ISO-GLOBALSTORE), recorded here for the history clause of this property.
	c.withOnly([]string{"ISO-SHARED", "ISO-GLOBALSTORE"}, func() { runC18(c) })

	// positive control: the same rules must fire on the control package
	ctl := c.loadControl("ctl17")
	fired := map[string]int{}
	d := &detAnalyzer{c: c, pkg: ctl, info: ctl.TypesInfo, control: true, ssa: controlSSA(ctl), emit: func(rule, fn, construct string, pos token.Pos, ok bool, tactic, detail string) {
		if !ok {
			fired[rule+"|"+fn]++
		}
	}}
	d.run()
	want := []string{"DET-COLLECT|ctl17.AppendInOrder", "DET-MAPRANGE|ctl17.FirstHit", "DET-MAPRANGE|ctl17.Concat", "DET-COLLECT|ctl17.KeysUnsorted",
		"DET-COLLECT|ctl17.PartialSort", "DET-SOURCE|ctl17.Clock", "DET-SOURCE|ctl17.Random", "DET-SOURCE|ctl17.Addr",
		"DET-COLLECT|ctl17.SortFuncPartial", "DET-COLLECT|ctl17.SorterByPosition",
		"DET-MAPRANGE|ctl17.LabelledFirstHit", "DET-MAPRANGE|ctl17.ContinueOuter",
		"DET-COLLECT|ctl17.SortKeyFuncPartial", "DET-COLLECT|ctl17.SortKeyCounting",
		"DET-COLLECT|ctl17.DecoratePartial", "DET-COLLECT|ctl17.DecorateHalf", "DET-COLLECT|ctl17.DecorateForgotten", "DET-COLLECT|ctl17.ImageUnsorted",
		"DET-COLLECT|ctl17.NamedLessPartial", "DET-COLLECT|ctl17.NamedPeek", "DET-MAPRANGE|ctl17.GuardLast",
		"DET-COLLECT|ctl17.PassedOrdered", "DET-MAPRANGE|ctl17.FloatMinMax",
		"DET-MAPRANGE|ctl17.ArgMinValue", "DET-MAPRANGE|ctl17.ArgMinFloatKey", "DET-MAPRANGE|ctl17.ArgMinPeek", "DET-COLLECT|ctl17.MinOfFloats", "DET-COLLECT|ctl17.FirstOfLocal"}
	for _, w := range want {
		c.check(fired[w] > 0, "DET-CONTROL", "control", w, token.NoPos, "positive control fired", "the positive control "+w+" was not reported: the rule is broken")
	}
	silent := []string{"ctl17.KeyedCopy", "ctl17.SortedKeys", "ctl17.MinMax", "ctl17.SortFuncTotal", "ctl17.SorterType", "ctl17.InnerLabel", "ctl17.SortKeyFunc", "ctl17.Decorate", "ctl17.NamedLess", "ctl17.GuardMinMax", "ctl17.PassedOrderFree", "ctl17.sortedOf", "ctl17.GenericSorted", "ctl17.ArgMinKey", "ctl17.MinOfKeys"}
	for _, s := range silent {
		n := 0
		for k, v := range fired {
			if strings.HasSuffix(k, "|"+s) {
				n += v
			}
		}
		c.check(n == 0, "DET-CONTROL", "control", "silent "+s, token.NoPos, "negative control silent", "the negative control "+s+" was reported: the rule raises false alarms")
	}
}

func (c *Ctx) sortedPkgs() []*packages.Package {
	var out []*packages.Package
	for _, short := range []string{"postscript", "afm", "cid", "funit", "pfb", "psenc", "type1", "names"} {
		if p := c.pkgs[shortPkg[short]]; p != nil {
			out = append(out, p)
		}
	}
	seen := map[*packages.Package]bool{}
	for _, p := range out {
		seen[p] = true
	}
	for _, p := range c.pkgs {
		if !seen[p] {
			out = append(out, p)
		}
	}
	return out
}

// loadControl loads a control package from /verif/psa/control/<name>.
func (c *Ctx) loadControl(name string) *packages.Package {
	cfg := &packages.Config{
		Mode: packages.NeedName | packages.NeedFiles | packages.NeedCompiledGoFiles | packages.NeedImports |
			packages.NeedDeps | packages.NeedTypes | packages.NeedSyntax | packages.NeedTypesInfo | packages.NeedTypesSizes,
		Dir: verifDir + "/psa",
		Env: append(envBase(), "GOFLAGS=-mod=mod", "GOPROXY=off", "GOSUMDB=off", "GOWORK=off", "GOTOOLCHAIN=local"),
	}
	pkgs, err := packages.Load(cfg, "./control/"+name)
	if err != nil || len(pkgs) != 1 || len(pkgs[0].Errors) > 0 {
		abort("cannot load control package %s: %v %v", name, err, pkgs)
	}
	return pkgs[0]
}

type detAnalyzer struct {
	c       *Ctx
	pkg     *packages.Package
	info    *types.Info
	emit    sink
	control bool
	ssa     *ssaIndex           // SSA form of the function literals and functions of the package
	labelOf map[ast.Stmt]string // label in front of a statement
	derived []types.Object      // slices that the statement last judged by orderFreeUse fills from the unordered one
	inCall  int                 // depth of declared functions entered to judge what they do with a slice parameter (ext_x10.go)
}

func (d *detAnalyzer) pkgShort() string {
	p := d.pkg.PkgPath
	if i := strings.LastIndex(p, "/"); i >= 0 {
		p = p[i+1:]
	}
	return p
}

func (d *detAnalyzer) run() {
	for _, f := range d.pkg.Syntax {
		fname := d.pkg.Fset.Position(f.Pos()).Filename
		if strings.HasSuffix(fname, "_test.go") {
			continue
		}
		for _, decl := range f.Decls {
			switch decl := decl.(type) {
			case *ast.FuncDecl:
				if decl.Body != nil {
					d.function(funcDisplayName(d.pkgShort(), decl), decl.Body)
				}
			case *ast.GenDecl:
				// package-level initialisers may contain function literals
				for _, spec := range decl.Specs {
					if vs, ok := spec.(*ast.ValueSpec); ok {
						for i, v := range vs.Values {
							name := "init"
							if i < len(vs.Names) {
								name = vs.Names[i].Name
							}
							d.exprFuncs(d.pkgShort()+"."+name, v)
						}
					}
				}
			}
		}
	}
}

func funcDisplayName(pkg string, fd *ast.FuncDecl) string {
	if fd.Recv != nil && len(fd.Recv.List) == 1 {
		t := fd.Recv.List[0].Type
		star := ""
		if st, ok := t.(*ast.StarExpr); ok {
			t = st.X
			star = "*"
		}
		if id, ok := t.(*ast.Ident); ok {
			return fmt.Sprintf("%s.(%s%s).%s", pkg, star, id.Name, fd.Name.Name)
		}
	}
	return pkg + "." + fd.Name.Name
}

// exprFuncs analyses the function literals inside a package-level initialiser;
// literals that are values of a keyed composite literal are named by their key.
func (d *detAnalyzer) exprFuncs(name string, e ast.Expr) {
	ast.Inspect(e, func(n ast.Node) bool {
		if kv, ok := n.(*ast.KeyValueExpr); ok {
			if k, ok := constStrOf(d.info, kv.Key); ok {
				var lit *ast.FuncLit
				ast.Inspect(kv.Value, func(m ast.Node) bool {
					if fl, ok := m.(*ast.FuncLit); ok && lit == nil {
						lit = fl
						return false
					}
					return true
				})
				if lit != nil {
					d.function(name+"$"+k, lit.Body)
					return false
				}
			}
		}
		if fl, ok := n.(*ast.FuncLit); ok {
			d.function(name+"$func", fl.Body)
			return false
		}
		return true
	})
}

func (d *detAnalyzer) function(fn string, body *ast.BlockStmt) {
	// DET-SOURCE over all calls
	ast.Inspect(body, func(n ast.Node) bool {
		switch n := n.(type) {
		case *ast.CallExpr:
			d.sourceCall(fn, n)
		case *ast.GoStmt:
			d.emit("DET-SOURCE", fn, "go statement", n.Pos(), false, "", "library code starts a goroutine: scheduling order becomes observable")
		case *ast.SelectStmt:
			d.emit("DET-SOURCE", fn, "select statement", n.Pos(), false, "", "select chooses among ready cases at random")
		}
		return true
	})
	// statement lists
	d.stmtLists(fn, body, body)
}

var nondetFuncs = map[string]string{
	"time.Now": "wall clock", "time.Since": "wall clock", "time.Until": "wall clock",
	"os.Getpid": "process id", "os.Getppid": "process id", "os.Hostname": "host name", "os.Getenv": "environment", "os.Environ": "environment", "os.LookupEnv": "environment",
	"os.Getwd": "working directory", "os.TempDir": "environment",
	"runtime.NumGoroutine": "scheduler state", "runtime.Stack": "stack dump", "runtime.Caller": "call stack",
}

func (d *detAnalyzer) sourceCall(fn string, call *ast.CallExpr) {
	callee := typeutil.Callee(d.info, call)
	if f, ok := callee.(*types.Func); ok && f.Pkg() != nil {
		full := f.FullName()
		if why, bad := nondetFuncs[full]; bad {
			d.emit("DET-SOURCE", fn, "call "+full, call.Pos(), false, "", "call of "+full+" ("+why+") makes results depend on the environment")
		}
		switch f.Pkg().Path() {
		case "math/rand", "math/rand/v2", "crypto/rand":
			d.emit("DET-SOURCE", fn, "call "+full, call.Pos(), false, "", "call of "+full+" (random source)")
		}
		// %p in constant format strings
		if f.Pkg().Path() == "fmt" {
			for _, a := range call.Args {
				if s, ok := constStrOf(d.info, a); ok && strings.Contains(s, "%p") {
					d.emit("DET-SOURCE", fn, "format verb %p", call.Pos(), false, "", "format string "+fmt.Sprintf("%q", s)+" prints a memory address")
				}
			}
		}
	}
}

// stmtLists walks every statement list of the function.
func (d *detAnalyzer) stmtLists(fn string, root *ast.BlockStmt, n ast.Node) {
	ast.Inspect(n, func(m ast.Node) bool {
		var list []ast.Stmt
		switch m := m.(type) {
		case *ast.BlockStmt:
			list = m.List
		case *ast.CaseClause:
			list = m.Body
		case *ast.CommClause:
			list = m.Body
		case *ast.FuncLit:
			// nested literal: analysed as part of the enclosing function
			return true
		default:
			return true
		}
		for i, st := range list {
			for {
				// a label in front of the statement does not change what it is
				ls, ok := st.(*ast.LabeledStmt)
				if !ok {
					break
				}
				st = ls.Stmt
				if d.labelOf == nil {
					d.labelOf = map[ast.Stmt]string{}
				}
				d.labelOf[st] = ls.Label.Name
			}
			switch st := st.(type) {
			case *ast.RangeStmt:
				if d.isMap(st.X) {
					d.mapRange(fn, root, list, i, st)
				}
			case *ast.AssignStmt:
				d.collectAssign(fn, list, i, st)
			case *ast.DeclStmt:
				if gd, ok := st.Decl.(*ast.GenDecl); ok {
					for _, sp := range gd.Specs {
						if vs, ok := sp.(*ast.ValueSpec); ok && len(vs.Names) == 1 && len(vs.Values) == 1 {
							if src := d.mapCollectCall(vs.Values[0]); src != "" {
								d.collected(fn, list, i, d.info.Defs[vs.Names[0]], src, st.Pos())
							}
						}
					}
				}
			}
		}
		return true
	})
}

func (d *detAnalyzer) isMap(e ast.Expr) bool {
	t := d.info.TypeOf(e)
	if t == nil {
		return false
	}
	_, ok := t.Underlying().(*types.Map)
	return ok
}

// mapCollectCall recognises maps.Keys(m) / maps.Values(m) (x/exp/maps) and
// returns a description, or "".
func (d *detAnalyzer) mapCollectCall(e ast.Expr) string {
	call, ok := unparen(e).(*ast.CallExpr)
	if !ok {
		return ""
	}
	f, ok := typeutil.Callee(d.info, call).(*types.Func)
	if !ok || f.Pkg() == nil {
		return ""
	}
	if f.Pkg().Path() == "golang.org/x/exp/maps" && (f.Name() == "Keys" || f.Name() == "Values") {
		return "maps." + f.Name() + "(" + types.ExprString(call.Args[0]) + ")"
	}
	// the iterator forms of the standard library: slices.Collect(maps.Keys(m)) (slices.Sorted sorts)
	if f.Pkg().Path() == "slices" && (f.Name() == "Collect" || f.Name() == "AppendSeq") && len(call.Args) > 0 {
		if inner, ok := unparen(call.Args[len(call.Args)-1]).(*ast.CallExpr); ok && len(inner.Args) == 1 {
			if g, ok := typeutil.Callee(d.info, inner).(*types.Func); ok && g.Pkg() != nil && g.Pkg().Path() == "maps" && (g.Name() == "Keys" || g.Name() == "Values") {
				return "maps." + g.Name() + "(" + types.ExprString(inner.Args[0]) + ")"
			}
		}
	}
	return ""
}

func (d *detAnalyzer) collectAssign(fn string, list []ast.Stmt, i int, st *ast.AssignStmt) {
	if len(st.Lhs) != 1 || len(st.Rhs) != 1 {
		// any maps.Keys inside other forms is handled by exprUsesCollect
		return
	}
	src := d.mapCollectCall(st.Rhs[0])
	if src == "" {
		return
	}
	id, ok := st.Lhs[0].(*ast.Ident)
	if !ok {
		d.emit("DET-COLLECT", fn, src, st.Pos(), false, "", "result of "+src+" (random order) is stored in a non-local place without being sorted")
		return
	}
	obj := d.info.ObjectOf(id)
	d.collected(fn, list, i, obj, src, st.Pos())
}

// collected: variable obj holds, after statement list[i], a slice in map
// iteration order.  Scan forward for the total sort.  A loop over the slice that fills another
// local slice element by element (append, or slot i for element i) hands the unknown order on:
// that slice is followed in the same way.  Once such an image has been totally sorted, a loop
// that writes it back slot by slot into the first slice (of the same length) leaves a
// determined sequence there.  Returns whether the slice is known to be in a determined order,
// and after which statement.
func (d *detAnalyzer) collected(fn string, list []ast.Stmt, i int, obj types.Object, src string, pos token.Pos) (bool, int) {
	if obj == nil {
		return false, -1
	}
	construct := src + " → " + obj.Name()
	images := map[types.Object][2]int{} // image slice → (statement that derives it, statement that sorts it)
	var closures []types.Object         // local names bound to function literals that capture the slice
	for k := 0; k <= i && k < len(list); k++ {
		if names, isBinding := d.closureBinding(list[k]); isBinding && d.mentions(list[k], obj) {
			closures = append(closures, names...)
		}
	}
	for j := i + 1; j < len(list); j++ {
		st := list[j]
		viaClosure := types.Object(nil)
		for _, f := range closures {
			if d.mentions(st, f) {
				viaClosure = f
			}
		}
		if !d.mentions(st, obj) {
			if viaClosure != nil {
				// the function may read the slice in the order the map delivered, and it is used here
				d.emit("DET-COLLECT", fn, construct, pos, false, "", "the slice holding "+src+" (map iteration order) is used at "+d.c.pos(st.Pos())+" before it is sorted: `"+viaClosure.Name()+"`, a function that captures the slice, is used")
				return false, j
			}
			continue
		}
		if names, isBinding := d.closureBinding(st); isBinding {
			// binding a function literal to a name reads nothing; the name stands for a use of the slice
			closures = append(closures, names...)
			continue
		}
		if sorted, why := d.isTotalSort(st, obj); sorted {
			d.emit("DET-COLLECT", fn, construct, pos, true, "collected then totally sorted ("+why+")", "")
			return true, j
		} else if why != "" {
			d.emit("DET-COLLECT", fn, construct, pos, false, "", "the slice holding "+src+" is sorted at "+d.c.pos(st.Pos())+" but the order is not total: "+why)
			return false, j
		}
		if viaClosure != nil {
			// not the sort itself: the function may read the slice in the order the map delivered
			d.emit("DET-COLLECT", fn, construct, pos, false, "", "the slice holding "+src+" (map iteration order) is used at "+d.c.pos(st.Pos())+" before it is sorted: `"+viaClosure.Name()+"`, a function that captures the slice, is used")
			return false, j
		}
		if from, ok := d.rewrittenFrom(list, j, obj, images); ok {
			d.emit("DET-COLLECT", fn, construct, pos, true, "rewritten slot by slot from `"+from.Name()+"`, its element-wise image of the same length, after that was totally sorted", "")
			return true, j
		}
		d.derived = nil
		if ok, why := d.orderFreeUse(st, obj); !ok {
			d.emit("DET-COLLECT", fn, construct, pos, false, "", "the slice holding "+src+" (map iteration order) is used at "+d.c.pos(st.Pos())+" before it is sorted: "+why)
			return false, j
		}
		derived := d.derived
		d.derived = nil
		for _, t := range derived {
			if t == obj {
				continue
			}
			if ok, at := d.collected(fn, list, j, t, "elements of "+obj.Name()+" ("+src+")", st.Pos()); ok {
				images[t] = [2]int{j, at}
			}
		}
	}
	if d.scopeEndsWithListY2(list, obj) {
		// never put in order, and never needed in order: the variable is local to this statement list and
		// every statement up to its end uses the slice in an order-free way (ext_y2.go)
		d.emit("DET-COLLECT", fn, construct, pos, true, "collected and, to the end of the variable's scope, only used in ways that do not depend on the order of the elements", "")
		return false, -1
	}
	d.emit("DET-COLLECT", fn, construct, pos, false, "", "the slice holding "+src+" (map iteration order) is never sorted in the statement list where it is built")
	return false, -1
}

// rewrittenFrom: list[j] is `for p, v := range T { S[p] = g(v) }` with T an image of S (built
// element by element from S, hence of the same length, see sameLength) that has been totally
// sorted before; the position p selects the slot and nothing else, g does not look at S.
func (d *detAnalyzer) rewrittenFrom(list []ast.Stmt, j int, S types.Object, images map[types.Object][2]int) (types.Object, bool) {
	rs, ok := list[j].(*ast.RangeStmt)
	if !ok {
		return nil, false
	}
	x, ok := unparen(rs.X).(*ast.Ident)
	if !ok {
		return nil, false
	}
	T := d.info.ObjectOf(x)
	at, isImage := images[T]
	if !isImage || at[1] < 0 || at[1] >= j {
		return nil, false
	}
	kid, ok := rs.Key.(*ast.Ident)
	if !ok || kid.Name == "_" {
		return nil, false
	}
	var elem types.Object
	if id, ok := rs.Value.(*ast.Ident); ok {
		elem = d.info.ObjectOf(id)
	}
	b := &bodyClass{d: d, key: elem, posVar: d.info.ObjectOf(kid), bodyPos: rs.Body.Pos(), bodyEnd: rs.Body.End()}
	b.block(rs.Body.List, true)
	if len(b.problems) > 0 || len(b.collected) > 0 || len(b.imaged) == 0 || !b.positionSelectsSlotsOnly(rs.Body) {
		return nil, false
	}
	for _, im := range b.imaged {
		if im != S {
			return nil, false
		}
	}
	// S occurs as the target only
	onlyTarget := true
	ast.Inspect(rs.Body, func(n ast.Node) bool {
		if id, ok := n.(*ast.Ident); ok && d.info.ObjectOf(id) == S && !b.slotBases[id] {
			onlyTarget = false
		}
		return true
	})
	if !onlyTarget || !d.sameLength(list, at[0], j, S, T) {
		return nil, false
	}
	return T, true
}

// sameLength: T, filled from S element by element in the loop list[derivedAt], has the length of
// S at statement list[upto]: T starts out as make([]E, len(S)) and is filled by slot, or starts
// out empty and gets one append per element; between T's definition and list[upto] nothing
// else touches T but its sort, and S occurs as len(S) only.
func (d *detAnalyzer) sameLength(list []ast.Stmt, derivedAt, upto int, S, T types.Object) bool {
	def := -1
	byMake, empty := false, false
	for k := 0; k < derivedAt; k++ {
		switch st := list[k].(type) {
		case *ast.AssignStmt:
			if st.Tok != token.DEFINE || len(st.Lhs) != 1 || len(st.Rhs) != 1 {
				continue
			}
			if id, ok := st.Lhs[0].(*ast.Ident); !ok || d.info.Defs[id] != T {
				continue
			}
			def = k
			if call, ok := unparen(st.Rhs[0]).(*ast.CallExpr); ok && d.isBuiltin(call, "make") && len(call.Args) >= 2 {
				if ln, ok := unparen(call.Args[1]).(*ast.CallExpr); ok && d.isBuiltin(ln, "len") && len(ln.Args) == 1 && len(call.Args) == 2 {
					if id, ok := unparen(ln.Args[0]).(*ast.Ident); ok && d.info.ObjectOf(id) == S {
						byMake = true
					}
				}
				if v, ok := constIntOf(d.info, call.Args[1]); ok && v == 0 {
					empty = true
				}
			}
		case *ast.DeclStmt:
			if gd, ok := st.Decl.(*ast.GenDecl); ok {
				for _, sp := range gd.Specs {
					if vs, ok := sp.(*ast.ValueSpec); ok && len(vs.Names) == 1 && len(vs.Values) == 0 && d.info.Defs[vs.Names[0]] == T {
						def, empty = k, true
					}
				}
			}
		}
	}
	if def < 0 || !(byMake || empty) {
		return false
	}
	// how the loop fills T
	rs, ok := list[derivedAt].(*ast.RangeStmt)
	if !ok {
		return false
	}
	appends, slots := 0, 0
	conditional := false
	var walk func(l []ast.Stmt, top bool)
	walk = func(l []ast.Stmt, top bool) {
		for _, st := range l {
			if !d.mentions(st, T) {
				if _, isBranch := st.(*ast.BranchStmt); isBranch {
					conditional = true
				}
				if top {
					// a statement that may leave the iteration before T is filled
					ast.Inspect(st, func(n ast.Node) bool {
						switch n.(type) {
						case *ast.BranchStmt, *ast.ReturnStmt:
							conditional = true
						case *ast.FuncLit:
							return false
						}
						return true
					})
				}
				continue
			}
			as, ok := st.(*ast.AssignStmt)
			if !ok || !top || len(as.Lhs) != 1 {
				conditional = true
				continue
			}
			switch l := unparen(as.Lhs[0]).(type) {
			case *ast.Ident:
				appends++
			case *ast.IndexExpr:
				_ = l
				slots++
			}
		}
	}
	walk(rs.Body.List, true)
	if conditional || !(byMake && slots == 1 && appends == 0 || empty && appends == 1 && slots == 0) {
		return false
	}
	for k := def + 1; k < upto; k++ {
		if k == derivedAt {
			continue
		}
		if d.mentions(list[k], T) {
			if sp, isSort, _ := d.sortOf(list[k], T); !isSort || sp == nil {
				return false
			}
		}
		if d.mentions(list[k], S) && !d.onlyLen(list[k], S) {
			return false
		}
	}
	return true
}

func (d *detAnalyzer) mentions(n ast.Node, obj types.Object) bool {
	found := false
	ast.Inspect(n, func(m ast.Node) bool {
		if id, ok := m.(*ast.Ident); ok && d.info.ObjectOf(id) == obj {
			found = true
		}
		return !found
	})
	return found
}

// isTotalSort: statement sorts the slice obj with a total order (ext_h.go: the sort call and its
// comparison function in any of their spellings, decided on the SSA form).
func (d *detAnalyzer) isTotalSort(st ast.Stmt, obj types.Object) (bool, string) {
	sp, isSort, why := d.sortOf(st, obj)
	if !isSort {
		return false, ""
	}
	if sp == nil {
		return false, why
	}
	if ok, why := d.totalOrder(sp); !ok {
		return false, why
	}
	if sp.kind == "natural" {
		return true, sp.desc
	}
	return true, sp.desc + " with final tie-break on the element itself"
}

// orderFreeUse: a statement that mentions the unordered slice but does not
// depend on its order.
func (d *detAnalyzer) orderFreeUse(st ast.Stmt, obj types.Object) (bool, string) {
	switch st := st.(type) {
	case *ast.AssignStmt:
		// S = append(S, pure...)
		if len(st.Lhs) == 1 && len(st.Rhs) == 1 {
			if id, ok := st.Lhs[0].(*ast.Ident); ok && d.info.ObjectOf(id) == obj {
				if call, ok := st.Rhs[0].(*ast.CallExpr); ok && d.isBuiltin(call, "append") && len(call.Args) >= 1 {
					if a0, ok := call.Args[0].(*ast.Ident); ok && d.info.ObjectOf(a0) == obj {
						for _, a := range call.Args[1:] {
							if d.mentions(a, obj) {
								return false, "appends an order-dependent value"
							}
						}
						return true, ""
					}
				}
			}
		}
		// other assignment: S may only occur as len(S)
		if d.onlyLen(st, obj) {
			return true, ""
		}
		// handed to a declared function that does not depend on the order of its parameter (ext_x10.go)
		lhsClean := true
		for _, l := range st.Lhs {
			if d.mentions(l, obj) {
				lhsClean = false
			}
		}
		if lhsClean {
			if ok, _ := d.onlyOrderFreeArgs(st, obj); ok {
				return true, ""
			}
		}
		return false, "assignment uses the slice (" + d.c.pos(st.Pos()) + ")"
	case *ast.IfStmt:
		if st.Init != nil {
			if ok, why := d.orderFreeUse(st.Init, obj); !ok && d.mentions(st.Init, obj) {
				return false, why
			}
		}
		if d.mentions(st.Cond, obj) && !d.onlyLen(st.Cond, obj) {
			return false, "condition depends on the slice"
		}
		for _, s := range st.Body.List {
			if d.mentions(s, obj) {
				if ok, why := d.orderFreeUse(s, obj); !ok {
					return false, why
				}
			}
		}
		if st.Else != nil && d.mentions(st.Else, obj) {
			if blk, ok := st.Else.(*ast.BlockStmt); ok {
				for _, s := range blk.List {
					if d.mentions(s, obj) {
						if ok, why := d.orderFreeUse(s, obj); !ok {
							return false, why
						}
					}
				}
			} else if ok, why := d.orderFreeUse(st.Else, obj); !ok {
				return false, why
			}
		}
		return true, ""
	case *ast.RangeStmt:
		x, ok := unparen(st.X).(*ast.Ident)
		if !ok || d.info.ObjectOf(x) != obj {
			return false, "range expression uses the slice indirectly"
		}
		var posVar types.Object
		if st.Key != nil {
			if id, ok := st.Key.(*ast.Ident); ok && id.Name != "_" {
				posVar = d.info.ObjectOf(id)
			}
		}
		var elem types.Object
		if id, ok := st.Value.(*ast.Ident); ok {
			elem = d.info.ObjectOf(id)
		}
		b := &bodyClass{d: d, key: elem, posVar: posVar, bodyPos: st.Body.Pos(), bodyEnd: st.Body.End()}
		b.block(st.Body.List, true)
		if len(b.problems) > 0 {
			return false, "loop over the unsorted slice is order-dependent: " + b.problems[0]
		}
		if posVar != nil && !b.positionSelectsSlotsOnly(st.Body) {
			// the position may select the slot of another slice that receives the element's image
			// (that slice is then as unordered as this one, see collected); any other use of it
			// makes the result depend on the order
			return false, "the loop uses the position of the elements"
		}
		d.derived = append(d.derived, b.collected...)
		d.derived = append(d.derived, b.imaged...)
		return true, ""
	case *ast.DeclStmt, *ast.ExprStmt:
		if d.onlyLen(st, obj) {
			return true, ""
		}
		if ok, why := d.onlyOrderFreeArgs(st, obj); ok {
			return true, ""
		} else if strings.Contains(why, "depends on its order") {
			return false, why
		}
		return false, "the slice is passed on or inspected"
	case *ast.ReturnStmt:
		// a result computed from the slice by len or by a function of the multiset of its elements
		if d.onlyLen(st, obj) {
			return true, ""
		}
		if ok, _ := d.onlyOrderFreeArgs(st, obj); ok {
			return true, ""
		}
		return false, "the slice is returned unsorted"
	}
	if d.onlyLen(st, obj) {
		return true, ""
	}
	return false, "unrecognised use"
}

func (d *detAnalyzer) isBuiltin(call *ast.CallExpr, name string) bool {
	id, ok := unparen(call.Fun).(*ast.Ident)
	if !ok || id.Name != name {
		return false
	}
	_, isB := d.info.ObjectOf(id).(*types.Builtin)
	return isB
}

// onlyLen: every mention of obj inside n is the argument of len().
func (d *detAnalyzer) onlyLen(n ast.Node, obj types.Object) bool {
	okAll := true
	var walk func(n ast.Node, underLen bool)
	walk = func(n ast.Node, underLen bool) {
		ast.Inspect(n, func(m ast.Node) bool {
			if call, ok := m.(*ast.CallExpr); ok && (d.isBuiltin(call, "len") || d.isBuiltin(call, "cap")) && len(call.Args) == 1 {
				if id, ok := unparen(call.Args[0]).(*ast.Ident); ok && d.info.ObjectOf(id) == obj {
					return false
				}
			}
			if id, ok := m.(*ast.Ident); ok && d.info.ObjectOf(id) == obj {
				okAll = false
			}
			return true
		})
	}
	walk(n, false)
	return okAll
}

// ---- map range classification

func (d *detAnalyzer) mapRange(fn string, root *ast.BlockStmt, list []ast.Stmt, i int, st *ast.RangeStmt) {
	construct := "range " + types.ExprString(st.X)
	// singleton guard
	if d.singletonGuard(root, st) {
		d.emit("DET-MAPRANGE", fn, construct, st.Pos(), true, "singleton: dominated by a len(...) != 1 return guard", "")
		return
	}
	var key, val types.Object
	if id, ok := st.Key.(*ast.Ident); ok && id.Name != "_" {
		key = d.info.ObjectOf(id)
	}
	if id, ok := st.Value.(*ast.Ident); ok && id.Name != "_" {
		val = d.info.ObjectOf(id)
	}
	b := &bodyClass{d: d, key: key, val: val, bodyPos: st.Body.Pos(), bodyEnd: st.Body.End(), ownLabel: d.labelOf[st]}
	b.block(st.Body.List, true)
	if len(b.problems) > 0 {
		d.emit("DET-MAPRANGE", fn, construct, st.Pos(), false, "", "the body of this loop over a map depends on iteration order: "+strings.Join(b.problems, "; "))
		return
	}
	d.emit("DET-MAPRANGE", fn, construct, st.Pos(), true, "order-free body ("+strings.Join(dedup(b.kinds), ", ")+")", "")
	for _, obj := range b.collected {
		d.collected(fn, list, i, obj, "append in "+construct, st.Pos())
	}
}

func (d *detAnalyzer) singletonGuard(root *ast.BlockStmt, st *ast.RangeStmt) bool {
	want := types.ExprString(st.X)
	found := false
	for _, s := range root.List {
		if s.Pos() >= st.Pos() {
			break
		}
		ifs, ok := s.(*ast.IfStmt)
		if !ok || ifs.Init != nil || ifs.Else != nil {
			continue
		}
		be, ok := unparen(ifs.Cond).(*ast.BinaryExpr)
		if !ok || be.Op != token.NEQ {
			continue
		}
		call, ok := unparen(be.X).(*ast.CallExpr)
		if !ok || !d.isBuiltin(call, "len") || types.ExprString(call.Args[0]) != want {
			continue
		}
		if v, ok := constIntOf(d.info, be.Y); !ok || v != 1 {
			continue
		}
		if n := len(ifs.Body.List); n == 0 {
			continue
		} else if _, ok := ifs.Body.List[n-1].(*ast.ReturnStmt); !ok {
			continue
		}
		found = true
	}
	return found
}

// commutative reducers: methods that fold a value into an accumulator by
// min/max updates of integers only.  The floating-point rectangle (geom/rect.Rect.Extend) is not
// one: with a NaN coordinate every comparison is false and the result depends on the order of the
// calls — a font or metrics value with such a box was written differently from one call to the
// next (repaired in /repo; witness wit17).
var reducers = map[string]bool{
	"(*seehuhn.de/go/postscript/funit.Rect16).Extend": true,
	"(*seehuhn.de/go/postscript/funit.Rect).Extend":   true,
	"(*psa/control/ctl17.box).Extend":                 true,
}

type bodyClass struct {
	d                *detAnalyzer
	key, val         types.Object
	bodyPos, bodyEnd token.Pos
	problems         []string
	kinds            []string
	collected        []types.Object
	loopDepth        int
	posVar           types.Object        // loop over a slice: the position variable, if the loop has one
	imaged           []types.Object      // local slices that receive `T[pos] = …`
	slotIdents       map[*ast.Ident]bool // the occurrences of posVar that select such a slot
	slotBases        map[*ast.Ident]bool // the occurrences of T in `T[pos] = …`
	ownLabel         string              // label of the loop over the map itself, if it has one
	innerLabels      map[string]bool     // labels of statements inside the body: a jump to them stays within one iteration
}

func (b *bodyClass) local(obj types.Object) bool {
	return obj != nil && obj.Pos() >= b.bodyPos && obj.Pos() < b.bodyEnd
}

func (b *bodyClass) problem(pos token.Pos, format string, a ...any) {
	b.problems = append(b.problems, fmt.Sprintf(format, a...)+" ("+b.d.c.pos(pos)+")")
}

func (b *bodyClass) block(list []ast.Stmt, top bool) {
	if top && b.loopDepth == 0 {
		// a guard that ends in `continue` is the if/else over the rest of the loop body
		if norm := guardAsIfElse(list, b.ownLabel); norm != nil {
			list = norm
		}
	}
	for _, s := range list {
		b.stmt(s)
	}
}

func (b *bodyClass) stmt(s ast.Stmt) {
	d := b.d
	switch s := s.(type) {
	case nil:
	case *ast.BlockStmt:
		b.block(s.List, false)
	case *ast.EmptyStmt:
	case *ast.DeclStmt:
		if gd, ok := s.Decl.(*ast.GenDecl); ok {
			for _, sp := range gd.Specs {
				if vs, ok := sp.(*ast.ValueSpec); ok {
					for _, v := range vs.Values {
						b.expr(v)
					}
				}
			}
		}
	case *ast.IncDecStmt:
		b.assignTarget(s.X, nil, s.Pos(), true)
	case *ast.AssignStmt:
		for _, r := range s.Rhs {
			b.expr(r)
		}
		for i, l := range s.Lhs {
			var rhs ast.Expr
			if len(s.Rhs) == len(s.Lhs) {
				rhs = s.Rhs[i]
			}
			if s.Tok == token.DEFINE {
				if id, ok := l.(*ast.Ident); ok && (id.Name == "_" || b.local(d.info.ObjectOf(id))) {
					continue
				}
			}
			b.assignTarget(l, rhs, s.Pos(), s.Tok != token.ASSIGN && s.Tok != token.DEFINE)
		}
	case *ast.ExprStmt:
		if call, ok := s.X.(*ast.CallExpr); ok {
			b.callStmt(call)
		} else {
			b.expr(s.X)
		}
	case *ast.IfStmt:
		if b.firstIdiom(s) || b.firstIdiom(swapNegatedIf(s)) || b.argMinIdiomY2(s) {
			return
		}
		b.stmt(s.Init)
		b.expr(s.Cond)
		b.block(s.Body.List, false)
		b.stmt(s.Else)
	case *ast.ForStmt:
		b.stmt(s.Init)
		if s.Cond != nil {
			b.expr(s.Cond)
		}
		b.stmt(s.Post)
		b.loopDepth++
		b.block(s.Body.List, false)
		b.loopDepth--
	case *ast.RangeStmt:
		b.expr(s.X)
		if d.isMap(s.X) {
			b.problem(s.Pos(), "nested range over a map")
		}
		b.loopDepth++
		b.block(s.Body.List, false)
		b.loopDepth--
	case *ast.SwitchStmt:
		if chain := switchAsIfChain(s); chain != nil {
			b.stmt(chain)
			return
		}
		b.stmt(s.Init)
		if s.Tag != nil {
			b.expr(s.Tag)
		}
		b.loopDepth++ // break inside a switch leaves the switch
		for _, cc := range s.Body.List {
			cl := cc.(*ast.CaseClause)
			for _, e := range cl.List {
				b.expr(e)
			}
			b.block(cl.Body, false)
		}
		b.loopDepth--
	case *ast.TypeSwitchStmt:
		b.stmt(s.Init)
		b.loopDepth++
		for _, cc := range s.Body.List {
			b.block(cc.(*ast.CaseClause).Body, false)
		}
		b.loopDepth--
	case *ast.BranchStmt:
		switch s.Tok {
		case token.CONTINUE:
			if s.Label != nil && b.innerLabels[s.Label.Name] {
				// continues a loop that lies inside the body
				return
			}
			if s.Label != nil && s.Label.Name != b.ownLabel {
				// the label of a loop around the loop over the map
				b.problem(s.Pos(), "`continue %s` ends the iteration at whichever entry comes first", s.Label.Name)
				return
			}
			b.kinds = append(b.kinds, "continue")
		case token.BREAK:
			if s.Label != nil && b.innerLabels[s.Label.Name] {
				// leaves a statement that lies inside the body: the iteration over the map goes on
				return
			}
			if b.loopDepth == 0 || s.Label != nil {
				b.problem(s.Pos(), "`break` ends the iteration at whichever entry comes first")
			}
		case token.GOTO, token.FALLTHROUGH:
			if s.Tok == token.GOTO {
				b.problem(s.Pos(), "goto inside a loop over a map")
			}
		}
	case *ast.ReturnStmt:
		b.problem(s.Pos(), "`return` ends the iteration at whichever entry comes first")
	case *ast.LabeledStmt:
		if b.innerLabels == nil {
			b.innerLabels = map[string]bool{}
		}
		b.innerLabels[s.Label.Name] = true
		b.stmt(s.Stmt)
	default:
		b.problem(s.Pos(), "statement %T has effects the rule cannot show to commute", s)
	}
}

// firstIdiom recognises
//
//	if first { acc = x; first = false } else { acc.Extend(x) }
//
// with Extend a whitelisted min/max reducer.
func (b *bodyClass) firstIdiom(s *ast.IfStmt) bool {
	d := b.d
	if s.Init != nil || s.Else == nil {
		return false
	}
	cond, ok := unparen(s.Cond).(*ast.Ident)
	if !ok {
		return false
	}
	flag := d.info.ObjectOf(cond)
	if len(s.Body.List) != 2 {
		return false
	}
	a1, ok1 := s.Body.List[0].(*ast.AssignStmt)
	a2, ok2 := s.Body.List[1].(*ast.AssignStmt)
	if !ok1 || !ok2 || a1.Tok != token.ASSIGN || a2.Tok != token.ASSIGN || len(a1.Lhs) != 1 || len(a2.Lhs) != 1 {
		return false
	}
	acc, ok := a1.Lhs[0].(*ast.Ident)
	if !ok {
		return false
	}
	f2, ok := a2.Lhs[0].(*ast.Ident)
	if !ok || d.info.ObjectOf(f2) != flag {
		return false
	}
	if v, ok := constOf(d.info, a2.Rhs[0]); !ok || v.String() != "false" {
		return false
	}
	els, ok := s.Else.(*ast.BlockStmt)
	if !ok || len(els.List) != 1 {
		return false
	}
	es, ok := els.List[0].(*ast.ExprStmt)
	if !ok {
		return false
	}
	call, ok := es.X.(*ast.CallExpr)
	if !ok || len(call.Args) != 1 {
		return false
	}
	sel, ok := call.Fun.(*ast.SelectorExpr)
	if !ok {
		return false
	}
	recv, ok := sel.X.(*ast.Ident)
	if !ok || d.info.ObjectOf(recv) != d.info.ObjectOf(acc) {
		return false
	}
	f, ok := typeutil.Callee(d.info, call).(*types.Func)
	if !ok || !reducers[f.FullName()] {
		return false
	}
	if types.ExprString(call.Args[0]) != types.ExprString(a1.Rhs[0]) {
		return false
	}
	b.expr(a1.Rhs[0])
	b.kinds = append(b.kinds, "first/Extend min-max reduction")
	return true
}

func (b *bodyClass) assignTarget(l ast.Expr, rhs ast.Expr, pos token.Pos, compound bool) {
	d := b.d
	switch l := unparen(l).(type) {
	case *ast.Ident:
		if l.Name == "_" {
			return
		}
		obj := d.info.ObjectOf(l)
		if b.local(obj) {
			return
		}
		// S = append(S, …)
		if call, ok := rhs.(*ast.CallExpr); ok && !compound && d.isBuiltin(call, "append") && len(call.Args) >= 1 {
			if a0, ok := unparen(call.Args[0]).(*ast.Ident); ok && d.info.ObjectOf(a0) == obj {
				if _, isVar := obj.(*types.Var); isVar && !obj.(*types.Var).IsField() && obj.Parent() != obj.Pkg().Scope() {
					b.collected = append(b.collected, obj)
					b.kinds = append(b.kinds, "append to a local slice (must be sorted afterwards)")
					return
				}
			}
		}
		// constant store to an outer variable is idempotent
		if rhs != nil && !compound {
			if _, isConst := constOf(d.info, rhs); isConst {
				b.kinds = append(b.kinds, "idempotent constant store")
				return
			}
		}
		b.problem(pos, "assignment to `%s`, which outlives the iteration, depends on the order of the entries", l.Name)
	case *ast.IndexExpr:
		if d.isMap(l.X) && b.keyed(l.Index) {
			b.expr(l.X)
			b.kinds = append(b.kinds, "keyed write into a map")
			return
		}
		if id, ok := unparen(l.X).(*ast.Ident); ok && b.local(d.info.ObjectOf(id)) {
			return
		}
		if id, ok := unparen(l.X).(*ast.Ident); ok && b.posVar != nil && !compound {
			if ix, ok := unparen(l.Index).(*ast.Ident); ok && d.info.ObjectOf(ix) == b.posVar {
				if v, ok := d.info.ObjectOf(id).(*types.Var); ok && !v.IsField() && v.Parent() != v.Pkg().Scope() {
					if _, isSlice := v.Type().Underlying().(*types.Slice); isSlice {
						// slot p of a local slice receives the image of element p
						if b.slotIdents == nil {
							b.slotIdents, b.slotBases = map[*ast.Ident]bool{}, map[*ast.Ident]bool{}
						}
						b.slotIdents[ix], b.slotBases[id] = true, true
						b.imaged = append(b.imaged, v)
						b.kinds = append(b.kinds, "element-wise image in a local slice (must be sorted afterwards)")
						return
					}
				}
			}
		}
		b.problem(pos, "write to `%s` is not keyed by the loop key", types.ExprString(l))
	case *ast.SelectorExpr, *ast.StarExpr:
		// field of a body-local variable is fine
		root := l
		for {
			switch r := root.(type) {
			case *ast.SelectorExpr:
				root = unparen(r.X)
				continue
			case *ast.StarExpr:
				root = unparen(r.X)
				continue
			case *ast.IndexExpr:
				root = unparen(r.X)
				continue
			}
			break
		}
		if id, ok := root.(*ast.Ident); ok && b.local(d.info.ObjectOf(id)) {
			if v, ok := d.info.ObjectOf(id).(*types.Var); ok && !isPointerLike(v.Type()) {
				return
			}
		}
		if rhs != nil && !compound {
			if _, isConst := constOf(d.info, rhs); isConst {
				b.kinds = append(b.kinds, "idempotent constant store")
				return
			}
		}
		b.problem(pos, "write to `%s`, which outlives the iteration", types.ExprString(l))
	default:
		b.problem(pos, "write to `%s`", types.ExprString(l))
	}
}

// positionSelectsSlotsOnly: every occurrence of the position variable in the loop body is the
// index of a slot write `T[pos] = …` recorded in imaged.
func (b *bodyClass) positionSelectsSlotsOnly(body *ast.BlockStmt) bool {
	if b.posVar == nil {
		return true
	}
	ok := true
	ast.Inspect(body, func(n ast.Node) bool {
		if id, isId := n.(*ast.Ident); isId && b.d.info.ObjectOf(id) == b.posVar && !b.slotIdents[id] {
			ok = false
		}
		return true
	})
	return ok
}

// keyed: the index expression is the loop key (possibly converted).
func (b *bodyClass) keyed(e ast.Expr) bool {
	e = unparen(e)
	if call, ok := e.(*ast.CallExpr); ok && len(call.Args) == 1 {
		if tv, ok := b.d.info.Types[call.Fun]; ok && tv.IsType() {
			return b.keyed(call.Args[0])
		}
	}
	id, ok := e.(*ast.Ident)
	return ok && b.key != nil && b.d.info.ObjectOf(id) == b.key
}

// expr checks that an expression has no effects outside the iteration.
func (b *bodyClass) expr(e ast.Expr) {
	if e == nil {
		return
	}
	ast.Inspect(e, func(n ast.Node) bool {
		switch n := n.(type) {
		case *ast.FuncLit:
			return false
		case *ast.CallExpr:
			b.callExpr(n, false)
		case *ast.UnaryExpr:
			if n.Op == token.ARROW {
				b.problem(n.Pos(), "channel receive")
			}
		}
		return true
	})
}

func (b *bodyClass) callStmt(call *ast.CallExpr) {
	for _, a := range call.Args {
		b.expr(a)
	}
	b.callExpr(call, true)
}

func (b *bodyClass) callExpr(call *ast.CallExpr, stmt bool) {
	d := b.d
	if tv, ok := d.info.Types[call.Fun]; ok && tv.IsType() {
		return // conversion
	}
	if id, ok := unparen(call.Fun).(*ast.Ident); ok {
		if _, isB := d.info.ObjectOf(id).(*types.Builtin); isB {
			switch id.Name {
			case "len", "cap", "append", "make", "new", "min", "max", "complex", "real", "imag":
				return
			case "copy", "delete", "clear":
				if len(call.Args) > 0 {
					if a0, ok := unparen(call.Args[0]).(*ast.Ident); ok && b.local(d.info.ObjectOf(a0)) {
						return
					}
				}
				b.problem(call.Pos(), "%s on memory that outlives the iteration", id.Name)
				return
			case "panic", "print", "println":
				b.problem(call.Pos(), "%s", id.Name)
				return
			}
		}
	}
	callee := typeutil.Callee(d.info, call)
	f, ok := callee.(*types.Func)
	if !ok {
		b.problem(call.Pos(), "call of a function value `%s` whose effects are unknown", types.ExprString(call.Fun))
		return
	}
	if reducers[f.FullName()] {
		// receiver may be an outer accumulator
		b.kinds = append(b.kinds, "min-max reducer "+f.Name())
		return
	}
	if d.control {
		if f.Pkg() != nil && f.Pkg().Path() != d.pkg.PkgPath {
			if s := extSummary[f.FullName()]; s == "pure" || (f.Pkg() != nil && purePkgs[f.Pkg().Path()]) {
				return
			}
			b.problem(call.Pos(), "call of %s", f.FullName())
		}
		return
	}
	sf := d.c.prog.FuncValue(f)
	if sf == nil {
		b.problem(call.Pos(), "call of %s: no SSA function", f.FullName())
		return
	}
	eff := d.c.effects().of(sf)
	if eff.pure() {
		return
	}
	if eff.pureExceptParams() {
		// the callee writes through some arguments: they must be body-local
		okAll := true
		args := call.Args
		var recv ast.Expr
		if sel, ok := call.Fun.(*ast.SelectorExpr); ok && f.Type().(*types.Signature).Recv() != nil {
			recv = sel.X
		}
		for p := range eff.Params {
			var a ast.Expr
			idx := p
			if recv != nil {
				if p == 0 {
					a = recv
				} else {
					idx = p - 1
				}
			}
			if a == nil && idx < len(args) {
				a = args[idx]
			}
			if a == nil {
				okAll = false
				continue
			}
			root := unparen(a)
			for {
				switch r := root.(type) {
				case *ast.UnaryExpr:
					root = unparen(r.X)
					continue
				case *ast.SelectorExpr:
					root = unparen(r.X)
					continue
				case *ast.IndexExpr:
					root = unparen(r.X)
					continue
				case *ast.SliceExpr:
					root = unparen(r.X)
					continue
				}
				break
			}
			id, ok := root.(*ast.Ident)
			if !ok || !b.local(d.info.ObjectOf(id)) {
				okAll = false
			}
		}
		if okAll {
			return
		}
		if len(eff.Params) == 1 && f.Type().(*types.Signature).Results().Len() == 0 {
			// an accumulator that outlives the iteration: the calls must commute (ext_x10.go)
			for p := range eff.Params {
				ok, how := d.c.orderFreeReducerX10(sf, p)
				if ok {
					b.kinds = append(b.kinds, "accumulating call of "+f.Name()+": "+how)
					return
				}
				b.problem(call.Pos(), "call of %s, which %s; the calls are not shown to commute: %s", f.FullName(), eff.String(), how)
				return
			}
		}
	}
	b.problem(call.Pos(), "call of %s, which %s", f.FullName(), eff.String())
}

// switchAsIfChain rewrites a tagless switch without init, fallthrough or unlabelled break as the
// equivalent if / else-if chain (the two spellings are the same program), so that the idioms
// recognised on if statements are recognised on switches as well.  It returns nil if the switch
// is not of that simple kind.
func switchAsIfChain(s *ast.SwitchStmt) ast.Stmt {
	if s.Tag != nil || s.Init != nil {
		return nil
	}
	simple := true
	var def *ast.CaseClause
	var cases []*ast.CaseClause
	for _, cc := range s.Body.List {
		cl := cc.(*ast.CaseClause)
		ast.Inspect(cl, func(n ast.Node) bool {
			switch x := n.(type) {
			case *ast.BranchStmt:
				if x.Tok == token.FALLTHROUGH || (x.Tok == token.BREAK && x.Label == nil) {
					simple = false
				}
			case *ast.ForStmt, *ast.RangeStmt, *ast.SwitchStmt, *ast.TypeSwitchStmt, *ast.SelectStmt, *ast.FuncLit:
				if n != ast.Node(cl) {
					return false // a break in there belongs to the inner statement
				}
			}
			return true
		})
		if cl.List == nil {
			def = cl
		} else {
			cases = append(cases, cl)
		}
	}
	if !simple {
		return nil
	}
	if def != nil && len(s.Body.List) > 0 && s.Body.List[len(s.Body.List)-1] != ast.Stmt(def) {
		// a default in the middle is still evaluated last; fine
	}
	var tail ast.Stmt
	if def != nil {
		tail = &ast.BlockStmt{Lbrace: def.Pos(), List: def.Body, Rbrace: def.End()}
	}
	for k := len(cases) - 1; k >= 0; k-- {
		cl := cases[k]
		var cond ast.Expr
		for _, e := range cl.List {
			if cond == nil {
				cond = e
			} else {
				cond = &ast.BinaryExpr{X: cond, Op: token.LOR, Y: e, OpPos: e.Pos()}
			}
		}
		tail = &ast.IfStmt{If: cl.Pos(), Cond: cond, Body: &ast.BlockStmt{Lbrace: cl.Colon, List: cl.Body, Rbrace: cl.End()}, Else: tail}
	}
	if tail == nil {
		return &ast.EmptyStmt{}
	}
	return tail
}

// swapNegatedIf turns `if !c { A } else { B }` into `if c { B } else { A }`.
func swapNegatedIf(s *ast.IfStmt) *ast.IfStmt {
	u, ok := unparen(s.Cond).(*ast.UnaryExpr)
	if !ok || u.Op != token.NOT {
		return s
	}
	els, ok := s.Else.(*ast.BlockStmt)
	if !ok {
		return s
	}
	return &ast.IfStmt{If: s.If, Init: s.Init, Cond: u.X, Body: els, Else: s.Body}
}
