package main

import (
	"fmt"
	"go/token"
	"go/types"
	"strings"

	"golang.org/x/tools/go/ssa"
)

// C03 — procedures, name lookup and control flow.  Rule family A5 CONTROL.

func init() {
	register(&propCheck{
		id:    "C03",
		title: "Procedures, name lookup and control flow follow PostScript semantics",
		explanation: "Decides structural clauses of C03 on the SSA form: (1) every operator that runs a procedure inside a Go loop compares the result with the internal exit signal, leaves the loop on it and returns nil, propagates every other error, and the exit/stop signals are compared nowhere else except in Execute, which maps exit→invalidexit and stop→nil; " +
			"(2) wherever an element of a procedure body reaches the dispatch — the nested call in the body loop and the tail jump — the execute flag is the constant false, while a value obtained by name lookup carries true; " +
			"(3) load and where scan the dictionary stack from len-1 downwards and return at the first hit; bind resolves names through the same lookup; " +
			"(4) if/ifelse run exactly one branch: the calls lie on opposite edges of the test of the boolean operand and take the operands at the PLRM stack positions; " +
			"(5) loop protocol: for pushes one value per iteration, forall one (array, string: the element itself, byte-wise) or two (dictionary: key then value), loop/repeat none; repeat is a counted loop 0..count with stride 1; for's termination predicate equals (inc>0 ∧ v>limit) ∨ (inc<0 ∧ v<limit) (decision table over sign × order) and the control variable advances by the increment. " +
			"(6) the dictionary stack that lookup walks is written only by begin, end and (for the duration of the section) eexec or helpers reached from these only, and eexec leaves it as it found it however the section ends (nil, io.EOF; section leaving it higher, equal, lower). " +
			"It does NOT decide iteration counts or operand values of nested programs as values, nor scoping across nestings.",
		trusted:     []string{"go/ssa CFG", "decision-table extraction for comparison-only predicates"},
		assumptions: nil,
		run:         runC03,
	})
}

// stackOperand: v is (a type assertion/conversion of) intp.Stack[len(intp.Stack)-K];
// returns K.
func stackOperand(v ssa.Value, T *types.TypeName) (int64, bool) {
	for i := 0; i < 10; i++ {
		v = origin(v)
		switch x := v.(type) {
		case *ssa.Extract:
			v = x.Tuple
			continue
		case *ssa.TypeAssert:
			v = x.X
			continue
		case *ssa.Convert:
			v = x.X
			continue
		}
		break
	}
	ld, ok := v.(*ssa.UnOp)
	if !ok || ld.Op != token.MUL {
		return 0, false
	}
	ia, ok := ld.X.(*ssa.IndexAddr)
	if !ok || !isFieldLoad(ia.X, T, "Stack") {
		return 0, false
	}
	bo, ok := origin(ia.Index).(*ssa.BinOp)
	if !ok || bo.Op != token.SUB || !lenOfField(bo.X, T, "Stack") {
		return 0, false
	}
	return constInt(bo.Y)
}

func inCycle(b *ssa.BasicBlock) bool {
	seen := map[*ssa.BasicBlock]bool{}
	stack := append([]*ssa.BasicBlock{}, b.Succs...)
	for len(stack) > 0 {
		x := stack[len(stack)-1]
		stack = stack[:len(stack)-1]
		if x == b {
			return true
		}
		if seen[x] {
			continue
		}
		seen[x] = true
		stack = append(stack, x.Succs...)
	}
	return false
}

// loopBlocks: the blocks of the innermost cycle through b (all blocks that
// both reach b and are reachable from b).
func loopBlocks(b *ssa.BasicBlock) map[*ssa.BasicBlock]bool {
	fwd := map[*ssa.BasicBlock]bool{}
	var st []*ssa.BasicBlock
	st = append(st, b.Succs...)
	for len(st) > 0 {
		x := st[len(st)-1]
		st = st[:len(st)-1]
		if fwd[x] {
			continue
		}
		fwd[x] = true
		st = append(st, x.Succs...)
	}
	bwd := map[*ssa.BasicBlock]bool{}
	st = append(st, b.Preds...)
	for len(st) > 0 {
		x := st[len(st)-1]
		st = st[:len(st)-1]
		if bwd[x] {
			continue
		}
		bwd[x] = true
		st = append(st, x.Preds...)
	}
	out := map[*ssa.BasicBlock]bool{}
	for x := range fwd {
		if bwd[x] {
			out[x] = true
		}
	}
	return out
}

// reachesNilReturnWithout: from block b every path reaches a `return nil`
// without calling callee and without re-entering loop.
func reachesNilReturn(b *ssa.BasicBlock, loop map[*ssa.BasicBlock]bool, callee *ssa.Function) (bool, string) {
	seen := map[*ssa.BasicBlock]bool{}
	var walk func(x *ssa.BasicBlock) (bool, string)
	walk = func(x *ssa.BasicBlock) (bool, string) {
		if seen[x] {
			return true, ""
		}
		seen[x] = true
		if loop[x] {
			return false, "flows back into the loop"
		}
		if len(blockCalls(x, callee)) > 0 {
			return false, "runs another procedure"
		}
		last := x.Instrs[len(x.Instrs)-1]
		if r, ok := last.(*ssa.Return); ok {
			for _, v := range retValues(r, len(r.Results)-1) {
				if !isNilConst(v) {
					return false, "returns an error"
				}
			}
			return true, ""
		}
		for _, s := range x.Succs {
			if ok, why := walk(s); !ok {
				return false, why
			}
		}
		return true, ""
	}
	return walk(b)
}

func runC03(c *Ctx) {
	ia := c.interp()
	reg := c.registry()
	exe := ia.executeOne
	errExit := c.signalGlobal("exit")
	errStop := c.signalGlobal("stop")
	if errExit == nil || errStop == nil {
		abort("anchor: errExit/errStop not found")
	}

	// ---------- (1) loop operators catch exit; (5) loop protocol: decided on the evaluator
	_ = exe
	c.loopOperatorRules()
	loopOps := map[*ssa.Function]bool{}
	for _, op := range []string{"for", "forall", "loop", "repeat"} {
		loopOps[reg.op("systemdict", op)] = true
	}
	// helpers of the loop operators: functions called from loop operators (or their helpers) only
	cgr := c.callgraph()
	for changed := true; changed; {
		changed = false
		for _, f := range c.modFuncs {
			if loopOps[f] || f.Signature.Recv() == nil && f.Object() != nil && f.Object().Exported() {
				continue
			}
			n := cgr.Nodes[f]
			if n == nil || len(n.In) == 0 {
				continue
			}
			all := true
			for _, e := range n.In {
				if !loopOps[e.Caller.Func] {
					all = false
				}
			}
			if all {
				loopOps[f] = true
				changed = true
			}
		}
	}
	// the signals are compared nowhere else, except in Execute
	execute := c.method("postscript", "Interpreter", "Execute")
	for _, f := range c.modFuncs {
		eachInstr(f, func(ins ssa.Instruction) {
			bo, ok := ins.(*ssa.BinOp)
			if !ok || (bo.Op != token.EQL && bo.Op != token.NEQ) {
				return
			}
			g := globalLoad(bo.X)
			if g == nil {
				g = globalLoad(bo.Y)
			}
			if g != errExit && g != errStop {
				return
			}
			if f == execute || (g == errExit && loopOps[f]) {
				return
			}
			c.fail("CTL-SIGNALS", c.fname(f), "comparison with "+g.Name(), ins.Pos(), "the internal "+g.Name()+" signal is intercepted in "+c.fname(f)+", which is neither a loop operator nor Execute")
		})
	}
	// Execute: exit → invalidexit, stop → nil
	c.executeRules(true, false, false)

	// ---------- (2) body elements are never run as procedures
	c.bodyElements(ia)

	// ---------- (3) lookup order
	for _, f := range []*ssa.Function{ia.load, reg.op("systemdict", "where")} {
		c.lookupOrder(ia, f)
	}
	c.bindLookup(ia)

	// ---------- (4) exactly one branch
	c.branches(ia, reg)

	// ---------- (6) the dictionary stack that lookup walks is the one the program built (ext_b.go)
	c.dictStackDisciplineB()
}

func (c *Ctx) stopBecomesNil(tb *ssa.BasicBlock, m cmp) bool {
	// follow the true branch to the first phi of error type; its operand for this edge must be nil
	b := tb
	from := (*ssa.BasicBlock)(nil)
	for steps := 0; steps < 4; steps++ {
		for _, ins := range b.Instrs {
			if phi, ok := ins.(*ssa.Phi); ok && from != nil {
				for i, p := range b.Preds {
					if p == from && isNilConst(phi.Edges[i]) {
						return true
					}
				}
			}
			if st, ok := ins.(*ssa.Store); ok && isNilConst(st.Val) {
				if _, ok := st.Addr.(*ssa.Alloc); ok {
					return true
				}
			}
		}
		if len(b.Succs) != 1 {
			return false
		}
		from = b
		b = b.Succs[0]
	}
	return false
}

// bodyElements: rule (2).
func (c *Ctx) bodyElements(ia *interpAnchors) {
	fn := ia.executeOne
	fname := c.fname(fn)
	procT := c.typeObj("postscript", "Procedure")
	isProcElem := func(v ssa.Value) bool {
		v = origin(v)
		ld, ok := v.(*ssa.UnOp)
		if !ok || ld.Op != token.MUL {
			return false
		}
		ix, ok := ld.X.(*ssa.IndexAddr)
		if !ok {
			return false
		}
		return typeIsNamed(ix.X.Type(), procT) || sliceOfNamed(ix.X, procT)
	}
	// the function that holds the dispatch: executeOne itself, or the function to which executeOne
	// hands its object and its execute flag unchanged after its own bookkeeping (ext_f.go)
	entry := fn
	fn = c.dispatchFunction(ia)
	fname = c.fname(fn)
	// nested calls on body elements
	n := 0
	nested := staticCalls(fn, entry)
	if fn != entry {
		nested = append(nested, staticCalls(fn, fn)...)
	}
	for _, call := range nested {
		arg, flagArg := objAndFlagArgs(call)
		if arg == nil || flagArg == nil {
			continue
		}
		if !isProcElem(arg) && !rangeElemOf(arg, procT) {
			continue
		}
		n++
		b, isC := constBool(flagArg)
		c.check(isC && !b, "CTL-BODYELEM", fname, "element of a running body dispatched with execute=false (loop)", call.Pos(), "constant false",
			"an element of a procedure body is dispatched with the execute flag set: a procedure literal inside a body would be run instead of pushed")
	}
	// tail jump: phis of the dispatch header
	// the header is the block in which the operation is counted: the store to the counter, or the
	// call of the helper that holds it (opCounter, ext_x6.go)
	var hdr *ssa.BasicBlock
	oc := c.opCounter(ia)
	for _, b := range fn.Blocks {
		if oc.marked(b) {
			hdr = b
		}
	}
	if hdr == nil {
		c.fail("CTL-BODYELEM", fname, "dispatch header", fn.Pos(), "dispatch header (operation counter) not found")
		return
	}
	// the values with which the header is entered: its own phis, or those of the nearest block above
	// it that control reaches the header from without a branch in between
	for len(hdr.Instrs) > 0 && len(hdr.Preds) == 1 && len(hdr.Preds[0].Succs) == 1 {
		if _, isPhi := hdr.Instrs[0].(*ssa.Phi); isPhi {
			break
		}
		hdr = hdr.Preds[0]
	}
	var objPhi, flagPhi *ssa.Phi
	for _, ins := range hdr.Instrs {
		phi, ok := ins.(*ssa.Phi)
		if !ok {
			break
		}
		if b, ok := phi.Type().Underlying().(*types.Basic); ok && b.Kind() == types.Bool {
			flagPhi = phi
		} else if _, ok := phi.Type().Underlying().(*types.Interface); ok {
			objPhi = phi
		}
	}
	if objPhi == nil || flagPhi == nil {
		// no tail jump at all: then every element goes through the nested call, fine if n>0
		c.check(n > 0, "CTL-BODYELEM", fname, "body elements dispatched", fn.Pos(), "no tail jump; all elements through the nested call", "neither a nested call on body elements nor a tail jump was found in executeOne")
		return
	}
	for i, e := range objPhi.Edges {
		flag := flagPhi.Edges[i]
		switch {
		case isProcElem(e):
			n++
			b, isC := constBool(flag)
			c.check(isC && !b, "CTL-BODYELEM", fname, "last element of a running body dispatched with execute=false (tail jump)", hdr.Preds[i].Instrs[len(hdr.Preds[i].Instrs)-1].Pos(), "constant false on the tail-jump edge",
				"the tail jump for the last element of a procedure body keeps the execute flag set: `{ {1 2} } exec` runs the inner procedure instead of pushing it")
		case isLoadResult(e, ia.load):
			b, isC := constBool(flag)
			c.check(isC && b, "CTL-BODYELEM", fname, "value found by name lookup dispatched with execute=true", hdr.Preds[i].Instrs[len(hdr.Preds[i].Instrs)-1].Pos(), "constant true on the lookup edge",
				"the value an executable name resolves to is dispatched without the execute flag: a named procedure would be pushed instead of run")
		}
	}
	c.check(n >= 2, "CTL-BODYELEM", fname, "body element dispatch sites", fn.Pos(), fmt.Sprint(n), "expected the body loop and the tail jump")
	// deferred construction: while a procedure body is open an object is appended to it, not
	// dispatched — decided on the evaluator, so that it does not matter where the test lives
	c.deferredRule(ia)
}

func typeIsNamed(t types.Type, tn *types.TypeName) bool {
	n, ok := t.(*types.Named)
	return ok && n.Obj() == tn
}

// sliceOfNamed: v is a re-slice of a value of the named type.
func sliceOfNamed(v ssa.Value, tn *types.TypeName) bool {
	for i := 0; i < 5; i++ {
		if typeIsNamed(v.Type(), tn) {
			return true
		}
		if sl, ok := v.(*ssa.Slice); ok {
			v = sl.X
			continue
		}
		break
	}
	return false
}

// rangeElemOf: v is the element variable of a `range` over a value of type tn
// (go/ssa lowers slice ranges to index loops; the element is a load of IndexAddr).
func rangeElemOf(v ssa.Value, tn *types.TypeName) bool {
	v = origin(v)
	ld, ok := v.(*ssa.UnOp)
	if !ok {
		return false
	}
	ix, ok := ld.X.(*ssa.IndexAddr)
	return ok && sliceOfNamed(ix.X, tn)
}

func isLoadResult(v ssa.Value, load *ssa.Function) bool {
	v = origin(v)
	if ex, ok := v.(*ssa.Extract); ok {
		if call, ok := ex.Tuple.(*ssa.Call); ok && call.Common().StaticCallee() == load {
			return true
		}
	}
	return false
}

// lookupOrder: rule (3).
func (c *Ctx) lookupOrder(ia *interpAnchors, f *ssa.Function) {
	fname := c.fname(f)
	// decided on the evaluator: every dictionary stack of up to four dictionaries × every subset
	// that defines the name (ext_f.go); the shape of the scan is looked at only if that stops
	bad, cells, decided := c.lookupByEvaluation(ia, f, f != ia.load)
	if decided {
		c.check(len(bad) == 0, "CTL-LOOKUP", fname, "dictionary stack scanned from the top, first hit wins", f.Pos(),
			fmt.Sprintf("%d cells evaluated: stack depth 1..4 × which dictionaries define the name, with a value or with the nil object", cells),
			"the name look-up does not return the definition in the topmost dictionary that has one: "+joinMax(bad, 3))
		return
	}
	found := false
	eachInstr(f, func(ins ssa.Instruction) {
		ix, ok := ins.(*ssa.IndexAddr)
		if !ok || !isFieldLoad(ix.X, ia.T, "DictStack") {
			return
		}
		phi, ok := origin(ix.Index).(*ssa.Phi)
		if !ok || len(phi.Edges) != 2 {
			return
		}
		found = true
		okInit, okStep := false, false
		for _, e := range phi.Edges {
			bo, ok := origin(e).(*ssa.BinOp)
			if !ok {
				continue
			}
			k, isC := constInt(bo.Y)
			if bo.Op == token.SUB && isC && k == 1 && lenOfField(bo.X, ia.T, "DictStack") {
				okInit = true
			}
			if bo.Op == token.SUB && isC && k == 1 && origin(bo.X) == ssa.Value(phi) {
				okStep = true
			}
		}
		// loop continues while j >= 0
		okCond := false
		for _, cd := range domConds(ix.Block()) {
			if m, ok := asCmp(cd); ok && origin(m.x) == ssa.Value(phi) {
				if k, isC := constInt(m.y); isC && ((m.op == token.GEQ && k == 0) || (m.op == token.GTR && k == -1)) {
					okCond = true
				}
			}
		}
		// first hit returns: the lookup's ok flag leads to a return not back into the loop
		okHit := false
		loop := loopBlocks(ix.Block())
		for _, b := range f.Blocks {
			if !loop[b] {
				continue
			}
			ifi, ok := b.Instrs[len(b.Instrs)-1].(*ssa.If)
			if !ok {
				continue
			}
			ex, ok := ifi.Cond.(*ssa.Extract)
			if !ok {
				continue
			}
			lk, ok := ex.Tuple.(*ssa.Lookup)
			if !ok || !lk.CommaOk {
				continue
			}
			// the looked-up map is DictStack[j]
			if ld, ok := origin(lk.X).(*ssa.UnOp); ok && ld.X == ssa.Value(ix) {
				hit := b.Succs[0]
				if !loop[hit] {
					okHit = true
				}
			}
		}
		c.check(okInit && okStep && okCond && okHit, "CTL-LOOKUP", fname, "dictionary stack scanned from the top, first hit wins", ix.Pos(),
			"j := len-1; j >= 0; j-- ; return at first hit",
			fmt.Sprintf("the scan of the dictionary stack is not top-down with return at the first hit (start at len-1: %v, step -1: %v, while j>=0: %v, hit leaves loop: %v)", okInit, okStep, okCond, okHit))
	})
	if !found {
		c.fail("CTL-LOOKUP", fname, "dictionary stack scan", f.Pos(), "no indexed scan of Interpreter.DictStack found (and the evaluation of the look-up stops: "+strings.Join(bad, "; ")+")")
	}
}

// bindLookup: bind resolves names through load (the dictionary stack).
func (c *Ctx) bindLookup(ia *interpAnchors) {
	// decided on the evaluator (ext_f.go): the operator is evaluated on a procedure with one
	// element of every kind; the shape of the worker is looked at only if the evaluation stops
	bad, decided, why := c.bindByEvaluation(ia)
	if decided {
		fn := c.registry().byKey["systemdict/bind"].fn
		if w := c.bindWorker(ia); w != nil {
			fn = w
		}
		c.check(len(bad) == 0, "CTL-BIND", c.fname(fn), "bind replaces exactly the names (and operator tokens) that the look-up through the dictionary stack resolves to operators, in nested procedures too", fn.Pos(),
			"evaluated: operator in systemdict, operator token, shadowed operator, undefined name, non-operator value, non-name, nested and cyclic procedure",
			"bind does not replace exactly the names whose definition, looked up from the top of the dictionary stack, is an operator: "+joinMax(bad, 4))
		return
	}
	c.note("CTL-BIND: the evaluation of bind stops (%s); deciding on the shape of the worker", why)
	f := c.bindWorker(ia)
	if f == nil {
		c.fail("CTL-BIND", "bindProc", "anchor", token.NoPos, "bindProc not found")
		return
	}
	fname := c.fname(f)
	n := 0
	eachInstr(f, func(ins ssa.Instruction) {
		st, ok := ins.(*ssa.Store)
		if !ok {
			return
		}
		ix, ok := st.Addr.(*ssa.IndexAddr)
		if !ok {
			return
		}
		if _, isParam := origin(ix.X).(*ssa.Parameter); !isParam {
			return
		}
		v := origin(st.Val)
		if isNilConst(v) {
			return
		}
		if mi, ok := v.(*ssa.MakeInterface); ok {
			v = origin(mi.X)
		}
		n++
		switch {
		case isLoadResult(v, ia.load):
			c.ok("CTL-BIND", fname, "bound value comes from the dictionary-stack lookup", st.Pos(), "result of load()", "")
		case rangeElemOf(v, c.typeObj("postscript", "Procedure")) || isTypeAssertOfElem(v):
			c.ok("CTL-BIND", fname, "element restored", st.Pos(), "restores the element itself", "")
		default:
			c.fail("CTL-BIND", fname, "bound value comes from the dictionary-stack lookup", st.Pos(), "bind stores a value that was not obtained through the dictionary-stack lookup (load): user definitions shadowing an operator would be ignored")
		}
	})
	// both kinds of name objects are bound: for the element types Name and Operator there is a type
	// test whose success leads (without going round the loop) to a store of the looked-up value
	storeBlocks := map[*ssa.BasicBlock]bool{}
	eachInstr(f, func(ins ssa.Instruction) {
		if st, ok := ins.(*ssa.Store); ok {
			if ix, ok := st.Addr.(*ssa.IndexAddr); ok {
				if _, isParam := origin(ix.X).(*ssa.Parameter); isParam && !isNilConst(origin(st.Val)) {
					v := origin(st.Val)
					if mi, ok := v.(*ssa.MakeInterface); ok {
						v = origin(mi.X)
					}
					if isLoadResult(v, ia.load) {
						storeBlocks[st.Block()] = true
					}
				}
			}
		}
	})
	reaches := func(from *ssa.BasicBlock) bool {
		seen := map[*ssa.BasicBlock]bool{}
		stack := []*ssa.BasicBlock{from}
		for len(stack) > 0 {
			b := stack[len(stack)-1]
			stack = stack[:len(stack)-1]
			if seen[b] {
				continue
			}
			seen[b] = true
			if storeBlocks[b] {
				return true
			}
			for _, s := range b.Succs {
				if !s.Dominates(b) { // not along a back edge
					stack = append(stack, s)
				}
			}
		}
		return false
	}
	bound := map[string]bool{}
	eachInstr(f, func(ins ssa.Instruction) {
		ta, ok := ins.(*ssa.TypeAssert)
		if !ok || !ta.CommaOk {
			return
		}
		nt, ok := ta.AssertedType.(*types.Named)
		if !ok {
			return
		}
		for _, r := range *ta.Referrers() {
			ex, ok := r.(*ssa.Extract)
			if !ok || ex.Index != 1 {
				continue
			}
			for _, rr := range *ex.Referrers() {
				if ifi, ok := rr.(*ssa.If); ok && reaches(ifi.Block().Succs[0]) {
					bound[nt.Obj().Name()] = true
				}
			}
		}
	})
	c.check(n >= 1 && bound["Name"] && bound["Operator"], "CTL-BIND", fname, "names and operator tokens in the procedure are both replaced by what the look-up gives", f.Pos(), fmt.Sprintf("%d stores", n), "bind no longer replaces the executable names (elements of type Name and of type Operator) of the procedure")
}

func isTypeAssertOfElem(v ssa.Value) bool {
	switch x := v.(type) {
	case *ssa.Extract:
		if ta, ok := x.Tuple.(*ssa.TypeAssert); ok {
			_, isLd := origin(ta.X).(*ssa.UnOp)
			return isLd
		}
	case *ssa.TypeAssert:
		_, isLd := origin(x.X).(*ssa.UnOp)
		return isLd
	}
	return false
}

// branches: rule (4).
func (c *Ctx) branches(ia *interpAnchors, reg *registry) {
	type want struct {
		op            string
		condK         int64
		trueK, falseK int64 // falseK = 0: no call on the false edge
	}
	for _, w := range []want{{"if", 2, 1, 0}, {"ifelse", 3, 2, 1}} {
		f := reg.op("systemdict", w.op)
		fname := c.fname(f)
		// decided on the evaluator (ext_w1.go): the operator is evaluated for both values of the
		// boolean operand; the shape of the branch is looked at only if the evaluation stops
		if bad, decided := c.branchByEvaluation(f, w.op); decided {
			c.check(len(bad) == 0, "CTL-BRANCH", fname, w.op+": exactly one branch, chosen by the boolean operand", f.Pos(), "evaluated for true and false: which operand is run, with which flag, on which operand stack, and what is returned", w.op+" does not run exactly the prescribed branch: "+joinMax(bad, 3))
			continue
		}
		calls := staticCalls(f, ia.executeOne)
		okAll := true
		why := ""
		nTrue, nFalse := 0, 0
		for _, call := range calls {
			k, ok := stackOperand(call.Common().Args[1], ia.T)
			if !ok {
				okAll, why = false, "a procedure operand is not taken from a fixed stack position"
				continue
			}
			// find the dominating test of the boolean operand
			edge := -1
			for _, cd := range domConds(call.Block()) {
				if ck, ok := stackOperand(cd.v, ia.T); ok && ck == w.condK {
					if _, isBool := cd.v.Type().Underlying().(*types.Basic); isBool {
						// exclude the ok flag of the type assertion (Extract #1)
						if ex, isEx := cd.v.(*ssa.Extract); isEx && ex.Index == 1 {
							continue
						}
						if cd.truth {
							edge = 1
						} else {
							edge = 0
						}
					}
				}
			}
			switch edge {
			case 1:
				nTrue++
				if k != w.trueK {
					okAll, why = false, fmt.Sprintf("on the true edge the operand at depth %d is run, expected depth %d", k, w.trueK)
				}
			case 0:
				nFalse++
				if k != w.falseK {
					okAll, why = false, fmt.Sprintf("on the false edge the operand at depth %d is run, expected depth %d", k, w.falseK)
				}
			default:
				okAll, why = false, "a procedure is run on a path that is not controlled by the boolean operand"
			}
		}
		wantFalse := 0
		if w.falseK != 0 {
			wantFalse = 1
		}
		if nTrue != 1 || nFalse != wantFalse {
			okAll = false
			if why == "" {
				why = fmt.Sprintf("%d call(s) on the true edge and %d on the false edge", nTrue, nFalse)
			}
		}
		c.check(okAll, "CTL-BRANCH", fname, w.op+": exactly one branch, chosen by the boolean operand", f.Pos(), fmt.Sprintf("true edge runs operand %d, false edge operand %d", w.trueK, w.falseK), w.op+" does not run exactly the prescribed branch: "+why)
	}
}

// loopProtocol: rule (5).
func (c *Ctx) loopProtocol(ia *interpAnchors, reg *registry) {
	exe := ia.executeOne
	for _, opName := range []string{"for", "forall", "loop", "repeat"} {
		f := reg.op("systemdict", opName)
		fname := c.fname(f)
		for _, call := range staticCalls(f, exe) {
			if !inCycle(call.Block()) {
				c.fail("CTL-LOOPPROTO", fname, opName+": body run inside a loop", call.Pos(), "the procedure is run outside any Go loop")
				continue
			}
			loop := loopBlocks(call.Block())
			// pushes per iteration: appends to Stack inside the loop that dominate the call
			pushed := 0
			var pushedVals []ssa.Value
			okPush := true
			for b := range loop {
				for _, ins := range b.Instrs {
					st, ok := ins.(*ssa.Store)
					if !ok || !isFieldAddr(st.Addr, ia.T, "Stack") {
						continue
					}
					if !dominatesInstr(st, call) {
						if !dominatesInstr(call, st) {
							continue // other arm
						}
						okPush = false
						continue
					}
					vals, ok := appendedValues(st.Val, ia.T)
					if !ok {
						okPush = false
						continue
					}
					pushed += len(vals)
					pushedVals = append(pushedVals, vals...)
				}
			}
			var wantPush []int
			kind := ""
			switch opName {
			case "for":
				wantPush = []int{1}
			case "loop", "repeat":
				wantPush = []int{0}
			case "forall":
				wantPush = []int{1, 2}
			}
			okCount := false
			for _, w := range wantPush {
				if pushed == w {
					okCount = true
				}
			}
			if opName == "forall" {
				// classify the arm by what is pushed
				switch pushed {
				case 2:
					kind = " (dictionary)"
					// key then value: first is a Name, second the looked-up/ranged value
					k0 := pushedVals[0].Type()
					if mi, ok := pushedVals[0].(*ssa.MakeInterface); ok {
						k0 = mi.X.Type()
					}
					if !typeIsNamed(k0, c.typeObj("postscript", "Name")) {
						okCount = false
					}
				case 1:
					kind = " (array/string)"
					v := pushedVals[0]
					if mi, ok := v.(*ssa.MakeInterface); ok {
						v = mi.X
					}
					if cv, ok := v.(*ssa.Convert); ok {
						v = cv.X
					}
					// the element itself, taken by index from the operand (not a rune of a string conversion)
					ld, isLd := origin(v).(*ssa.UnOp)
					okElem := false
					if isLd {
						if ix, ok := ld.X.(*ssa.IndexAddr); ok {
							if _, fromOperand := stackOperand(ix.X, ia.T); fromOperand {
								okElem = true
							}
						}
					}
					if !okElem {
						c.fail("CTL-LOOPPROTO", fname, "forall: the pushed value is the element of the operand", call.Pos(), "forall over an array or string does not push the elements of the operand itself (byte-wise for strings)")
						continue
					}
				}
			}
			c.check(okPush && okCount, "CTL-LOOPPROTO", fname, opName+kind+": values pushed per iteration", call.Pos(), fmt.Sprintf("%d pushed before the body runs", pushed),
				fmt.Sprintf("%s pushes %d value(s) per iteration before running the body (or pushes after it); the PLRM prescribes %v", opName, pushed, wantPush))
		}
	}
	c.floor("CTL-LOOPPROTO", 6)
	c.forPredicate(ia, reg)
	c.repeatCount(ia, reg)
}

// appendedValues: v == append(load Stack, x1..xn); returns the xi.
func appendedValues(v ssa.Value, T *types.TypeName) ([]ssa.Value, bool) {
	call, ok := v.(*ssa.Call)
	if !ok {
		return nil, false
	}
	b, ok := call.Common().Value.(*ssa.Builtin)
	if !ok || b.Name() != "append" || !isFieldLoad(call.Common().Args[0], T, "Stack") {
		return nil, false
	}
	sl, ok := call.Common().Args[1].(*ssa.Slice)
	if !ok {
		return nil, false
	}
	al, ok := sl.X.(*ssa.Alloc)
	if !ok {
		return nil, false
	}
	arr, ok := al.Type().(*types.Pointer).Elem().Underlying().(*types.Array)
	if !ok {
		return nil, false
	}
	vals := make([]ssa.Value, arr.Len())
	for _, r := range *al.Referrers() {
		ix, ok := r.(*ssa.IndexAddr)
		if !ok {
			continue
		}
		k, isC := constInt(ix.Index)
		if !isC {
			return nil, false
		}
		for _, rr := range *ix.Referrers() {
			if st, ok := rr.(*ssa.Store); ok {
				vals[k] = st.Val
			}
		}
	}
	for _, x := range vals {
		if x == nil {
			return nil, false
		}
	}
	return vals, true
}

// forPredicate: decision table of the termination test of `for`.
func (c *Ctx) forPredicate(ia *interpAnchors, reg *registry) {
	f := reg.op("systemdict", "for")
	fname := c.fname(f)
	calls := staticCalls(f, ia.executeOne)
	if len(calls) != 1 {
		c.fail("CTL-FORPRED", fname, "single body call", f.Pos(), "expected exactly one call of the loop body in `for`")
		return
	}
	call := calls[0]
	loop := loopBlocks(call.Block())
	// control variable: the phi in the loop whose one edge is the operand at depth 4
	var val *ssa.Phi
	var incV ssa.Value
	for b := range loop {
		for _, ins := range b.Instrs {
			phi, ok := ins.(*ssa.Phi)
			if !ok {
				continue
			}
			for i, e := range phi.Edges {
				if k, ok := stackOperand(e, ia.T); ok && k == 4 {
					// the other edge must be phi + increment
					for j, e2 := range phi.Edges {
						if j == i {
							continue
						}
						if bo, ok := e2.(*ssa.BinOp); ok && bo.Op == token.ADD && (bo.X == ssa.Value(phi) || bo.Y == ssa.Value(phi)) {
							other := bo.Y
							if bo.Y == ssa.Value(phi) {
								other = bo.X
							}
							if k3, ok := stackOperand(other, ia.T); ok && k3 == 3 {
								val = phi
								incV = other
							}
						}
					}
				}
			}
		}
	}
	if val == nil {
		c.fail("CTL-FORPRED", fname, "control variable = initial, advanced by increment", call.Pos(), "`for` has no control variable that starts at the initial operand and advances by the increment operand on every iteration")
		return
	}
	c.ok("CTL-FORPRED", fname, "control variable = initial, advanced by increment", val.Pos(), "phi(initial, val+increment)", "")
	// pushed value is the control variable
	hdr := val.Block()
	bad := ""
	cells := 0
	for inc := int64(-2); inc <= 2; inc++ {
		for v := int64(-1); v <= 1; v++ {
			cells++
			lim := int64(0)
			env := func(x ssa.Value) (int64, bool) {
				if x == ssa.Value(val) {
					return v, true
				}
				if x == incV {
					return inc, true
				}
				if k, ok := stackOperand(x, ia.T); ok {
					switch k {
					case 3:
						return inc, true
					case 2:
						return lim, true
					}
				}
				return 0, false
			}
			out := walkDecide(hdr, env, func(b *ssa.BasicBlock) string {
				if b == call.Block() {
					return "body"
				}
				if !loop[b] {
					return "exit"
				}
				return ""
			})
			want := "body"
			if (inc > 0 && v > lim) || (inc < 0 && v < lim) {
				want = "exit"
			}
			if out != want && bad == "" {
				bad = fmt.Sprintf("with increment %d, control %d, limit %d the loop takes `%s`, the PLRM prescribes `%s`", inc, v, lim, out, want)
			}
		}
	}
	c.check(bad == "", "CTL-FORPRED", fname, "termination ≡ (inc>0 ∧ v>limit) ∨ (inc<0 ∧ v<limit)", hdr.Instrs[0].Pos(), fmt.Sprintf("decision table over %d sign/order cells", cells), "the termination test of `for` differs from the PLRM: "+bad)
}

// walkDecide follows the CFG from b while conditions are decidable from env.
func walkDecide(b *ssa.BasicBlock, env func(ssa.Value) (int64, bool), classify func(*ssa.BasicBlock) string) string {
	for steps := 0; steps < 64; steps++ {
		if s := classify(b); s != "" {
			return s
		}
		switch last := b.Instrs[len(b.Instrs)-1].(type) {
		case *ssa.If:
			v, ok := evalCond(last.Cond, env)
			if !ok {
				return "undecidable at block " + fmt.Sprint(b.Index)
			}
			if v {
				b = b.Succs[0]
			} else {
				b = b.Succs[1]
			}
		case *ssa.Jump:
			b = b.Succs[0]
		default:
			return "return"
		}
	}
	return "loop"
}

// repeatCount: counted loop 0..count, stride 1.
func (c *Ctx) repeatCount(ia *interpAnchors, reg *registry) {
	f := reg.op("systemdict", "repeat")
	fname := c.fname(f)
	calls := staticCalls(f, ia.executeOne)
	if len(calls) != 1 {
		c.fail("CTL-REPEAT", fname, "single body call", f.Pos(), "expected exactly one call of the loop body in `repeat`")
		return
	}
	loop := loopBlocks(calls[0].Block())
	ok := false
	detail := "no induction variable i := 0; i < count; i++ controls the loop"
	for b := range loop {
		for _, ins := range b.Instrs {
			phi, isPhi := ins.(*ssa.Phi)
			if !isPhi || len(phi.Edges) != 2 {
				continue
			}
			zero, step := false, false
			for _, e := range phi.Edges {
				if k, isC := constInt(e); isC && k == 0 {
					zero = true
				}
				if bo, isB := e.(*ssa.BinOp); isB && bo.Op == token.ADD && bo.X == ssa.Value(phi) {
					if k, isC := constInt(bo.Y); isC && k == 1 {
						step = true
					}
				}
			}
			if !zero || !step {
				continue
			}
			// loop condition i < count (count = operand at depth 2)
			for _, r := range *phi.Referrers() {
				bo, isB := r.(*ssa.BinOp)
				if !isB || bo.Op != token.LSS || bo.X != ssa.Value(phi) {
					continue
				}
				if k, isOp := stackOperand(bo.Y, ia.T); isOp && k == 2 {
					// true edge stays in loop and reaches the call
					for _, rr := range *bo.Referrers() {
						if ifi, isIf := rr.(*ssa.If); isIf {
							if loop[ifi.Block().Succs[0]] || ifi.Block().Succs[0] == calls[0].Block() {
								ok = true
							}
						}
					}
				}
			}
		}
	}
	c.check(ok, "CTL-REPEAT", fname, "trip count = count operand (i := 0; i < count; i++)", calls[0].Pos(), "counted loop from 0, stride 1, bound = operand", "repeat does not run its body exactly `count` times: "+detail)
	_ = strings.Join
}
