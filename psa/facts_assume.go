package main

import (
	"encoding/json"
	"golang.org/x/tools/go/ssa"
	"os"
	"path/filepath"
	"strings"
)

// Reviewed assumptions: facts about a field that the engine cannot establish itself and that
// were confirmed by reading (one reason each, /verif/reviewed/assumptions.json).  Unlike a
// reviewed obligation an assumption does not discharge anything by itself: the engine still has
// to prove every index and slice expression, it may merely use the fact.  Every use is listed in
// the evidence.

type fieldAssumption struct {
	ID        string   `json:"id"`
	Struct    []string `json:"struct"`
	FieldRole string   `json:"field_role"`
	Fact      string   `json:"fact"`
	Reason    string   `json:"reason"`
	key       string
}

var fieldAssumptions []*fieldAssumption
var separations []*fieldAssumption
var assumptionUsed = map[string]bool{}

func (c *Ctx) loadAssumptions() {
	fieldAssumptions = nil
	separations = nil
	assumptionUsed = map[string]bool{}
	data, err := os.ReadFile(filepath.Join(verifDir, "reviewed", "assumptions.json"))
	if err != nil {
		return
	}
	var as []*fieldAssumption
	if err := json.Unmarshal(data, &as); err != nil {
		abort("reviewed/assumptions.json: %v", err)
	}
	for _, a := range as {
		if len(a.Struct) != 2 || (a.Fact != "nonneg" && a.Fact != "separate") || a.Reason == "" {
			abort("reviewed/assumptions.json: malformed entry %s", a.ID)
		}
		if a.Fact == "separate" {
			// instance separation used by the class-invariant verification (classinv.go)
			a.key = c.fldKey(a.FieldRole)
			separations = append(separations, a)
			continue
		}
		a.key = c.fldKey(a.FieldRole)
		fieldAssumptions = append(fieldAssumptions, a)
	}
	for _, a := range fieldAssumptions {
		if a.Fact == "nonneg" {
			c.fieldNonneg(a)
		}
	}
}

// fieldNonneg checks the part of a non-negativity assumption that the engine can check: every
// store to the field stores a value shown >= 0, with the assumption itself as induction
// hypothesis for the loads and with calls through an interface held in a field of the same
// object treated as not touching the field (the reviewed part: that object is a different one).
func (c *Ctx) fieldNonneg(a *fieldAssumption) {
	report := c.prop == "C01" || c.prop == "C14"
	what := "field " + shortKey(a.key) + " >= 0"
	separateInstances[a.key] = true
	saved := fiByFn
	fiByFn = map[*ssa.Function]*funcInfo{}
	defer func() {
		delete(separateInstances, a.key)
		fiByFn = saved
	}()
	n := 0
	for _, fn := range c.modFuncs {
		for _, b := range fn.Blocks {
			for _, ins := range b.Instrs {
				st, ok := ins.(*ssa.Store)
				if !ok {
					continue
				}
				fa, ok := st.Addr.(*ssa.FieldAddr)
				if !ok || fieldName(fa) != a.key {
					continue
				}
				n++
				fi := newFuncInfo(fn)
				debugProve = os.Getenv("PSA_DEBUG_SITE") != "" && strings.HasSuffix(c.pos(st.Pos()), os.Getenv("PSA_DEBUG_SITE"))
				good := fi.prove([]Lin{fi.term(st.Val)}, fi.factsAt(b, st), 1)
				debugProve = false
				if !report {
					continue
				}
				construct := what + ": store " + c.valShape(st.Val)
				if good {
					c.ok("FIELD-INV", fn.String(), construct, st.Pos(), "stored value shown >= 0 (reviewed assumption "+a.ID+" as induction hypothesis)", "")
				} else {
					c.fail("FIELD-INV", fn.String(), construct, st.Pos(), "cannot show that the value stored to "+shortKey(a.key)+" is non-negative; the bounds proofs of this function assume it ("+a.ID+")")
				}
			}
		}
	}
	if report && n == 0 {
		c.fail("FIELD-INV", "-", what+": stores", 0, "no store to the field found: the assumption "+a.ID+" has lost its anchor")
	}
}

// assumedFacts: facts the reviewed assumptions give for an atom of the engine.
func assumedFacts(a string) []Lin {
	if !strings.HasPrefix(a, "val(") {
		return nil
	}
	var out []Lin
	for _, as := range fieldAssumptions {
		if strings.Contains(a, "."+as.key+"@") {
			assumptionUsed[as.ID] = true
			out = append(out, atom(a))
		}
	}
	return out
}
