package main

import (
	"fmt"
	"go/token"
	"go/types"
	"sort"
	"strings"

	"golang.org/x/tools/go/ssa"
)

// C13 — I/O faults surface as errors; C12 — delivery independence
// (read-contract part).  Rule family A12 IOFLOW.

func init() {
	register(&propCheck{
		id:    "C13",
		title: "I/O faults surface as errors and truncation never yields a partial result",
		explanation: "Decides the structural clause of C13 for every call site in the library that can yield an I/O-derived error (direct Read/Write/Seek/ReadFull/Fprintf/template execution/bufio.Scanner.Err calls and, transitively over the call graph, every module function whose error result may stem from one): " +
			"the error result is not discarded; it has a propagating use (returned, wrapped and returned, stored in the scanner's sticky field, or turned into a panic); and after a test `err != nil` no path rejoins normal flow without returning it, except on an edge where it equals io.EOF / io.ErrUnexpectedEOF. " +
			"Discarded errors are admitted only for calls of scanner methods, justified by the sticky rule which is itself checked (refill returns the stored error first, stores every read error, never clears it; the token loop ends normally only on io.EOF). " +
			"Registration-last rules: FontDirectory is written only by definefont, resource categories only by defineresource, the CodeMap key only by endcmap, the writer template calls definefont after the CharStrings block, type1.Read demands exactly one registered font. " +
			"It does NOT execute fault injection at each offset, and does not decide atomicity of partially written output.",
		trusted:     []string{"go/ssa def-use chains", "strings.Builder and bytes.Buffer writes never fail (documented)"},
		assumptions: []string{"errors produced by the standard library for I/O faults are non-nil error values returned by the calls enumerated"},
		run:         runC13,
	})
	register(&propCheck{
		id:    "C12",
		title: "Results do not depend on how the input stream is delivered",
		explanation: "Decides only necessary conditions of C12 at the places where the library touches an io.Reader: the byte count of every direct Read is accounted before the error is looked at (data returned together with an error is not lost); refill reports no error while it delivered data, stores the first error and returns it on every later call; fixed-size reads (PFB headers, binary segments, the sniffed first byte) use io.ReadFull; " +
			"the seekable and the buffered branch of the first-byte sniffer both hand back a reader positioned at the original offset (Seek back to the saved position dominates the successful return; the buffered branch replays exactly the bytes read); the scanner pushed by executeScanner is popped by a deferred function; the interpreter state that persists across Execute calls is held in Interpreter fields only (no package-level state, C18). " +
			"It does NOT decide equality of results across delivery schedules or across split Execute calls: those are statements about run-time state sequences.",
		trusted:     []string{"go/ssa", "io.ReadFull contract"},
		assumptions: []string{"readers do not return (0, nil) forever"},
		run:         runC12,
	})
}

type ioAnalysis struct {
	c      *Ctx
	inE    map[*ssa.Function]bool
	reason map[*ssa.Function]string
	// consult: conditions whose test is a consultation of the error under inspection although they
	// are not computed from it: a boolean result of the same call that announces the error (ext_x7.go)
	consult map[ssa.Value]bool
}

var ioSourceFuncs = map[string]bool{
	"io.ReadFull": true, "io.ReadAtLeast": true, "io.Copy": true, "io.CopyN": true, "io.WriteString": true, "io.ReadAll": true,
	"fmt.Fprintf": true, "fmt.Fprint": true, "fmt.Fprintln": true, "fmt.Fscan": true, "fmt.Fscanf": true,
	"(*text/template.Template).Execute": true, "(*text/template.Template).ExecuteTemplate": true,
	"(*bufio.Scanner).Err": true, "(*bufio.Writer).Flush": true, "(*bufio.Writer).Write": true, "(*bufio.Writer).WriteString": true,
	"(*bufio.Reader).Read": true, "(*bufio.Reader).ReadByte": true, "(*bufio.Reader).ReadString": true,
}

func neverFails(t types.Type) bool {
	s := t.String()
	return s == "*strings.Builder" || s == "*bytes.Buffer"
}

// errIndex: index of the error result of a signature, or -1.
func errIndex(sig *types.Signature) int {
	res := sig.Results()
	for i := res.Len() - 1; i >= 0; i-- {
		if types.Identical(res.At(i).Type(), types.Universe.Lookup("error").Type()) {
			return i
		}
	}
	return -1
}

// ioCall: does this call yield an I/O-derived error?  Returns a description.
func (a *ioAnalysis) ioCall(call ssa.CallInstruction) (string, bool) {
	com := call.Common()
	if errIndex(com.Signature()) < 0 {
		return "", false
	}
	if com.IsInvoke() {
		m := com.Method
		if m.Pkg() != nil && m.Pkg().Path() == "io" {
			if neverFails(com.Value.Type()) {
				return "", false
			}
			return "io." + recvName(m) + "." + m.Name(), true
		}
		// interface declared elsewhere embedding io interfaces
		if m.Name() == "Read" || m.Name() == "Write" || m.Name() == "Seek" || m.Name() == "Close" {
			return "interface method " + m.Name(), true
		}
		return "", false
	}
	if _, isB := com.Value.(*ssa.Builtin); isB {
		return "", false
	}
	callee := com.StaticCallee()
	if callee == nil {
		if cl := closuresOf(com.Value); cl != nil {
			for _, f := range cl {
				if a.inE[f] {
					return "closure " + a.c.fname(f), true
				}
			}
			return "", false
		}
		// dynamic call of a function value returning error: operators may read the input
		return "operator function value", true
	}
	name := calleeName(callee)
	if ioSourceFuncs[name] {
		// writers that cannot fail
		if strings.HasPrefix(name, "fmt.F") && len(com.Args) > 0 {
			w := com.Args[0]
			if mi, ok := w.(*ssa.MakeInterface); ok && neverFails(mi.X.Type()) {
				return "", false
			}
		}
		return name, true
	}
	if recv := callee.Signature.Recv(); recv != nil && neverFails(recv.Type()) {
		return "", false
	}
	if a.inE[callee] {
		return a.c.fname(callee), true
	}
	return "", false
}

func recvName(m *types.Func) string {
	if r := m.Type().(*types.Signature).Recv(); r != nil {
		if n, ok := r.Type().(*types.Named); ok {
			return n.Obj().Name()
		}
	}
	return "?"
}

// derivesFromCall: does error value v derive from an I/O call?
func (a *ioAnalysis) derives(v ssa.Value, seen map[ssa.Value]bool) (string, bool) {
	if v == nil || seen[v] {
		return "", false
	}
	seen[v] = true
	switch x := v.(type) {
	case *ssa.Call:
		if d, ok := a.ioCall(x); ok {
			return d, true
		}
		// a module function that hands back an error it was given (`return h.finish(err)`)
		for _, i := range errPassThrough(x.Common().StaticCallee()) {
			if i < len(x.Common().Args) {
				if d, ok := a.derives(x.Common().Args[i], seen); ok {
					return d, true
				}
			}
		}
		// wrapping
		if sc := x.Common().StaticCallee(); sc != nil && (calleeName(sc) == "fmt.Errorf") {
			for _, arg := range x.Common().Args {
				if d, ok := a.derives(arg, seen); ok {
					return d, true
				}
			}
		}
	case *ssa.Extract:
		return a.derives(x.Tuple, seen)
	case *ssa.Phi:
		for _, e := range x.Edges {
			if d, ok := a.derives(e, seen); ok {
				return d, true
			}
		}
	case *ssa.MakeInterface:
		return a.derives(x.X, seen)
	case *ssa.ChangeInterface:
		return a.derives(x.X, seen)
	case *ssa.Slice:
		return a.derives(x.X, seen)
	case *ssa.UnOp:
		if x.Op == token.MUL {
			switch ad := x.X.(type) {
			case *ssa.Alloc:
				for _, r := range *ad.Referrers() {
					if st, ok := r.(*ssa.Store); ok && st.Addr == ad {
						if d, ok := a.derives(st.Val, seen); ok {
							return d, true
						}
					}
				}
			case *ssa.IndexAddr:
				// element of the varargs array of a wrapping call
				if al, ok := ad.X.(*ssa.Alloc); ok {
					for _, r := range *al.Referrers() {
						if ix, ok := r.(*ssa.IndexAddr); ok {
							for _, rr := range *ix.Referrers() {
								if st, ok := rr.(*ssa.Store); ok {
									if d, ok := a.derives(st.Val, seen); ok {
										return d, true
									}
								}
							}
						}
					}
				}
			case *ssa.FieldAddr:
				// sticky field of the scanner
				if _, f, ok := fieldAddrOf(ad); ok && isErrorType(f.Type()) {
					return "scanner's stored read error", true
				}
			case *ssa.FreeVar:
				return "", false
			}
		}
	case *ssa.Alloc:
		// varargs array passed to Errorf
		for _, r := range *x.Referrers() {
			if ix, ok := r.(*ssa.IndexAddr); ok {
				for _, rr := range *ix.Referrers() {
					if st, ok := rr.(*ssa.Store); ok {
						if d, ok := a.derives(st.Val, seen); ok {
							return d, true
						}
					}
				}
			}
		}
	}
	return "", false
}

func (c *Ctx) ioAnalysis() *ioAnalysis {
	a := &ioAnalysis{c: c, inE: map[*ssa.Function]bool{}, reason: map[*ssa.Function]string{}}
	for changed := true; changed; {
		changed = false
		for _, f := range c.modFuncs {
			if a.inE[f] {
				continue
			}
			ei := errIndex(f.Signature)
			if ei < 0 {
				continue
			}
			for _, r := range returns(f) {
				for _, v := range retValues(r, ei) {
					if d, ok := a.derives(v, map[ssa.Value]bool{}); ok {
						a.inE[f] = true
						a.reason[f] = d
						changed = true
					}
				}
			}
		}
	}
	return a
}

// propagates: does error value e have a propagating use?
func (a *ioAnalysis) propagates(e ssa.Value, seen map[ssa.Value]bool) (bool, string) {
	if seen[e] {
		return false, ""
	}
	seen[e] = true
	refs := e.Referrers()
	if refs == nil {
		return false, ""
	}
	for _, r := range *refs {
		switch r := r.(type) {
		case *ssa.Return:
			return true, "returned"
		case *ssa.Panic:
			return true, "panic"
		case *ssa.Store:
			if r.Val != e {
				continue
			}
			if _, f, ok := fieldAddrOf(r.Addr); ok && isErrorType(f.Type()) {
				return true, "stored in the sticky error field"
			}
			if al, ok := r.Addr.(*ssa.Alloc); ok {
				// local cell (named result or variable): follow loads, including in closures
				for _, rr := range *al.Referrers() {
					if ld, ok := rr.(*ssa.UnOp); ok {
						if ok2, how := a.propagates(ld, seen); ok2 {
							return true, how
						}
					}
				}
				// named result cell read by the final return after rundefers
				if isResultCell(al) {
					return true, "stored in the named result"
				}
			}
			if ix, ok := r.Addr.(*ssa.IndexAddr); ok {
				// varargs of a wrapping call
				if al, ok := ix.X.(*ssa.Alloc); ok {
					for _, rr := range *al.Referrers() {
						if sl, ok := rr.(*ssa.Slice); ok {
							for _, r3 := range *sl.Referrers() {
								if call, ok := r3.(*ssa.Call); ok {
									if sc := call.Common().StaticCallee(); sc != nil && (calleeName(sc) == "fmt.Errorf") {
										if ok2, how := a.propagates(call, seen); ok2 {
											return true, "wrapped and " + how
										}
									}
								}
							}
						}
					}
				}
			}
			if fv, ok := r.Addr.(*ssa.FreeVar); ok {
				_ = fv
				return true, "stored in a captured result variable"
			}
		case *ssa.BinOp:
			// `if err != nil { panic(...) }`
			if (r.Op == token.NEQ || r.Op == token.EQL) && (isNilConst(r.X) || isNilConst(r.Y)) {
				for _, rr := range *r.Referrers() {
					if ifi, ok := rr.(*ssa.If); ok {
						edge := 0
						if r.Op == token.EQL {
							edge = 1
						}
						tb := ifi.Block().Succs[edge]
						if _, isPanic := tb.Instrs[len(tb.Instrs)-1].(*ssa.Panic); isPanic {
							return true, "turned into a panic"
						}
					}
				}
			}
		case *ssa.Call:
			// handed to a module function that passes it on: the parameter has a propagating use
			// in the callee, and what the callee returns has one here (`return h.finish(err)`)
			if g := r.Call.StaticCallee(); g != nil && a.c.inModule(g) && len(g.Blocks) > 0 && errIndex(g.Signature) >= 0 {
				for i, arg := range r.Call.Args {
					if arg != e || i >= len(g.Params) {
						continue
					}
					if okIn, _ := a.propagates(g.Params[i], seen); okIn && a.untestedPath(g.Params[i], g.Blocks[0].Instrs[0]) == "" {
						if okOut, how := a.propagates(r, seen); okOut {
							return true, "passed through " + a.c.fname(g) + " and " + how
						}
					}
				}
			}
		case *ssa.Phi:
			if ok, how := a.propagates(r, seen); ok {
				return true, how
			}
		case *ssa.MakeInterface:
			if ok, how := a.propagates(r, seen); ok {
				return true, how
			}
		case *ssa.Extract:
			if ok, how := a.propagates(r, seen); ok {
				return true, how
			}
		}
	}
	return false, ""
}

func isResultCell(al *ssa.Alloc) bool {
	fn := al.Parent()
	// a cell loaded right before a Return
	for _, r := range returns(fn) {
		for _, res := range r.Results {
			if ld, ok := res.(*ssa.UnOp); ok && ld.X == ssa.Value(al) {
				return true
			}
		}
	}
	return false
}

func isEOFGlobal(v ssa.Value) bool {
	g := globalLoad(v)
	if g == nil || g.Pkg == nil || g.Pkg.Pkg.Path() != "io" {
		return false
	}
	return g.Name() == "EOF" || g.Name() == "ErrUnexpectedEOF"
}

// swallowPath: after `if e != nil`, is there a path from the error edge that
// rejoins normal flow without a return/panic/sticky store, other than over an
// edge on which e equals an EOF sentinel?  Returns a description of the path.
func (a *ioAnalysis) swallowPath(e ssa.Value, start *ssa.BasicBlock, ifBlk *ssa.BasicBlock) string {
	seen := map[*ssa.BasicBlock]bool{}
	var walk func(b *ssa.BasicBlock) string
	walk = func(b *ssa.BasicBlock) string {
		if seen[b] {
			return ""
		}
		seen[b] = true
		if !(b == start || start.Dominates(b)) || len(b.Preds) > 1 && !start.Dominates(b) {
			return fmt.Sprintf("block %d", b.Index)
		}
		// handled inside this block?
		for _, ins := range b.Instrs {
			switch ins := ins.(type) {
			case *ssa.Store:
				if _, f, ok := fieldAddrOf(ins.Addr); ok && isErrorType(f.Type()) {
					return ""
				}
			case *ssa.Panic:
				return ""
			case *ssa.Return:
				ei := errIndex(b.Parent().Signature)
				if ei < 0 {
					if yieldReturnsError(b) {
						return "" // `return err` inside the body of a range-over-func loop
					}
					return fmt.Sprintf("return without error result at %s", a.c.pos(ins.Pos()))
				}
				for _, v := range retValues(ins, ei) {
					if isNilConst(v) {
						return "returns nil at " + a.c.pos(ins.Pos())
					}
				}
				return ""
			}
		}
		last := b.Instrs[len(b.Instrs)-1]
		if ifi, ok := last.(*ssa.If); ok {
			// EOF edges may rejoin
			if m, ok := asCmp(cond{ifi.Cond, true, b}); ok && (origin(m.x) == e || m.x == e || origin(m.y) == e) && (isEOFGlobal(m.x) || isEOFGlobal(m.y)) {
				// on which edge does e == EOF hold?
				eofEdge := 0
				if m.op == token.NEQ {
					eofEdge = 1
				}
				other := 1 - eofEdge
				return walk(b.Succs[other])
			}
			// a boolean that can only be true when e is an EOF sentinel (the comparison was
			// stored in a variable, possibly as the last operand of an && chain)
			cv := ifi.Cond
			neg := false
			for {
				if u, ok := cv.(*ssa.UnOp); ok && u.Op == token.NOT {
					cv, neg = u.X, !neg
					continue
				}
				break
			}
			if eofImplied(cv, e, 0) {
				flagEdge := 0
				if neg {
					flagEdge = 1
				}
				return walk(b.Succs[1-flagEdge])
			}
		}
		for _, s := range b.Succs {
			if !start.Dominates(s) && s != start {
				return fmt.Sprintf("falls through to block %d (%s)", s.Index, a.c.pos(firstPos(s)))
			}
			if w := walk(s); w != "" {
				return w
			}
		}
		return ""
	}
	return walk(start)
}

func firstPos(b *ssa.BasicBlock) token.Pos {
	for _, ins := range b.Instrs {
		if ins.Pos().IsValid() {
			return ins.Pos()
		}
	}
	return token.NoPos
}

func runC13(c *Ctx) {
	a := c.ioAnalysis()
	var eNames []string
	for f := range a.inE {
		eNames = append(eNames, c.fname(f))
	}
	sort.Strings(eNames)
	c.rep.Extra["functions_returning_io_derived_errors"] = eNames

	scannerT := c.typeObj("postscript", "scanner")
	executeFn := c.method("postscript", "Interpreter", "Execute")
	execScannerFn := c.method("postscript", "Interpreter", "executeScanner")
	nSites := 0
	for _, f := range c.modFuncs {
		if isInitFunc(f) {
			continue
		}
		fname := c.fname(f)
		eachInstr(f, func(ins ssa.Instruction) {
			call, ok := ins.(ssa.CallInstruction)
			if !ok {
				return
			}
			desc, isIO := a.ioCall(call)
			if !isIO {
				return
			}
			nSites++
			a.consult = nil
			construct := "error of " + desc
			com := call.Common()
			// the run's result in Execute is mapped by a decision table (signals become nil /
			// invalidexit, everything else is passed on): rules_execute.go
			if f == executeFn && com.StaticCallee() == execScannerFn {
				c.executeRules(false, false, true)
				return
			}
			ei := errIndex(com.Signature())
			// scanner methods: sticky rule
			onScanner := false
			if sc := com.StaticCallee(); sc != nil && sc.Signature.Recv() != nil && pointsTo(sc.Signature.Recv().Type(), scannerT) {
				onScanner = true
			}
			var e ssa.Value
			switch x := ins.(type) {
			case *ssa.Call:
				if com.Signature().Results().Len() == 1 {
					e = x
				} else if refs := x.Referrers(); refs != nil {
					for _, r := range *refs {
						if ex, ok := r.(*ssa.Extract); ok && ex.Index == ei {
							e = ex
						}
					}
					// whole tuple returned: `return f()`
					if e == nil {
						for _, r := range *refs {
							if _, ok := r.(*ssa.Return); ok {
								c.ok("IO-FLOW", fname, construct, ins.Pos(), "call result returned directly", "")
								return
							}
						}
					}
				}
			case *ssa.Defer, *ssa.Go:
				c.fail("IO-FLOW", fname, construct, ins.Pos(), "an I/O call is deferred or started as a goroutine; its error cannot be returned")
				return
			}
			if e == nil || e.Referrers() == nil || len(*e.Referrers()) == 0 {
				if onScanner {
					c.ok("IO-FLOW", fname, construct, ins.Pos(), "discarded; covered by the sticky-error rule (IO-STICKY)", "")
					return
				}
				c.fail("IO-FLOW", fname, construct, ins.Pos(), "the error result of "+desc+" is discarded: an I/O fault at this point is swallowed")
				return
			}
			okProp, how := a.propagates(e, map[ssa.Value]bool{})
			if !okProp {
				if onScanner {
					c.ok("IO-FLOW", fname, construct, ins.Pos(), "tested only; covered by the sticky-error rule (IO-STICKY)", "")
					return
				}
				c.fail("IO-FLOW", fname, construct, ins.Pos(), "the error result of "+desc+" is never returned, stored or turned into a panic: an I/O fault at this point is swallowed")
				return
			}
			// region rule for `if e != nil`
			for _, r := range *e.Referrers() {
				bo, ok := r.(*ssa.BinOp)
				if !ok || bo.Op != token.NEQ && bo.Op != token.EQL {
					continue
				}
				other := bo.Y
				if bo.Y == e {
					other = bo.X
				}
				if !isNilConst(other) {
					continue
				}
				for _, rr := range *bo.Referrers() {
					ifi, ok := rr.(*ssa.If)
					if !ok {
						continue
					}
					errEdge := 0
					if bo.Op == token.EQL {
						errEdge = 1
					}
					start := ifi.Block().Succs[errEdge]
					if len(start.Preds) != 1 {
						continue // shared block: cannot attribute
					}
					if w := a.swallowPath(e, start, ifi.Block()); w != "" {
						if onScanner {
							continue
						}
						c.fail("IO-FLOW", fname, construct, ins.Pos(), "after `err != nil` for "+desc+" a path rejoins normal flow without returning the error: "+w)
						return
					}
				}
			}
			// a boolean result of the same call that is set whenever the error is (`done, err := f()`):
			// a branch on it is a test of the error, and the edge on which it announces an error is
			// held to the region rule
			a.consult = map[ssa.Value]bool{}
			for fl, pol := range a.errFlagsOf(call) {
				ifs, edges := flagBranches(fl, pol)
				for i, ifi := range ifs {
					start := ifi.Block().Succs[edges[i]]
					if len(start.Preds) != 1 {
						continue // shared block: cannot attribute; the branch does not count as a test either
					}
					if nilTestDominates(e, ifi.Block()) {
						continue // the error itself was compared with nil before: that test is held to the region rule
					}
					a.consult[ifi.Cond] = true
					if onScanner {
						continue
					}
					if w := a.swallowPath(e, start, ifi.Block()); w != "" {
						c.fail("IO-FLOW", fname, construct, ins.Pos(), "after the test of the result that announces the error of "+desc+" a path rejoins normal flow without returning the error: "+w)
						return
					}
				}
			}
			// paths on which the error is never consulted at all
			if !onScanner {
				if w := a.untestedPath(e, ins); w != "" {
					c.fail("IO-FLOW", fname, construct, ins.Pos(), "the error of "+desc+" is not looked at on a path that continues normally: "+w+"; a fault reported by the call on that path is swallowed")
					return
				}
			}
			c.ok("IO-FLOW", fname, construct, ins.Pos(), how, "")
		})
	}
	c.floor("IO-FLOW", 100)
	c.useBeforeCheck(a)

	// ---- sticky rule
	c.stickyRule(scannerT)
	// ---- a look-ahead cut short by a fault is not indexed blindly (after seed C13-p1)
	c.shortPeekRule("IO-SHORTPEEK", scannerT)
	c.floor("IO-SHORTPEEK", 3)
	// ---- bufio.Scanner loops are followed by Err()
	c.scannerErrRule()
	// ---- only clean EOF ends a run
	c.cleanEOF()
	// ---- registration last
	c.registrationLast()
}

func (c *Ctx) stickyRule(scannerT *types.TypeName) {
	refill, _ := c.refillAnchor()
	fname := c.fname(refill)
	c.refillRules("", "IO-STICKY")
	// the sticky field is written nowhere but in refill
	okOnly := true
	whyOnly := ""
	for _, f := range c.modFuncs {
		eachInstr(f, func(ins ssa.Instruction) {
			if st, ok := ins.(*ssa.Store); ok && isFieldAddr(st.Addr, scannerT, c.fld("scanner.err")) && st.Parent() != refill {
				okOnly, whyOnly = false, "the scanner's stored read error is written outside refill at "+c.pos(st.Pos())
			}
		})
	}
	c.check(okOnly, "IO-STICKY", fname, "the stored error is written only by refill", refill.Pos(), "", whyOnly)
	// the only direct Read on the source is in refill
	n := 0
	scannerFuncs := 0
	for _, f := range c.modFuncs {
		if f.Signature.Recv() == nil || !pointsTo(f.Signature.Recv().Type(), scannerT) {
			continue
		}
		scannerFuncs++
		eachInstr(f, func(ins ssa.Instruction) {
			if call, ok := ins.(ssa.CallInstruction); ok && call.Common().IsInvoke() && isFieldLoad(call.Common().Value, scannerT, "src") {
				n++
				if f != refill {
					c.fail("IO-STICKY", c.fname(f), "source read outside refill", ins.Pos(), "the scanner's source is read outside refill, bypassing the sticky error")
				}
			}
		})
	}
	c.check(n == 1, "IO-STICKY", fname, "single reader of the source", refill.Pos(), fmt.Sprintf("1 read site among %d scanner methods", scannerFuncs), fmt.Sprintf("expected exactly one read of scanner.src, found %d", n))
}

func (c *Ctx) scannerErrRule() {
	for _, f := range c.modFuncs {
		var scans []ssa.CallInstruction
		var errs []*ssa.Call
		eachInstr(f, func(ins ssa.Instruction) {
			call, ok := ins.(ssa.CallInstruction)
			if !ok {
				return
			}
			sc := call.Common().StaticCallee()
			if sc == nil {
				return
			}
			switch calleeName(sc) {
			case "(*bufio.Scanner).Scan":
				scans = append(scans, call)
			case "(*bufio.Scanner).Err":
				if cc, ok := ins.(*ssa.Call); ok {
					errs = append(errs, cc)
				}
			}
		})
		if len(scans) == 0 {
			continue
		}
		fname := c.fname(f)
		if len(errs) == 0 {
			c.fail("IO-SCANERR", fname, "bufio.Scanner loop followed by Err()", scans[0].Pos(), "the function reads with bufio.Scanner but never asks for Err(): a read fault ends the loop like a clean end of input")
			continue
		}
		// every successful return is dominated by an Err() call
		okAll := true
		where := ""
		ei := errIndex(f.Signature)
		for _, r := range returns(f) {
			success := true
			if ei >= 0 {
				for _, v := range retValues(r, ei) {
					if !isNilConst(v) {
						success = false
					}
				}
			}
			if !success {
				continue
			}
			// only returns reachable after the scan loop matter: those not dominating the first Scan
			if !reaches(scans[0].Block(), -1, r) {
				continue
			}
			dom := false
			for _, e := range errs {
				if dominatesInstr(e, r) {
					dom = true
				}
			}
			if !dom {
				okAll = false
				where = c.pos(r.Pos())
			}
		}
		c.check(okAll, "IO-SCANERR", fname, "bufio.Scanner loop followed by Err()", scans[0].Pos(), "Err() dominates every successful return after the loop", "a successful return at "+where+" is not preceded by a check of scanner.Err()")
	}
}

func (c *Ctx) cleanEOF() {
	ia := c.interp()
	// the function that holds the token loop: executeScanner, or the function it hands the loop to
	// (the one that dispatches the tokens the scanner delivers; tokenLoopFunc, ext_x6.go)
	f := c.tokenLoopFunc(ia)
	fname := c.fname(f)
	scanTok := c.method("postscript", "scanner", "ScanToken")
	calls := staticCalls(f, scanTok)
	if len(calls) != 1 {
		c.fail("IO-CLEANEOF", fname, "token loop", f.Pos(), "expected one ScanToken call in the function that holds the token loop")
		return
	}
	call := calls[0].(*ssa.Call)
	loop := loopBlocks(call.Block())
	// every edge leaving the loop to a `return nil` must be conditioned on err == io.EOF
	var e ssa.Value
	for _, r := range *call.Referrers() {
		if ex, ok := r.(*ssa.Extract); ok && ex.Index == 1 {
			e = ex
		}
	}
	okAll := e != nil
	why := "the error of ScanToken is not used"
	for b := range loop {
		for i, s := range b.Succs {
			if loop[s] {
				continue
			}
			// exit edge b→s
			if okRet, _ := reachesNilReturn(s, loop, ia.executeOne); !okRet {
				continue // error exit
			}
			ifi, ok := b.Instrs[len(b.Instrs)-1].(*ssa.If)
			good := false
			if ok && e != nil {
				if m, ok := asCmp(cond{ifi.Cond, i == 0, b}); ok && m.op == token.EQL && (m.x == e || m.y == e) && (isEOFGlobal(m.x) || isEOFGlobal(m.y)) {
					g := globalLoad(m.y)
					if g == nil {
						g = globalLoad(m.x)
					}
					if g.Name() == "EOF" {
						good = true
					}
				}
			}
			if !good {
				okAll = false
				why = "the token loop can end normally (return nil) at " + c.pos(firstPos(s)) + " on a condition other than err == io.EOF"
			}
		}
	}
	c.check(okAll, "IO-CLEANEOF", fname, "the token loop ends normally only on io.EOF", call.Pos(), "the only normal exit edge is `err == io.EOF`", why)
	if f != ia.execScanner {
		// the loop was handed to another function: executeScanner must return what that one returns
		for _, cs := range staticCalls(ia.execScanner, f) {
			v, isV := cs.(*ssa.Call)
			handedOn := isV
			if isV {
				for _, r := range *v.Referrers() {
					switch r := r.(type) {
					case *ssa.Return, *ssa.DebugRef:
					case *ssa.Store:
						if _, isCell := r.Addr.(*ssa.Alloc); !isCell || r.Val != ssa.Value(v) {
							handedOn = false
						}
					default:
						handedOn = false
					}
				}
			}
			c.check(handedOn, "IO-CLEANEOF", c.fname(ia.execScanner), "the result of the token loop is returned as it is", cs.Pos(), "returned unchanged", "executeScanner does not return the result of the token loop unchanged: a failure of the loop may be turned into a normal end")
		}
	}
}

func (c *Ctx) registrationLast() {
	ia := c.interp()
	reg := c.registry()
	newInterp := c.fn("postscript", "NewInterpreter")
	makeSys := c.fn("postscript", "makeSystemDict")
	// who writes into FontDirectory / CMapDirectory / Resources values
	type target struct {
		field string
		by    string
	}
	writers := map[string]map[string]bool{}
	for _, f := range c.modFuncs {
		eachInstr(f, func(ins ssa.Instruction) {
			mu, ok := ins.(*ssa.MapUpdate)
			if !ok {
				return
			}
			for _, field := range []string{"FontDirectory", "CMapDirectory", "Resources"} {
				if isFieldLoad(mu.Map, ia.T, field) {
					if writers[field] == nil {
						writers[field] = map[string]bool{}
					}
					writers[field][c.fname(f)] = true
				}
			}
			// value of Resources[...] (a category dict) written
			if ta, ok := origin(mu.Map).(*ssa.Extract); ok {
				if tas, ok := ta.Tuple.(*ssa.TypeAssert); ok {
					if lk, ok := origin(tas.X).(*ssa.Lookup); ok && isFieldLoad(lk.X, ia.T, "Resources") {
						if writers["category"] == nil {
							writers["category"] = map[string]bool{}
						}
						writers["category"][c.fname(f)] = true
					}
				}
			}
		})
	}
	_ = newInterp
	_ = makeSys
	definefont := c.fname(reg.op("systemdict", "definefont"))
	defineresource := c.fname(reg.op("systemdict", "defineresource"))
	chk := func(field, want string) {
		var got []string
		for w := range writers[field] {
			got = append(got, w)
		}
		sort.Strings(got)
		ok := len(got) == 1 && got[0] == want
		if len(got) == 0 && field != "FontDirectory" && field != "category" {
			ok = true
		}
		c.check(ok, "IO-REGISTER", field, "written only by "+want, token.NoPos, strings.Join(got, ","), "Interpreter."+field+" entries are written by "+strings.Join(got, ", ")+"; only "+want+" may register a result, so that a cut-off file leaves the directory empty")
	}
	chk("FontDirectory", definefont)
	chk("category", defineresource)
	chk("CMapDirectory", defineresource)
	// "CodeMap" key stored only by endcmap
	endcmap := reg.op("cidInit", "endcmap")
	var codeMapWriters []string
	for _, f := range c.modFuncs {
		eachInstr(f, func(ins ssa.Instruction) {
			if mu, ok := ins.(*ssa.MapUpdate); ok {
				if s, ok := constString(stripConv(mu.Key)); ok && s == "CodeMap" {
					codeMapWriters = append(codeMapWriters, c.fname(f))
				}
			}
		})
	}
	c.check(len(codeMapWriters) == 1 && codeMapWriters[0] == c.fname(endcmap), "IO-REGISTER", "CodeMap", "stored only by endcmap", endcmap.Pos(), strings.Join(codeMapWriters, ","), "the CodeMap entry is stored by "+strings.Join(codeMapWriters, ", ")+", not only by endcmap: a truncated CMap could be registered")
	// defineresource for CMap requires a *CMapInfo under CodeMap
	dr := reg.op("systemdict", "defineresource")
	// decided on the evaluator (ext_x7.go): defineresource is evaluated for category CMap on an instance
	// that is no dictionary, one without CodeMap, one whose CodeMap is not a *CMapInfo, and a complete
	// one (helpers evaluated in place); the search for the assertion only if an evaluation stops
	if bad, decided, why := c.defineCMapByEvaluation(dr); decided {
		c.check(len(bad) == 0, "IO-REGISTER", c.fname(dr), "CMap instances must carry a *CMapInfo", dr.Pos(), "4 cells evaluated: kind of instance × CodeMap entry", "defineresource no longer demands a complete CodeMap (*CMapInfo) for category CMap: "+joinMax(bad, 2))
	} else {
		c.note("IO-REGISTER: the evaluation of defineresource stops (%s); looking for the assertion to *CMapInfo", why)
		okCM := false
		eachInstr(dr, func(ins ssa.Instruction) {
			if ta, ok := ins.(*ssa.TypeAssert); ok && ta.CommaOk {
				if p, ok := ta.AssertedType.(*types.Pointer); ok {
					if n, ok := p.Elem().(*types.Named); ok && n.Obj().Name() == "CMapInfo" {
						okCM = true
					}
				}
			}
		})
		c.check(okCM, "IO-REGISTER", c.fname(dr), "CMap instances must carry a *CMapInfo", dr.Pos(), "type assertion to *CMapInfo", "defineresource no longer demands a complete CodeMap (*CMapInfo) for category CMap")
	}
	// type1.Read: exactly one font
	rd := c.fn("type1", "Read")
	okOne := false
	eachInstr(rd, func(ins ssa.Instruction) {
		ifi, ok := ins.(*ssa.If)
		if !ok {
			return
		}
		if m, ok := asCmp(cond{ifi.Cond, true, ifi.Block()}); ok && m.op == token.NEQ {
			if k, isC := constInt(m.y); isC && k == 1 {
				if call, ok := origin(m.x).(*ssa.Call); ok {
					if b, ok := call.Common().Value.(*ssa.Builtin); ok && b.Name() == "len" && isFieldLoad(call.Common().Args[0], ia.T, "FontDirectory") {
						tb := ifi.Block().Succs[0]
						if r, ok := tb.Instrs[len(tb.Instrs)-1].(*ssa.Return); ok && !isNilConst(r.Results[len(r.Results)-1]) {
							okOne = true
						}
					}
				}
			}
		}
	})
	c.check(okOne, "IO-REGISTER", c.fname(rd), "exactly one registered font demanded", rd.Pos(), "len(FontDirectory) != 1 → error", "type1.Read no longer rejects a run that registered no (or several) fonts")
	// template: definefont after the CharStrings block.  The block is the first repetition that
	// follows the text `/CharStrings` and emits binary entries (`RD`), whatever it ranges over (the map
	// itself, a sorted list of its entries, …); the registration must come after its end and nowhere
	// before.
	t := c.fontTemplate()
	items := t.allItems()
	iCS, iRange, iEnd, iDF := -1, -1, -1, -1
	for i, it := range items {
		switch {
		case it.action == "" && iCS < 0 && strings.Contains(it.text, "/CharStrings"):
			iCS = i
			if k := strings.Index(it.text, "definefont"); k >= 0 && iDF < 0 {
				iDF = i
			}
		case it.action == "" && iDF < 0 && strings.Contains(it.text, "definefont"):
			iDF = i
		case iCS >= 0 && iRange < 0 && strings.HasPrefix(it.action, "range "):
			// the repetition must emit the entries: its body contains the `RD` operator
			emits := false
			for _, b := range items[i+1:] {
				if b.node == it.node && b.action == "end" {
					break
				}
				if b.action == "" && strings.Contains(b.text, " RD ") {
					emits = true
				}
			}
			if emits {
				iRange = i
			}
		case iRange >= 0 && iEnd < 0 && it.action == "end" && it.node == items[iRange].node:
			iEnd = i
		}
	}
	c.check(iCS >= 0 && iRange > iCS && iEnd > iRange && iDF > iEnd, "IO-REGISTER", "font template", "definefont follows the CharStrings block", token.NoPos, "definefont is the last registration step of the written program",
		"the font program template calls definefont before all charstrings are written: a truncated file could register an incomplete font")
}

// useBeforeCheck: the data result of an I/O call steers control only after
// its error has been found nil.  (Byte counts are exempt: they are valid
// together with an error.)
func (c *Ctx) useBeforeCheck(a *ioAnalysis) {
	n := 0
	for _, f := range c.modFuncs {
		fname := c.fname(f)
		eachInstr(f, func(ins ssa.Instruction) {
			call, ok := ins.(*ssa.Call)
			if !ok {
				return
			}
			desc, isIO := a.ioCall(call)
			if !isIO || call.Common().Signature().Results().Len() != 2 {
				return
			}
			res := call.Common().Signature().Results()
			if b, ok := res.At(0).Type().Underlying().(*types.Basic); ok && b.Info()&types.IsInteger != 0 && b.Kind() != types.Uint8 {
				return // a count
			}
			var v, e ssa.Value
			for _, r := range *call.Referrers() {
				if ex, ok := r.(*ssa.Extract); ok {
					if ex.Index == 0 {
						v = ex
					} else {
						e = ex
					}
				}
			}
			if v == nil || e == nil {
				return
			}
			if _, isFlag := a.errFlagsOf(call)[v]; isFlag {
				return // the value announces the error itself (set whenever the error is): testing it is testing the error
			}
			// branches that depend on v
			seen := map[ssa.Value]bool{}
			var ifs []*ssa.If
			var walk func(x ssa.Value, depth int)
			walk = func(x ssa.Value, depth int) {
				if seen[x] || depth > 4 || x.Referrers() == nil {
					return
				}
				seen[x] = true
				for _, r := range *x.Referrers() {
					switch r := r.(type) {
					case *ssa.If:
						ifs = append(ifs, r)
					case *ssa.BinOp:
						walk(r, depth+1)
					case *ssa.UnOp:
						if r.Op != token.MUL {
							walk(r, depth+1)
						}
					case *ssa.Convert:
						walk(r, depth+1)
					case *ssa.ChangeType:
						walk(r, depth+1)
					case *ssa.Call:
						if sc := r.Common().StaticCallee(); sc != nil && sc.Signature.Results().Len() == 1 {
							if bt, ok := sc.Signature.Results().At(0).Type().Underlying().(*types.Basic); ok && bt.Kind() == types.Bool {
								walk(r, depth+1)
							}
						}
					}
				}
			}
			walk(v, 0)
			if len(ifs) == 0 {
				return
			}
			n++
			for _, ifi := range ifs {
				checked := false
				for _, cd := range domConds(ifi.Block()) {
					if m, ok := asCmp(cd); ok && m.op == token.EQL && (m.x == e && isNilConst(m.y) || m.y == e && isNilConst(m.x)) {
						checked = true
					}
				}
				if !checked {
					c.fail("IO-USEBEFORECHECK", fname, "data of "+desc+" steers control only after its error was found nil", ifi.Pos(),
						"the value returned by "+desc+" is tested at "+c.pos(ifi.Pos())+" before (or without) its error being checked: on a read fault the zero value is taken for input (e.g. for white space) and the fault is never seen")
					return
				}
			}
			c.ok("IO-USEBEFORECHECK", fname, "data of "+desc+" steers control only after its error was found nil", call.Pos(), fmt.Sprintf("%d branch(es) on the value, all under err == nil", len(ifs)), "")
		})
	}
	c.floor("IO-USEBEFORECHECK", 8)
}

// isErrorType: the field holds an error (the scanner's sticky read error, whatever it is called).
func isErrorType(t types.Type) bool {
	n, ok := t.(*types.Named)
	return ok && n.Obj().Pkg() == nil && n.Obj().Name() == "error"
}

// eofHoldsIn: block b is entered only over an edge on which e equals an EOF sentinel (the test
// `e == io.EOF` / `e == io.ErrUnexpectedEOF` dominates it with that outcome).
func eofHoldsIn(b *ssa.BasicBlock, e ssa.Value) bool {
	for _, cd := range domConds(b) {
		if m, ok := asCmp(cd); ok && m.op == token.EQL && (origin(m.x) == e || m.x == e || origin(m.y) == e || m.y == e) && (isEOFGlobal(m.x) || isEOFGlobal(m.y)) {
			return true
		}
	}
	return false
}

// eofImplied: the boolean v can be true only if e equals an EOF sentinel (the comparison itself, or
// an && chain that contains it in any position: every edge of the phi that does not carry `false`
// is the comparison or comes from a block in which it has been found true).
func eofImplied(v, e ssa.Value, depth int) bool {
	if depth > 6 {
		return false
	}
	switch x := v.(type) {
	case *ssa.BinOp:
		if x.Op == token.EQL && (origin(x.X) == e || x.X == e || origin(x.Y) == e || x.Y == e) && (isEOFGlobal(x.X) || isEOFGlobal(x.Y)) {
			return true
		}
	case *ssa.Phi:
		any := false
		for i, ed := range x.Edges {
			if k, ok := ed.(*ssa.Const); ok && k.Value != nil && k.Value.String() == "false" {
				continue
			}
			if !eofImplied(ed, e, depth+1) && !(i < len(x.Block().Preds) && eofHoldsIn(x.Block().Preds[i], e)) {
				return false
			}
			any = true
		}
		return any
	}
	return false
}
