package main

import (
	"fmt"
	"go/types"
	"strings"

	"golang.org/x/tools/go/ssa"
)

// C16 — the grammar clauses of IsValid and of the algorithmic forms of ToUnicode, decided by
// evaluating the two functions on the SSA form (ssaeval.go) for one representative per cell of
// the partition the AGL specification induces: every byte value in the position of a digit / a
// name character, every length around the limits, the boundary code points of the surrogate and
// Unicode ranges.  Table look-ups are answered "not listed", so only the grammar is exercised.

func (c *Ctx) evalIsValid(s string) (bool, string) {
	fn := c.fn("names", "IsValid")
	ev := &ssaEval{c: c, bind: map[ssa.Value]sv{}, mem: map[string]sv{}}
	ev.call = func(call ssa.CallInstruction, args []sv) (sv, bool) { return stdCall(ev, call, args) }
	ev.oracle = errOracle
	ret := ev.runFunc(fn, []sv{{k: svString, s: s}})
	if len(ret) != 1 || ret[0].k != svBool {
		return false, "not evaluable: " + ev.why
	}
	return ret[0].b, ""
}

func (c *Ctx) isValidGrammarSSA() {
	fn := c.fn("names", "IsValid")
	fname := "names.IsValid"
	bad := ""
	for L := 0; L <= 40 && bad == ""; L++ {
		v, why := c.evalIsValid(strings.Repeat("a", L))
		if why != "" {
			bad = why
		} else if v != (L >= 1 && L <= 31) {
			bad = fmt.Sprintf("a name of length %d is %s", L, map[bool]string{true: "accepted", false: "rejected"}[v])
		}
	}
	c.check(bad == "", "NAMES-VALID", fname, "length 1..31", fn.Pos(), "lengths 0..40 evaluated", "IsValid length rule: "+bad)
	bad = ""
	for b := 0; b < 256 && bad == ""; b++ {
		v, why := c.evalIsValid(string([]byte{byte(b)}) + "a")
		want := b >= 'A' && b <= 'Z' || b >= 'a' && b <= 'z' || b == '_'
		if why != "" {
			bad = why
		} else if v != want {
			bad = fmt.Sprintf("first character %d is %s", b, map[bool]string{true: "accepted", false: "rejected"}[v])
		}
	}
	c.check(bad == "", "NAMES-VALID", fname, "must not start with a digit or a period", fn.Pos(), "256 first bytes evaluated", "IsValid first-character rule: "+bad)
	bad = ""
	for b := 0; b < 256 && bad == ""; b++ {
		v, why := c.evalIsValid("a" + string([]byte{byte(b)}) + "a")
		want := b >= 'A' && b <= 'Z' || b >= 'a' && b <= 'z' || b >= '0' && b <= '9' || b == '.' || b == '_'
		if why != "" {
			bad = why
		} else if v != want {
			bad = fmt.Sprintf("character %d is %s", b, map[bool]string{true: "accepted", false: "rejected"}[v])
		}
	}
	c.check(bad == "", "NAMES-VALID", fname, "characters from [A-Za-z0-9._] only", fn.Pos(), "256 byte values evaluated", "IsValid character class: "+bad)
	v, why := c.evalIsValid(".notdef")
	c.check(v && why == "", "NAMES-VALID", fname, ".notdef is valid", fn.Pos(), "", "IsValid no longer accepts .notdef "+why)
}

// evalToUnicode evaluates ToUnicode(name, dingbats) with every table look-up answered "not
// listed"; it returns the code points and the tables consulted for the first component.
func (c *Ctx) evalToUnicode(name string, dingbats bool) (res []int64, tables []string, why string) {
	fn := c.fn("names", "ToUnicode")
	gm := c.typeObj("names", "glyphMap")
	ev := &ssaEval{c: c, bind: map[ssa.Value]sv{}, mem: map[string]sv{}}
	ev.noInline = func(f *ssa.Function) bool {
		return f.Signature.Recv() != nil && pointsTo(f.Signature.Recv().Type(), gm)
	}
	ev.oracle = errOracle
	// package-level tables of constants that are only read (the names of the lists to consult, say)
	// hold what their initialiser put there; sub-slices of them are slices of the table (ext_x10.go)
	for k, v := range c.constGlobalsX10(fn.Pkg) {
		ev.mem[k] = v
	}
	ev.composeSlices = true
	ev.call = func(call ssa.CallInstruction, args []sv) (sv, bool) {
		if call == nil {
			return sv{}, false
		}
		sc := call.Common().StaticCallee()
		if sc != nil && sc.Signature.Recv() != nil && pointsTo(sc.Signature.Recv().Type(), gm) {
			for _, a := range args {
				if a.k == svString && (a.s == "zapfdingbats" || a.s == "glyphlist") {
					tables = append(tables, a.s)
				}
			}
			r := sc.Signature.Results()
			if r.Len() == 2 {
				return sv{k: svTuple, tup: []sv{{k: svNil}, boolV(false)}}, true
			}
			return sv{k: svNil}, true
		}
		return stdCall(ev, call, args)
	}
	ret := ev.runFunc(fn, []sv{{k: svString, s: name}, boolV(dingbats)})
	if len(ret) != 1 {
		return nil, tables, "not evaluable: " + ev.why
	}
	el, ok := ev.elems(ret[0])
	if !ok {
		return nil, tables, "result not evaluable: " + ev.render(ret[0])
	}
	for _, x := range el {
		if x.k != svInt {
			return nil, tables, "result not evaluable: " + ev.render(ret[0])
		}
		res = append(res, x.i)
	}
	return res, tables, ""
}

func (c *Ctx) toUnicodeGrammarSSA() {
	fn := c.fn("names", "ToUnicode")
	fname := "names.ToUnicode"
	type tc struct {
		name string
		want []int64
	}
	same := func(a, b []int64) bool {
		if len(a) != len(b) {
			return false
		}
		for i := range a {
			if a[i] != b[i] {
				return false
			}
		}
		return true
	}
	runAll := func(cases []tc) string {
		for _, t := range cases {
			got, _, why := c.evalToUnicode(t.name, false)
			if why != "" {
				return fmt.Sprintf("%q: %s", t.name, why)
			}
			if !same(got, t.want) {
				return fmt.Sprintf("%q maps to %X, the AGL specification says %X", t.name, got, t.want)
			}
		}
		return ""
	}
	// suffix and components
	bad := runAll([]tc{{"uni0041.alt", []int64{0x41}}, {"uni0041_uni0042", []int64{0x41, 0x42}}, {"uni0041.x_uni0042", []int64{0x41}}, {"uni0041_.x", []int64{0x41}}, {".notdef", nil}})
	c.check(bad == "", "NAMES-AGL", fname, "everything from the first period on is dropped; components are split at underscores", fn.Pos(), "5 shapes evaluated", "AGL step 1/2: "+bad)
	// hexadecimal digits: exactly 0-9 and upper-case A-F, in both forms
	bad = ""
	for b := 0; b < 256 && bad == ""; b++ {
		ch := string([]byte{byte(b)})
		var want1, want2 []int64
		d := int64(-1)
		switch {
		case b >= '0' && b <= '9':
			d = int64(b - '0')
		case b >= 'A' && b <= 'F':
			d = int64(b-'A') + 10
		}
		if d >= 0 {
			want1, want2 = []int64{0x40 + d}, []int64{0x40 + d}
		}
		if b == '.' {
			// a period cuts the name: "uni004" and "u004" are not well-formed
		}
		if b == '_' {
			// an underscore splits the name
		}
		bad = runAll([]tc{{"uni004" + ch, want1}, {"u004" + ch, want2}})
	}
	c.check(bad == "", "NAMES-AGL", fname, "hexadecimal digits of uni/u names: exactly 0-9 and upper-case A-F with their values", fn.Pos(), "256 byte values in both forms", "uni/u hex digits: "+bad)
	// uni form: length and groups
	bad = ""
	for k := 0; k <= 13 && bad == ""; k++ {
		digits := strings.Repeat("0041", 4)[:k]
		var want []int64
		if k%4 == 0 {
			for i := 0; i < k/4; i++ {
				want = append(want, 0x41)
			}
		}
		if k >= 4 && k <= 6 && k%4 != 0 {
			want = nil // "uni00410" is not a u-form either (n is not a digit)
		}
		bad = runAll([]tc{{"uni" + digits, want}})
	}
	c.check(bad == "", "NAMES-AGL", fname, "uni form: prefix uni and length ≡ 3 (mod 4), groups of four digits", fn.Pos(), "0..13 digits evaluated", "uni form: "+bad)
	bad = runAll([]tc{{"uniD7FF", []int64{0xD7FF}}, {"uniD800", nil}, {"uniDFFF", nil}, {"uniE000", []int64{0xE000}}, {"uniFFFF", []int64{0xFFFF}}, {"uni0041D800", nil}, {"uniD8000041", nil}, {"uni0041DFFF0042", nil}})
	c.check(bad == "", "NAMES-AGL", fname, "uni form: surrogates D800–DFFF excluded, a malformed group rejects the whole component", fn.Pos(), "boundary values evaluated", "uni form: "+bad)
	// u form
	bad = ""
	for k := 0; k <= 9 && bad == ""; k++ {
		digits := "000000041"[9-k:]
		var want []int64
		if k >= 4 && k <= 6 {
			want = []int64{0x41}
		}
		bad = runAll([]tc{{"u" + digits, want}})
	}
	c.check(bad == "", "NAMES-AGL", fname, "u form: letter u followed by 4–6 digits", fn.Pos(), "0..9 digits evaluated", "u form: "+bad)
	bad = runAll([]tc{{"uD7FF", []int64{0xD7FF}}, {"uD800", nil}, {"uDFFF", nil}, {"uE000", []int64{0xE000}}, {"u10FFFF", []int64{0x10FFFF}}, {"u110000", nil}, {"uFFFFFF", nil}, {"U0041", nil}})
	c.check(bad == "", "NAMES-AGL", fname, "u form: value below 110000 and outside D800–DFFF", fn.Pos(), "boundary values evaluated", "u form: "+bad)
	// scratch buffers are fresh per component
	bad = runAll([]tc{{"uni0041D800_uni0042", []int64{0x42}}, {"uni00410G41_u0042", []int64{0x42}}, {"u004G_u0042", []int64{0x42}}})
	c.check(bad == "", "NAMES-AGL", fname, "scratch buffers are fresh for every component", fn.Pos(), "malformed component followed by a good one", "code points collected for a malformed component leak into a later one: "+bad)
	// tables
	_, t1, w1 := c.evalToUnicode("xyzzy", true)
	_, t2, w2 := c.evalToUnicode("xyzzy", false)
	okD := w1 == "" && w2 == "" && strings.Join(t1, ",") == "zapfdingbats,glyphlist" && strings.Join(t2, ",") == "glyphlist"
	c.check(okD, "NAMES-AGL", fname, "the Zapf Dingbats list is consulted only for dingbat fonts, before the glyph list", fn.Pos(), fmt.Sprintf("dingbats: %v; otherwise: %v", t1, t2), fmt.Sprintf("tables consulted for a dingbat font: %v, otherwise: %v %s%s", t1, t2, w1, w2))
}

// evalFromUnicode evaluates FromUnicode(r).  The functions that load a table (result type: a
// map) are not entered; a look-up in what they return is answered from `listed`, a look-up in a
// package-level table (the compatibility expansions) from `expansions`.
func (c *Ctx) evalFromUnicode(r int64, listed map[int64]string, expansions map[int64][]int64) (string, string) {
	fn := c.fn("names", "FromUnicode")
	ev := &ssaEval{c: c, bind: map[ssa.Value]sv{}, mem: map[string]sv{}}
	ev.oracle = errOracle
	ev.noInline = func(f *ssa.Function) bool {
		res := f.Signature.Results()
		if res.Len() == 1 {
			if _, isMap := res.At(0).Type().Underlying().(*types.Map); isMap {
				return true
			}
		}
		return false
	}
	ev.call = func(call ssa.CallInstruction, args []sv) (sv, bool) {
		if call == nil {
			if len(args) == 3 && args[0].s == "lookup" && args[2].k == svInt {
				if strings.Contains(args[1].s, "global:") {
					if x, ok := expansions[args[2].i]; ok {
						var el []sv
						for _, v := range x {
							el = append(el, intV(v))
						}
						return sv{k: svTuple, tup: []sv{ev.newList(el), boolV(true)}}, true
					}
					return sv{k: svTuple, tup: []sv{{k: svNil}, boolV(false)}}, true
				}
				if n, ok := listed[args[2].i]; ok {
					return sv{k: svTuple, tup: []sv{{k: svString, s: n}, boolV(true)}}, true
				}
				return sv{k: svTuple, tup: []sv{{k: svString}, boolV(false)}}, true
			}
			return sv{}, false
		}
		if sc := call.Common().StaticCallee(); sc != nil && c.inModule(sc) && ev.noInline(sc) {
			return symV("table:" + sc.Name()), true
		}
		return stdCall(ev, call, args)
	}
	ret := ev.runFunc(fn, []sv{intV(r)})
	if len(ret) != 1 || ret[0].k != svString {
		return "", "not evaluable: " + ev.why + " " + fmt.Sprint(ret)
	}
	return ret[0].s, ""
}

// fromUnicodeRule: a character that is in no table gets the name u + at least four upper-case
// hexadecimal digits (the form ToUnicode maps back); listed characters get their listed name;
// a compatibility expansion gives the names of its parts joined by underscores.
func (c *Ctx) fromUnicodeRule() {
	fn := c.fn("names", "FromUnicode")
	bad := ""
	for _, r := range []int64{0x1, 0xFF, 0xABC, 0xD7FF, 0xE000, 0xFFFF, 0x10000, 0xABCDE, 0x10FFFF} {
		got, why := c.evalFromUnicode(r, nil, nil)
		want := fmt.Sprintf("u%04X", r)
		if why != "" {
			bad = fmt.Sprintf("U+%04X: %s", r, why)
			break
		}
		if got != want {
			bad = fmt.Sprintf("U+%04X gets the name %q, expected %q", r, got, want)
			break
		}
	}
	c.check(bad == "", "NAMES-TABLES", "names.FromUnicode", "fallback name = u + at least four upper-case hexadecimal digits", fn.Pos(), "9 code points outside all tables evaluated", "the fallback glyph name is not u + the upper-case, zero-padded hexadecimal code: ToUnicode would not map it back: "+bad)
	bad = ""
	if got, why := c.evalFromUnicode(0x41, map[int64]string{0x41: "A"}, nil); why != "" || got != "A" {
		bad = fmt.Sprintf("a listed character gets the name %q %s", got, why)
	}
	if got, why := c.evalFromUnicode(0x132, map[int64]string{0x49: "I", 0x4A: "J"}, map[int64][]int64{0x132: {0x49, 0x4A}}); why != "" || got != "I_J" {
		bad = fmt.Sprintf("a character with the compatibility expansion I J gets the name %q %s", got, why)
	}
	if got, why := c.evalFromUnicode(0x132, map[int64]string{0x49: "I"}, map[int64][]int64{0x132: {0x49, 0xE000}}); why != "" || got != "I_uE000" {
		bad = fmt.Sprintf("an expansion with an unlisted part gets the name %q %s", got, why)
	}
	c.check(bad == "", "NAMES-TABLES", "names.FromUnicode", "listed characters get their listed name, expansions the names of their parts joined by underscores", fn.Pos(), "3 shapes evaluated", "FromUnicode: "+bad)
}
