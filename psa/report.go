package main

import (
	"encoding/json"
	"fmt"
	"os"
	"path/filepath"
	"regexp"
	"sort"
	"strings"
)

const (
	stOK        = "discharged"
	stReviewed  = "reviewed"
	stKnown     = "known"
	stViolation = "violation"
)

// An Obligation is one thing a rule had to establish.  Its key never
// contains a line number.
type Obligation struct {
	Rule      string `json:"rule"`
	Func      string `json:"function"`
	Construct string `json:"construct"`
	Pos       string `json:"pos,omitempty"`
	Status    string `json:"status"`
	Kind      string `json:"kind,omitempty"` // "violation" | "undecided"
	Tactic    string `json:"tactic,omitempty"`
	Detail    string `json:"detail,omitempty"`
	// Requires lists canonical facts that were available at the site; a
	// reviewed entry may demand some of them.
	Facts []string `json:"facts,omitempty"`
	// Alias: the construct rendered with the values that small helpers return written out in
	// place (`pop(…)#0` as the element the helper reads); used only to find the reviewed entry
	// of code that was moved into such a helper.
	Alias string `json:"-"`
}

func (o *Obligation) Key() string { return o.Rule + "|" + o.Func + "|" + o.Construct }

type Report struct {
	Prop, Tier string
	Obl        []Obligation
	Notes      []string
	Instances  map[string]int // rule -> number of rule instances seen
	Floors     map[string]int
	Extra      map[string]any
	seen       map[string]int
	only       map[string]bool // while set, only obligations and floors of these rules are recorded (a rule family run under a second property)
}

func newReport(id, tier string) *Report {
	return &Report{Prop: id, Tier: tier, Instances: map[string]int{}, Floors: map[string]int{}, Extra: map[string]any{}, seen: map[string]int{}}
}

func (r *Report) add(o Obligation) {
	if r.only != nil && !r.only[o.Rule] {
		return
	}
	// make keys unique within a run: the n-th identical construct in a
	// function gets a #n suffix (ordinal in source order, not a line)
	k := o.Key()
	r.seen[k]++
	if n := r.seen[k]; n > 1 {
		o.Construct = fmt.Sprintf("%s #%d", o.Construct, n)
	}
	r.Obl = append(r.Obl, o)
	r.Instances[o.Rule]++
}

func (r *Report) count(st string) int {
	n := 0
	for _, o := range r.Obl {
		if o.Status == st {
			n++
		}
	}
	return n
}

// finish checks the instance floors: a rule that matched fewer sites than
// were confirmed by hand is broken or the code moved out of its reach.
func (r *Report) finish(c *Ctx) {
	var rules []string
	for rule := range r.Floors {
		rules = append(rules, rule)
	}
	sort.Strings(rules)
	for _, rule := range rules {
		if r.Instances[rule] < r.Floors[rule] {
			r.Obl = append(r.Obl, Obligation{Rule: rule, Func: "-", Construct: "instance floor", Status: stViolation, Kind: "undecided",
				Detail: fmt.Sprintf("rule %s matched %d instances, fewer than the %d confirmed by hand: the code it is anchored in has moved out of reach of the rule", rule, r.Instances[rule], r.Floors[rule])})
		}
	}
}

type knownFile struct {
	Findings []struct {
		Property string `json:"property"`
		Key      string `json:"key"`
		What     string `json:"what"`
	} `json:"findings"`
	Fixed []string `json:"fixed"`
}

func loadKnown() map[string]string {
	res := map[string]string{}
	data, err := os.ReadFile(filepath.Join(verifDir, "known_findings.json"))
	if err != nil {
		return res
	}
	var kf knownFile
	if err := json.Unmarshal(data, &kf); err != nil {
		panic("known_findings.json: " + err.Error())
	}
	for _, f := range kf.Findings {
		res[f.Property+"|"+f.Key] = f.What
	}
	return res
}

type reviewedEntry struct {
	Key      string   `json:"key"`
	Reason   string   `json:"reason"`
	Requires []string `json:"requires,omitempty"`
}

func loadReviewed(id string) map[string]reviewedEntry {
	res := map[string]reviewedEntry{}
	data, err := os.ReadFile(filepath.Join(verifDir, "reviewed", id+".json"))
	if err != nil {
		return res
	}
	var list []reviewedEntry
	if err := json.Unmarshal(data, &list); err != nil {
		panic("reviewed/" + id + ".json: " + err.Error())
	}
	for _, e := range list {
		res[e.Key] = e
	}
	return res
}

func (r *Report) classify(known map[string]string, reviewed map[string]reviewedEntry) {
	used := map[string]bool{}
	for i := range r.Obl {
		o := &r.Obl[i]
		if o.Status != stViolation {
			continue
		}
		e, ok := reviewed[o.Key()]
		ekey := o.Key()
		if !ok {
			// the same construct in another function of the same package: code that was moved
			// into (or out of) a helper keeps its reviewed argument as long as the facts the
			// entry requires still hold at the site
			parts := strings.SplitN(o.Key(), "|", 3)
			if len(parts) == 3 {
				var rkeys []string
				for k := range reviewed {
					rkeys = append(rkeys, k)
				}
				sort.Strings(rkeys)
				for _, k := range rkeys {
					cand := reviewed[k]
					kp := strings.SplitN(k, "|", 3)
					if len(kp) == 3 && !used[k] && kp[0] == parts[0] && (stripOrdinal(kp[2]) == stripOrdinal(parts[2]) || o.Alias != "" && stripOrdinal(kp[2]) == stripOrdinal(o.Alias)) && pkgOfFunc(kp[1]) == pkgOfFunc(parts[1]) && k != o.Key() {
						e, ok, ekey = cand, true, k
						break
					}
				}
			}
		}
		if ok {
			used[ekey] = true
			missing := ""
			for _, req := range e.Requires {
				found := false
				for _, f := range o.Facts {
					// (unexported field names are not part of a fact's shape: they get renamed)
					if f == req || shapeUnexp.ReplaceAllString(f, ".·") == shapeUnexp.ReplaceAllString(req, ".·") {
						found = true
						break
					}
				}
				if !found {
					missing = req
					break
				}
			}
			if missing == "" {
				o.Status = stReviewed
				o.Tactic = "reviewed: " + e.Reason
				continue
			}
			o.Detail += "\n(reviewed entry exists but its required fact `" + missing + "` no longer holds at the site)"
		}
		if what, ok := known[r.Prop+"|"+o.Key()]; ok {
			o.Status = stKnown
			o.Detail = what + " — " + o.Detail
		}
	}
	var stale []string
	for k := range reviewed {
		if !used[k] {
			stale = append(stale, k)
		}
	}
	sort.Strings(stale)
	if len(stale) > 0 {
		r.Extra["stale_reviewed_entries"] = stale
	}
}

func writeEvidence(pc *propCheck, r *Report, seed int, wall float64, nviol int) {
	dir := filepath.Join(verifDir, "evidence")
	os.MkdirAll(dir, 0o755)
	byRule := map[string]map[string]int{}
	byTactic := map[string]int{}
	for _, o := range r.Obl {
		m := byRule[o.Rule]
		if m == nil {
			m = map[string]int{}
			byRule[o.Rule] = m
		}
		m[o.Status]++
		if o.Status == stOK || o.Status == stReviewed {
			t := o.Tactic
			if strings.HasPrefix(t, "reviewed") {
				t = "reviewed"
			}
			byTactic[t]++
		}
	}
	// samples: a spread of actual obligations (first of each rule, then more)
	var samples []Obligation
	seenRule := map[string]int{}
	for _, o := range r.Obl {
		if seenRule[o.Rule] < 3 && len(samples) < 40 {
			seenRule[o.Rule]++
			s := o
			if len(s.Detail) > 400 {
				s.Detail = s.Detail[:400] + "…"
			}
			if len(s.Facts) > 8 {
				s.Facts = s.Facts[:8]
			}
			samples = append(samples, s)
		}
	}
	open := []Obligation{}
	for _, o := range r.Obl {
		if o.Status == stViolation || o.Status == stKnown {
			open = append(open, o)
		}
	}
	keys := map[string]bool{}
	for _, o := range r.Obl {
		keys[o.Key()] = true
	}
	cov := map[string]any{
		"explanation":          pc.explanation,
		"obligations":          len(r.Obl),
		"discharged":           r.count(stOK) + r.count(stReviewed),
		"discharged_by_rule":   byRule,
		"discharged_by_tactic": byTactic,
		"reviewed":             r.count(stReviewed),
		"known_findings":       r.count(stKnown),
		"evaluations":          len(r.Obl),
		"distinct_nontrivial":  len(keys),
		"rule":                 "one obligation per (rule, function, construct) enumerated from the type-checked AST / go/ssa form of /repo's working tree; all are distinct by key; an obligation is non-trivial when a rule had to inspect code to decide it (all are)",
		"rule_instances":       r.Instances,
		"instance_floors":      r.Floors,
		"samples":              samples,
		"open":                 open,
		"checker_cmd":          "bin/psa check " + r.Prop + " --tier " + r.Tier,
		"trusted_base":         pc.trusted,
		"exhaustive":           true,
	}
	if len(assumptionUsed) > 0 {
		var used []map[string]string
		for _, a := range fieldAssumptions {
			if assumptionUsed[a.ID] {
				used = append(used, map[string]string{"id": a.ID, "field": a.key, "fact": a.Fact, "reason": a.Reason})
			}
		}
		cov["reviewed_assumptions_used"] = used
	}
	if len(separations) > 0 && r.Prop == "C01" {
		var sep []map[string]string
		for _, a := range separations {
			sep = append(sep, map[string]string{"id": a.ID, "field": a.key, "fact": a.Fact, "reason": a.Reason})
		}
		cov["reviewed_separations"] = sep
	}
	if feCtx != nil && feCtx.ren != nil && len(feCtx.ren.notes) > 0 {
		cov["anchors_resolved_by_shape"] = feCtx.ren.notes
	}
	for k, v := range r.Extra {
		cov[k] = v
	}
	if pc.assumptions == nil {
		pc.assumptions = []string{}
	}
	if pc.trusted == nil {
		pc.trusted = []string{}
	}
	cov["trusted_base"] = pc.trusted
	ev := map[string]any{
		"property_id": r.Prop,
		"tier":        r.Tier,
		"seed":        seed,
		"level":       "other",
		"coverage":    cov,
		"assumptions": pc.assumptions,
		"wall_s":      wall,
		"violations":  nviol,
	}
	data, _ := json.MarshalIndent(ev, "", " ")
	if err := os.WriteFile(filepath.Join(dir, r.Prop+".json"), data, 0o644); err != nil {
		fmt.Fprintln(os.Stderr, "cannot write evidence:", err)
	}
}

var shapeQual = regexp.MustCompile(`([A-Za-z_φ][A-Za-z0-9_]*|…)\.`)
var shapeLen = regexp.MustCompile(`len\((…|[.A-Za-z0-9_φ·]+)\)`)

// stripOrdinal removes the "#n" ordinal of a construct and the parts of its rendering that
// depend on how deep the expression happens to be nested (elided qualifiers).
func stripOrdinal(s string) string {
	if i := strings.LastIndex(s, " #"); i >= 0 {
		s = s[:i]
	}
	s = shapeQual.ReplaceAllString(s, ".")
	// unexported field and method names are not part of the shape (they get renamed)
	s = shapeUnexp.ReplaceAllString(s, ".·")
	s = shapeLen.ReplaceAllString(s, "len()")
	// a value made in place and the same value made by a helper
	s = shapeCall.ReplaceAllString(s, "VALUE")
	s = strings.ReplaceAll(s, "MakeMap", "VALUE")
	// a map look-up keyed by a field of some record: which variable holds the map and how the record
	// is reached (range value, pointer into the slice, loop index) is not part of the shape
	s = shapeDeref.ReplaceAllString(s, "dereference of VALUE[.·]")
	return s
}

var shapeDeref = regexp.MustCompile(`dereference of [A-Za-z_φ…][A-Za-z0-9_]*\[.*\.·\]$`)

var shapeUnexp = regexp.MustCompile(`\.[a-z_][A-Za-z0-9_]*`)

var shapeCall = regexp.MustCompile(`[A-Za-z_][A-Za-z0-9_]*\([^()]*\)#[0-9]+`)

// pkgOfFunc: the package part of a rendered function name such as
// "(*postscript.Interpreter).executeOne" or "type1.Read".
func pkgOfFunc(s string) string {
	s = strings.TrimLeft(s, "(*")
	if i := strings.IndexByte(s, '.'); i >= 0 {
		return s[:i]
	}
	return s
}
