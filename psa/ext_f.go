package main

import (
	"fmt"
	"go/constant"
	"go/token"
	"go/types"
	"math/big"
	"sort"
	"strings"

	"golang.org/x/tools/go/ssa"
)

// Helpers of the C02 / C03 rules (worker F).

// bindWorker finds, by role, the function that performs `bind`: the module function reached by
// static calls from the registered operator `bind` (the operator itself included) that has a
// parameter of type Procedure and stores into the elements of that parameter.  Whether it is a
// method of the interpreter or a plain function taking the interpreter, and what it is called,
// does not matter.
func (c *Ctx) bindWorker(ia *interpAnchors) *ssa.Function {
	procT := c.typeObj("postscript", "Procedure")
	storesIntoParam := func(f *ssa.Function) bool {
		found := false
		eachInstr(f, func(ins ssa.Instruction) {
			st, ok := ins.(*ssa.Store)
			if !ok {
				return
			}
			ix, ok := st.Addr.(*ssa.IndexAddr)
			if !ok {
				return
			}
			if p, isParam := origin(ix.X).(*ssa.Parameter); isParam && typeIsNamed(p.Type(), procT) {
				found = true
			}
		})
		return found
	}
	var start *ssa.Function
	if e := c.registry().byKey["systemdict/bind"]; e != nil {
		start = e.fn
	}
	if start != nil {
		seen := map[*ssa.Function]bool{}
		queue := []*ssa.Function{start}
		for depth := 0; depth < 3 && len(queue) > 0; depth++ {
			var next []*ssa.Function
			for _, f := range queue {
				if seen[f] || len(f.Blocks) == 0 {
					continue
				}
				seen[f] = true
				if storesIntoParam(f) {
					return f
				}
				eachInstr(f, func(ins ssa.Instruction) {
					if call, ok := ins.(ssa.CallInstruction); ok {
						if g := call.Common().StaticCallee(); g != nil && c.inModule(g) && g != ia.e && g != ia.load && g != ia.executeOne {
							next = append(next, g)
						}
					}
				})
			}
			queue = next
		}
	}
	if f := c.methodOpt("postscript", "Interpreter", "bindProc"); f != nil {
		return f
	}
	return c.fnOpt("postscript", "bindProc")
}

// deferredRule (CTL-DEFERRED): executeOne is evaluated on the SSA form with one procedure body
// open (the stack of body starts holds one entry) for an object of every kind the dispatch
// distinguishes, and for the two braces.  While a body is open, an object that is not a brace must
// be appended to the operand stack and nothing else may happen: the operation counter is not
// touched, nothing is looked up, nothing is called; `{` opens a nested body, `}` closes the body
// and leaves the collected objects as one procedure.  With no body open the same object must
// reach the dispatch (otherwise the evaluation would prove nothing).  Helpers are evaluated in
// place, so the rule does not depend on where the test for an open body is written.
func (c *Ctx) deferredRule(ia *interpAnchors) {
	fn := ia.executeOne
	fname := c.fname(fn)
	procStart := c.fld("intp.procStart")
	type outcome struct {
		ret        string
		stack      string
		starts     string
		dispatched bool
		why        string
	}
	run := func(obj sv, flag bool, stack []sv, starts []sv) outcome {
		ev := &ssaEval{c: c, bind: map[ssa.Value]sv{}, mem: map[string]sv{}}
		ev.mem["intp.Stack"] = ev.newList(stack)
		ev.mem["intp."+procStart] = ev.newList(starts)
		var o outcome
		ev.noInline = func(g *ssa.Function) bool { return g == ia.executeOne || g == ia.load }
		ev.load = func(ld *ssa.UnOp, addr sv) (sv, bool) {
			// counters and limits of the interpreter at rest
			if strings.HasPrefix(addr.s, "intp.") {
				if bt, ok := ld.Type().Underlying().(*types.Basic); ok {
					switch {
					case bt.Info()&types.IsInteger != 0:
						return intV(0), true
					case bt.Info()&types.IsBoolean != 0:
						return boolV(false), true
					}
				}
			}
			return sv{}, false
		}
		typeOf := func(v sv) string {
			if v.k == svList || v.k == svString {
				return v.op
			}
			if i := strings.Index(v.s, ":"); v.k == svSym && i > 0 {
				return v.s[:i]
			}
			return ""
		}
		ev.call = func(call ssa.CallInstruction, args []sv) (sv, bool) {
			if call == nil {
				if len(args) == 2 && strings.HasPrefix(args[0].s, "typeassert:") {
					want := args[0].s[len("typeassert:"):]
					want = want[strings.LastIndex(want, ".")+1:]
					if typeOf(args[1]) == want {
						return sv{k: svTuple, tup: []sv{args[1], boolV(true)}}, true
					}
					return sv{k: svTuple, tup: []sv{{k: svNil}, boolV(false)}}, true
				}
				return sv{}, false
			}
			cc := call.Common()
			switch {
			case cc.StaticCallee() == ia.executeOne || cc.StaticCallee() == ia.load:
				o.dispatched = true
				return sv{}, false
			case cc.StaticCallee() == nil && !cc.IsInvoke():
				if _, isB := cc.Value.(*ssa.Builtin); !isB {
					o.dispatched = true // a dynamic call: an operator is run
				}
			case cc.StaticCallee() == ia.e:
				if len(cc.Args) > 1 {
					return symV("error:" + c.errNameOfArg(cc.Args[1])), true
				}
			}
			if b, ok := cc.Value.(*ssa.Builtin); ok && b.Name() == "copy" && len(args) == 2 && args[0].k == svList {
				if src, ok := ev.elems(args[1]); ok {
					dst, _ := ev.elems(args[0])
					n := copy(dst, src)
					return intV(int64(n)), true
				}
			}
			return sv{}, false
		}
		ev.oracle = func(op token.Token, x, y sv) (bool, bool) {
			// an object that is not an operator name differs from both braces
			if (x.k == svSym && y.k == svString) || (x.k == svString && y.k == svSym) || (x.k == svList && y.k == svString) || (x.k == svString && y.k == svList) {
				switch op {
				case token.EQL:
					return false, true
				case token.NEQ:
					return true, true
				}
			}
			return false, false
		}
		ret := ev.runFunc(fn, []sv{{k: svAddr, s: "intp"}, obj, boolV(flag)})
		o.why = ev.why
		for _, ef := range ev.effects {
			if ef.what == "store" && ef.addr == "intp.NumOps" {
				o.dispatched = true
			}
		}
		if len(ret) == 1 {
			o.ret = ret[0].String()
		}
		o.stack = ev.render(ev.mem["intp.Stack"])
		o.starts = ev.render(ev.mem["intp."+procStart])
		return o
	}
	keep := obj("Integer", "keep")
	var bad []string
	cells := 0
	objects := []sv{obj("Integer", "x"), obj("Name", "x"), obj("builtin", "x"), obj("Procedure", "x"), {k: svString, s: "x", op: "Operator"}}
	for _, x := range objects {
		for _, flag := range []bool{false, true} {
			cells++
			// one body open, started at height 1
			o := run(x, flag, []sv{keep}, []sv{intV(1)})
			want := "[" + keep.String() + " " + x.String() + "]"
			if o.why != "" || o.ret != "nil" || o.dispatched || o.stack != want || o.starts != "[1]" {
				bad = append(bad, fmt.Sprintf("with a procedure body open, the object %s (execute flag %v) is not simply appended to the body: result %s, operand stack %s (expected %s), open bodies %s, dispatched: %v %s", x, flag, o.ret, o.stack, want, o.starts, o.dispatched, o.why))
			}
		}
	}
	// the braces: `{` opens a nested body, `}` closes the innermost one
	{
		cells++
		o := run(sv{k: svString, s: "{", op: "Operator"}, false, []sv{keep, obj("Name", "a")}, []sv{intV(1)})
		if o.why != "" || o.ret != "nil" || o.dispatched || o.starts != "[1 2]" || o.stack != "["+keep.String()+" Name:a]" {
			bad = append(bad, fmt.Sprintf("`{` inside an open body does not open a nested body: result %s, operand stack %s, open bodies %s (expected [1 2]), dispatched: %v %s", o.ret, o.stack, o.starts, o.dispatched, o.why))
		}
		cells++
		o = run(sv{k: svString, s: "}", op: "Operator"}, false, []sv{keep, obj("Name", "a"), obj("Name", "b")}, []sv{intV(1)})
		if o.why != "" || o.ret != "nil" || o.dispatched || o.starts != "[]" || o.stack != "["+keep.String()+" [Name:a Name:b]]" {
			bad = append(bad, fmt.Sprintf("`}` does not close the open body into one procedure: result %s, operand stack %s (expected [%s [Name:a Name:b]]), open bodies %s, dispatched: %v %s", o.ret, o.stack, keep, o.starts, o.dispatched, o.why))
		}
		cells++
		o = run(sv{k: svString, s: "}", op: "Operator"}, false, []sv{keep}, nil)
		if o.ret != "error:syntaxerror" || o.dispatched {
			bad = append(bad, fmt.Sprintf("`}` without an open body: result %s, expected a syntaxerror %s", o.ret, o.why))
		}
	}
	// control: with no body open the object reaches the dispatch
	{
		cells++
		o := run(obj("Integer", "x"), false, []sv{keep}, nil)
		if !o.dispatched {
			bad = append(bad, fmt.Sprintf("with no body open an object does not reach the dispatch (result %s %s): the evaluation proves nothing", o.ret, o.why))
		}
	}
	c.check(len(bad) == 0, "CTL-DEFERRED", fname, "dispatch only outside an open procedure body", fn.Pos(), fmt.Sprintf("%d cells evaluated: object kinds × execute flag with a body open, the braces, control", cells),
		"objects can be dispatched while a procedure body is being collected: procedure bodies are not deferred: "+joinMax(bad, 3))
}

// operatorWithDepth evaluates a registered operator on the SSA form with an operand stack of n
// objects about which nothing is known (a type test on one of them stops the evaluation).  It
// returns the PostScript error name if the operator returns an error value ("nil" for a normal
// return, "?" for a value that is not an error of the interpreter), and the reason if the
// evaluation stopped before a return.  Helpers are evaluated in place.
func (c *Ctx) operatorWithDepth(f *ssa.Function, n int) (ret string, why string) {
	ev := &ssaEval{c: c, bind: map[ssa.Value]sv{}, mem: map[string]sv{}}
	var st []sv
	for i := 0; i < n; i++ {
		st = append(st, symV(fmt.Sprintf("operand%d", n-i)))
	}
	ev.mem["intp.Stack"] = ev.newList(st)
	ev.load = func(ld *ssa.UnOp, addr sv) (sv, bool) {
		if g, ok := ld.X.(*ssa.Global); ok {
			if s := c.globalInit(g); s != "" {
				return symV("errname:" + s), true
			}
		}
		return sv{}, false
	}
	ev.oracle = func(op token.Token, x, y sv) (bool, bool) {
		// the address of a freshly allocated object (an error value under construction) is not nil
		if (x.k == svAddr && y.k == svNil) || (x.k == svNil && y.k == svAddr) {
			switch op {
			case token.EQL:
				return false, true
			case token.NEQ:
				return true, true
			}
		}
		return false, false
	}
	res := ev.runFunc(f, []sv{{k: svAddr, s: "intp"}})
	for _, ef := range ev.effects {
		if ef.what == "panic" {
			// an operand is accessed that is not there (or an explicit panic)
			return "panic", ""
		}
	}
	if len(res) == 0 {
		if ev.why == "" {
			return "", "no return reached"
		}
		return "", ev.why
	}
	r := res[len(res)-1]
	switch {
	case r.k == svNil:
		return "nil", ""
	case r.k == svAddr:
		var keys []string
		for k := range ev.mem {
			if strings.HasPrefix(k, r.s+".") {
				keys = append(keys, k)
			}
		}
		sort.Strings(keys)
		for _, k := range keys {
			if v := ev.mem[k]; v.k == svSym && strings.HasPrefix(v.s, "errname:") {
				return v.s[len("errname:"):], ""
			}
		}
		// the name is a constant of type Name (not the value of a package-level variable): the
		// field of the error value whose type is Name holds it
		if st, ok := c.typeObj("postscript", "postScriptError").Type().Underlying().(*types.Struct); ok {
			for i := 0; i < st.NumFields(); i++ {
				if typeIsNamed(st.Field(i).Type(), c.typeObj("postscript", "Name")) {
					if v, ok := ev.mem[r.s+"."+st.Field(i).Name()]; ok && v.k == svString {
						return v.s, ""
					}
				}
			}
		}
	}
	return "?", ""
}

// arityByEvaluation decides the operand count of an operator semantically: with fewer than k
// operands on the stack the operator must return stackunderflow, with exactly k it must not.
// decided=false: the evaluation stopped before a return with fewer than k operands, nothing is
// concluded.
func (c *Ctx) arityByEvaluation(f *ssa.Function, k int) (ok bool, decided bool, detail string) {
	for n := 0; n < k; n++ {
		ret, why := c.operatorWithDepth(f, n)
		if why != "" {
			return false, false, fmt.Sprintf("with %d operand(s) the evaluation stops: %s", n, why)
		}
		if ret == "panic" {
			return false, true, fmt.Sprintf("with %d operand(s) on the stack it accesses an operand that is not there (run-time panic) instead of reporting stackunderflow", n)
		}
		if ret != "stackunderflow" {
			return false, true, fmt.Sprintf("with %d operand(s) on the stack it returns `%s` instead of stackunderflow", n, ret)
		}
	}
	if ret, why := c.operatorWithDepth(f, k); why == "" && ret == "stackunderflow" {
		return false, true, fmt.Sprintf("with %d operand(s) on the stack it still reports stackunderflow", k)
	}
	return true, true, fmt.Sprintf("stackunderflow with 0..%d operand(s), not with %d", k-1, k)
}

// ---- net effect of a function on the operand stack, through helpers (OP-STACKEFFECT)

// stackFx relates the length of the operand stack of the interpreter `base` points to, at the end
// of a block of fn, to its length at the entry of fn.  The relation comes from the epoch relations
// of the fact engine; where the stack was last changed by a call of a module function, the
// callee's own relation (per return statement) is composed with the caller's, and the returns of
// the callee are restricted to those compatible with what the caller has tested since (err == nil,
// ok == true): whether a pop lives in the operator or in a helper it calls makes no difference.
type stackFx struct {
	c     *Ctx
	fi    *funcInfo
	field string    // the fact engine's name of Interpreter.Stack
	basev ssa.Value // the interpreter pointer in fn
	base  string
	busy  map[*ssa.Function]bool
	// nilResult: calls whose result with the given index is known to be nil on the way of interest
	// (the call is what a normal return of the function hands on: `return helper(intp)`)
	nilResult map[*ssa.Call]int
}

func (c *Ctx) newStackFx(fn *ssa.Function, basev ssa.Value, busy map[*ssa.Function]bool) *stackFx {
	fi := newFuncInfo(fn)
	sx := &stackFx{c: c, fi: fi, basev: basev, base: fi.vname(canonBase(basev)), busy: busy}
	for fld := range fi.fields {
		if strings.HasSuffix(fld, "Interpreter.Stack") {
			sx.field = fld
		}
	}
	return sx
}

func unionInts(sets ...[]int64) []int64 {
	seen := map[int64]bool{}
	var out []int64
	for _, s := range sets {
		for _, x := range s {
			if !seen[x] {
				seen[x] = true
				out = append(out, x)
			}
		}
	}
	sort.Slice(out, func(i, j int) bool { return out[i] < out[j] })
	return out
}

// atBlockEnd: the possible values of len(Stack)@end of b − len(Stack)@entry.
func (sx *stackFx) atBlockEnd(b *ssa.BasicBlock, depth int) ([]int64, bool) {
	if sx.field == "" {
		// fn itself never touches the stack: only the functions it calls can (ext_y3.go)
		return sx.untracked(b, len(b.Instrs), b, depth, map[*ssa.BasicBlock]bool{})
	}
	ep := sx.fi.outEpoch[b][sx.field]
	if ep == "" {
		return nil, false
	}
	return sx.ofEpoch(ep, b, depth)
}

// ofEpoch: the stack height in epoch ep, relative to the entry; ctx is a block in which that
// epoch is current (its dominating conditions select the returns of a callee).
func (sx *stackFx) ofEpoch(ep string, ctx *ssa.BasicBlock, depth int) ([]int64, bool) {
	if depth > 8 {
		return nil, false
	}
	fn := sx.fi.fn
	switch {
	case ep == "entry":
		return []int64{0}, true
	case strings.HasPrefix(ep, "phi@"):
		var idx int
		fmt.Sscanf(ep, "phi@%d", &idx)
		if idx < 0 || idx >= len(fn.Blocks) {
			return nil, false
		}
		var all []int64
		for _, p := range fn.Blocks[idx].Preds {
			es, ok := sx.atBlockEnd(p, depth+1)
			if !ok {
				return nil, false
			}
			all = unionInts(all, es)
		}
		return all, true
	case strings.HasPrefix(ep, "call@"):
		var bi, ii int
		fmt.Sscanf(ep, "call@%d.%d", &bi, &ii)
		if bi < 0 || bi >= len(fn.Blocks) || ii < 0 || ii >= len(fn.Blocks[bi].Instrs) {
			return nil, false
		}
		call, ok := fn.Blocks[bi].Instrs[ii].(*ssa.Call)
		if !ok {
			return nil, false
		}
		return sx.throughCall(call, ctx, depth)
	case strings.HasPrefix(ep, "st@"):
		l, ok := sx.fi.rel[ep+"|"+sx.field+"|"+sx.base]
		if !ok {
			return nil, false
		}
		var bi, ii int
		fmt.Sscanf(ep, "st@%d.%d", &bi, &ii)
		if bi < 0 || bi >= len(fn.Blocks) {
			return nil, false
		}
		return sx.ofLin(l, fn.Blocks[bi], depth)
	}
	return nil, false
}

// ofLin: l is len(Stack@some epoch) + constant.
func (sx *stackFx) ofLin(l Lin, ctx *ssa.BasicBlock, depth int) ([]int64, bool) {
	if len(l.coef) != 1 || !l.c.IsInt() {
		return nil, false
	}
	k := l.c.Num().Int64()
	prefix := fmt.Sprintf("len(%s.%s@", sx.base, sx.field)
	for a, co := range l.coef {
		if !strings.HasPrefix(a, prefix) || !strings.HasSuffix(a, ")") || co.Cmp(big.NewRat(1, 1)) != 0 {
			return nil, false
		}
		es, ok := sx.ofEpoch(a[len(prefix):len(a)-1], ctx, depth+1)
		if !ok {
			return nil, false
		}
		out := make([]int64, len(es))
		for i, e := range es {
			out[i] = e + k
		}
		return out, true
	}
	return nil, false
}

// throughCall: the stack height right after call (a static call of a module function that
// receives the interpreter), restricted to the callee returns compatible with the conditions that
// dominate ctx.
func (sx *stackFx) throughCall(call *ssa.Call, ctx *ssa.BasicBlock, depth int) ([]int64, bool) {
	g := call.Call.StaticCallee()
	if g == nil || !sx.c.inModule(g) || len(g.Blocks) == 0 || sx.busy[g] || call.Call.IsInvoke() {
		return nil, false
	}
	// which parameter of the callee is our interpreter
	var param ssa.Value
	for i, a := range call.Call.Args {
		if i < len(g.Params) && sx.fi.vname(canonBase(a)) == sx.base {
			param = g.Params[i]
		}
	}
	if param == nil {
		return nil, false
	}
	var pre []int64
	var ok bool
	if sx.field == "" {
		pre, ok = sx.untracked(call.Block(), instrIndex(call), ctx, depth+1, map[*ssa.BasicBlock]bool{})
	} else {
		pre, ok = sx.ofEpoch(sx.fi.callEpoch[call][sx.field], call.Block(), depth+1)
	}
	if !ok {
		return nil, false
	}
	sx.busy[g] = true
	defer delete(sx.busy, g)
	sub := sx.c.newStackFx(g, param, sx.busy)
	// what the caller knows about the results on its way to ctx
	type known struct {
		idx   int
		isNil *bool // result == nil ?
		isTru *bool // result (a boolean) is true ?
	}
	var kn []known
	resultIdx := func(v ssa.Value) (int, bool) {
		v = origin(v)
		if v == ssa.Value(call) {
			return 0, true
		}
		if ex, ok := v.(*ssa.Extract); ok && ex.Tuple == ssa.Value(call) {
			return ex.Index, true
		}
		return 0, false
	}
	if ctx != nil && call.Block().Dominates(ctx) {
		for _, cd := range domConds(ctx) {
			if !call.Block().Dominates(cd.blk) {
				continue
			}
			if cd.blk == call.Block() {
				// the test must come after the call
				after := false
				for _, ins := range cd.blk.Instrs {
					if ins == ssa.Instruction(call) {
						after = true
					}
				}
				if !after {
					continue
				}
			}
			if i, ok := resultIdx(cd.v); ok {
				t := cd.truth
				kn = append(kn, known{idx: i, isTru: &t})
				continue
			}
			v, truth := cd.v, cd.truth
			for {
				if u, ok := v.(*ssa.UnOp); ok && u.Op == token.NOT {
					v, truth = u.X, !truth
					continue
				}
				break
			}
			if i, ok := resultIdx(v); ok {
				kn = append(kn, known{idx: i, isTru: &truth})
				continue
			}
			if m, ok := asCmp(cd); ok && (m.op == token.EQL || m.op == token.NEQ) {
				x, y := m.x, m.y
				if isNilConst(x) {
					x, y = y, x
				}
				if i, ok := resultIdx(x); ok && isNilConst(y) {
					n := m.op == token.EQL
					kn = append(kn, known{idx: i, isNil: &n})
				}
			}
		}
	}
	if i, ok := sx.nilResult[call]; ok {
		t := true
		kn = append(kn, known{idx: i, isNil: &t})
	}
	var all []int64
	n := 0
	for _, r := range returns(g) {
		compatible := true
		for _, k := range kn {
			if k.idx >= len(r.Results) {
				continue
			}
			for _, v := range retValues(r, k.idx) {
				if k.isNil != nil && *k.isNil {
					// the callee hands on the result of a further call: that one is nil too
					if c2, i2, ok := tailCallOf(v, r); ok {
						if sub.nilResult == nil {
							sub.nilResult = map[*ssa.Call]int{}
						}
						sub.nilResult[c2] = i2
					}
				}
				if k.isNil != nil {
					if *k.isNil && sx.c.definitelyNonNil(v, 0) {
						compatible = false
					}
					if !*k.isNil && isNilConst(v) {
						compatible = false
					}
				}
				if k.isTru != nil {
					if b, isC := constBool(v); isC && b != *k.isTru {
						compatible = false
					}
				}
			}
		}
		if !compatible {
			continue
		}
		n++
		es, ok := sub.atBlockEnd(r.Block(), depth+1)
		if !ok {
			return nil, false
		}
		for _, p := range pre {
			for _, e := range es {
				all = unionInts(all, []int64{p + e})
			}
		}
	}
	if n == 0 {
		return nil, false
	}
	return all, true
}

// definitelyNonNil: v is an interface or pointer value that cannot be nil: a value boxed into an
// interface, the address of an allocation, or the result of a module function all of whose
// returns are such values.
func (c *Ctx) definitelyNonNil(v ssa.Value, depth int) bool {
	if depth > 3 {
		return false
	}
	v = origin(v)
	switch x := v.(type) {
	case *ssa.MakeInterface, *ssa.Alloc, *ssa.MakeClosure, *ssa.Function:
		return true
	case *ssa.ChangeInterface:
		return c.definitelyNonNil(x.X, depth+1)
	case *ssa.Phi:
		for _, e := range x.Edges {
			if !c.definitelyNonNil(e, depth+1) {
				return false
			}
		}
		return len(x.Edges) > 0
	case *ssa.Call:
		g := x.Call.StaticCallee()
		if g == nil || !c.inModule(g) || len(g.Blocks) == 0 || g.Signature.Results().Len() != 1 {
			return false
		}
		rs := returns(g)
		for _, r := range rs {
			for _, rv := range retValues(r, 0) {
				if !c.definitelyNonNil(rv, depth+1) {
					return false
				}
			}
		}
		return len(rs) > 0
	}
	return false
}

// ---- the composite objects of the system dictionary are created per interpreter (OP-REGISTRY)

// freshComposite classifies where a map or slice value comes from: "fresh" (allocated by the code
// that builds the system dictionary: make, a composite literal, a library clone, a module function
// all of whose results are fresh), "shared:<what>" (a package-level variable or something derived
// from one: one object for every interpreter of the process), or "?" (not decided).
var freshPhiBusy = map[*ssa.Phi]bool{}

func (c *Ctx) freshComposite(v ssa.Value, depth int) string {
	if depth > 6 {
		return "?"
	}
	v = origin(v)
	switch x := v.(type) {
	case *ssa.MakeInterface:
		return c.freshComposite(x.X, depth+1)
	case *ssa.ChangeType:
		return c.freshComposite(x.X, depth+1)
	case *ssa.ChangeInterface:
		return c.freshComposite(x.X, depth+1)
	case *ssa.Convert:
		return c.freshComposite(x.X, depth+1)
	case *ssa.MakeMap, *ssa.MakeSlice:
		return "fresh"
	case *ssa.Const:
		if x.Value == nil {
			return "fresh" // nil: what is appended to it is allocated then
		}
	case *ssa.Global:
		return "shared:the package-level variable " + x.Name()
	case *ssa.Alloc:
		{
			// a local array (backing store of a literal or of make with a constant size), or a
			// local variable: every value stored into it decides
			if _, isArr := x.Type().(*types.Pointer).Elem().Underlying().(*types.Array); isArr {
				return "fresh"
			}
			res := ""
			for _, r := range *x.Referrers() {
				if st, ok := r.(*ssa.Store); ok && st.Addr == ssa.Value(x) {
					s := c.freshComposite(st.Val, depth+1)
					if s != "fresh" {
						return s
					}
					res = s
				}
			}
			if res == "" {
				return "?"
			}
			return res
		}
	case *ssa.Slice:
		return c.freshComposite(x.X, depth+1)
	case *ssa.UnOp:
		if x.Op == token.MUL {
			switch a := x.X.(type) {
			case *ssa.Global:
				return "shared:the package-level variable " + a.Name()
			case *ssa.Alloc:
				return c.freshComposite(a, depth+1)
			case *ssa.FieldAddr, *ssa.IndexAddr:
				return "?"
			}
		}
	case *ssa.Phi:
		// a value grown in a loop (`a = append(a, x)`): the phi met again on its own back edge adds nothing
		if freshPhiBusy[x] {
			return "fresh"
		}
		freshPhiBusy[x] = true
		defer delete(freshPhiBusy, x)
		for _, e := range x.Edges {
			if s := c.freshComposite(e, depth); s != "fresh" {
				return s
			}
		}
		return "fresh"
	case *ssa.Extract:
		if call, ok := x.Tuple.(*ssa.Call); ok {
			return c.freshResult(call, x.Index, depth)
		}
	case *ssa.Call:
		return c.freshResult(x, 0, depth)
	case *ssa.Lookup:
		// an element of another dictionary: as fresh as that dictionary's contents — not decided here
		return "?"
	}
	return "?"
}

func (c *Ctx) freshResult(call *ssa.Call, idx int, depth int) string {
	if b, ok := call.Call.Value.(*ssa.Builtin); ok && b.Name() == "append" && len(call.Call.Args) > 0 {
		return c.freshComposite(call.Call.Args[0], depth+1)
	}
	g := call.Call.StaticCallee()
	if g == nil {
		return "?"
	}
	og := g
	if o := g.Origin(); o != nil {
		og = o
	}
	if og.Pkg != nil && cloneFuncs[og.Pkg.Pkg.Name()+"."+og.Name()] {
		return "fresh"
	}
	if !c.inModule(g) || len(g.Blocks) == 0 {
		return "?"
	}
	rs := returns(g)
	if len(rs) == 0 {
		return "?"
	}
	for _, r := range rs {
		for _, rv := range retValues(r, idx) {
			if s := c.freshComposite(rv, depth+1); s != "fresh" {
				return s
			}
		}
	}
	return "fresh"
}

// systemDictIsolation: every map or slice bound in the system dictionary is created by the code
// that builds the dictionary for one interpreter.  PostScript composite objects are shared by
// reference and nothing in this interpreter is read-only, so an object that lives in a
// package-level variable would carry the writes of one interpreter (`StandardEncoding 65 /X put`)
// into every other one: a fresh interpreter would no longer start with the PLRM contents.
func (c *Ctx) systemDictIsolation() {
	mk := c.fn("postscript", "makeSystemDict")
	fname := c.fname(mk)
	found := map[string]bool{}
	c.eachInstrDeep(mk, 2, func(ins ssa.Instruction) {
		mu, ok := ins.(*ssa.MapUpdate)
		if !ok || !typeIsNamed(mu.Map.Type(), c.typeObj("postscript", "Dict")) {
			return
		}
		val := mu.Value
		if mi, ok := val.(*ssa.MakeInterface); ok {
			val = mi.X
		}
		if !isComposite(val.Type()) {
			return
		}
		key := c.valShape(mu.Key)
		if kc, ok := origin(mu.Key).(*ssa.Const); ok && kc.Value != nil && kc.Value.Kind() == constant.String {
			key = constant.StringVal(kc.Value)
		}
		found[key] = true
		src := c.freshComposite(val, 0)
		if ks, _, hdr, isList := c.rangedKeys(mu.Key); isList && hdr != nil && len(ks) > 0 {
			// the key runs over a literal list of names (ext_x5.go): one entry per name; a value made
			// outside the loop would be one object under all of these names
			key = strings.Join(ks, ", ")
			for _, k := range ks {
				found[k] = true
			}
			if src == "fresh" && len(ks) > 1 && !valueMadeIn(val, mu.Block()) {
				src = "?"
			}
		}
		construct := key + " is an object of its own in every interpreter"
		switch {
		case src == "fresh":
			c.ok("OP-REGISTRY", fname, construct, mu.Pos(), "allocated while the system dictionary is built", "")
		case strings.HasPrefix(src, "shared:"):
			c.fail("OP-REGISTRY", fname, construct, mu.Pos(), fmt.Sprintf("the system dictionary entry %s is bound to %s: all interpreters of the process share this one composite object, so what a program stores into it (e.g. `StandardEncoding 65 /Alpha put`) is seen by every interpreter created later, which then does not start with the contents the PLRM prescribes", key, src[len("shared:"):]))
		default:
			c.undecided("OP-REGISTRY", fname, construct, mu.Pos(), "the origin of the composite value bound to "+key+" could not be decided (fresh per interpreter or shared)")
		}
	})
	var missing []string
	for _, k := range []string{"userdict", "errordict", "FontDirectory", "StandardEncoding", "systemdict"} {
		if !found[k] {
			missing = append(missing, k)
		}
	}
	c.check(len(missing) == 0, "OP-REGISTRY", fname, "the composite data entries are bound where the system dictionary is built", mk.Pos(), "5 entries inspected", "the place where these entries receive their composite value was not found: "+strings.Join(missing, ", "))
}

// ---- the names of the error dictionary (OP-REGISTRY)

// errorDictNames: the names NewInterpreter enters into a dictionary from a package-level list of
// names (it ranges over a package-level variable of type []Name and uses the element as the key of
// a map update).  The list is read from the package initialiser; its elements may be constants or
// package-level variables initialised with constants.  found=false: no such list.
func (c *Ctx) errorDictNames() (names []string, found bool) {
	mk := c.fnOpt("postscript", "NewInterpreter")
	if mk == nil {
		return nil, false
	}
	nameT := c.typeObj("postscript", "Name")
	lists := map[*ssa.Global]bool{}
	var order []*ssa.Global
	c.eachInstrDeep(mk, 2, func(ins ssa.Instruction) {
		mu, ok := ins.(*ssa.MapUpdate)
		if !ok {
			return
		}
		k := origin(mu.Key)
		if mi, ok := k.(*ssa.MakeInterface); ok {
			k = origin(mi.X)
		}
		var src ssa.Value
		switch x := k.(type) {
		case *ssa.Extract: // range over the list: next(range(list))
			if nx, ok := x.Tuple.(*ssa.Next); ok {
				if rg, ok := nx.Iter.(*ssa.Range); ok {
					src = rg.X
				}
			}
		case *ssa.UnOp: // indexed loop: list[i]
			if ixa, ok := x.X.(*ssa.IndexAddr); ok && x.Op == token.MUL {
				src = ixa.X
			}
		}
		if src == nil {
			return
		}
		if g := globalLoad(src); g != nil {
			if sl, ok := g.Type().(*types.Pointer).Elem().Underlying().(*types.Slice); ok && typeIsNamed(sl.Elem(), nameT) && !lists[g] {
				lists[g] = true
				order = append(order, g)
			}
		}
	})
	for _, g := range order {
		vals, ok := globalSliceInit(g)
		if !ok {
			return nil, false
		}
		for _, v := range vals {
			names = append(names, c.nameConst(v))
		}
	}
	return names, len(order) > 0
}

// globalSliceInit: the elements of the slice literal a package-level variable is initialised with.
func globalSliceInit(g *ssa.Global) ([]ssa.Value, bool) {
	init := g.Pkg.Func("init")
	if init == nil {
		return nil, false
	}
	var out []ssa.Value
	ok := false
	eachInstr(init, func(ins ssa.Instruction) {
		st, isSt := ins.(*ssa.Store)
		if !isSt || st.Addr != ssa.Value(g) {
			return
		}
		sl, isSl := st.Val.(*ssa.Slice)
		if !isSl {
			return
		}
		al, isAl := sl.X.(*ssa.Alloc)
		if !isAl {
			return
		}
		at, isArr := al.Type().(*types.Pointer).Elem().Underlying().(*types.Array)
		if !isArr {
			return
		}
		elems := make([]ssa.Value, at.Len())
		for _, r := range *al.Referrers() {
			ixa, isIx := r.(*ssa.IndexAddr)
			if !isIx {
				continue
			}
			i, isC := constInt(ixa.Index)
			if !isC || i < 0 || i >= at.Len() {
				continue
			}
			for _, rr := range *ixa.Referrers() {
				if s2, isS := rr.(*ssa.Store); isS && s2.Addr == ssa.Value(ixa) {
					elems[i] = s2.Val
				}
			}
		}
		for _, e := range elems {
			if e == nil {
				return
			}
		}
		out, ok = elems, true
	})
	return out, ok
}

// ---- overflow promotion of the arithmetic operators (OP-OVERFLOW)

// arithOnIntegers evaluates a registered operator on the SSA form with the given Integer operands
// (concrete values, below them one object about which nothing is known) and returns what the
// operator leaves on the operand stack in place of its operands.  Helpers are evaluated in place;
// whether the overflow is predicted before the operation or detected on the wrapped result, by
// comparisons, by division or in a helper, makes no difference: only the object pushed counts.
func (c *Ctx) arithOnIntegers(f *ssa.Function, bits int, operands ...int64) (res sv, why string) {
	ev := &ssaEval{c: c, bind: map[ssa.Value]sv{}, mem: map[string]sv{}, intBits: bits}
	intT := c.typeObj("postscript", "Integer").Type()
	st := []sv{symV("keep")}
	for _, x := range operands {
		st = append(st, sv{k: svInt, i: x, typ: intT})
	}
	ev.mem["intp.Stack"] = ev.newList(st)
	ev.call = func(call ssa.CallInstruction, args []sv) (sv, bool) {
		if call != nil || len(args) != 2 || !strings.HasPrefix(args[0].s, "typeassert:") {
			return sv{}, false
		}
		want := args[0].s[len("typeassert:"):]
		v := args[1]
		if v.typ != nil && v.typ.String() == want {
			v.typ = nil // unboxed: the static type of the register says what it is
			return sv{k: svTuple, tup: []sv{v, boolV(true)}}, true
		}
		if v.typ == nil {
			return sv{}, false
		}
		zero := sv{k: svNil}
		if tn, ok := c.pkg("postscript").Types.Scope().Lookup(want[strings.LastIndex(want, ".")+1:]).(*types.TypeName); ok && tn.Type().String() == want {
			if z, ok := aZeroSV(tn.Type()); ok {
				zero = z
			}
		}
		return sv{k: svTuple, tup: []sv{zero, boolV(false)}}, true
	}
	ret := ev.runFunc(f, []sv{{k: svAddr, s: "intp"}})
	if ev.why != "" {
		return sv{}, ev.why
	}
	if len(ret) != 1 || ret[0].k != svNil {
		return sv{}, "the operator does not return nil for integer operands"
	}
	el, ok := ev.elems(ev.mem["intp.Stack"])
	if !ok || len(el) != 2 || el[0].s != "keep" {
		return sv{}, "the operator does not replace its operands by one result (operand stack " + ev.render(ev.mem["intp.Stack"]) + ")"
	}
	return el[1], ""
}

// overflowByEvaluation: add, sub, mul over all pairs of boundary operands (min, min+1, −2…2,
// max−1, max) and abs over the same values: where the exact result is representable the operator
// must push it as an Integer, where it is not it must push a Real close to the exact result (never
// the wrapped integer).
func (c *Ctx) overflowByEvaluation(reg *registry) {
	intObj := c.typeObj("postscript", "Integer")
	realObj := c.typeObj("postscript", "Real")
	bits := uint(8 * c.pkg("postscript").TypesSizes.Sizeof(intObj.Type()))
	lo := int64(-1) << (bits - 1)
	hi := -(lo + 1)
	vals := []int64{lo, lo + 1, -2, -1, 0, 1, 2, hi - 1, hi}
	minI, maxI := big.NewInt(lo), big.NewInt(hi)
	// judge compares what was pushed with the exact result
	judge := func(got sv, exact *big.Int) string {
		overflow := exact.Cmp(minI) < 0 || exact.Cmp(maxI) > 0
		isInt := got.k == svInt && got.typ != nil && typeIsNamed(got.typ, intObj)
		isReal := got.k == svFloat && got.typ != nil && typeIsNamed(got.typ, realObj)
		switch {
		case !overflow && isInt && big.NewInt(got.i).Cmp(exact) == 0:
			return ""
		case !overflow:
			return fmt.Sprintf("the exact result %s is representable but %s is pushed", exact, describeObj(got))
		case isReal:
			ex, _ := new(big.Float).SetInt(exact).Float64()
			d := got.f - ex
			if d < 0 {
				d = -d
			}
			if ex < 0 {
				ex = -ex
			}
			if d <= ex/(1<<40) {
				return ""
			}
			return fmt.Sprintf("the exact result %s is not representable and the real pushed (%v) is not close to it", exact, got.f)
		case isInt:
			return fmt.Sprintf("the exact result %s is not representable as an integer but the integer %d is left on the stack instead of a real", exact, got.i)
		}
		return fmt.Sprintf("the exact result %s is not representable and %s is pushed instead of a real", exact, describeObj(got))
	}
	for _, op := range []struct {
		name string
		tok  token.Token
	}{{"add", token.ADD}, {"sub", token.SUB}, {"mul", token.MUL}} {
		f := reg.op("systemdict", op.name)
		fname := c.fname(f)
		bad, cells, overflows := "", 0, 0
		for _, a := range vals {
			for _, b := range vals {
				cells++
				exact := new(big.Int)
				switch op.tok {
				case token.ADD:
					exact.Add(big.NewInt(a), big.NewInt(b))
				case token.SUB:
					exact.Sub(big.NewInt(a), big.NewInt(b))
				case token.MUL:
					exact.Mul(big.NewInt(a), big.NewInt(b))
				}
				if exact.Cmp(minI) < 0 || exact.Cmp(maxI) > 0 {
					overflows++
				}
				got, why := c.arithOnIntegers(f, int(bits), a, b)
				if why != "" {
					if bad == "" {
						bad = fmt.Sprintf("for %d %d %s the evaluation stops: %s", a, b, op.name, why)
					}
					continue
				}
				if msg := judge(got, exact); msg != "" && bad == "" {
					bad = fmt.Sprintf("for %d %d %s %s", a, b, op.name, msg)
				}
			}
		}
		c.check(bad == "", "OP-OVERFLOW", fname, op.name+": integer overflow is detected exactly (and promoted to real)", f.Pos(), fmt.Sprintf("%d boundary operand pairs evaluated (%d overflowing)", cells, overflows), op.name+": "+bad+" — the wrapped integer would be left on the stack instead of a real")
	}
	{
		f := reg.op("systemdict", "abs")
		bad := ""
		for _, a := range vals {
			exact := new(big.Int).Abs(big.NewInt(a))
			got, why := c.arithOnIntegers(f, int(bits), a)
			if why != "" {
				if bad == "" {
					bad = fmt.Sprintf("for %d abs the evaluation stops: %s", a, why)
				}
				continue
			}
			if msg := judge(got, exact); msg != "" && bad == "" {
				bad = fmt.Sprintf("for %d abs %s", a, msg)
			}
		}
		c.check(bad == "", "OP-OVERFLOW", c.fname(f), "abs: the most negative integer is promoted to a real", f.Pos(), fmt.Sprintf("%d boundary operands evaluated", len(vals)), "abs: "+bad+" (the negation of the most negative integer overflows)")
	}
}

func describeObj(v sv) string {
	t := "?"
	if v.typ != nil {
		t = v.typ.String()
		t = t[strings.LastIndex(t, ".")+1:]
	}
	return fmt.Sprintf("%s (%s)", v.String(), t)
}

// ---- closures made and called in one function

// closureTargets: the closures a function value may be, when every possibility is a closure made
// in the same function (a nil function value is skipped: calling it does not return).
func closureTargets(v ssa.Value) []*ssa.MakeClosure {
	var out []*ssa.MakeClosure
	seen := map[ssa.Value]bool{}
	ok := true
	var walk func(v ssa.Value)
	walk = func(v ssa.Value) {
		v = origin(v)
		if seen[v] {
			return
		}
		seen[v] = true
		switch x := v.(type) {
		case *ssa.MakeClosure:
			if _, isFn := x.Fn.(*ssa.Function); isFn {
				out = append(out, x)
			} else {
				ok = false
			}
		case *ssa.Phi:
			for _, e := range x.Edges {
				walk(e)
			}
		case *ssa.Const:
			if x.Value != nil {
				ok = false
			}
		case *ssa.UnOp:
			// a local variable holding the function value: everything stored into it
			al, isAl := x.X.(*ssa.Alloc)
			if x.Op != token.MUL || !isAl {
				ok = false
				return
			}
			for _, r := range *al.Referrers() {
				switch y := r.(type) {
				case *ssa.Store:
					if y.Addr != ssa.Value(al) {
						ok = false
					} else {
						walk(y.Val)
					}
				case *ssa.UnOp, *ssa.DebugRef:
				default:
					ok = false
				}
			}
		default:
			ok = false
		}
	}
	walk(v)
	if !ok {
		return nil
	}
	return out
}

// capturedValue: the value (in the enclosing function) of a variable captured by closure mc and
// read there through the load ld of a free variable, provided the variable is assigned exactly
// once and no closure writes it.
func capturedValue(mc *ssa.MakeClosure, ld ssa.Value) ssa.Value {
	u, ok := ld.(*ssa.UnOp)
	if !ok || u.Op != token.MUL {
		return nil
	}
	fv, ok := u.X.(*ssa.FreeVar)
	if !ok {
		return nil
	}
	fn := mc.Fn.(*ssa.Function)
	for i, f := range fn.FreeVars {
		if f == fv && i < len(mc.Bindings) {
			if al, ok := mc.Bindings[i].(*ssa.Alloc); ok {
				return singleStore(al)
			}
		}
	}
	return nil
}

// closureSlice: a call of a closure that returns (boxed) a two-bound slice x[lo:hi] of a captured
// value; lo, hi and x are values of the calling function.
type closureSlice struct {
	lo, hi, x ssa.Value
}

// closureSlices describes what a call of a locally made closure slices: one entry per closure that
// may be called and per slice expression in it whose bounds are parameters of the closure and
// whose operand is a captured variable that is assigned once.  nil if the callee is not such a
// closure (or one of the possible callees is not).
func closureSlices(call *ssa.Call) []closureSlice {
	if call.Call.IsInvoke() {
		return nil
	}
	targets := closureTargets(call.Call.Value)
	var out []closureSlice
	for _, mc := range targets {
		fn := mc.Fn.(*ssa.Function)
		arg := func(v ssa.Value) ssa.Value {
			v = origin(v)
			for i, p := range fn.Params {
				if ssa.Value(p) == v && i < len(call.Call.Args) {
					return call.Call.Args[i]
				}
			}
			return nil
		}
		n := 0
		bad := false
		eachInstr(fn, func(ins ssa.Instruction) {
			sl, ok := ins.(*ssa.Slice)
			if !ok || sl.Low == nil || sl.High == nil {
				return
			}
			lo, hi, x := arg(sl.Low), arg(sl.High), capturedValue(mc, sl.X)
			if lo == nil || hi == nil || x == nil {
				bad = true
				return
			}
			n++
			out = append(out, closureSlice{lo, hi, x})
		})
		if bad || n == 0 {
			return nil
		}
	}
	return out
}

// freeVarValues: the values (in the enclosing function) that a captured variable read through the
// load ld may have: one per closure instance made of the function; nil if the variable is not
// assigned exactly once or is written by a closure.
func freeVarValues(ld *ssa.UnOp) []ssa.Value {
	fv, ok := ld.X.(*ssa.FreeVar)
	if !ok || ld.Op != token.MUL {
		return nil
	}
	fn := fv.Parent()
	par := fn.Parent()
	if par == nil {
		return nil
	}
	var out []ssa.Value
	bad := false
	eachInstr(par, func(ins ssa.Instruction) {
		if mc, ok := ins.(*ssa.MakeClosure); ok && mc.Fn == ssa.Value(fn) {
			if v := capturedValue(mc, ld); v != nil {
				out = append(out, v)
			} else {
				bad = true
			}
		}
	})
	if bad {
		return nil
	}
	return out
}

// ---- where executeOne dispatches (CTL-BODYELEM)

// objAndFlagArgs: the object (first argument of interface type) and the execute flag (first
// argument of type bool) of a call of executeOne or of the function that does its work.
func objAndFlagArgs(call ssa.CallInstruction) (obj, flag ssa.Value) {
	for _, a := range call.Common().Args {
		switch t := a.Type().Underlying().(type) {
		case *types.Interface:
			if obj == nil {
				obj = a
			}
		case *types.Basic:
			if t.Kind() == types.Bool && flag == nil {
				flag = a
			}
		}
	}
	return obj, flag
}

// dispatchFunction: the function in which an object is dispatched (the one that counts the
// operation in Interpreter.NumOps): executeOne, or a module function that executeOne calls with
// its own object and execute-flag parameters passed on unchanged (executeOne keeping only some
// bookkeeping of its own).  If no such function is found executeOne is returned and the caller
// reports the missing dispatch header.
func (c *Ctx) dispatchFunction(ia *interpAnchors) *ssa.Function {
	counts := func(f *ssa.Function) bool {
		// the store to the counter, or the call of a helper that holds it (opCounter, ext_x6.go)
		return len(c.opCounter(ia).marksIn(f)) > 0
	}
	fn := ia.executeOne
	for depth := 0; depth < 3; depth++ {
		if counts(fn) {
			return fn
		}
		var next *ssa.Function
		n := 0
		eachInstr(fn, func(ins ssa.Instruction) {
			call, ok := ins.(ssa.CallInstruction)
			if !ok {
				return
			}
			g := call.Common().StaticCallee()
			if g == nil || !c.inModule(g) || len(g.Blocks) == 0 || g == ia.e || g == fn || g == ia.executeOne {
				return
			}
			obj, flag := objAndFlagArgs(call)
			if obj == nil || flag == nil {
				return
			}
			po, isP1 := origin(obj).(*ssa.Parameter)
			pf, isP2 := origin(flag).(*ssa.Parameter)
			if !isP1 || !isP2 || po.Parent() != fn || pf.Parent() != fn {
				return
			}
			n++
			next = g
		})
		if n != 1 {
			break
		}
		fn = next
	}
	return ia.executeOne
}

// ---- name look-up walks the dictionary stack from the top (CTL-LOOKUP)

// lookupOutcome: what `load` / `where` does for a dictionary stack of n dictionaries of which
// those in present contain the key.
type lookupOutcome struct {
	ret   string // returned error: "nil" or "error:<name>"
	val   string // load: the value returned; where: the operand stack afterwards
	why   string
	calls int
}

// lookupEval evaluates f (the method load, or the operator where when isOp) on the SSA form with a
// dictionary stack [d0 … d(n-1)] whose dictionaries are opaque: a look-up of the key in d_i
// answers (val@i, true) if present[i] is 1, (nil, true) if it is 2 — the name is defined and its
// value is the nil Object, which is what `currentfile` pushes — and (nil, false) otherwise.  The walk may be an index loop, a
// range loop over a reversed copy or a library iterator (slices.Backward, slices.All, …, evaluated
// from their source): only the look-ups made and the result count.
func (c *Ctx) lookupEval(ia *interpAnchors, f *ssa.Function, isOp bool, present []int) lookupOutcome {
	var o lookupOutcome
	ev := &ssaEval{c: c, bind: map[ssa.Value]sv{}, mem: map[string]sv{}}
	var ds []sv
	for i := range present {
		ds = append(ds, symV(fmt.Sprintf("Dict:d%d", i)))
	}
	ev.mem["intp.DictStack"] = ev.newList(ds)
	key := obj("Name", "k")
	ev.mem["intp.Stack"] = ev.newList([]sv{obj("Integer", "keep"), key})
	ev.noInline = func(g *ssa.Function) bool { return g == ia.executeOne || (isOp && g == ia.load) }
	ev.inlineLib = func(g *ssa.Function) bool {
		for g.Parent() != nil {
			g = g.Parent()
		}
		if og := g.Origin(); og != nil {
			g = og
		}
		return g.Pkg != nil && g.Pkg.Pkg.Path() == "slices" && g.Object() != nil && (g.Object().Name() == "Backward" || g.Object().Name() == "All" || g.Object().Name() == "Values")
	}
	ev.maxDepth = 6
	ev.load = func(ld *ssa.UnOp, addr sv) (sv, bool) {
		// a local variable (new T) that has not been assigned yet holds the zero value
		if addr.k == svAddr && strings.HasPrefix(addr.s, "cell") && !strings.ContainsAny(addr.s, ".[") {
			return aZeroSV(ld.Type())
		}
		return sv{}, false
	}
	ev.lookup = func(x *ssa.Lookup, m, k sv) (sv, bool) {
		if m.k != svSym || !strings.HasPrefix(m.s, "Dict:d") || k.String() != key.String() {
			return sv{}, false
		}
		var i int
		fmt.Sscanf(m.s, "Dict:d%d", &i)
		o.calls++
		val, ok := sv{k: svNil}, false
		if i >= 0 && i < len(present) && present[i] == 1 {
			val, ok = symV(fmt.Sprintf("val@%d", i)), true
		}
		if i >= 0 && i < len(present) && present[i] == 2 {
			// the name is defined, its value is the nil Object (what currentfile pushes)
			val, ok = sv{k: svNil}, true
		}
		if !x.CommaOk {
			return val, true
		}
		return sv{k: svTuple, tup: []sv{val, boolV(ok)}}, true
	}
	typeOf := func(v sv) string {
		if i := strings.Index(v.s, ":"); v.k == svSym && i > 0 {
			return v.s[:i]
		}
		return ""
	}
	ev.call = func(call ssa.CallInstruction, args []sv) (sv, bool) {
		if call == nil {
			if len(args) == 2 && strings.HasPrefix(args[0].s, "typeassert:") && typeOf(args[1]) != "" {
				want := args[0].s[len("typeassert:"):]
				want = want[strings.LastIndex(want, ".")+1:]
				if typeOf(args[1]) == want {
					return sv{k: svTuple, tup: []sv{args[1], boolV(true)}}, true
				}
				zero := sv{k: svNil}
				if want == "Name" || want == "Operator" || want == "String" {
					zero = sv{k: svString}
				}
				return sv{k: svTuple, tup: []sv{zero, boolV(false)}}, true
			}
			return sv{}, false
		}
		if cc := call.Common(); cc.StaticCallee() == ia.e && len(cc.Args) > 1 {
			return symV("error:" + c.nameConst(cc.Args[1])), true
		}
		return sv{}, false
	}
	ev.oracle = func(op token.Token, x, y sv) (bool, bool) {
		if (x.k == svSym || x.k == svNil) && (y.k == svSym || y.k == svNil) {
			eq := x.String() == y.String()
			switch op {
			case token.EQL:
				return eq, true
			case token.NEQ:
				return !eq, true
			}
		}
		return false, false
	}
	args := []sv{{k: svAddr, s: "intp"}}
	if !isOp {
		args = append(args, key)
	}
	ret := ev.runFunc(f, args)
	o.why = ev.why
	if len(ret) == 0 {
		if o.why == "" {
			o.why = "no return reached"
		}
		return o
	}
	o.ret = ret[len(ret)-1].String()
	if isOp {
		o.val = ev.render(ev.mem["intp.Stack"])
	} else if len(ret) == 2 {
		o.val = ret[0].String()
	}
	return o
}

// lookupByEvaluation decides CTL-LOOKUP for load / where over every dictionary stack of 1 to 4
// dictionaries and every subset of them that contains the key: the topmost dictionary that has
// the key must win, and the key that is nowhere must give `undefined` (load) / false (where).
// decided=false: an evaluation stopped; the caller falls back to the shape of the scan.
func (c *Ctx) lookupByEvaluation(ia *interpAnchors, f *ssa.Function, isOp bool) (bad []string, cells int, decided bool) {
	for n := 1; n <= 4; n++ {
		total := 1
		for i := 0; i < n; i++ {
			total *= 3
		}
		for mask := 0; mask < total; mask++ {
			present := make([]int, n)
			top := -1
			var in []string
			for i, m := 0, mask; i < n; i, m = i+1, m/3 {
				present[i] = m % 3
				switch present[i] {
				case 1:
					top = i
					in = append(in, fmt.Sprintf("d%d", i))
				case 2:
					top = i
					in = append(in, fmt.Sprintf("d%d (value: the nil object)", i))
				}
			}
			cells++
			o := c.lookupEval(ia, f, isOp, present)
			if o.why != "" {
				return []string{o.why}, cells, false
			}
			var wantRet, wantVal string
			switch {
			case isOp && top >= 0:
				wantRet, wantVal = "nil", fmt.Sprintf("[Integer:keep Dict:d%d true]", top)
			case isOp:
				wantRet, wantVal = "nil", "[Integer:keep false]"
			case top >= 0 && present[top] == 2:
				wantRet, wantVal = "nil", "nil"
			case top >= 0:
				wantRet, wantVal = "nil", fmt.Sprintf("val@%d", top)
			default:
				wantRet, wantVal = "error:undefined", "nil"
			}
			if o.ret != wantRet || o.val != wantVal {
				bad = append(bad, fmt.Sprintf("with a dictionary stack d0…d%d (top last) and the name defined in [%s]: result %s / %s, expected %s / %s", n-1, strings.Join(in, " "), o.val, o.ret, wantVal, wantRet))
			}
		}
	}
	return bad, cells, true
}

// ---- bind (CTL-BIND)

// bindByEvaluation evaluates the registered operator `bind` on the SSA form (its worker and the
// name look-up evaluated in place) on a procedure that contains one element of every kind that
// matters, with a dictionary stack [systemdict userdict] whose contents the table fixes:
//
//	/a      systemdict: operator add                         → replaced by the operator
//	b       (an operator token) systemdict: operator sub     → replaced by the operator
//	/c      systemdict: operator c, userdict: a procedure    → the look-up from the top finds the
//	                                                            procedure: the name stays
//	/d      defined nowhere                                  → stays
//	/e      userdict: an integer                             → stays
//	7       not a name                                       → stays
//	c       (an operator token) shadowed like /c             → stays
//	f       (an operator token) userdict only: operator f    → replaced by the operator
//	d       (an operator token) defined nowhere              → stays
//	{a {…}} a nested procedure that contains the outer one   → bound likewise, once
//
// Whether the worker recurses or keeps a work list, is a method or a function, calls `load` or
// walks the dictionary stack itself does not matter: only the final contents of the procedures
// count.  decided=false: the evaluation stopped (why says where).
func (c *Ctx) bindByEvaluation(ia *interpAnchors) (bad []string, decided bool, why string) {
	e := c.registry().byKey["systemdict/bind"]
	if e == nil || e.fn == nil {
		return nil, false, "the operator bind is not registered"
	}
	ev := &ssaEval{c: c, bind: map[ssa.Value]sv{}, mem: map[string]sv{}, makeLists: true, maxDepth: 10}
	opTok := func(s string) sv { return sv{k: svString, s: s, op: "Operator"} }
	inner := ev.newList([]sv{obj("Name", "a"), {}})
	inner.op = "Procedure"
	outer := ev.newList([]sv{obj("Name", "a"), opTok("b"), obj("Name", "c"), obj("Name", "d"), obj("Name", "e"), obj("Integer", "7"), inner, opTok("c"), opTok("f"), opTok("d")})
	outer.op = "Procedure"
	ev.lists[inner.s][1] = outer
	ev.mem["intp.Stack"] = ev.newList([]sv{obj("Integer", "keep"), outer})
	sysD, userD := obj("Dict", "systemdict"), obj("Dict", "userdict")
	ev.mem["intp.DictStack"] = ev.newList([]sv{sysD, userD})
	ev.mem["intp.SystemDict"] = sysD
	ev.mem["intp.UserDict"] = userD
	content := map[string]map[string]sv{
		sysD.s:  {"a": obj("builtin", "add"), "b": obj("builtin", "sub"), "c": obj("builtin", "c")},
		userD.s: {"c": obj("Procedure", "userc"), "e": obj("Integer", "1"), "f": obj("builtin", "f")},
	}
	keyName := func(k sv) (string, bool) {
		switch {
		case k.k == svSym && strings.HasPrefix(k.s, "Name:"):
			return k.s[len("Name:"):], true
		case k.k == svString:
			return k.s, true
		}
		return "", false
	}
	ev.lookup = func(x *ssa.Lookup, m, k sv) (sv, bool) {
		if d, ok := content[m.s]; ok && m.k == svSym {
			name, isName := keyName(k)
			if !isName {
				return sv{}, false
			}
			val, present := d[name]
			if !present {
				val = sv{k: svNil}
			}
			if !x.CommaOk {
				return val, true
			}
			return sv{k: svTuple, tup: []sv{val, boolV(present)}}, true
		}
		if m.k == svSym && strings.HasPrefix(m.s, "fresh") {
			// a map made during the evaluation: what was entered is in it
			in := false
			for _, ef := range ev.effects {
				if ef.what == "mapupdate" && ef.addr == m.String() && len(ef.args) == 2 && ev.render(ef.args[0]) == ev.render(k) {
					in = !(ef.args[1].k == svBool && !ef.args[1].b)
				}
			}
			if !x.CommaOk {
				if bt, ok := x.Type().Underlying().(*types.Basic); ok && bt.Info()&types.IsBoolean != 0 {
					return boolV(in), true
				}
				return sv{}, false
			}
			return sv{k: svTuple, tup: []sv{boolV(in), boolV(in)}}, true
		}
		return sv{}, false
	}
	typeOf := func(v sv) string {
		if v.k == svList || v.k == svString {
			return v.op
		}
		if i := strings.Index(v.s, ":"); v.k == svSym && i > 0 {
			return v.s[:i]
		}
		return ""
	}
	ev.noInline = func(g *ssa.Function) bool { return g == ia.executeOne }
	ev.inlineLib = func(g *ssa.Function) bool {
		for g.Parent() != nil {
			g = g.Parent()
		}
		if og := g.Origin(); og != nil {
			g = og
		}
		return g.Pkg != nil && g.Pkg.Pkg.Path() == "slices" && g.Object() != nil && (g.Object().Name() == "Backward" || g.Object().Name() == "All" || g.Object().Name() == "Values")
	}
	ev.load = func(ld *ssa.UnOp, addr sv) (sv, bool) {
		if addr.k == svAddr && strings.HasPrefix(addr.s, "cell") && !strings.ContainsAny(addr.s, ".[") {
			return aZeroSV(ld.Type())
		}
		return sv{}, false
	}
	ev.call = func(call ssa.CallInstruction, args []sv) (sv, bool) {
		if call == nil {
			if len(args) == 2 && strings.HasPrefix(args[0].s, "typeassert:") && (typeOf(args[1]) != "" || args[1].k == svNil) {
				want := args[0].s[len("typeassert:"):]
				want = want[strings.LastIndex(want, ".")+1:]
				if typeOf(args[1]) == want {
					return sv{k: svTuple, tup: []sv{args[1], boolV(true)}}, true
				}
				zero := sv{k: svNil}
				if want == "Name" || want == "Operator" || want == "String" {
					zero = sv{k: svString}
				}
				return sv{k: svTuple, tup: []sv{zero, boolV(false)}}, true
			}
			return sv{}, false
		}
		if cc := call.Common(); cc.StaticCallee() == ia.e && len(cc.Args) > 1 {
			return symV("error:" + c.nameConst(cc.Args[1])), true
		}
		return sv{}, false
	}
	ev.oracle = func(op token.Token, x, y sv) (bool, bool) {
		if (x.k == svSym || x.k == svNil || x.k == svAddr) && (y.k == svSym || y.k == svNil || y.k == svAddr) {
			eq := x.String() == y.String()
			switch op {
			case token.EQL:
				return eq, true
			case token.NEQ:
				return !eq, true
			}
		}
		return false, false
	}
	ret := ev.runFunc(e.fn, []sv{{k: svAddr, s: "intp"}})
	if ev.why != "" || len(ret) != 1 {
		w := ev.why
		if w == "" {
			w = "no return reached"
		}
		return nil, false, w
	}
	if ret[0].k != svNil {
		bad = append(bad, "bind on a procedure returns "+ret[0].String()+" instead of nil")
	}
	{
		// the operand stays on the stack: [keep outer] (the procedures are cyclic: not rendered)
		st, ok := ev.elems(ev.mem["intp.Stack"])
		if !ok || len(st) != 2 || st[1].k != svList || st[1].s != outer.s {
			bad = append(bad, fmt.Sprintf("bind does not leave its operand on the stack (%d objects afterwards)", len(st)))
		}
	}
	show := func(l sv) []string {
		var out []string
		el, _ := ev.elems(l)
		for _, x := range el {
			switch {
			case x.k == svList && x.s == outer.s:
				out = append(out, "{outer}")
			case x.k == svList && x.s == inner.s:
				out = append(out, "{inner}")
			default:
				out = append(out, x.String())
			}
		}
		return out
	}
	wantOuter := []string{"builtin:add", "builtin:sub", "Name:c", "Name:d", "Name:e", "Integer:7", "{inner}", opTok("c").String(), "builtin:f", opTok("d").String()}
	wantInner := []string{"builtin:add", "{outer}"}
	what := []string{"the name a (an operator in systemdict)", "the operator token b", "the name c (an operator in systemdict, redefined as a procedure in userdict)", "the name d (defined nowhere)", "the name e (an integer in userdict)", "the integer 7", "the nested procedure",
		"the operator token c (an operator in systemdict, redefined as a procedure in userdict)", "the operator token f (an operator defined in userdict only)", "the operator token d (defined nowhere)"}
	gotOuter, gotInner := show(outer), show(inner)
	if len(gotOuter) != len(wantOuter) {
		bad = append(bad, fmt.Sprintf("the procedure has %d elements after bind, %d before", len(gotOuter), len(wantOuter)))
	} else {
		for i := range wantOuter {
			if gotOuter[i] != wantOuter[i] {
				bad = append(bad, fmt.Sprintf("%s becomes %s, expected %s", what[i], gotOuter[i], wantOuter[i]))
			}
		}
	}
	if fmt.Sprint(gotInner) != fmt.Sprint(wantInner) {
		bad = append(bad, fmt.Sprintf("the nested procedure {a {outer}} becomes %v, expected %v", gotInner, wantInner))
	}
	return bad, true, ""
}
