package main

import (
	"fmt"
	"go/constant"
	"go/token"
	"go/types"
	"math/big"
	"sort"
	"strings"

	"golang.org/x/tools/go/ssa"
)

// Helpers of the C02 / C03 rules (worker F).

// bindWorker finds, by role, the function that performs `bind`: the module function reached by
// static calls from the registered operator `bind` (the operator itself included) that has a
// parameter of type Procedure and stores into the elements of that parameter.  Whether it is a
// method of the interpreter or a plain function taking the interpreter, and what it is called,
// does not matter.
func (c *Ctx) bindWorker(ia *interpAnchors) *ssa.Function {
	procT := c.typeObj("postscript", "Procedure")
	storesIntoParam := func(f *ssa.Function) bool {
		found := false
		eachInstr(f, func(ins ssa.Instruction) {
			st, ok := ins.(*ssa.Store)
			if !ok {
				return
			}
			ix, ok := st.Addr.(*ssa.IndexAddr)
			if !ok {
				return
			}
			if p, isParam := origin(ix.X).(*ssa.Parameter); isParam && typeIsNamed(p.Type(), procT) {
				found = true
			}
		})
		return found
	}
	var start *ssa.Function
	if e := c.registry().byKey["systemdict/bind"]; e != nil {
		start = e.fn
	}
	if start != nil {
		seen := map[*ssa.Function]bool{}
		queue := []*ssa.Function{start}
		for depth := 0; depth < 3 && len(queue) > 0; depth++ {
			var next []*ssa.Function
			for _, f := range queue {
				if seen[f] || len(f.Blocks) == 0 {
					continue
				}
				seen[f] = true
				if storesIntoParam(f) {
					return f
				}
				eachInstr(f, func(ins ssa.Instruction) {
					if call, ok := ins.(ssa.CallInstruction); ok {
						if g := call.Common().StaticCallee(); g != nil && c.inModule(g) && g != ia.e && g != ia.load && g != ia.executeOne {
							next = append(next, g)
						}
					}
				})
			}
			queue = next
		}
	}
	if f := c.methodOpt("postscript", "Interpreter", "bindProc"); f != nil {
		return f
	}
	return c.fnOpt("postscript", "bindProc")
}

// deferredRule (CTL-DEFERRED): executeOne is evaluated on the SSA form with one procedure body
// open (the stack of body starts holds one entry) for an object of every kind the dispatch
// distinguishes, and for the two braces.  While a body is open, an object that is not a brace must
// be appended to the operand stack and nothing else may happen: the operation counter is not
// touched, nothing is looked up, nothing is called; `{` opens a nested body, `}` closes the body
// and leaves the collected objects as one procedure.  With no body open the same object must
// reach the dispatch (otherwise the evaluation would prove nothing).  Helpers are evaluated in
// place, so the rule does not depend on where the test for an open body is written.
func (c *Ctx) deferredRule(ia *interpAnchors) {
	fn := ia.executeOne
	fname := c.fname(fn)
	procStart := c.fld("intp.procStart")
	type outcome struct {
		ret        string
		stack      string
		starts     string
		dispatched bool
		why        string
	}
	run := func(obj sv, flag bool, stack []sv, starts []sv) outcome {
		ev := &ssaEval{c: c, bind: map[ssa.Value]sv{}, mem: map[string]sv{}}
		ev.mem["intp.Stack"] = ev.newList(stack)
		ev.mem["intp."+procStart] = ev.newList(starts)
		var o outcome
		ev.noInline = func(g *ssa.Function) bool { return g == ia.executeOne || g == ia.load }
		ev.load = func(ld *ssa.UnOp, addr sv) (sv, bool) {
			// counters and limits of the interpreter at rest
			if strings.HasPrefix(addr.s, "intp.") {
				if bt, ok := ld.Type().Underlying().(*types.Basic); ok {
					switch {
					case bt.Info()&types.IsInteger != 0:
						return intV(0), true
					case bt.Info()&types.IsBoolean != 0:
						return boolV(false), true
					}
				}
			}
			return sv{}, false
		}
		typeOf := func(v sv) string {
			if v.k == svList || v.k == svString {
				return v.op
			}
			if i := strings.Index(v.s, ":"); v.k == svSym && i > 0 {
				return v.s[:i]
			}
			return ""
		}
		ev.call = func(call ssa.CallInstruction, args []sv) (sv, bool) {
			if call == nil {
				if len(args) == 2 && strings.HasPrefix(args[0].s, "typeassert:") {
					want := args[0].s[len("typeassert:"):]
					want = want[strings.LastIndex(want, ".")+1:]
					if typeOf(args[1]) == want {
						return sv{k: svTuple, tup: []sv{args[1], boolV(true)}}, true
					}
					return sv{k: svTuple, tup: []sv{{k: svNil}, boolV(false)}}, true
				}
				return sv{}, false
			}
			cc := call.Common()
			switch {
			case cc.StaticCallee() == ia.executeOne || cc.StaticCallee() == ia.load:
				o.dispatched = true
				return sv{}, false
			case cc.StaticCallee() == nil && !cc.IsInvoke():
				if _, isB := cc.Value.(*ssa.Builtin); !isB {
					o.dispatched = true // a dynamic call: an operator is run
				}
			case cc.StaticCallee() == ia.e:
				if len(cc.Args) > 1 {
					return symV("error:" + c.errNameOfArg(cc.Args[1])), true
				}
			}
			if b, ok := cc.Value.(*ssa.Builtin); ok && b.Name() == "copy" && len(args) == 2 && args[0].k == svList {
				if src, ok := ev.elems(args[1]); ok {
					dst, _ := ev.elems(args[0])
					n := copy(dst, src)
					return intV(int64(n)), true
				}
			}
			return sv{}, false
		}
		ev.oracle = func(op token.Token, x, y sv) (bool, bool) {
			// an object that is not an operator name differs from both braces
			if (x.k == svSym && y.k == svString) || (x.k == svString && y.k == svSym) || (x.k == svList && y.k == svString) || (x.k == svString && y.k == svList) {
				switch op {
				case token.EQL:
					return false, true
				case token.NEQ:
					return true, true
				}
			}
			return false, false
		}
		ret := ev.runFunc(fn, []sv{{k: svAddr, s: "intp"}, obj, boolV(flag)})
		o.why = ev.why
		for _, ef := range ev.effects {
			if ef.what == "store" && ef.addr == "intp.NumOps" {
				o.dispatched = true
			}
		}
		if len(ret) == 1 {
			o.ret = ret[0].String()
		}
		o.stack = ev.render(ev.mem["intp.Stack"])
		o.starts = ev.render(ev.mem["intp."+procStart])
		return o
	}
	keep := obj("Integer", "keep")
	var bad []string
	cells := 0
	objects := []sv{obj("Integer", "x"), obj("Name", "x"), obj("builtin", "x"), obj("Procedure", "x"), {k: svString, s: "x", op: "Operator"}}
	for _, x := range objects {
		for _, flag := range []bool{false, true} {
			cells++
			// one body open, started at height 1
			o := run(x, flag, []sv{keep}, []sv{intV(1)})
			want := "[" + keep.String() + " " + x.String() + "]"
			if o.why != "" || o.ret != "nil" || o.dispatched || o.stack != want || o.starts != "[1]" {
				bad = append(bad, fmt.Sprintf("with a procedure body open, the object %s (execute flag %v) is not simply appended to the body: result %s, operand stack %s (expected %s), open bodies %s, dispatched: %v %s", x, flag, o.ret, o.stack, want, o.starts, o.dispatched, o.why))
			}
		}
	}
	// the braces: `{` opens a nested body, `}` closes the innermost one
	{
		cells++
		o := run(sv{k: svString, s: "{", op: "Operator"}, false, []sv{keep, obj("Name", "a")}, []sv{intV(1)})
		if o.why != "" || o.ret != "nil" || o.dispatched || o.starts != "[1 2]" || o.stack != "["+keep.String()+" Name:a]" {
			bad = append(bad, fmt.Sprintf("`{` inside an open body does not open a nested body: result %s, operand stack %s, open bodies %s (expected [1 2]), dispatched: %v %s", o.ret, o.stack, o.starts, o.dispatched, o.why))
		}
		cells++
		o = run(sv{k: svString, s: "}", op: "Operator"}, false, []sv{keep, obj("Name", "a"), obj("Name", "b")}, []sv{intV(1)})
		if o.why != "" || o.ret != "nil" || o.dispatched || o.starts != "[]" || o.stack != "["+keep.String()+" [Name:a Name:b]]" {
			bad = append(bad, fmt.Sprintf("`}` does not close the open body into one procedure: result %s, operand stack %s (expected [%s [Name:a Name:b]]), open bodies %s, dispatched: %v %s", o.ret, o.stack, keep, o.starts, o.dispatched, o.why))
		}
		cells++
		o = run(sv{k: svString, s: "}", op: "Operator"}, false, []sv{keep}, nil)
		if o.ret != "error:syntaxerror" || o.dispatched {
			bad = append(bad, fmt.Sprintf("`}` without an open body: result %s, expected a syntaxerror %s", o.ret, o.why))
		}
	}
	// control: with no body open the object reaches the dispatch
	{
		cells++
		o := run(obj("Integer", "x"), false, []sv{keep}, nil)
		if !o.dispatched {
			bad = append(bad, fmt.Sprintf("with no body open an object does not reach the dispatch (result %s %s): the evaluation proves nothing", o.ret, o.why))
		}
	}
	c.check(len(bad) == 0, "CTL-DEFERRED", fname, "dispatch only outside an open procedure body", fn.Pos(), fmt.Sprintf("%d cells evaluated: object kinds × execute flag with a body open, the braces, control", cells),
		"objects can be dispatched while a procedure body is being collected: procedure bodies are not deferred: "+joinMax(bad, 3))
}

// operatorWithDepth evaluates a registered operator on the SSA form with an operand stack of n
// objects about which nothing is known (a type test on one of them stops the evaluation).  It
// returns the PostScript error name if the operator returns an error value ("nil" for a normal
// return, "?" for a value that is not an error of the interpreter), and the reason if the
// evaluation stopped before a return.  Helpers are evaluated in place.
func (c *Ctx) operatorWithDepth(f *ssa.Function, n int) (ret string, why string) {
	ev := &ssaEval{c: c, bind: map[ssa.Value]sv{}, mem: map[string]sv{}}
	var st []sv
	for i := 0; i < n; i++ {
		st = append(st, symV(fmt.Sprintf("operand%d", n-i)))
	}
	ev.mem["intp.Stack"] = ev.newList(st)
	ev.load = func(ld *ssa.UnOp, addr sv) (sv, bool) {
		if g, ok := ld.X.(*ssa.Global); ok {
			if s := c.globalInit(g); s != "" {
				return symV("errname:" + s), true
			}
		}
		return sv{}, false
	}
	ev.oracle = func(op token.Token, x, y sv) (bool, bool) {
		// the address of a freshly allocated object (an error value under construction) is not nil
		if (x.k == svAddr && y.k == svNil) || (x.k == svNil && y.k == svAddr) {
			switch op {
			case token.EQL:
				return false, true
			case token.NEQ:
				return true, true
			}
		}
		return false, false
	}
	res := ev.runFunc(f, []sv{{k: svAddr, s: "intp"}})
	for _, ef := range ev.effects {
		if ef.what == "panic" {
			// an operand is accessed that is not there (or an explicit panic)
			return "panic", ""
		}
	}
	if len(res) == 0 {
		if ev.why == "" {
			return "", "no return reached"
		}
		return "", ev.why
	}
	r := res[len(res)-1]
	switch {
	case r.k == svNil:
		return "nil", ""
	case r.k == svAddr:
		var keys []string
		for k := range ev.mem {
			if strings.HasPrefix(k, r.s+".") {
				keys = append(keys, k)
			}
		}
		sort.Strings(keys)
		for _, k := range keys {
			if v := ev.mem[k]; v.k == svSym && strings.HasPrefix(v.s, "errname:") {
				return v.s[len("errname:"):], ""
			}
		}
	}
	return "?", ""
}

// arityByEvaluation decides the operand count of an operator semantically: with fewer than k
// operands on the stack the operator must return stackunderflow, with exactly k it must not.
// decided=false: the evaluation stopped before a return with fewer than k operands, nothing is
// concluded.
func (c *Ctx) arityByEvaluation(f *ssa.Function, k int) (ok bool, decided bool, detail string) {
	for n := 0; n < k; n++ {
		ret, why := c.operatorWithDepth(f, n)
		if why != "" {
			return false, false, fmt.Sprintf("with %d operand(s) the evaluation stops: %s", n, why)
		}
		if ret == "panic" {
			return false, true, fmt.Sprintf("with %d operand(s) on the stack it accesses an operand that is not there (run-time panic) instead of reporting stackunderflow", n)
		}
		if ret != "stackunderflow" {
			return false, true, fmt.Sprintf("with %d operand(s) on the stack it returns `%s` instead of stackunderflow", n, ret)
		}
	}
	if ret, why := c.operatorWithDepth(f, k); why == "" && ret == "stackunderflow" {
		return false, true, fmt.Sprintf("with %d operand(s) on the stack it still reports stackunderflow", k)
	}
	return true, true, fmt.Sprintf("stackunderflow with 0..%d operand(s), not with %d", k-1, k)
}

// ---- net effect of a function on the operand stack, through helpers (OP-STACKEFFECT)

// stackFx relates the length of the operand stack of the interpreter `base` points to, at the end
// of a block of fn, to its length at the entry of fn.  The relation comes from the epoch relations
// of the fact engine; where the stack was last changed by a call of a module function, the
// callee's own relation (per return statement) is composed with the caller's, and the returns of
// the callee are restricted to those compatible with what the caller has tested since (err == nil,
// ok == true): whether a pop lives in the operator or in a helper it calls makes no difference.
type stackFx struct {
	c     *Ctx
	fi    *funcInfo
	field string    // the fact engine's name of Interpreter.Stack
	basev ssa.Value // the interpreter pointer in fn
	base  string
	busy  map[*ssa.Function]bool
}

func (c *Ctx) newStackFx(fn *ssa.Function, basev ssa.Value, busy map[*ssa.Function]bool) *stackFx {
	fi := newFuncInfo(fn)
	sx := &stackFx{c: c, fi: fi, basev: basev, base: fi.vname(canonBase(basev)), busy: busy}
	for fld := range fi.fields {
		if strings.HasSuffix(fld, "Interpreter.Stack") {
			sx.field = fld
		}
	}
	return sx
}

func unionInts(sets ...[]int64) []int64 {
	seen := map[int64]bool{}
	var out []int64
	for _, s := range sets {
		for _, x := range s {
			if !seen[x] {
				seen[x] = true
				out = append(out, x)
			}
		}
	}
	sort.Slice(out, func(i, j int) bool { return out[i] < out[j] })
	return out
}

// atBlockEnd: the possible values of len(Stack)@end of b − len(Stack)@entry.
func (sx *stackFx) atBlockEnd(b *ssa.BasicBlock, depth int) ([]int64, bool) {
	if sx.field == "" {
		return []int64{0}, true
	}
	ep := sx.fi.outEpoch[b][sx.field]
	if ep == "" {
		return nil, false
	}
	return sx.ofEpoch(ep, b, depth)
}

// ofEpoch: the stack height in epoch ep, relative to the entry; ctx is a block in which that
// epoch is current (its dominating conditions select the returns of a callee).
func (sx *stackFx) ofEpoch(ep string, ctx *ssa.BasicBlock, depth int) ([]int64, bool) {
	if depth > 8 {
		return nil, false
	}
	fn := sx.fi.fn
	switch {
	case ep == "entry":
		return []int64{0}, true
	case strings.HasPrefix(ep, "phi@"):
		var idx int
		fmt.Sscanf(ep, "phi@%d", &idx)
		if idx < 0 || idx >= len(fn.Blocks) {
			return nil, false
		}
		var all []int64
		for _, p := range fn.Blocks[idx].Preds {
			es, ok := sx.atBlockEnd(p, depth+1)
			if !ok {
				return nil, false
			}
			all = unionInts(all, es)
		}
		return all, true
	case strings.HasPrefix(ep, "call@"):
		var bi, ii int
		fmt.Sscanf(ep, "call@%d.%d", &bi, &ii)
		if bi < 0 || bi >= len(fn.Blocks) || ii < 0 || ii >= len(fn.Blocks[bi].Instrs) {
			return nil, false
		}
		call, ok := fn.Blocks[bi].Instrs[ii].(*ssa.Call)
		if !ok {
			return nil, false
		}
		return sx.throughCall(call, ctx, depth)
	case strings.HasPrefix(ep, "st@"):
		l, ok := sx.fi.rel[ep+"|"+sx.field+"|"+sx.base]
		if !ok {
			return nil, false
		}
		var bi, ii int
		fmt.Sscanf(ep, "st@%d.%d", &bi, &ii)
		if bi < 0 || bi >= len(fn.Blocks) {
			return nil, false
		}
		return sx.ofLin(l, fn.Blocks[bi], depth)
	}
	return nil, false
}

// ofLin: l is len(Stack@some epoch) + constant.
func (sx *stackFx) ofLin(l Lin, ctx *ssa.BasicBlock, depth int) ([]int64, bool) {
	if len(l.coef) != 1 || !l.c.IsInt() {
		return nil, false
	}
	k := l.c.Num().Int64()
	prefix := fmt.Sprintf("len(%s.%s@", sx.base, sx.field)
	for a, co := range l.coef {
		if !strings.HasPrefix(a, prefix) || !strings.HasSuffix(a, ")") || co.Cmp(big.NewRat(1, 1)) != 0 {
			return nil, false
		}
		es, ok := sx.ofEpoch(a[len(prefix):len(a)-1], ctx, depth+1)
		if !ok {
			return nil, false
		}
		out := make([]int64, len(es))
		for i, e := range es {
			out[i] = e + k
		}
		return out, true
	}
	return nil, false
}

// throughCall: the stack height right after call (a static call of a module function that
// receives the interpreter), restricted to the callee returns compatible with the conditions that
// dominate ctx.
func (sx *stackFx) throughCall(call *ssa.Call, ctx *ssa.BasicBlock, depth int) ([]int64, bool) {
	g := call.Call.StaticCallee()
	if g == nil || !sx.c.inModule(g) || len(g.Blocks) == 0 || sx.busy[g] || call.Call.IsInvoke() {
		return nil, false
	}
	// which parameter of the callee is our interpreter
	var param ssa.Value
	for i, a := range call.Call.Args {
		if i < len(g.Params) && sx.fi.vname(canonBase(a)) == sx.base {
			param = g.Params[i]
		}
	}
	if param == nil {
		return nil, false
	}
	pre, ok := sx.ofEpoch(sx.fi.callEpoch[call][sx.field], call.Block(), depth+1)
	if !ok {
		return nil, false
	}
	sx.busy[g] = true
	defer delete(sx.busy, g)
	sub := sx.c.newStackFx(g, param, sx.busy)
	// what the caller knows about the results on its way to ctx
	type known struct {
		idx   int
		isNil *bool // result == nil ?
		isTru *bool // result (a boolean) is true ?
	}
	var kn []known
	resultIdx := func(v ssa.Value) (int, bool) {
		v = origin(v)
		if v == ssa.Value(call) {
			return 0, true
		}
		if ex, ok := v.(*ssa.Extract); ok && ex.Tuple == ssa.Value(call) {
			return ex.Index, true
		}
		return 0, false
	}
	if ctx != nil && call.Block().Dominates(ctx) {
		for _, cd := range domConds(ctx) {
			if !call.Block().Dominates(cd.blk) {
				continue
			}
			if cd.blk == call.Block() {
				// the test must come after the call
				after := false
				for _, ins := range cd.blk.Instrs {
					if ins == ssa.Instruction(call) {
						after = true
					}
				}
				if !after {
					continue
				}
			}
			if i, ok := resultIdx(cd.v); ok {
				t := cd.truth
				kn = append(kn, known{idx: i, isTru: &t})
				continue
			}
			v, truth := cd.v, cd.truth
			for {
				if u, ok := v.(*ssa.UnOp); ok && u.Op == token.NOT {
					v, truth = u.X, !truth
					continue
				}
				break
			}
			if i, ok := resultIdx(v); ok {
				kn = append(kn, known{idx: i, isTru: &truth})
				continue
			}
			if m, ok := asCmp(cd); ok && (m.op == token.EQL || m.op == token.NEQ) {
				x, y := m.x, m.y
				if isNilConst(x) {
					x, y = y, x
				}
				if i, ok := resultIdx(x); ok && isNilConst(y) {
					n := m.op == token.EQL
					kn = append(kn, known{idx: i, isNil: &n})
				}
			}
		}
	}
	var all []int64
	n := 0
	for _, r := range returns(g) {
		compatible := true
		for _, k := range kn {
			if k.idx >= len(r.Results) {
				continue
			}
			for _, v := range retValues(r, k.idx) {
				if k.isNil != nil {
					if *k.isNil && sx.c.definitelyNonNil(v, 0) {
						compatible = false
					}
					if !*k.isNil && isNilConst(v) {
						compatible = false
					}
				}
				if k.isTru != nil {
					if b, isC := constBool(v); isC && b != *k.isTru {
						compatible = false
					}
				}
			}
		}
		if !compatible {
			continue
		}
		n++
		es, ok := sub.atBlockEnd(r.Block(), depth+1)
		if !ok {
			return nil, false
		}
		for _, p := range pre {
			for _, e := range es {
				all = unionInts(all, []int64{p + e})
			}
		}
	}
	if n == 0 {
		return nil, false
	}
	return all, true
}

// definitelyNonNil: v is an interface or pointer value that cannot be nil: a value boxed into an
// interface, the address of an allocation, or the result of a module function all of whose
// returns are such values.
func (c *Ctx) definitelyNonNil(v ssa.Value, depth int) bool {
	if depth > 3 {
		return false
	}
	v = origin(v)
	switch x := v.(type) {
	case *ssa.MakeInterface, *ssa.Alloc, *ssa.MakeClosure, *ssa.Function:
		return true
	case *ssa.ChangeInterface:
		return c.definitelyNonNil(x.X, depth+1)
	case *ssa.Phi:
		for _, e := range x.Edges {
			if !c.definitelyNonNil(e, depth+1) {
				return false
			}
		}
		return len(x.Edges) > 0
	case *ssa.Call:
		g := x.Call.StaticCallee()
		if g == nil || !c.inModule(g) || len(g.Blocks) == 0 || g.Signature.Results().Len() != 1 {
			return false
		}
		rs := returns(g)
		for _, r := range rs {
			for _, rv := range retValues(r, 0) {
				if !c.definitelyNonNil(rv, depth+1) {
					return false
				}
			}
		}
		return len(rs) > 0
	}
	return false
}

// ---- the composite objects of the system dictionary are created per interpreter (OP-REGISTRY)

// freshComposite classifies where a map or slice value comes from: "fresh" (allocated by the code
// that builds the system dictionary: make, a composite literal, a library clone, a module function
// all of whose results are fresh), "shared:<what>" (a package-level variable or something derived
// from one: one object for every interpreter of the process), or "?" (not decided).
func (c *Ctx) freshComposite(v ssa.Value, depth int) string {
	if depth > 6 {
		return "?"
	}
	v = origin(v)
	switch x := v.(type) {
	case *ssa.MakeInterface:
		return c.freshComposite(x.X, depth+1)
	case *ssa.ChangeType:
		return c.freshComposite(x.X, depth+1)
	case *ssa.ChangeInterface:
		return c.freshComposite(x.X, depth+1)
	case *ssa.Convert:
		return c.freshComposite(x.X, depth+1)
	case *ssa.MakeMap, *ssa.MakeSlice:
		return "fresh"
	case *ssa.Global:
		return "shared:the package-level variable " + x.Name()
	case *ssa.Alloc:
		{
			// a local array (backing store of a literal or of make with a constant size), or a
			// local variable: every value stored into it decides
			if _, isArr := x.Type().(*types.Pointer).Elem().Underlying().(*types.Array); isArr {
				return "fresh"
			}
			res := ""
			for _, r := range *x.Referrers() {
				if st, ok := r.(*ssa.Store); ok && st.Addr == ssa.Value(x) {
					s := c.freshComposite(st.Val, depth+1)
					if s != "fresh" {
						return s
					}
					res = s
				}
			}
			if res == "" {
				return "?"
			}
			return res
		}
	case *ssa.Slice:
		return c.freshComposite(x.X, depth+1)
	case *ssa.UnOp:
		if x.Op == token.MUL {
			switch a := x.X.(type) {
			case *ssa.Global:
				return "shared:the package-level variable " + a.Name()
			case *ssa.Alloc:
				return c.freshComposite(a, depth+1)
			case *ssa.FieldAddr, *ssa.IndexAddr:
				return "?"
			}
		}
	case *ssa.Phi:
		for _, e := range x.Edges {
			if s := c.freshComposite(e, depth+1); s != "fresh" {
				return s
			}
		}
		return "fresh"
	case *ssa.Extract:
		if call, ok := x.Tuple.(*ssa.Call); ok {
			return c.freshResult(call, x.Index, depth)
		}
	case *ssa.Call:
		return c.freshResult(x, 0, depth)
	case *ssa.Lookup:
		// an element of another dictionary: as fresh as that dictionary's contents — not decided here
		return "?"
	}
	return "?"
}

func (c *Ctx) freshResult(call *ssa.Call, idx int, depth int) string {
	if b, ok := call.Call.Value.(*ssa.Builtin); ok && b.Name() == "append" && len(call.Call.Args) > 0 {
		return c.freshComposite(call.Call.Args[0], depth+1)
	}
	g := call.Call.StaticCallee()
	if g == nil {
		return "?"
	}
	og := g
	if o := g.Origin(); o != nil {
		og = o
	}
	if og.Pkg != nil && cloneFuncs[og.Pkg.Pkg.Name()+"."+og.Name()] {
		return "fresh"
	}
	if !c.inModule(g) || len(g.Blocks) == 0 {
		return "?"
	}
	rs := returns(g)
	if len(rs) == 0 {
		return "?"
	}
	for _, r := range rs {
		for _, rv := range retValues(r, idx) {
			if s := c.freshComposite(rv, depth+1); s != "fresh" {
				return s
			}
		}
	}
	return "fresh"
}

// systemDictIsolation: every map or slice bound in the system dictionary is created by the code
// that builds the dictionary for one interpreter.  PostScript composite objects are shared by
// reference and nothing in this interpreter is read-only, so an object that lives in a
// package-level variable would carry the writes of one interpreter (`StandardEncoding 65 /X put`)
// into every other one: a fresh interpreter would no longer start with the PLRM contents.
func (c *Ctx) systemDictIsolation() {
	mk := c.fn("postscript", "makeSystemDict")
	fname := c.fname(mk)
	found := map[string]bool{}
	c.eachInstrDeep(mk, 2, func(ins ssa.Instruction) {
		mu, ok := ins.(*ssa.MapUpdate)
		if !ok || !typeIsNamed(mu.Map.Type(), c.typeObj("postscript", "Dict")) {
			return
		}
		val := mu.Value
		if mi, ok := val.(*ssa.MakeInterface); ok {
			val = mi.X
		}
		if !isComposite(val.Type()) {
			return
		}
		key := c.valShape(mu.Key)
		if kc, ok := origin(mu.Key).(*ssa.Const); ok && kc.Value != nil && kc.Value.Kind() == constant.String {
			key = constant.StringVal(kc.Value)
		}
		found[key] = true
		src := c.freshComposite(val, 0)
		construct := key + " is an object of its own in every interpreter"
		switch {
		case src == "fresh":
			c.ok("OP-REGISTRY", fname, construct, mu.Pos(), "allocated while the system dictionary is built", "")
		case strings.HasPrefix(src, "shared:"):
			c.fail("OP-REGISTRY", fname, construct, mu.Pos(), fmt.Sprintf("the system dictionary entry %s is bound to %s: all interpreters of the process share this one composite object, so what a program stores into it (e.g. `StandardEncoding 65 /Alpha put`) is seen by every interpreter created later, which then does not start with the contents the PLRM prescribes", key, src[len("shared:"):]))
		default:
			c.undecided("OP-REGISTRY", fname, construct, mu.Pos(), "the origin of the composite value bound to "+key+" could not be decided (fresh per interpreter or shared)")
		}
	})
	var missing []string
	for _, k := range []string{"userdict", "errordict", "FontDirectory", "StandardEncoding", "systemdict"} {
		if !found[k] {
			missing = append(missing, k)
		}
	}
	c.check(len(missing) == 0, "OP-REGISTRY", fname, "the composite data entries are bound where the system dictionary is built", mk.Pos(), "5 entries inspected", "the place where these entries receive their composite value was not found: "+strings.Join(missing, ", "))
}
