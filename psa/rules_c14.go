package main

import (
	"fmt"
	"go/ast"
	"go/token"
	"go/types"

	"strings"

	"golang.org/x/tools/go/ssa"
)

// C14 — PFB decoding.  Rule family A13 PFBSM.

func init() {
	register(&propCheck{
		id:    "C14",
		title: "PFB decoding reproduces the segment contents for every read pattern",
		explanation: "Decides the state-machine and table clauses of C14: every value that can be stored in the decoder's state is a label of its state switch (the header guard is evaluated for all 2^16 first-two-byte values: exactly marker 0x80 with type 1, 2 or 3 passes, everything else returns the invalid-PFB error by identity); the segment length is the little-endian 32-bit value of header bytes 2..5; " +
			"in the text and binary states a read error is returned unconditionally, and binary data is read with io.ReadFull (a short segment is an error); the only tolerated short header is the two-byte end marker; the nibble encoder produces lower-case hexadecimal for 0..15; the in-place expansion runs from the back, even output positions take the high nibble and odd ones the low nibble of input byte i/2; the pending low nibble is emitted before anything else is read (the leftover state contains no read); " +
			"Read returns a nil error only after its `for len(b) > 0` loop, i.e. with the caller's buffer full. The index bounds of the in-place expansion are obligations of C01. " +
			"It does NOT decide that the output bytes equal the segment contents for every buffer pattern as values.",
		trusted:     []string{"byte-domain evaluation (asteval.go)", "canonical symbolic terms", "go/ssa CFG"},
		assumptions: nil,
		run:         runC14,
	})
}

func runC14(c *Ctx) {
	// every pattern of caller buffer sizes and short reads: no slice or index of the decoder can
	// leave its bounds, and byte counts are accounted before errors are acted on
	c.initFactEngine()
	var pfbFns []*ssa.Function
	for _, f := range c.modFuncs {
		if f.Pkg != nil && f.Pkg.Pkg.Name() == "pfb" {
			pfbFns = append(pfbFns, f)
		}
	}
	c.boundsObligations(pfbFns, c.bceLog(), 15)
	c.readCountRule("PFB-READCOUNT", func(f *ssa.Function) bool { return f.Pkg != nil && f.Pkg.Pkg.Name() == "pfb" })
	c.floor("PFB-READCOUNT", 1)

	info := c.info("pfb")
	fd := c.funcDecl("pfb", "pfbReader", "Read")
	f := c.method("pfb", "pfbReader", "Read")
	fname := c.fname(f)
	_ = c.typeObj("pfb", "pfbReader")

	// ---- state switch
	var sw *ast.SwitchStmt
	ast.Inspect(fd.Body, func(n ast.Node) bool {
		if s, ok := n.(*ast.SwitchStmt); ok && s.Tag != nil && sw == nil {
			sw = s
		}
		return true
	})
	if sw == nil {
		c.fail("PFB-STATES", fname, "state switch", fd.Pos(), "no switch over the decoder state")
		return
	}
	labels := map[int64]*ast.CaseClause{}
	for _, cc := range sw.Body.List {
		cl := cc.(*ast.CaseClause)
		for _, e := range cl.List {
			if v, ok := constIntOf(info, e); ok {
				labels[v] = cl
			}
		}
	}
	c.pfbTables()

	// ---- read errors returned unconditionally in the text and binary states; binary uses ReadFull
	nRead := 0
	eachInstr(f, func(ins ssa.Instruction) {
		call, ok := ins.(*ssa.Call)
		if !ok {
			return
		}
		isRead := call.Common().IsInvoke() && call.Common().Method.Name() == "Read"
		isFull := false
		if sc := call.Common().StaticCallee(); sc != nil && calleeName(sc) == "io.ReadFull" {
			isFull = true
		}
		if !isRead && !isFull {
			return
		}
		// the header read (into the 6-byte array) has its own tolerated case
		if isFull {
			if sl, ok := call.Common().Args[1].(*ssa.Slice); ok {
				if p, ok := sl.X.Type().Underlying().(*types.Pointer); ok {
					if _, isArr := p.Elem().Underlying().(*types.Array); isArr {
						c.headerShortRead(f, call, fname)
						return
					}
				}
			}
		}
		nRead++
		var e ssa.Value
		for _, r := range *call.Referrers() {
			if ex, ok := r.(*ssa.Extract); ok && ex.Index == 1 {
				e = ex
			}
		}
		okRet := false
		if e != nil {
			for _, r := range *e.Referrers() {
				bo, ok := r.(*ssa.BinOp)
				if !ok || bo.Op != token.NEQ || !isNilConst(bo.Y) {
					continue
				}
				for _, rr := range *bo.Referrers() {
					if ifi, ok := rr.(*ssa.If); ok {
						tb := ifi.Block().Succs[0]
						if ret, ok := tb.Instrs[len(tb.Instrs)-1].(*ssa.Return); ok {
							for _, v := range retValues(ret, 1) {
								if v == e {
									okRet = true
								}
							}
						}
					}
				}
			}
		}
		what := "text"
		if isFull {
			what = "binary"
		}
		c.check(okRet, "PFB-READERR", fname, "a read error in a "+what+" segment is returned as it is, whatever it is", call.Pos(), "if err != nil { return n, err }", "in a "+what+" segment the read error is filtered before being returned: a truncated segment (EOF) would not be reported (or the decoder would spin on it)")
	})
	c.check(nRead == 2, "PFB-READERR", fname, "one read per data state", fd.Pos(), fmt.Sprint(nRead), fmt.Sprintf("expected one read in the text state and one in the binary state, found %d", nRead))
	// binary state uses ReadFull: the case labelled 2
	if cl := labels[2]; cl != nil {
		t := nodeString(c, cl)
		c.check(strings.Contains(t, "io.ReadFull("), "PFB-READERR", fname, "binary segments are read with io.ReadFull (a short segment is an error)", cl.Pos(), "", "binary segment data is not read with io.ReadFull")
	}
	// leftover state has no read
	if cl := labels[-1]; cl != nil {
		hasRead := false
		ast.Inspect(cl, func(n ast.Node) bool {
			if call, ok := n.(*ast.CallExpr); ok {
				s := types.ExprString(call.Fun)
				if strings.Contains(s, "Read") {
					hasRead = true
				}
			}
			return true
		})
		c.check(!hasRead, "PFB-LEFTOVER", fname, "the pending nibble is emitted before any new input is read", cl.Pos(), "no read in the leftover state", "the leftover-nibble state reads input before emitting the pending digit")
	}

	// ---- nibble encoder
	{
		hfd := c.funcDecl("pfb", "", "hexEncode")
		bad := ""
		for v := int64(0); v < 16; v++ {
			vals, err := classifyFunc(info, hfd, v)
			want := int64("0123456789abcdef"[v])
			if err != nil || len(vals) != 1 || vals[0].i != want {
				bad = fmt.Sprintf("nibble %d → %v (%v), expected %q", v, vals, err, rune(want))
			}
		}
		c.check(bad == "", "PFB-HEX", "pfb.hexEncode", "nibbles 0..15 → lower-case hexadecimal digits", hfd.Pos(), "16 values evaluated", "hex encoder: "+bad)
	}
	// ---- in-place expansion
	c.pfbExpandRule()

	// ---- buffer filling: nil error only after the loop
	{
		var mainLoop *ast.ForStmt
		for _, st := range fd.Body.List {
			if fl, ok := st.(*ast.ForStmt); ok {
				mainLoop = fl
			}
		}
		okFill := mainLoop != nil
		why := "main loop not found"
		if mainLoop != nil {
			why = ""
			if be, ok := mainLoop.Cond.(*ast.BinaryExpr); !ok || be.Op != token.GTR || !strings.HasPrefix(types.ExprString(be.X), "len(") {
				okFill, why = false, "the main loop does not run while the caller's buffer has room (len(b) > 0)"
			}
			ast.Inspect(mainLoop, func(n ast.Node) bool {
				if r, ok := n.(*ast.ReturnStmt); ok && len(r.Results) == 2 {
					if id, ok := r.Results[1].(*ast.Ident); ok && id.Name == "nil" {
						okFill, why = false, "Read returns a nil error from inside the loop at "+c.pos(r.Pos())+", i.e. before the caller's buffer is full"
					}
				}
				return true
			})
			last := fd.Body.List[len(fd.Body.List)-1]
			if r, ok := last.(*ast.ReturnStmt); !ok || len(r.Results) != 2 || types.ExprString(r.Results[1]) != "nil" {
				okFill, why = false, "the function does not end with `return n, nil` after the loop"
			}
		}
		c.check(okFill, "PFB-FILL", fname, "a nil error is returned only with the caller's buffer full", fd.Pos(), "the only `return n, nil` follows the `for len(b) > 0` loop", "buffer filling: "+why)
	}
}

// headerShortRead: the only tolerated short header read is the two-byte end marker.
func (c *Ctx) headerShortRead(f *ssa.Function, call *ssa.Call, fname string) {
	var e ssa.Value
	for _, r := range *call.Referrers() {
		if ex, ok := r.(*ssa.Extract); ok && ex.Index == 1 {
			e = ex
		}
	}
	if e == nil {
		c.fail("PFB-READERR", fname, "header read error", call.Pos(), "the error of the header read is ignored")
		return
	}
	// every comparison of e: with nil (return) or ErrUnexpectedEOF (tolerated only together with type byte 3)
	okTol := true
	why := ""
	for _, r := range *e.Referrers() {
		bo, ok := r.(*ssa.BinOp)
		if !ok {
			continue
		}
		other := bo.Y
		if bo.Y == e {
			other = bo.X
		}
		if isNilConst(other) {
			continue
		}
		g := globalLoad(other)
		if g == nil || g.Name() != "ErrUnexpectedEOF" || bo.Op != token.EQL {
			okTol, why = false, "the header read error is compared with something other than nil / io.ErrUnexpectedEOF"
			continue
		}
		// dominated by buf[1] == 3 and buf[0] == 0x80
		has3, has80 := false, false
		for _, cd := range domConds(bo.Block()) {
			if m, ok := asCmp(cd); ok && m.op == token.EQL {
				if k, isC := constInt(m.y); isC {
					if ld, ok := m.x.(*ssa.UnOp); ok {
						if ix, ok := ld.X.(*ssa.IndexAddr); ok {
							idx, _ := constInt(ix.Index)
							if idx == 1 && k == 3 {
								has3 = true
							}
							if idx == 0 && k == 0x80 {
								has80 = true
							}
						}
					}
				}
			}
		}
		if !has3 || !has80 {
			okTol, why = false, "a short header is tolerated although it is not the end marker 0x80 0x03"
		}
	}
	c.check(okTol, "PFB-READERR", fname, "the only tolerated short header is the two-byte end marker", call.Pos(), "k >= 2 && buf[0] == 0x80 && buf[1] == 3 && err == io.ErrUnexpectedEOF", "header read: "+why)
}
