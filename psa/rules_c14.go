package main

import (
	"fmt"
	"go/token"

	"golang.org/x/tools/go/ssa"
)

// C14 — PFB decoding.  Rule family A13 PFBSM.

func init() {
	register(&propCheck{
		id:    "C14",
		title: "PFB decoding reproduces the segment contents for every read pattern",
		explanation: "Decides the state-machine and table clauses of C14: every value that can be stored in the decoder's state is a label of its state switch (the header guard is evaluated for all 2^16 first-two-byte values: exactly marker 0x80 with type 1, 2 or 3 passes, everything else returns the invalid-PFB error by identity); the segment length is the little-endian 32-bit value of header bytes 2..5; " +
			"in the text and binary states a read error is returned unconditionally, and binary data is read with io.ReadFull (a short segment is an error); the only tolerated short header is the two-byte end marker; the nibble encoder produces lower-case hexadecimal for 0..15; the in-place expansion runs from the back, even output positions take the high nibble and odd ones the low nibble of input byte i/2; the pending low nibble is emitted before anything else is read (the leftover state contains no read); " +
			"Read returns a nil error only after its `for len(b) > 0` loop, i.e. with the caller's buffer full. The index bounds of the in-place expansion are obligations of C01. " +
			"It does NOT decide that the output bytes equal the segment contents for every buffer pattern as values.",
		trusted:     []string{"byte-domain evaluation (asteval.go)", "canonical symbolic terms", "go/ssa CFG"},
		assumptions: nil,
		run:         runC14,
	})
}

func runC14(c *Ctx) {
	// every pattern of caller buffer sizes and short reads: no slice or index of the decoder can
	// leave its bounds, and byte counts are accounted before errors are acted on
	c.initFactEngine()
	var pfbFns []*ssa.Function
	for _, f := range c.modFuncs {
		if f.Pkg != nil && f.Pkg.Pkg.Name() == "pfb" {
			pfbFns = append(pfbFns, f)
		}
	}
	c.boundsObligations(pfbFns, c.bceLog(), 15)
	c.readCountRule("PFB-READCOUNT", func(f *ssa.Function) bool { return f.Pkg != nil && f.Pkg.Pkg.Name() == "pfb" })
	c.floor("PFB-READCOUNT", 1)

	f := c.method("pfb", "pfbReader", "Read")
	_ = c.typeObj("pfb", "pfbReader")
	c.pfbTables()
	c.pfbReadRules()

	// ---- in-place expansion, and the nibble encoder(s) it uses
	c.pfbHexRule(c.pfbExpandRule())

	// ---- buffer filling: nil error only after the loop
	c.pfbFillRule(f)
}

// pfbReadRules: PFB-READERR and PFB-LEFTOVER, decided on one evaluated iteration of the main
// loop per state (rules_c14b.go).  What is read in which state, and what happens to the error
// of a read, does not depend on how the states are told apart (switch, if chain, helpers).
func (c *Ctx) pfbReadRules() {
	fn := c.method("pfb", "pfbReader", "Read")
	fname := c.fname(fn)
	H := loopHeader(fn)
	if H == nil {
		return // reported by PFB-STATES
	}
	tailF := c.fld("pfb.tail")
	reads := func(it pfbIter) (plain, full int, pos token.Pos) {
		pos = fn.Pos()
		for _, ef := range it.effects {
			switch ef.what {
			case "read":
				plain++
				pos = ef.ins.Pos()
			case "readfull":
				full++
				pos = ef.ins.Pos()
			}
		}
		return
	}
	// data states: one read each, binary with io.ReadFull, the error returned as it is
	nRead := 0
	for _, st := range []struct {
		state int64
		what  string
	}{{1, "text"}, {2, "binary"}} {
		// every kind of error, in both orderings of the room in the caller's buffer and the rest
		// of the segment
		okRet := true
		var it pfbIter
		for _, e := range []string{"readerr", "EOF", "ErrUnexpectedEOF"} {
			for _, r := range []int{-1, 1} {
				x := c.pfbIterationOpt(fn, H, st.state, nil, r, pfbOpt{hdrK: -1, readErr: e})
				if !(len(x.ret) == 2 && x.ret[1].k == svSym && x.ret[1].s == e) {
					okRet = false
					if it.why == "" {
						it.why = "read failing with " + e + ": outcome " + fmt.Sprint(x.ret) + " " + x.why
					}
				}
				if e == "readerr" && r == -1 {
					why := it.why
					it = x
					it.why = why
				}
			}
		}
		plain, full, pos := reads(it)
		nRead += plain + full
		why := "in a " + st.what + " segment the read error is filtered before being returned: a truncated segment (EOF) would not be reported (or the decoder would spin on it)"
		if it.why != "" {
			why += " (" + it.why + ")"
		}
		c.check(okRet && plain+full == 1, "PFB-READERR", fname, "a read error in a "+st.what+" segment is returned as it is, whatever it is", pos, "one iteration evaluated with a failing read: the error is the result", why)
		if st.state == 2 {
			c.check(full == 1 && plain == 0, "PFB-READERR", fname, "binary segments are read with io.ReadFull (a short segment is an error)", pos, "", "binary segment data is not read with io.ReadFull")
		}
	}
	c.check(nRead == 2, "PFB-READERR", fname, "one read per data state", fn.Pos(), fmt.Sprint(nRead), fmt.Sprintf("expected one read in the text state and one in the binary state, found %d", nRead))

	// the leftover state: the pending digit goes to the first free byte, nothing is read
	// (the leftover states are the states an odd caller buffer leaves a binary segment in, with
	// and without data left in the segment — ext_g_pfb.go)
	{
		roles := c.pfbRoles(fn, H)
		okAll, why := len(roles.pend) > 0, "no state in which a digit is pending was found: the binary state does not park the last digit of an odd caller buffer"
		for _, ps := range roles.pend {
			it := c.pfbIterationOpt(fn, H, 0, nil, 2, pfbOpt{hdrK: -1, ctl: ps})
			plain, full, _ := reads(it)
			emitted := false
			for _, ef := range it.effects {
				if ef.what == "store" && ef.addr == "b[0]" && ef.args[0].String() == "tail" {
					emitted = true
				}
			}
			if plain+full == 0 && emitted {
				continue
			}
			okAll = false
			why = "the leftover-nibble state " + ps.String() + " reads input before emitting the pending digit"
			if plain+full == 0 {
				why = "the leftover-nibble state " + ps.String() + " does not put the pending digit into the first free byte of the caller's buffer " + it.why
			}
		}
		_ = tailF
		c.check(okAll, "PFB-LEFTOVER", fname, "the pending nibble is emitted before any new input is read", fn.Pos(), "no read in the leftover state", why)
	}

	// the header read: every short read is an error, except the two-byte end marker
	{
		type cell struct {
			k      int
			b0, b1 int64
			err    string
		}
		var bad []string
		hpos := fn.Pos()
		for _, cl := range []cell{
			{0, 0, 0, "EOF"}, {1, 0x80, 0, "ErrUnexpectedEOF"}, {2, 0x80, 3, "ErrUnexpectedEOF"}, {5, 0x80, 3, "ErrUnexpectedEOF"},
			{2, 0x80, 1, "ErrUnexpectedEOF"}, {3, 0x80, 2, "ErrUnexpectedEOF"}, {2, 0, 3, "ErrUnexpectedEOF"}, {5, 0x80, 1, "ErrUnexpectedEOF"},
			{2, 0x80, 3, "readerr"}, {0, 0, 0, "readerr"},
		} {
			hdr := map[int]int64{0: cl.b0, 1: cl.b1, 2: 0, 3: 0, 4: 0, 5: 0}
			it := c.pfbIterationOpt(fn, H, 0, hdr, 2, pfbOpt{hdrK: cl.k, hdrErr: cl.err})
			_, _, p := reads(it)
			hpos = p
			tolerated := cl.k >= 2 && cl.b0 == 0x80 && cl.b1 == 3 && cl.err == "ErrUnexpectedEOF"
			desc := fmt.Sprintf("a header read of %d byte(s) (% x) failing with %s", cl.k, []byte{byte(cl.b0), byte(cl.b1)}[:min(cl.k, 2)], cl.err)
			switch {
			case tolerated:
				roles := c.pfbRoles(fn, H)
				st, okSt := pfbApply(roles.hdr, it.effects)
				if !it.back || !okSt || roles.seg[3] == nil || st.String() != roles.seg[3].String() {
					bad = append(bad, desc+" is the end marker, but the decoder does not go to its final state ("+fmt.Sprint(it.ret)+" "+it.why+")")
				}
			default:
				if len(it.ret) != 2 || it.ret[1].k != svSym || it.ret[1].s != cl.err {
					bad = append(bad, desc+" is not reported with that error (outcome: "+fmt.Sprint(it.ret)+" "+it.why+")")
				}
			}
		}
		c.check(len(bad) == 0, "PFB-READERR", fname, "the only tolerated short header is the two-byte end marker", hpos, "10 combinations of bytes delivered, marker, type and error evaluated", "header read: "+joinMax(bad, 2))
	}
}

// pfbFillRule: PFB-FILL.  Read returns a nil error only when its main loop has ended because the
// caller's buffer is full; every return from inside the loop carries an error that is known not
// to be nil (a sentinel, or a value tested against nil on the way).
func (c *Ctx) pfbFillRule(fn *ssa.Function) {
	fname := c.fname(fn)
	H := loopHeader(fn)
	why := ""
	var exit *ssa.BasicBlock
	if H == nil {
		why = "main loop not found"
	} else {
		// the loop runs while the caller's buffer has room: `len(b) > 0` in any spelling, or the
		// result of a small accessor of the type that keeps track of the buffer (ext_x8.go)
		ifi, _ := H.Instrs[len(H.Instrs)-1].(*ssa.If)
		okCond := false
		if ifi != nil {
			if room, ok := roomTest(ifi.Cond, 0); ok {
				okCond = true
				exit = H.Succs[1]
				if !room {
					exit = H.Succs[0]
				}
			}
		}
		if !okCond {
			why = "the main loop does not run while the caller's buffer has room (len(b) > 0)"
		}
	}
	nNil := 0
	if why == "" {
		for _, r := range returns(fn) {
			if len(r.Results) != 2 {
				continue
			}
			afterLoop := exit != nil && exit.Dominates(r.Block()) && len(exit.Preds) == 1
			for _, v := range retValues(r, 1) {
				if isNilConst(v) {
					nNil++
					if !afterLoop {
						why = "Read returns a nil error from inside the loop at " + c.pos(r.Pos()) + ", i.e. before the caller's buffer is full"
					}
					continue
				}
				if afterLoop {
					continue
				}
				if !c.knownNonNilError(v, r.Block()) {
					why = "Read returns from inside the loop at " + c.pos(r.Pos()) + " with an error value that may be nil, i.e. possibly without an error and before the caller's buffer is full"
				}
			}
		}
		if why == "" && nNil == 0 {
			why = "the function does not end with `return n, nil` after the loop"
		}
	}
	c.check(why == "", "PFB-FILL", fname, "a nil error is returned only with the caller's buffer full", fn.Pos(), "the only return of a nil error follows the exit of the `for len(b) > 0` loop", "buffer filling: "+why)
}

// knownNonNilError: v is a sentinel (package-level error variable), a freshly made error, or a
// value that a dominating condition has compared unequal to nil.
func (c *Ctx) knownNonNilError(v ssa.Value, at *ssa.BasicBlock) bool {
	if globalLoad(v) != nil {
		return true
	}
	switch x := origin(v).(type) {
	case *ssa.MakeInterface:
		return true
	case *ssa.Call:
		if n := callName(x); n == "errors.New" || n == "fmt.Errorf" {
			return true
		}
	}
	for _, cd := range domConds(at) {
		if m, ok := asCmp(cd); ok && m.op == token.NEQ {
			if (sameValue(m.x, v) && isNilConst(m.y)) || (sameValue(m.y, v) && isNilConst(m.x)) {
				return true
			}
		}
	}
	return false
}
