package main

import (
	"fmt"
	"go/ast"
	"go/token"
	"go/types"
	"strings"

	"golang.org/x/tools/go/ssa"
)

// C04 — tokenizer.  Rule family A6 LEXTABLES (table agreement only).

func init() {
	register(&propCheck{
		id:    "C04",
		title: "Tokenizer reads every PostScript lexical form as the object it denotes",
		explanation: "Decides table agreement only: the regular-character class, the white-space class, the escape table of literal strings (case constant → appended byte), the octal escape (digits 0–7, at most three), CR/LF normalisation flags, the hexadecimal and ASCII85 digit classes with their values, radix 85 and padding 84 — each evaluated for all 256 byte values from the type-checked source and compared with the PLRM tables; " +
			"writer ⊆ reader⁻¹: for every byte value and both balance states, what String.PS emits is decoded by the extracted reader table to exactly that byte, and the balance scan counts parentheses as the reader nests them; Name.PS accepts exactly the regular-character class (same function object); DSC comments are appended to the interpreter only on the error-free path. " +
			"It does NOT decide token-boundary behaviour, number syntax (delegated to strconv and one regular expression), nor interactions of line endings with comments — the product space in the quantifier.",
		trusted:     []string{"byte-domain evaluation of pure classifier code (asteval.go)", "PLRM tables carried in the checker"},
		assumptions: nil,
		run:         runC04,
	})
}

const plrmDelims = "()<>[]{}/%"

func runC04(c *Ctx) {
	info := c.info("postscript")

	// ---- regular characters
	regular := [256]bool{}
	{
		fd := c.funcDecl("postscript", "", "isRegular")
		bad := ""
		for b := 0; b < 256; b++ {
			vals, err := classifyFunc(info, fd, int64(b))
			if err != nil || len(vals) != 1 || !vals[0].isBool {
				bad = fmt.Sprintf("not evaluable for byte %d: %v", b, err)
				break
			}
			regular[b] = vals[0].b
		}
		want := setOf(func(b int) bool { return b > 32 && !strings.ContainsRune(plrmDelims, rune(b)) })
		if bad == "" && regular != want {
			bad = "regular set is {" + setString(regular) + "}"
		}
		c.check(bad == "", "LEX-REGULAR", "postscript.isRegular", "regular characters = bytes > 32 except ( ) < > [ ] { } / %", fd.Pos(), "256 byte values evaluated", "the regular-character class differs from the PLRM: "+bad)
	}

	// ---- white space in SkipWhiteSpace: what one pass of the loop does with each byte value
	{
		fn := c.method("postscript", "scanner", "SkipWhiteSpace")
		fname := "postscript.(*scanner).SkipWhiteSpace"
		scannerT := c.typeObj("postscript", "scanner")
		H := loopHeader(fn)
		classify := func(b int) (string, string) {
			ev := &ssaEval{c: c, bind: map[ssa.Value]sv{}, mem: map[string]sv{}}
			var calls []string
			ev.noInline = func(*ssa.Function) bool { return true }
			ev.load = func(ld *ssa.UnOp, addr sv) (sv, bool) {
				if bt, ok := ld.Type().Underlying().(*types.Basic); ok && bt.Info()&types.IsInteger != 0 {
					return intV(1), true // not at the start of a line
				}
				return symV("v:" + addr.s), true
			}
			ev.call = func(call ssa.CallInstruction, args []sv) (sv, bool) {
				if call == nil {
					return sv{}, false
				}
				sc := call.Common().StaticCallee()
				if sc == nil || sc.Signature.Recv() == nil || !pointsTo(sc.Signature.Recv().Type(), scannerT) {
					return sv{}, false
				}
				res := sc.Signature.Results()
				// the peek: () → (byte, error)
				if res.Len() == 2 && len(calls) == 0 {
					if bt, ok := res.At(0).Type().Underlying().(*types.Basic); ok && bt.Kind() == types.Uint8 {
						return sv{k: svTuple, tup: []sv{intV(int64(b)), {k: svNil}}}, true
					}
				}
				calls = append(calls, sc.Name())
				var tup []sv
				for k := 0; k < res.Len(); k++ {
					if bt, ok := res.At(k).Type().Underlying().(*types.Basic); ok && bt.Info()&types.IsBoolean != 0 {
						tup = append(tup, boolV(false))
					} else {
						tup = append(tup, sv{k: svNil})
					}
				}
				switch len(tup) {
				case 0:
					return sv{}, true
				case 1:
					return tup[0], true
				}
				return sv{k: svTuple, tup: tup}, true
			}
			fr := &frame{vals: map[ssa.Value]sv{}}
			fr.vals[fn.Params[0]] = sv{k: svAddr, s: "s"}
			back := false
			first := true
			_, _, ret := ev.runBlocks(fr, fn.Blocks[0], nil, func(next, from *ssa.BasicBlock) bool {
				if next == H && !first {
					back = true
					return true
				}
				if next == H {
					first = false
				}
				return false
			})
			switch {
			case back:
				return "loop:" + strings.Join(calls, ","), ""
			case len(ret) == 1 && ret[0].k == svNil:
				return "return:" + strings.Join(calls, ","), ""
			}
			return "?", ev.why
		}
		if H == nil {
			c.undecided("LEX-WHITESPACE", fname, "white-space loop", fn.Pos(), "no loop in SkipWhiteSpace")
		} else {
			ws, _ := classify(' ')
			bad := ""
			var set [256]bool
			for b := 0; b < 256; b++ {
				k, why := classify(b)
				if k == "?" {
					bad = fmt.Sprintf("byte %d: not evaluable (%s)", b, why)
					break
				}
				set[b] = k == ws
			}
			want := setOf(func(b int) bool { return b <= 32 })
			okWS := bad == "" && strings.HasPrefix(ws, "loop:") && ws != "loop:" && set == want
			c.check(okWS, "LEX-WHITESPACE", fname, "bytes skipped between tokens = 0..32", fn.Pos(), setString(set), "the white-space class between tokens is {"+setString(set)+"}, expected 0-32 "+bad)
			pct, _ := classify('%')
			tok, _ := classify('a')
			c.check(strings.HasPrefix(pct, "loop:") && pct != ws && pct != "loop:" && tok == "return:", "LEX-WHITESPACE", fname, "% starts a comment between tokens; anything else starts a token", fn.Pos(), "'%' → "+pct+"; 'a' → "+tok, fmt.Sprintf("between tokens '%%' leads to %s and a regular character to %s", pct, tok))
		}
	}

	// ---- literal strings
	readerEsc := c.readStringTables(info)

	// ---- String.PS ⊆ reader⁻¹
	c.stringWriter(info, readerEsc)

	// ---- Name.PS uses the same classifier
	{
		f := c.method("postscript", "Name", "PS")
		isReg := c.fn("postscript", "isRegular")
		calls := staticCalls(f, isReg)
		okPanic := false
		eachInstr(f, func(ins ssa.Instruction) {
			if _, ok := ins.(*ssa.Panic); ok {
				for _, cd := range domConds(ins.Block()) {
					if call, ok := cd.v.(*ssa.Call); ok && call.Common().StaticCallee() == isReg && !cd.truth {
						okPanic = true
					}
				}
			}
		})
		c.check(len(calls) == 1 && okPanic, "LEX-NAME", c.fname(f), "the name serialiser accepts exactly the regular-character class", f.Pos(), "calls isRegular on every byte, refuses otherwise", "Name.PS no longer checks every byte with the scanner's own isRegular")
	}

	// ---- ASCII85
	c.base85(info)

	// ---- every regular-character token is offered to the number parser
	{
		fd := c.funcDecl("postscript", "scanner", "ScanToken")
		fname := "postscript.(*scanner).ScanToken"
		parse := c.pkg("postscript").Types.Scope().Lookup(c.curFnName("postscript", "parseNumber"))
		var call *ast.CallExpr
		var path []ast.Node
		var stack []ast.Node
		ast.Inspect(fd.Body, func(n ast.Node) bool {
			if n == nil {
				stack = stack[:len(stack)-1]
				return true
			}
			stack = append(stack, n)
			if ce, ok := n.(*ast.CallExpr); ok && call == nil {
				if id, ok := ce.Fun.(*ast.Ident); ok && info.ObjectOf(id) == parse {
					call = ce
					path = append([]ast.Node{}, stack...)
				}
			}
			return true
		})
		if call == nil {
			c.fail("LEX-NUMBER", fname, "tokens are offered to the number parser", fd.Pos(), "ScanToken no longer calls parseNumber")
		} else {
			okAll := true
			why := ""
			for i, n := range path {
				ifs, ok := n.(*ast.IfStmt)
				if !ok || i+1 >= len(path) || path[i+1] != ast.Node(ifs.Body) {
					continue
				}
				v := singleByteVar(info, ifs.Cond)
				if v == nil {
					// conditions on errors etc. are fine if they do not mention bytes
					mentionsByte := false
					for _, id := range identsOf(ifs.Cond) {
						if o, ok := info.ObjectOf(id).(*types.Var); ok {
							if bt, ok := o.Type().Underlying().(*types.Basic); ok && bt.Kind() == types.Uint8 {
								mentionsByte = true
							}
						}
					}
					if mentionsByte {
						okAll, why = false, "the call of parseNumber is guarded by `"+types.ExprString(ifs.Cond)+"`, which the rule cannot evaluate"
					}
					continue
				}
				set, err := byteSet(info, ifs.Cond, v)
				if err != nil {
					okAll, why = false, "guard not evaluable"
					continue
				}
				for _, ch := range "0123456789+-." {
					if !set[ch] {
						okAll, why = false, fmt.Sprintf("tokens starting with %q are not offered to the number parser (guard `%s`), so e.g. signed numbers are read as names", ch, types.ExprString(ifs.Cond))
					}
				}
			}
			c.check(okAll, "LEX-NUMBER", fname, "every token that can start a number (digit, sign, period) reaches the number parser", call.Pos(), "no byte guard excludes a possible first character of a number", why)
		}
	}

	// ---- CR LF counts as one line end in comments
	for _, name := range []string{"readCommentValue", "SkipToEOL"} {
		fd := c.funcDecl("postscript", "scanner", name)
		fname := "postscript.(*scanner)." + name
		found, okCR := false, false
		ast.Inspect(fd.Body, func(n ast.Node) bool {
			ifs, ok := n.(*ast.IfStmt)
			if !ok {
				return true
			}
			v := singleByteVar(info, ifs.Cond)
			if v == nil {
				return true
			}
			set, err := byteSet(info, ifs.Cond, v)
			if err != nil {
				return true
			}
			only13 := true
			for b := 0; b < 256; b++ {
				if set[b] != (b == 13) {
					only13 = false
				}
			}
			if !only13 {
				return true
			}
			found = true
			for _, st := range ifs.Body.List {
				if es, ok := st.(*ast.ExprStmt); ok {
					if ce, ok := es.X.(*ast.CallExpr); ok && len(ce.Args) == 1 {
						if sel, ok := ce.Fun.(*ast.SelectorExpr); ok && sel.Sel.Name == "SkipOptionalByte" {
							if k, ok := constIntOf(info, ce.Args[0]); ok && k == 10 {
								okCR = true
							}
						}
					}
				}
			}
			return true
		})
		c.check(found && okCR, "LEX-EOL", fname, "CR LF is one line end: an LF directly after CR is consumed", fd.Pos(), "case CR: SkipOptionalByte(LF)", "after a CR the following LF is not consumed in "+name+": with CR LF line ends the next line starts with a stray LF (a `%%+` continuation is then not recognised)")
	}

	// ---- DSC comments appended only on success
	c.executeRules(false, true, false)
}

type escTable struct {
	ok  bool
	esc [256]int // reader: byte after backslash -> produced byte; -1 nothing; -2 octal; -3 undecided
	raw [256]int // reader: unescaped byte -> produced byte (or -4 for structural: parens handled by level)
}

func (c *Ctx) readStringTables(info *types.Info) *escTable {
	fd := c.funcDecl("postscript", "scanner", "ReadString")
	fname := "postscript.(*scanner).ReadString"
	t := &escTable{}
	// outer switch on the byte, inner switch inside the backslash case
	var outer, inner *ast.SwitchStmt
	ast.Inspect(fd.Body, func(n ast.Node) bool {
		sw, ok := n.(*ast.SwitchStmt)
		if !ok || sw.Tag == nil {
			return true
		}
		if outer == nil {
			outer = sw
		} else if inner == nil && sw.Pos() > outer.Pos() && sw.End() < outer.End() {
			inner = sw
		}
		return true
	})
	if outer == nil || inner == nil {
		c.fail("LEX-ESCAPES", fname, "escape table", fd.Pos(), "the two-level switch of the literal-string reader was not found")
		return t
	}
	tagObj := func(sw *ast.SwitchStmt) types.Object {
		if id, ok := sw.Tag.(*ast.Ident); ok {
			return info.ObjectOf(id)
		}
		return nil
	}
	ov, iv := tagObj(outer), tagObj(inner)
	if ov == nil || iv == nil {
		c.fail("LEX-ESCAPES", fname, "escape table", fd.Pos(), "switch tags are not plain byte variables")
		return t
	}
	// inner: escapes
	var diffs []string
	for b := 0; b < 256; b++ {
		env := &aenv{info: info, vars: map[types.Object]aval{iv: {i: int64(b)}}}
		var out outcome
		func() {
			defer func() {
				if r := recover(); r != nil {
					if _, ok := r.(evalErr); ok {
						t.esc[b] = -3
						return
					}
					panic(r)
				}
			}()
			env.stmt(inner, true, &out)
			switch {
			case len(out.appends) == 1 && out.appends[0] >= 0:
				t.esc[b] = int(out.appends[0])
			case len(out.appends) == 0:
				t.esc[b] = -1
			default:
				t.esc[b] = -2 // appended something computed (octal)
			}
			// the octal clause contains a loop
			if cl, ok := out.clause.(*ast.CaseClause); ok {
				hasLoop := false
				for _, st := range cl.Body {
					if _, ok := st.(*ast.ForStmt); ok {
						hasLoop = true
					}
				}
				if hasLoop {
					t.esc[b] = -2
				}
			}
		}()
		want := b // default: the character itself
		switch b {
		case 'n':
			want = '\n'
		case 'r':
			want = '\r'
		case 't':
			want = '\t'
		case 'b':
			want = '\b'
		case 'f':
			want = '\f'
		case 10, 13:
			want = -1
		}
		if b >= '0' && b <= '7' {
			want = -2
		}
		if t.esc[b] != want {
			diffs = append(diffs, fmt.Sprintf("\\%q → %d (expected %d)", rune(b), t.esc[b], want))
		}
	}
	c.check(len(diffs) == 0, "LEX-ESCAPES", fname, "escape table = PLRM (\\n \\r \\t \\b \\f \\\\ \\( \\) octal, line continuation, other: the character itself)", inner.Pos(), "256 escape bytes evaluated", "the escape table of literal strings differs from the PLRM: "+joinMax(diffs, 5))
	// octal: at most three digits, digits 0..7, value = oct*8 + digit
	{
		var loop *ast.ForStmt
		ast.Inspect(inner, func(n ast.Node) bool {
			if f, ok := n.(*ast.ForStmt); ok && loop == nil {
				loop = f
			}
			return true
		})
		okOct := false
		why := "no loop for further octal digits"
		if loop != nil {
			why = ""
			if be, ok := loop.Cond.(*ast.BinaryExpr); !ok || be.Op != token.LSS {
				why = "unexpected loop condition"
			} else if k, ok := constIntOf(info, be.Y); !ok || k != 2 {
				why = fmt.Sprintf("the loop admits %d further digits, expected 2 (three digits in all)", k)
			}
			// digit test
			var dig *ast.IfStmt
			var dv types.Object
			for _, st := range loop.Body.List {
				if ifs, ok := st.(*ast.IfStmt); ok {
					if v := singleByteVar(info, ifs.Cond); v != nil && len(ifs.Body.List) == 1 {
						if br, ok := ifs.Body.List[0].(*ast.BranchStmt); ok && br.Tok == token.BREAK {
							dig, dv = ifs, v
						}
					}
				}
			}
			if dig == nil {
				why = "no digit test in the octal loop"
			} else {
				set, err := byteSet(info, dig.Cond, dv)
				want := setOf(func(b int) bool { return b < '0' || b > '7' })
				if err != nil || set != want {
					why = "octal digits are not exactly 0-7"
				}
			}
			// accumulation oct = oct*8 + (b - '0')
			accOK := false
			ast.Inspect(loop, func(n ast.Node) bool {
				if as, ok := n.(*ast.AssignStmt); ok && len(as.Lhs) == 1 && len(as.Rhs) == 1 {
					env := &symEnv{info: info, vars: map[string]string{}}
					env.bind(as.Lhs[0], "oct")
					if dv != nil {
						for _, id := range identsOf(as.Rhs[0]) {
							if info.ObjectOf(id) == dv {
								env.bind(id, "d")
							}
						}
					}
					if env.term(as.Rhs[0]) == "add(mul(8,oct),sub(d,48))" {
						accOK = true
					}
				}
				return true
			})
			if !accOK && why == "" {
				why = "the octal value is not accumulated as oct*8 + (digit - '0')"
			}
			okOct = why == ""
		}
		c.check(okOct, "LEX-ESCAPES", fname, "octal escape: digits 0–7, at most three, value oct*8+digit", inner.Pos(), "loop bound 2, digit class 0-7", "octal escapes: "+why)
	}
	// outer: raw bytes.  Evaluate with ignoreLF=false, bracketLevel=2 (so that ')' does not return)
	var rawDiffs []string
	var levelVar, ignVar types.Object
	ast.Inspect(fd.Body, func(n ast.Node) bool {
		if as, ok := n.(*ast.AssignStmt); ok && as.Tok == token.DEFINE && len(as.Lhs) == 1 {
			if id, ok := as.Lhs[0].(*ast.Ident); ok {
				if v, ok := constIntOf(info, as.Rhs[0]); ok && v == 1 && levelVar == nil {
					if bt, ok := info.TypeOf(id).Underlying().(*types.Basic); ok && bt.Kind() == types.Int {
						levelVar = info.ObjectOf(id)
					}
				}
				if bt, ok := info.TypeOf(id).Underlying().(*types.Basic); ok && bt.Kind() == types.Bool && ignVar == nil {
					ignVar = info.ObjectOf(id)
				}
			}
		}
		return true
	})
	for b := 0; b < 256; b++ {
		if b == '\\' {
			t.raw[b] = -4
			continue
		}
		env := &aenv{info: info, vars: map[types.Object]aval{ov: {i: int64(b)}}}
		if levelVar != nil {
			env.vars[levelVar] = aval{i: 2}
		}
		if ignVar != nil {
			env.vars[ignVar] = aval{isBool: true}
		}
		var out outcome
		func() {
			defer func() {
				if r := recover(); r != nil {
					if _, ok := r.(evalErr); ok {
						t.raw[b] = -3
						return
					}
					panic(r)
				}
			}()
			env.stmt(outer, true, &out)
			if len(out.appends) == 1 {
				t.raw[b] = int(out.appends[0])
			} else {
				t.raw[b] = -1
			}
			lvl := int64(2)
			if levelVar != nil {
				lvl = env.vars[levelVar].i
			}
			wantLvl := int64(2)
			if b == '(' {
				wantLvl = 3
			} else if b == ')' {
				wantLvl = 1
			}
			if lvl != wantLvl {
				rawDiffs = append(rawDiffs, fmt.Sprintf("byte %q changes the nesting level to %d (expected %d)", rune(b), lvl, wantLvl))
			}
			if ignVar != nil {
				ign := env.vars[ignVar].b
				if ign != (b == 13) {
					rawDiffs = append(rawDiffs, fmt.Sprintf("byte %d sets the skip-LF flag to %v", b, ign))
				}
			}
		}()
		want := b
		if b == 13 {
			want = 10
		}
		if t.raw[b] != want {
			rawDiffs = append(rawDiffs, fmt.Sprintf("byte %d → %d (expected %d)", b, t.raw[b], want))
		}
	}
	c.check(len(rawDiffs) == 0, "LEX-RAWBYTES", fname, "unescaped bytes: copied, CR (and CR LF) → LF, parentheses nest", outer.Pos(), "255 byte values evaluated", "unescaped bytes in literal strings: "+joinMax(rawDiffs, 5))
	// the closing parenthesis at level 1 ends the string
	{
		env := &aenv{info: info, vars: map[types.Object]aval{ov: {i: ')'}}}
		if levelVar != nil {
			env.vars[levelVar] = aval{i: 1}
		}
		var out outcome
		left := false
		func() {
			defer func() { recover() }()
			left = env.stmt(outer, true, &out)
		}()
		c.check(left && out.kind == "return", "LEX-RAWBYTES", fname, "the matching ')' ends the string", outer.Pos(), "level 1 + ')' → return", "a ')' at nesting level 1 does not end the string")
	}
	// LF directly after CR is dropped, and the flag is cleared by any other byte
	{
		var loop *ast.ForStmt
		ast.Inspect(fd.Body, func(n ast.Node) bool {
			if f, ok := n.(*ast.ForStmt); ok && loop == nil {
				loop = f
			}
			return true
		})
		okSkip, okReset := false, false
		if loop != nil && ignVar != nil {
			for _, st := range loop.Body.List {
				switch st := st.(type) {
				case *ast.IfStmt:
					// if ignoreLF && b == 10 { continue }
					if len(st.Body.List) == 1 {
						if br, ok := st.Body.List[0].(*ast.BranchStmt); ok && br.Tok == token.CONTINUE {
							ok1 := true
							for _, b := range []int64{9, 10, 13, 65} {
								for _, ig := range []bool{false, true} {
									env := &aenv{info: info, vars: map[types.Object]aval{ov: {i: b}, ignVar: {isBool: true, b: ig}}}
									v, ok := env.tryEval(st.Cond)
									if !ok || v.b != (ig && b == 10) {
										ok1 = false
									}
								}
							}
							okSkip = ok1
						}
					}
				case *ast.AssignStmt:
					if len(st.Lhs) == 1 {
						if id, ok := st.Lhs[0].(*ast.Ident); ok && info.ObjectOf(id) == ignVar {
							if v, ok := constOf(info, st.Rhs[0]); ok && v.String() == "false" {
								okReset = true
							}
						}
					}
				}
			}
		}
		c.check(okSkip && okReset, "LEX-RAWBYTES", fname, "LF directly after CR is dropped; the flag is cleared unconditionally by every other byte", fd.Pos(), "if ignoreLF && b == LF {continue}; ignoreLF = false at the top of the loop body",
			fmt.Sprintf("CR LF normalisation: the skip-LF test (%v) or the unconditional reset of the flag (%v) at the top of the string loop is missing, so a CR can swallow an LF that does not directly follow it", okSkip, okReset))
	}
	t.ok = true
	return t
}

func identsOf(e ast.Expr) []*ast.Ident {
	var out []*ast.Ident
	ast.Inspect(e, func(n ast.Node) bool {
		if id, ok := n.(*ast.Ident); ok {
			out = append(out, id)
		}
		return true
	})
	return out
}

func (c *Ctx) stringWriter(info *types.Info, rt *escTable) {
	fd := c.funcDecl("postscript", "String", "PS")
	fname := "postscript.String.PS"
	if !rt.ok {
		c.fail("LEX-WRITER", fname, "writer ⊆ reader⁻¹", fd.Pos(), "the reader's tables could not be extracted")
		return
	}
	// String.PS is evaluated (on the SSA form, nothing is executed) for every byte in four
	// contexts — alone, inside balanced parentheses, after an unbalanced closing parenthesis,
	// before an unbalanced opening one — and the text it produces is read back with the reader's
	// extracted tables
	fn := c.method("postscript", "String", "PS")
	decode := func(out string) ([]byte, string) {
		if len(out) < 2 || out[0] != '(' || out[len(out)-1] != ')' {
			return nil, "is not enclosed in parentheses"
		}
		body := out[1 : len(out)-1]
		var res []byte
		level := 0
		for i := 0; i < len(body); i++ {
			b := body[i]
			switch {
			case b == '\\':
				if i+1 >= len(body) {
					return nil, "ends in a lone backslash"
				}
				i++
				v := rt.esc[body[i]]
				if v < 0 {
					return nil, fmt.Sprintf("uses the escape \\%c, which the reader does not turn into a byte", body[i])
				}
				res = append(res, byte(v))
			case b == '(':
				level++
				res = append(res, b)
			case b == ')':
				level--
				if level < 0 {
					return nil, "contains a closing parenthesis that ends the string early"
				}
				res = append(res, b)
			default:
				if rt.raw[b] < 0 {
					return nil, fmt.Sprintf("contains the raw byte %d, which the reader does not pass through", b)
				}
				res = append(res, byte(rt.raw[b]))
			}
		}
		if level != 0 {
			return nil, "leaves a parenthesis open, so the reader runs on past the end"
		}
		return res, ""
	}
	var diffs []string
	n := 0
	for b := 0; b < 256; b++ {
		one := string([]byte{byte(b)})
		for _, in := range []string{one, "(" + one + ")", ")" + one, one + "("} {
			n++
			ev := &ssaEval{c: c, bind: map[ssa.Value]sv{}, mem: map[string]sv{}}
			ret := ev.runFunc(fn, []sv{{k: svString, s: in}})
			if len(ret) != 1 || ret[0].k != svString {
				diffs = append(diffs, fmt.Sprintf("String.PS could not be evaluated for %q (%s)", in, ev.why))
				continue
			}
			back, why := decode(ret[0].s)
			if why != "" {
				diffs = append(diffs, fmt.Sprintf("%q is written as %q, which %s", in, ret[0].s, why))
			} else if string(back) != in {
				diffs = append(diffs, fmt.Sprintf("%q is written as %q, which the reader turns into %q", in, ret[0].s, string(back)))
			}
		}
	}
	c.check(len(diffs) == 0, "LEX-WRITER", fname, "every byte is written in a form the string reader maps back to it (alone, in balanced parentheses, next to an unbalanced one)", fd.Pos(), fmt.Sprintf("%d strings evaluated against the reader's escape table", n),
		"String.PS ⊄ ReadString⁻¹: "+joinMax(diffs, 4))
	// balanced parentheses are written raw (the writer does not escape more than it must)
	{
		ev := &ssaEval{c: c, bind: map[ssa.Value]sv{}, mem: map[string]sv{}}
		ret := ev.runFunc(fn, []sv{{k: svString, s: "a(b)c"}})
		c.check(len(ret) == 1 && ret[0].s == "(a(b)c)", "LEX-WRITER", fname, "balance scan counts parentheses as the reader nests them", fd.Pos(), "a(b)c → (a(b)c)", fmt.Sprintf("String.PS writes a(b)c as %v", ret))
	}
}

func (c *Ctx) base85(info *types.Info) {
	fd := c.funcDecl("postscript", "scanner", "ReadBase85String")
	fname := "postscript.(*scanner).ReadBase85String"
	var sw *ast.SwitchStmt
	ast.Inspect(fd.Body, func(n ast.Node) bool {
		if s, ok := n.(*ast.SwitchStmt); ok && s.Tag == nil && sw == nil {
			sw = s
		}
		return true
	})
	if sw == nil {
		c.fail("LEX-A85", fname, "digit classifier", fd.Pos(), "classifier switch not found")
		return
	}
	var bvar, posVar, valVar types.Object
	for _, cc := range sw.Body.List {
		for _, e := range cc.(*ast.CaseClause).List {
			if v := singleByteVar(info, e); v != nil {
				bvar = v
			}
		}
	}
	ast.Inspect(fd.Body, func(n ast.Node) bool {
		if vs, ok := n.(*ast.ValueSpec); ok && len(vs.Names) == 1 {
			if bt, ok := info.TypeOf(vs.Names[0]).Underlying().(*types.Basic); ok {
				switch bt.Kind() {
				case types.Int:
					if posVar == nil {
						posVar = info.Defs[vs.Names[0]]
					}
				case types.Uint32:
					valVar = info.Defs[vs.Names[0]]
				}
			}
		}
		return true
	})
	if bvar == nil || posVar == nil || valVar == nil {
		c.fail("LEX-A85", fname, "digit classifier", sw.Pos(), "byte/position/value variables not identified")
		return
	}
	var diffs []string
	for _, pos := range []int64{0, 1} {
		for b := 0; b < 256; b++ {
			env := &aenv{info: info, vars: map[types.Object]aval{bvar: {i: int64(b)}, posVar: {i: pos}, valVar: {i: 1}}}
			var out outcome
			got := ""
			func() {
				defer func() {
					if r := recover(); r != nil {
						if _, ok := r.(evalErr); ok {
							got = "undecided"
							return
						}
						panic(r)
					}
				}()
				left := env.stmt(sw, true, &out)
				switch {
				case left && out.kind == "break":
					got = "end"
				case left && out.kind == "continue":
					got = "skip"
				case left && out.kind == "return":
					got = "error"
				case len(out.appends) == 4 && env.vars[posVar].i == pos:
					got = "zgroup"
				default:
					if env.vars[posVar].i == pos+1 {
						got = fmt.Sprintf("digit %d", env.vars[valVar].i-85)
					} else {
						got = "other"
					}
				}
			}()
			want := "error"
			switch {
			case b == '~':
				want = "end"
			case b <= 32:
				want = "skip"
			case b == 'z' && pos == 0:
				want = "zgroup"
			case b >= '!' && b <= 'u':
				want = fmt.Sprintf("digit %d", b-'!')
			}
			if got != want {
				diffs = append(diffs, fmt.Sprintf("byte %d at group position %d: %s (expected %s)", b, pos, got, want))
			}
		}
	}
	c.check(len(diffs) == 0, "LEX-A85", fname, "ASCII85: '!'..'u' digits of radix 85, z only at a group start, white space skipped, ~ ends", sw.Pos(), "512 (byte, position) cases evaluated", "ASCII85 classifier: "+joinMax(diffs, 4))
	// padding with 84 and group length 5
	pad := false
	grp := false
	ast.Inspect(fd.Body, func(n ast.Node) bool {
		switch n := n.(type) {
		case *ast.BinaryExpr:
			if n.Op == token.ADD {
				if k, ok := constIntOf(info, n.Y); ok && k == 84 {
					if m, ok := n.X.(*ast.BinaryExpr); ok && m.Op == token.MUL {
						if k2, ok := constIntOf(info, m.Y); ok && k2 == 85 {
							pad = true
						}
					}
				}
			}
			if n.Op == token.EQL {
				if k, ok := constIntOf(info, n.Y); ok && k == 5 {
					if id, ok := n.X.(*ast.Ident); ok && info.ObjectOf(id) == posVar {
						grp = true
					}
				}
			}
		}
		return true
	})
	c.check(pad && grp, "LEX-A85", fname, "groups of five digits; a short final group is padded with digit 84", fd.Pos(), "pos == 5; val*85 + 84", fmt.Sprintf("ASCII85 group handling: group length 5 (%v), padding val*85+84 (%v)", grp, pad))
}
