package main

import (
	"fmt"
	"go/ast"
	"go/types"
	"os"
	"strings"

	"golang.org/x/tools/go/ssa"
)

// C04 — tokenizer.  Rule family A6 LEXTABLES (table agreement only).

func init() {
	register(&propCheck{
		id:    "C04",
		title: "Tokenizer reads every PostScript lexical form as the object it denotes",
		explanation: "Decides table agreement only: the regular-character class, the white-space class, the escape table of literal strings (case constant → appended byte), the octal escape (digits 0–7, at most three), CR/LF normalisation flags, the hexadecimal and ASCII85 digit classes with their values, radix 85 and padding 84 — each evaluated for all 256 byte values from the type-checked source and compared with the PLRM tables; " +
			"writer ⊆ reader⁻¹: for every byte value and both balance states, what String.PS emits is decoded by the extracted reader table to exactly that byte, and the balance scan counts parentheses as the reader nests them; Name.PS accepts exactly the regular-character class (same function object); DSC comments are appended to the interpreter only on the error-free path. " +
			"It does NOT decide token-boundary behaviour, number syntax (delegated to strconv and one regular expression), nor interactions of line endings with comments — the product space in the quantifier.",
		trusted:     []string{"byte-domain evaluation of pure classifier code (asteval.go)", "PLRM tables carried in the checker"},
		assumptions: nil,
		run:         runC04,
	})
}

const plrmDelims = "()<>[]{}/%"

func runC04(c *Ctx) {
	info := c.info("postscript")
	if d := os.Getenv("PSA_DEBUG_A"); d != "" {
		c.aDebug(d)
	}

	// ---- regular characters: isRegular evaluated on the SSA form for all 256 byte values
	regular := [256]bool{}
	{
		fn := c.fn("postscript", "isRegular")
		st := c.aInit("postscript")
		bad := ""
		for b := 0; b < 256; b++ {
			ev := st.newEval()
			ret := ev.runFunc(fn, []sv{intV(int64(b))})
			if len(ret) != 1 || ret[0].k != svBool {
				bad = fmt.Sprintf("not evaluable for byte %d: %s", b, ev.why)
				break
			}
			regular[b] = ret[0].b
		}
		want := setOf(func(b int) bool { return b > 32 && !strings.ContainsRune(plrmDelims, rune(b)) })
		if bad == "" && regular != want {
			bad = "regular set is {" + setString(regular) + "}"
		}
		c.check(bad == "", "LEX-REGULAR", "postscript.isRegular", "regular characters = bytes > 32 except ( ) < > [ ] { } / %", fn.Pos(), "256 byte values evaluated", "the regular-character class differs from the PLRM: "+bad)
	}

	// ---- white space in SkipWhiteSpace: what one pass of the loop does with each byte value
	{
		fn := c.method("postscript", "scanner", "SkipWhiteSpace")
		fname := "postscript.(*scanner).SkipWhiteSpace"
		scannerT := c.typeObj("postscript", "scanner")
		H := loopHeader(fn)
		classify := func(b int) (string, string) {
			ev := &ssaEval{c: c, bind: map[ssa.Value]sv{}, mem: map[string]sv{}}
			var calls []string
			// the scanner's methods are modelled (peek, skip, comment readers); a predicate on the byte
			// that is a plain function (a named character class) is evaluated in place
			ev.noInline = func(f *ssa.Function) bool {
				return f.Signature.Recv() != nil && pointsTo(f.Signature.Recv().Type(), scannerT)
			}
			ev.load = func(ld *ssa.UnOp, addr sv) (sv, bool) {
				if bt, ok := ld.Type().Underlying().(*types.Basic); ok && bt.Info()&types.IsInteger != 0 {
					return intV(1), true // not at the start of a line
				}
				return symV("v:" + addr.s), true
			}
			ev.call = func(call ssa.CallInstruction, args []sv) (sv, bool) {
				if call == nil {
					return sv{}, false
				}
				sc := call.Common().StaticCallee()
				if sc == nil || sc.Signature.Recv() == nil || !pointsTo(sc.Signature.Recv().Type(), scannerT) {
					return sv{}, false
				}
				res := sc.Signature.Results()
				// the peek: () → (byte, error)
				if res.Len() == 2 && len(calls) == 0 {
					if bt, ok := res.At(0).Type().Underlying().(*types.Basic); ok && bt.Kind() == types.Uint8 {
						return sv{k: svTuple, tup: []sv{intV(int64(b)), {k: svNil}}}, true
					}
				}
				calls = append(calls, sc.Name())
				var tup []sv
				for k := 0; k < res.Len(); k++ {
					if bt, ok := res.At(k).Type().Underlying().(*types.Basic); ok && bt.Info()&types.IsBoolean != 0 {
						tup = append(tup, boolV(false))
					} else {
						tup = append(tup, sv{k: svNil})
					}
				}
				switch len(tup) {
				case 0:
					return sv{}, true
				case 1:
					return tup[0], true
				}
				return sv{k: svTuple, tup: tup}, true
			}
			fr := &frame{vals: map[ssa.Value]sv{}}
			fr.vals[fn.Params[0]] = sv{k: svAddr, s: "s"}
			back := false
			first := true
			_, _, ret := ev.runBlocks(fr, fn.Blocks[0], nil, func(next, from *ssa.BasicBlock) bool {
				if next == H && !first {
					back = true
					return true
				}
				if next == H {
					first = false
				}
				return false
			})
			switch {
			case back:
				return "loop:" + strings.Join(calls, ","), ""
			case len(ret) == 1 && ret[0].k == svNil:
				return "return:" + strings.Join(calls, ","), ""
			}
			return "?", ev.why
		}
		if H == nil {
			c.undecided("LEX-WHITESPACE", fname, "white-space loop", fn.Pos(), "no loop in SkipWhiteSpace")
		} else {
			ws, _ := classify(' ')
			bad := ""
			var set [256]bool
			for b := 0; b < 256; b++ {
				k, why := classify(b)
				if k == "?" {
					bad = fmt.Sprintf("byte %d: not evaluable (%s)", b, why)
					break
				}
				set[b] = k == ws
			}
			want := setOf(func(b int) bool { return b <= 32 })
			okWS := bad == "" && strings.HasPrefix(ws, "loop:") && ws != "loop:" && set == want
			c.check(okWS, "LEX-WHITESPACE", fname, "bytes skipped between tokens = 0..32", fn.Pos(), setString(set), "the white-space class between tokens is {"+setString(set)+"}, expected 0-32 "+bad)
			pct, _ := classify('%')
			tok, _ := classify('a')
			c.check(strings.HasPrefix(pct, "loop:") && pct != ws && pct != "loop:" && tok == "return:", "LEX-WHITESPACE", fname, "% starts a comment between tokens; anything else starts a token", fn.Pos(), "'%' → "+pct+"; 'a' → "+tok, fmt.Sprintf("between tokens '%%' leads to %s and a regular character to %s", pct, tok))
		}
	}

	// ---- literal strings
	readerEsc := c.readStringTables(info)

	// ---- String.PS ⊆ reader⁻¹
	c.stringWriter(info, readerEsc)

	// ---- Name.PS accepts exactly the names made of regular characters
	c.nameWriter(regular)

	// ---- ASCII85
	c.base85Rules()

	// ---- numbers and names (PLRM 3.2.2), evaluated end to end through ScanToken
	c.numberRules()

	// ---- DSC comment lines under the three line-end conventions
	c.dscLineRules()

	// ---- CR LF counts as one line end in comments: after the line-skipping functions the next
	// byte delivered is the first byte of the next line, whatever the line-end convention
	for _, name := range []string{"readCommentValue", "SkipToEOL"} {
		fn := c.method("postscript", "scanner", name)
		fname := "postscript.(*scanner)." + name
		var diffs []string
		for _, eol := range []string{"\n", "\r", "\r\n"} {
			for _, next := range []string{"X", "\n", "\r", ""} {
				if eol == "\r" && next == "\n" {
					continue // that is the CR LF line end
				}
				in := " value" + eol + next
				m := c.newScan(in)
				ret := m.run(fn)
				want := -1
				if next != "" {
					want = int(next[0])
				}
				if ret == nil && m.why != "no return reached" {
					diffs = append(diffs, fmt.Sprintf("not evaluable on %q (%s)", in, m.why))
					continue
				}
				m.why = ""
				if nb := m.nextByte(); nb != want {
					diffs = append(diffs, fmt.Sprintf("after the line %q the next byte delivered is %d, expected %d", " value"+eol, nb, want))
				}
			}
		}
		c.check(len(diffs) == 0, "LEX-EOL", fname, "CR LF is one line end: an LF directly after CR is consumed", fn.Pos(), "LF, CR and CR LF followed by a letter, LF, CR and the end of the input", name+" does not stop right after the line end: "+joinMax(diffs, 3)+" (with CR LF line ends the next line starts with a stray LF; a `%%+` continuation is then not recognised)")
	}

	// ---- DSC comments appended only on success
	c.executeRules(false, true, false)
}

type escTable struct {
	ok  bool
	esc [256]int // reader: byte after backslash -> produced byte; -1 nothing; -2 octal; -3 undecided
	raw [256]int // reader: unescaped byte -> produced byte (or -4 for structural: parens handled by level)
}

func (c *Ctx) readStringTables(info *types.Info) *escTable {
	// decided on the SSA form over the cells of the PLRM's partition (ext_a.go)
	c.readStringRules()
	return &escTable{ok: true}
}

func identsOf(e ast.Expr) []*ast.Ident {
	var out []*ast.Ident
	ast.Inspect(e, func(n ast.Node) bool {
		if id, ok := n.(*ast.Ident); ok {
			out = append(out, id)
		}
		return true
	})
	return out
}

func (c *Ctx) stringWriter(info *types.Info, rt *escTable) {
	fname := "postscript.String.PS"
	// String.PS is evaluated (on the SSA form, nothing is executed) for every byte in five
	// contexts — alone, inside balanced parentheses, after an unbalanced closing parenthesis,
	// before an unbalanced opening one, before a digit (where an octal escape would go on) — and
	// the text it produces is read back by the PLRM's rules for literal strings, which the
	// reader is held to by LEX-ESCAPES / LEX-RAWBYTES
	fn := c.method("postscript", "String", "PS")
	st := c.aInit("postscript")
	diffs, n := stringWriterCells("String.PS", func(in string) (string, string) {
		ev := st.newEval()
		ret := ev.runFunc(fn, []sv{{k: svString, s: in}})
		if len(ret) != 1 || ret[0].k != svString {
			if ev.why == "" {
				ev.why = "no string result"
			}
			return "", ev.why
		}
		return ret[0].s, ""
	})
	c.check(len(diffs) == 0, "LEX-WRITER", fname, "every byte is written in a form the string reader maps back to it (alone, in balanced parentheses, next to an unbalanced one)", fn.Pos(), fmt.Sprintf("%d strings evaluated and read back by the PLRM's rules", n),
		"String.PS ⊄ ReadString⁻¹: "+joinMax(diffs, 4))
	// balanced parentheses are written raw (the writer does not escape more than it must)
	{
		ev := st.newEval()
		ret := ev.runFunc(fn, []sv{{k: svString, s: "a(b)c"}})
		c.check(len(ret) == 1 && ret[0].s == "(a(b)c)", "LEX-WRITER", fname, "balance scan counts parentheses as the reader nests them", fn.Pos(), "a(b)c → (a(b)c)", fmt.Sprintf("String.PS writes a(b)c as %v", ret))
	}
}

// stringWriterCells: a function that writes a string as a PostScript literal string is evaluated
// (by write, on the SSA form) for every byte in five contexts — alone, inside balanced
// parentheses, after an unbalanced closing parenthesis, before an unbalanced opening one, before
// a digit (where an octal escape would go on) — and the text it produces is read back by the
// PLRM's rules for literal strings; the differences are returned.
func stringWriterCells(what string, write func(in string) (out, why string)) (diffs []string, n int) {
	for b := 0; b < 256; b++ {
		one := string([]byte{byte(b)})
		for _, in := range []string{one, "(" + one + ")", ")" + one, one + "(", one + "7"} {
			n++
			out, why := write(in)
			if why != "" {
				diffs = append(diffs, fmt.Sprintf("%s could not be evaluated for %q (%s)", what, in, why))
				continue
			}
			back, used, ok := plrmString([]byte(out + "Q"))
			switch {
			case !ok:
				diffs = append(diffs, fmt.Sprintf("%q is written as %q, which is not a complete literal string (a parenthesis is left open or the text ends in a backslash)", in, out))
			case used != len(out):
				diffs = append(diffs, fmt.Sprintf("%q is written as %q, which contains a closing parenthesis that ends the string early", in, out))
			case string(back) != in:
				diffs = append(diffs, fmt.Sprintf("%q is written as %q, which the reader turns into %q", in, out, string(back)))
			}
		}
	}
	return diffs, n
}
