package main

import (
	"fmt"
	"go/ast"
	"go/token"
	"go/types"
	"sort"
	"strings"

	"golang.org/x/tools/go/packages"
	"golang.org/x/tools/go/ssa"
	"golang.org/x/tools/go/ssa/ssautil"
	"golang.org/x/tools/go/types/typeutil"
)

// Sort sites and the totality of the order they sort by (C17 DET-COLLECT), decided on the SSA
// form of the comparison code.
//
// A statement sorts the slice S if it is one of
//
//	sort.Strings/Ints/Float64s(S), slices.Sort(S)            natural order of the elements
//	sort.Slice(S, less), sort.SliceStable(S, less)            less compares positions of S
//	slices.SortFunc(S, f), slices.SortStableFunc(S, f)        f compares two elements (int or bool result)
//	sort.Sort(X), sort.Stable(X)                              X is T(S) or a struct literal holding S,
//	                                                          with methods Len/Less/Swap
//
// whatever the comparison is written as: a function literal, a declared function, or the Less
// method of a type.  The comparison function is evaluated over two symbolic elements for every
// combination of outcomes (<, =, >) of the pairs of terms it compares (the elements themselves
// and keys derived from them, e.g. rank[S[i]] against rank[S[j]]); cmp.Compare, strings.Compare,
// cmp.Less and cmp.Or are interpreted.  The order is total if for two different elements exactly
// one of cmp(a, b), cmp(b, a) says "before", and no element is before itself.

const (
	symI = "‹i›" // first position
	symJ = "‹j›" // second position
	symA = "‹a›" // element at the first position / first element
	symB = "‹b›" // element at the second position / second element
	symS = "‹S›" // the sorted slice
	symR = "‹R›" // the receiver of Len/Less/Swap when it is a struct holding the slice
)

type sortSpec struct {
	kind   string        // "natural" | "less-index" | "less-elem" | "cmp-elem" | "interface"
	fn     *ssa.Function // the comparison (Less for "interface")
	swap   *ssa.Function // "interface": Swap
	length *ssa.Function // "interface": Len
	slice  types.Object  // the variable holding the sorted slice
	field  string        // "interface" over a struct: the field that holds the slice ("" = the receiver is the slice)
	desc   string
}

// ssaIndex maps function literals to their SSA functions.
type ssaIndex struct {
	prog *ssa.Program
	lits map[ast.Node]*ssa.Function
}

func newSSAIndex(prog *ssa.Program, fns []*ssa.Function) *ssaIndex {
	ix := &ssaIndex{prog: prog, lits: map[ast.Node]*ssa.Function{}}
	for _, fn := range fns {
		if n := fn.Syntax(); n != nil {
			ix.lits[n] = fn
		}
	}
	return ix
}

// controlSSA builds the SSA form of a control package (its own small program).
func controlSSA(p *packages.Package) *ssaIndex {
	prog, _ := ssautil.AllPackages([]*packages.Package{p}, ssa.InstantiateGenerics)
	prog.Build()
	var fns []*ssa.Function
	for fn := range ssautil.AllFunctions(prog) {
		if fn.Blocks != nil {
			fns = append(fns, fn)
		}
	}
	return newSSAIndex(prog, fns)
}

// funcOf resolves the expression that denotes a comparison function.
func (d *detAnalyzer) funcOf(e ast.Expr) *ssa.Function {
	if d.ssa == nil {
		return nil
	}
	switch e := unparen(e).(type) {
	case *ast.FuncLit:
		return d.ssa.lits[e]
	case *ast.Ident:
		if f, ok := d.info.ObjectOf(e).(*types.Func); ok {
			return d.ssa.prog.FuncValue(f)
		}
	case *ast.SelectorExpr:
		if f, ok := d.info.ObjectOf(e.Sel).(*types.Func); ok && f.Type().(*types.Signature).Recv() == nil {
			return d.ssa.prog.FuncValue(f)
		}
	}
	return nil
}

// sortOf: does statement st sort the slice held by obj, and by what?  isSort=false: the statement
// is not a sort of that slice.  spec=nil with isSort=true: it is, but the comparison cannot be
// resolved (why).
func (d *detAnalyzer) sortOf(st ast.Stmt, obj types.Object) (spec *sortSpec, isSort bool, why string) {
	es, ok := st.(*ast.ExprStmt)
	if !ok {
		return nil, false, ""
	}
	call, ok := es.X.(*ast.CallExpr)
	if !ok || len(call.Args) == 0 {
		return nil, false, ""
	}
	f, ok := typeutil.Callee(d.info, call).(*types.Func)
	if !ok || f.Pkg() == nil {
		return nil, false, ""
	}
	isObj := func(e ast.Expr) bool {
		id, ok := unparen(e).(*ast.Ident)
		return ok && d.info.ObjectOf(id) == obj
	}
	full := f.Pkg().Path() + "." + f.Name()
	switch full {
	case "slices.Sort", "golang.org/x/exp/slices.Sort", "sort.Strings", "sort.Ints", "sort.Float64s":
		if !isObj(call.Args[0]) {
			return nil, false, ""
		}
		return &sortSpec{kind: "natural", slice: obj, desc: full}, true, ""
	case "sort.Slice", "sort.SliceStable":
		if !isObj(call.Args[0]) || len(call.Args) != 2 {
			return nil, false, ""
		}
		fn := d.funcOf(call.Args[1])
		if fn == nil {
			fn = d.funcArgSSA(call, 1)
		}
		if fn == nil || len(fn.Params) != 2 {
			return nil, true, "the comparison function cannot be resolved"
		}
		return &sortSpec{kind: "less-index", fn: fn, slice: obj, desc: full}, true, ""
	case "slices.SortFunc", "slices.SortStableFunc", "golang.org/x/exp/slices.SortFunc", "golang.org/x/exp/slices.SortStableFunc":
		if !isObj(call.Args[0]) || len(call.Args) != 2 {
			return nil, false, ""
		}
		fn := d.funcOf(call.Args[1])
		if fn == nil {
			fn = d.funcArgSSA(call, 1)
		}
		if fn == nil || len(fn.Params) != 2 || fn.Signature.Results().Len() != 1 {
			return nil, true, "the comparison function cannot be resolved"
		}
		kind := "cmp-elem"
		if bt, ok := fn.Signature.Results().At(0).Type().Underlying().(*types.Basic); ok && bt.Info()&types.IsBoolean != 0 {
			kind = "less-elem"
		}
		return &sortSpec{kind: kind, fn: fn, slice: obj, desc: full}, true, ""
	case "sort.Sort", "sort.Stable":
		x := unparen(call.Args[0])
		field, wraps := "", false
		if conv, ok := x.(*ast.CallExpr); ok && len(conv.Args) == 1 {
			if tv, ok := d.info.Types[conv.Fun]; ok && tv.IsType() && isObj(conv.Args[0]) {
				wraps = true // T(S): the receiver is the slice
			}
		}
		lit := x
		if u, ok := lit.(*ast.UnaryExpr); ok && u.Op == token.AND {
			lit = unparen(u.X)
		}
		if cl, ok := lit.(*ast.CompositeLit); ok && !wraps {
			if stT, ok := d.info.TypeOf(cl).Underlying().(*types.Struct); ok {
				for k, el := range cl.Elts {
					if kv, ok := el.(*ast.KeyValueExpr); ok {
						if id, ok := kv.Key.(*ast.Ident); ok && isObj(kv.Value) {
							field, wraps = id.Name, true
						}
					} else if isObj(el) && k < stT.NumFields() {
						field, wraps = stT.Field(k).Name(), true
					}
				}
			}
		}
		if !wraps {
			return nil, false, ""
		}
		if d.ssa == nil {
			return nil, true, "no SSA form"
		}
		T := d.info.TypeOf(x)
		mset := d.ssa.prog.MethodSets.MethodSet(T)
		get := func(name string) *ssa.Function {
			if sel := mset.Lookup(nil, name); sel != nil {
				return d.ssa.prog.MethodValue(sel)
			}
			return nil
		}
		sp := &sortSpec{kind: "interface", fn: get("Less"), swap: get("Swap"), length: get("Len"), slice: obj, field: field, desc: full + " over " + types.TypeString(T, func(*types.Package) string { return "" })}
		if sp.fn == nil || sp.swap == nil || sp.length == nil || sp.fn.Blocks == nil || sp.swap.Blocks == nil || sp.length.Blocks == nil {
			return nil, true, "the methods Len/Less/Swap of " + T.String() + " cannot be resolved"
		}
		return sp, true, ""
	}
	return nil, false, ""
}

// orderEval evaluates the comparison of sp once, the pairs of compared terms standing in the
// relations rel (key → -1, 0, +1 for first ? second).  A pair that is not in rel is appended to
// *keys and the evaluation reports grew = true.
func (d *detAnalyzer) orderEval(sp *sortSpec, fn *ssa.Function, rel map[string]int, keys *[]string) (res []sv, ev *ssaEval, grew bool) {
	ev = &ssaEval{c: d.c, bind: map[ssa.Value]sv{}, mem: map[string]sv{}}
	canon := func(s string) string {
		if sp.field != "" {
			s = strings.ReplaceAll(s, symR+"."+sp.field, symS)
		}
		s = strings.ReplaceAll(s, symS+"["+symI+"]", symA)
		s = strings.ReplaceAll(s, symS+"["+symJ+"]", symB)
		return s
	}
	relOf := func(x, y sv) (int, bool) {
		if !x.known() || !y.known() {
			return 0, false
		}
		xs, ys := canon(x.String()), canon(y.String())
		if strings.Contains(xs, symI) || strings.Contains(xs, symJ) || strings.Contains(ys, symI) || strings.Contains(ys, symJ) {
			return 0, false // depends on the positions, i.e. on the order the map delivered
		}
		if xs == ys {
			return 0, true
		}
		xa, xb := strings.Contains(xs, symA), strings.Contains(xs, symB)
		ya, yb := strings.Contains(ys, symA), strings.Contains(ys, symB)
		sign := 0
		switch {
		case xa && !xb && yb && !ya:
			sign = 1
		case xb && !xa && ya && !yb:
			sign = -1
		default:
			return 0, false
		}
		key := strings.ReplaceAll(strings.ReplaceAll(xs, symA, "·"), symB, "·")
		if key != strings.ReplaceAll(strings.ReplaceAll(ys, symA, "·"), symB, "·") {
			return 0, false
		}
		r, ok := rel[key]
		if !ok {
			*keys = append(*keys, key)
			rel[key] = 0
			grew = true
		}
		return sign * r, true
	}
	ev.oracle = func(op token.Token, x, y sv) (bool, bool) {
		r, ok := relOf(x, y)
		if !ok {
			return false, false
		}
		switch op {
		case token.LSS:
			return r < 0, true
		case token.GTR:
			return r > 0, true
		case token.LEQ:
			return r <= 0, true
		case token.GEQ:
			return r >= 0, true
		case token.EQL:
			return r == 0, true
		case token.NEQ:
			return r != 0, true
		}
		return false, false
	}
	ev.load = func(ld *ssa.UnOp, addr sv) (sv, bool) {
		switch canon(addr.s) {
		case symA:
			return symV(symA), true
		case symB:
			return symV(symB), true
		case symS:
			return symV(symS), true
		}
		// a field of an element that is a struct
		if ca := canon(addr.s); strings.HasPrefix(ca, symA+".") || strings.HasPrefix(ca, symB+".") {
			return symV(ca), true
		}
		return sv{}, false
	}
	ev.call = func(call ssa.CallInstruction, args []sv) (sv, bool) {
		if call == nil {
			if len(args) == 3 && args[0].s == "lookup" && args[1].known() && args[2].known() {
				v := symV(args[1].String() + "[" + args[2].String() + "]")
				return sv{k: svTuple, tup: []sv{v, symV(v.s + "#ok")}}, true
			}
			return sv{}, false
		}
		switch callName(call) {
		case "cmp.Compare", "strings.Compare":
			if len(args) == 2 {
				if r, ok := relOf(args[0], args[1]); ok {
					return intV(int64(r)), true
				}
			}
			return sv{}, true
		case "cmp.Less":
			if len(args) == 2 {
				if r, ok := relOf(args[0], args[1]); ok {
					return boolV(r < 0), true
				}
			}
			return sv{}, true
		case "cmp.Or":
			if len(args) == 1 {
				if el, ok := ev.elems(args[0]); ok {
					for _, x := range el {
						if x.k != svInt {
							return sv{}, true
						}
						if x.i != 0 {
							return x, true
						}
					}
					return intV(0), true
				}
			}
			return sv{}, true
		}
		if r, ok := d.keyCall(ev, call, args, canon); ok {
			return r, true
		}
		return sv{}, false
	}
	for _, fv := range fn.FreeVars {
		if sp.slice != nil && fv.Pos() == sp.slice.Pos() {
			ev.bind[fv] = sv{k: svAddr, s: "&" + symS}
			ev.mem["&"+symS] = symV(symS)
		} else {
			ev.bind[fv] = sv{k: svAddr, s: "fv:" + fv.Name()}
			d.noteLocalFunc(ev, fn, fv, 0)
		}
	}
	var args []sv
	switch sp.kind {
	case "less-index":
		args = []sv{symV(symI), symV(symJ)}
	case "less-elem", "cmp-elem":
		args = []sv{symV(symA), symV(symB)}
	case "interface":
		recv := symV(symS)
		if sp.field != "" {
			recv = symV(symR)
			if _, isPtr := fn.Params[0].Type().Underlying().(*types.Pointer); isPtr {
				recv = sv{k: svAddr, s: symR}
			}
		}
		args = []sv{recv, symV(symI), symV(symJ)}
	}
	res = ev.runFunc(fn, args)
	return res, ev, grew
}

// noteLocalFunc: a variable captured by the comparison that holds a local function which is
// assigned once (`key := func(x T) K {…}` next to the sort) is that function: a call through the
// variable is a call of it.  The variables that function captures in turn are named like the
// captured variables of the comparison, so the same variable is the same term on both ways.
func (d *detAnalyzer) noteLocalFunc(ev *ssaEval, fn *ssa.Function, fv *ssa.FreeVar, depth int) {
	if _, isSig := fv.Type().(*types.Pointer).Elem().Underlying().(*types.Signature); !isSig || depth > 2 {
		return
	}
	mc, ok := lockBase(&ssa.UnOp{Op: token.MUL, X: fv}).(*ssa.MakeClosure)
	var target *ssa.Function
	if ok {
		target, _ = mc.Fn.(*ssa.Function)
	} else if f, isFn := lockBase(&ssa.UnOp{Op: token.MUL, X: fv}).(*ssa.Function); isFn {
		target = f
	}
	if target == nil {
		return
	}
	cl := closureB{fn: target}
	for _, tfv := range target.FreeVars {
		cl.free = append(cl.free, sv{k: svAddr, s: "fv:" + tfv.Name()})
		d.noteLocalFunc(ev, target, tfv, depth+1)
	}
	ev.ext().closures["*fv:"+fv.Name()] = cl
}

// keyCall: a call inside the comparison of a function of the module (or of a local function
// value) whose arguments involve one of the two elements only computes a *key* of that element.
// The call is evaluated in place; if its own branches depend on more than the table fixes (the
// key function looks its argument up and tests whether it was found, say) and the function has no
// effects, the call is a term `f(element)`: whatever a function without effects computes from one
// element is a value that stays the same during the sort, and the table ranges over the relations
// of the two keys like over those of any other pair of terms.
func (d *detAnalyzer) keyCall(ev *ssaEval, call ssa.CallInstruction, args []sv, canon func(string) string) (sv, bool) {
	x, isCall := call.(*ssa.Call)
	if !isCall || x.Call.IsInvoke() || ev.fr == nil {
		return sv{}, false
	}
	fn, fvals := ev.calleeOf(ev.fr, x)
	if fn == nil || len(fn.Blocks) == 0 || fn.Signature.Results().Len() != 1 {
		return sv{}, false
	}
	if !d.c.inModule(fn) && !(d.control && fn.Pkg != nil && fn.Pkg.Pkg == d.pkg.Types) && !(d.control && fn.Parent() != nil) {
		return sv{}, false
	}
	fval := symV("func:" + fn.String())
	if x.Call.StaticCallee() == nil {
		fval = ev.val(ev.fr, x.Call.Value)
	} else if _, isMC := x.Call.Value.(*ssa.MakeClosure); isMC {
		return sv{}, false
	}
	hasA, hasB := false, false
	for _, a := range args {
		if !a.known() {
			return sv{}, false
		}
		as := canon(a.String())
		if strings.Contains(as, symI) || strings.Contains(as, symJ) {
			return sv{}, false
		}
		hasA = hasA || strings.Contains(as, symA)
		hasB = hasB || strings.Contains(as, symB)
	}
	if hasA == hasB || ev.depth >= 3 {
		return sv{}, false
	}
	// in place
	nEff, steps := len(ev.effects), ev.steps
	sub := &frame{vals: map[ssa.Value]sv{}}
	for i, fv := range fn.FreeVars {
		if i < len(fvals) {
			sub.vals[fv] = fvals[i]
		}
	}
	for i, p := range fn.Params {
		if i < len(args) {
			sub.vals[p] = args[i]
		}
	}
	ev.depth++
	_, _, ret := ev.runBlocks(sub, fn.Blocks[0], nil, nil)
	ev.depth--
	if ev.why == "" && len(ret) == 1 && ret[0].known() {
		return ret[0], true
	}
	if ev.why == "" || ev.why == "panic" {
		return sv{}, false
	}
	// not decidable from the table: a key, if the function has no effects
	pure := false
	if d.control {
		pure = effectFreeBody(fn, 0)
	} else {
		pure = d.c.effects().of(fn).pure()
	}
	if !pure {
		return sv{}, false
	}
	ev.why, ev.effects, ev.steps = "", ev.effects[:nEff], steps
	cargs := []sv{fval}
	for _, a := range args {
		cargs = append(cargs, symV(canon(a.String())))
	}
	return term("key", cargs...), true
}

// effectFreeBody: the function stores nothing but its own locals and calls nothing but
// builtins that only read and functions of the same kind (the control package is outside the
// module, so the effect summaries do not cover it).
func effectFreeBody(fn *ssa.Function, depth int) bool {
	if depth > 3 || len(fn.Blocks) == 0 {
		return false
	}
	ok := true
	eachInstr(fn, func(ins ssa.Instruction) {
		switch x := ins.(type) {
		case *ssa.Store:
			if al, isAl := x.Addr.(*ssa.Alloc); !isAl || al.Parent() != fn {
				ok = false
			}
		case *ssa.MapUpdate, *ssa.Send, *ssa.Go, *ssa.Defer, *ssa.Panic:
			ok = false
		case *ssa.Call:
			if b, isB := x.Call.Value.(*ssa.Builtin); isB {
				switch b.Name() {
				case "len", "cap", "min", "max":
				default:
					ok = false
				}
				return
			}
			callee := x.Call.StaticCallee()
			if callee == nil || !effectFreeBody(callee, depth+1) {
				if callee == nil || extSummary[calleeName(callee)] != "pure" {
					ok = false
				}
			}
		}
	})
	return ok
}

// pureEval: the evaluation performed no store and called nothing with effects.
func (d *detAnalyzer) pureEval(ev *ssaEval) string {
	for _, ef := range ev.effects {
		switch ef.what {
		case "return":
		case "call":
			call, ok := ef.ins.(ssa.CallInstruction)
			if !ok {
				return "a call with unknown effects"
			}
			if _, isB := call.Common().Value.(*ssa.Builtin); isB {
				continue
			}
			callee := call.Common().StaticCallee()
			if callee == nil {
				return "a dynamically dispatched call"
			}
			if d.control || !d.c.effects().of(callee).pure() {
				if s := extSummary[calleeName(callee)]; s == "pure" || (callee.Pkg != nil && purePkgs[callee.Pkg.Pkg.Path()]) {
					continue
				}
				return "a call of " + calleeName(callee) + ", which is not known to be free of effects"
			}
		case "store":
			if !strings.HasPrefix(ef.addr, "cell") { // cellN: a local of the comparison itself
				return "a store to memory outside the comparison"
			}
		default:
			return "a " + ef.what + " inside the comparison"
		}
	}
	return ""
}

// totalOrder decides whether the sort described by sp puts any two different elements into an
// order that does not depend on where they stood before.
func (d *detAnalyzer) totalOrder(sp *sortSpec) (bool, string) {
	// the terms whose relations tell whether two elements are the same: the element itself, or —
	// for a struct of ordered fields — each of its fields
	elemKeys := []string{"·"}
	if st, ok := sp.slice.Type().Underlying().(*types.Slice); ok {
		ordered := func(t types.Type) bool {
			if tp, isParam := t.(*types.TypeParam); isParam {
				// a type parameter: every type of its constraint's type set is ordered (cmp.Ordered, ~string, …)
				return orderedTypeSetX10(tp.Constraint(), 0)
			}
			b, ok := t.Underlying().(*types.Basic)
			return ok && b.Info()&types.IsOrdered != 0
		}
		if stt, isStruct := st.Elem().Underlying().(*types.Struct); isStruct && stt.NumFields() > 0 && sp.kind != "natural" {
			elemKeys = nil
			for k := 0; k < stt.NumFields(); k++ {
				if !ordered(stt.Field(k).Type()) {
					return false, "the elements are structs with a field that is not of an ordered basic type"
				}
				elemKeys = append(elemKeys, "·."+stt.Field(k).Name())
			}
		} else if !ordered(st.Elem()) {
			return false, "element type is not an ordered basic type"
		}
	}
	if sp.kind == "natural" {
		return true, ""
	}
	if sp.kind == "interface" {
		// Swap exchanges the two elements of the sorted slice, Len is its length
		_, ev, _ := d.orderEval(sp, sp.swap, map[string]int{}, new([]string))
		stores := map[string]string{}
		n := 0
		for _, ef := range ev.effects {
			if ef.what == "store" && len(ef.args) == 1 {
				n++
				a := ef.addr
				if sp.field != "" {
					a = strings.ReplaceAll(a, symR+"."+sp.field, symS)
				}
				stores[a] = ef.args[0].String()
			}
		}
		if ev.why != "" || n != 2 || stores[symS+"["+symI+"]"] != symB || stores[symS+"["+symJ+"]"] != symA {
			return false, "Swap does not exchange the two elements of the sorted slice (and nothing else)"
		}
		res, ev, _ := d.orderEval(sp, sp.length, map[string]int{}, new([]string))
		if len(res) != 1 || res[0].String() != "len("+symS+")" {
			return false, "Len is not the length of the sorted slice" + ev.why
		}
	}
	var keys []string
restart:
	for {
		if len(keys) > 4 {
			return false, "comparator too complex to tabulate"
		}
		total := 1
		for range keys {
			total *= 3
		}
		for cell := 0; cell < total; cell++ {
			rel, mir := map[string]int{}, map[string]int{}
			allEq := true
			x := cell
			for _, k := range keys {
				r := x%3 - 1
				x /= 3
				rel[k], mir[k] = r, -r
				if r != 0 {
					allEq = false
				}
			}
			same := true // the two elements are the same value
			for _, ek := range elemKeys {
				if r, ok := rel[ek]; !ok || r != 0 {
					same = false
				}
			}
			if same && !allEq {
				continue // equal elements have equal keys
			}
			ra, eva, g1 := d.orderEval(sp, sp.fn, rel, &keys)
			if g1 {
				continue restart
			}
			rb, evb, g2 := d.orderEval(sp, sp.fn, mir, &keys)
			if g2 {
				continue restart
			}
			if len(ra) != 1 || len(rb) != 1 || !ra[0].isConst() || !rb[0].isConst() {
				why := eva.why
				if why == "" {
					why = evb.why
				}
				if why == "" {
					why = "its result is not determined by comparisons of its two elements"
				}
				return false, "the comparator is not pure comparison code over its two elements (not decidable): " + why
			}
			for _, ev := range []*ssaEval{eva, evb} {
				if w := d.pureEval(ev); w != "" {
					return false, "the comparator is not pure comparison code over its two elements: " + w
				}
			}
			var a, b int // -1: first before second, +1: second before first, 0: neither
			switch sp.kind {
			case "cmp-elem":
				if ra[0].k != svInt || rb[0].k != svInt {
					return false, "the comparison does not yield an integer"
				}
				a, b = cmpInt(ra[0].i, 0), cmpInt(rb[0].i, 0)
			default:
				if ra[0].k != svBool || rb[0].k != svBool {
					return false, "the comparison does not yield a boolean"
				}
				// less(a,b) / less(b,a)
				switch {
				case ra[0].b && rb[0].b:
					return false, fmt.Sprintf("the order is not total: for key relations %v both elements are less than the other", rel)
				case ra[0].b:
					a, b = -1, 1
				case rb[0].b:
					a, b = 1, -1
				}
			}
			if allEq {
				if a != 0 || b != 0 {
					return false, "the comparator calls an element less than itself"
				}
				continue
			}
			if a == 0 || a != -b {
				return false, fmt.Sprintf("the order is not total: for two different elements with key relations %v neither (or both) is less than the other, so their relative order is whatever the map iteration produced", rel)
			}
		}
		break
	}
	for _, ek := range elemKeys {
		hasElem := false
		for _, k := range keys {
			if k == ek {
				hasElem = true
			}
		}
		if !hasElem && ek == "·" {
			return false, "the comparator never compares the elements themselves, so elements with equal keys keep map iteration order"
		}
		if !hasElem {
			return false, "the comparator never compares field " + strings.TrimPrefix(ek, "·.") + " of the elements, so elements that differ in it only keep map iteration order"
		}
	}
	return true, ""
}

// ---- struct values in the evaluator (slices of structs: decorate, sort, undecorate)
//
// A struct value assembled from modelled field cells carries the names (args) and values (tup) of
// its fields.  Stored to an address it fills the field cells of that address; stored into a list
// slot it stays one value (so that exchanging two slots exchanges the structs), and the address
// list:ID:k.f reads / writes field f of the struct in slot k.

func (v sv) structField(name string) (sv, bool) {
	if v.k == svStruct && len(v.args) == len(v.tup) {
		for i, n := range v.args {
			if n.s == name {
				return v.tup[i], true
			}
		}
	}
	return sv{}, false
}

// listSlot parses list:ID:k.f.
func (e *ssaEval) listSlot(addr string) (slots []sv, k int, field string, ok bool) {
	dot := strings.Index(addr, ".")
	if !strings.HasPrefix(addr, "list:") || dot < 0 || strings.Contains(addr[dot+1:], ".") {
		return nil, 0, "", false
	}
	parts := strings.Split(addr[:dot], ":")
	if len(parts) != 3 {
		return nil, 0, "", false
	}
	if _, err := fmt.Sscan(parts[2], &k); err != nil {
		return nil, 0, "", false
	}
	slots = e.lists[parts[1]]
	if k < 0 || k >= len(slots) {
		return nil, 0, "", false
	}
	return slots, k, addr[dot+1:], true
}

func (e *ssaEval) listFieldLoad(addr string) (sv, bool) {
	slots, k, f, ok := e.listSlot(addr)
	if !ok {
		return sv{}, false
	}
	return slots[k].structField(f)
}

func (e *ssaEval) structFieldStore(addr string, v sv) {
	if slots, k, f, ok := e.listSlot(addr); ok {
		old := slots[k]
		st := sv{k: svStruct}
		found := false
		if old.k == svStruct && len(old.args) == len(old.tup) {
			for i, n := range old.args {
				val := old.tup[i]
				if n.s == f {
					val, found = v, true
				}
				st.args, st.tup = append(st.args, n), append(st.tup, val)
			}
		}
		if !found {
			st.args, st.tup = append(st.args, sv{k: svString, s: f}), append(st.tup, v)
		}
		var p []string
		for i, n := range st.args {
			p = append(p, n.s+":"+e.render(st.tup[i]))
		}
		sort.Strings(p)
		st.s = "{" + strings.Join(p, ",") + "}"
		slots[k] = st
		return
	}
	if v.k == svStruct && len(v.args) == len(v.tup) && len(v.tup) > 0 && !strings.HasPrefix(addr, "list:") {
		for i, n := range v.args {
			if v.tup[i].known() {
				e.mem[addr+"."+n.s] = v.tup[i]
			}
		}
	}
}

// ---- the glyph list queries on small concrete models (C19 Q-LISTSOURCE, Q-ORDER, Q-NOTDEF)
//
// GlyphList and NumGlyphs are evaluated (ssaeval.go, nothing of the repository is executed) on a
// handful of glyph sets and encodings, one per cell of the partition the property quantifies over
// (with / without .notdef, no / partial encoding, encoding entries that are .notdef or name
// glyphs the font does not have, a glyph at the last code next to an unencoded one), each with two
// orders in which the glyph map delivers its keys.  The map, the list, the sort and its
// comparison are modelled, so it does not matter how the list is collected (maps.Keys, a range
// loop), how the order is expressed (rank map and comparison, in whatever form) or which sort
// function is called.

type glyphModel struct {
	name     string
	delivery []string // the keys of the glyph map, in the order the map delivers them
	encoding []string
}

// want: .notdef, the encoded glyphs by code, the rest by name.
func (m *glyphModel) want() []string {
	has := map[string]bool{}
	for _, k := range m.delivery {
		has[k] = true
	}
	out := []string{".notdef"}
	done := map[string]bool{".notdef": true}
	for _, n := range m.encoding {
		if has[n] && !done[n] {
			done[n] = true
			out = append(out, n)
		}
	}
	var rest []string
	for _, k := range m.delivery {
		if !done[k] {
			rest = append(rest, k)
		}
	}
	for i := 1; i < len(rest); i++ {
		for j := i; j > 0 && rest[j] < rest[j-1]; j-- {
			rest[j], rest[j-1] = rest[j-1], rest[j]
		}
	}
	return append(out, rest...)
}

func glyphModels() []*glyphModel {
	enc256 := make([]string, 256)
	for i := range enc256 {
		enc256[i] = ".notdef"
	}
	enc256[255] = "y"
	return []*glyphModel{
		{name: "with .notdef, partial encoding naming a missing glyph", delivery: []string{"zz", "b", ".notdef", "a"}, encoding: []string{".notdef", "b", "ghost", ".notdef", "a"}},
		{name: "without .notdef", delivery: []string{"q", "m", "c"}, encoding: []string{"m", ".notdef", "ghost"}},
		{name: "no encoding", delivery: []string{"b", "a"}, encoding: nil},
		{name: "no glyphs", delivery: nil, encoding: []string{".notdef"}},
		{name: "glyph at code 255 and an unencoded glyph", delivery: []string{"x", ".notdef", "y"}, encoding: enc256},
	}
}

type modelMap struct {
	keys []string
	vals map[string]sv
	ksv  map[string]sv
}

type modelRun struct {
	c     *Ctx
	ev    *ssaEval
	m     *glyphModel
	maps  map[string]*modelMap
	nseen int
	iter  map[string]int
	enc   sv
	encOK bool
}

func (r *modelRun) sync() {
	for ; r.nseen < len(r.ev.effects); r.nseen++ {
		ef := r.ev.effects[r.nseen]
		if ef.what != "mapupdate" || len(ef.args) != 2 {
			continue
		}
		mm := r.maps[ef.addr]
		if mm == nil {
			mm = &modelMap{vals: map[string]sv{}, ksv: map[string]sv{}}
			r.maps[ef.addr] = mm
		}
		k := ef.args[0].String()
		if _, ok := mm.vals[k]; !ok {
			mm.keys = append(mm.keys, k)
		}
		mm.vals[k] = ef.args[1]
		mm.ksv[k] = ef.args[0]
	}
}

func (r *modelRun) mapOf(v sv) *modelMap {
	r.sync()
	if v.k != svSym || !strings.HasPrefix(v.s, "fresh") {
		return nil
	}
	if mm := r.maps[v.s]; mm != nil {
		return mm
	}
	return &modelMap{vals: map[string]sv{}, ksv: map[string]sv{}}
}

func zeroOf(t types.Type) sv {
	if bt, ok := t.Underlying().(*types.Basic); ok {
		switch {
		case bt.Info()&types.IsBoolean != 0:
			return boolV(false)
		case bt.Info()&types.IsInteger != 0:
			return intV(0)
		case bt.Info()&types.IsFloat != 0:
			return sv{k: svFloat}
		case bt.Info()&types.IsString != 0:
			return sv{k: svString}
		}
	}
	return sv{k: svNil}
}

func strV(s string) sv { return sv{k: svString, s: s} }

// cmpConst compares two constants of the same kind.
func cmpConst(a, b sv) (int, bool) {
	if a.k != b.k {
		return 0, false
	}
	switch a.k {
	case svInt:
		return cmpInt(a.i, b.i), true
	case svString:
		return strings.Compare(a.s, b.s), true
	case svFloat:
		switch {
		case a.f < b.f:
			return -1, true
		case a.f > b.f:
			return 1, true
		}
		return 0, true
	}
	return 0, false
}

// callFn evaluates a function-valued argument (a closure made in frame fr, or a function) on args.
func (e *ssaEval) callFn(fv ssa.Value, fr *frame, args []sv) []sv {
	var fn *ssa.Function
	sub := &frame{vals: map[ssa.Value]sv{}}
	switch x := fv.(type) {
	case *ssa.MakeClosure:
		fn = x.Fn.(*ssa.Function)
		for i, v := range fn.FreeVars {
			if i < len(x.Bindings) {
				sub.vals[v] = e.val(fr, x.Bindings[i])
			}
		}
	case *ssa.Function:
		fn = x
	}
	if fn == nil || fn.Blocks == nil || e.depth > 6 {
		return nil
	}
	for i, p := range fn.Params {
		if i < len(args) {
			sub.vals[p] = args[i]
		}
	}
	e.depth++
	_, _, ret := e.runBlocks(sub, fn.Blocks[0], nil, nil)
	e.depth--
	return ret
}

// sortModel sorts n positions by insertion sort with the given comparison and exchange.
func sortModel(n int, less func(i, j int) (bool, bool), swap func(i, j int) bool) bool {
	for i := 1; i < n; i++ {
		for j := i; j > 0; j-- {
			l, ok := less(j, j-1)
			if !ok {
				return false
			}
			if !l {
				break
			}
			if !swap(j, j-1) {
				return false
			}
		}
	}
	return true
}

func (r *modelRun) hooks() {
	ev := r.ev
	glyphVal := func(name string) sv { return sv{k: svAddr, s: "glyph:" + name} }
	hasGlyph := func(name string) bool {
		for _, k := range r.m.delivery {
			if k == name {
				return true
			}
		}
		return false
	}
	ev.load = func(ld *ssa.UnOp, addr sv) (sv, bool) {
		switch {
		case strings.HasSuffix(addr.s, ".Glyphs"):
			return symV("GLYPHS"), true
		case strings.HasSuffix(addr.s, ".Encoding"):
			if !r.encOK {
				var el []sv
				for _, n := range r.m.encoding {
					el = append(el, strV(n))
				}
				r.enc, r.encOK = ev.newList(el), true
			}
			return r.enc, true
		}
		return sv{}, false
	}
	ev.lookup = func(x *ssa.Lookup, m, k sv) (sv, bool) {
		var val sv
		found := false
		switch {
		case m.k == svSym && m.s == "GLYPHS":
			if k.k != svString {
				return sv{}, true
			}
			if found = hasGlyph(k.s); found {
				val = glyphVal(k.s)
			} else {
				val = sv{k: svNil}
			}
		default:
			mm := r.mapOf(m)
			if mm == nil || !k.isConst() {
				return sv{}, false
			}
			if val, found = mm.vals[k.String()]; !found {
				val = zeroOf(x.X.Type().Underlying().(*types.Map).Elem())
			}
		}
		if x.CommaOk {
			return sv{k: svTuple, tup: []sv{val, boolV(found)}}, true
		}
		return val, true
	}
	listOfKeys := func(m sv) (sv, bool) {
		if m.k == svSym && m.s == "GLYPHS" {
			var el []sv
			for _, k := range r.m.delivery {
				el = append(el, strV(k))
			}
			return ev.newList(el), true
		}
		if mm := r.mapOf(m); mm != nil {
			var el []sv
			for i := len(mm.keys) - 1; i >= 0; i-- { // some order; not the order of insertion
				el = append(el, mm.ksv[mm.keys[i]])
			}
			return ev.newList(el), true
		}
		return sv{}, false
	}
	natural := func(l sv) bool {
		if l.k != svList {
			return l.k == svNil
		}
		st := ev.lists[l.s]
		return sortModel(int(l.n), func(i, j int) (bool, bool) {
			c, ok := cmpConst(st[l.i+int64(i)], st[l.i+int64(j)])
			return c < 0, ok
		}, func(i, j int) bool {
			st[l.i+int64(i)], st[l.i+int64(j)] = st[l.i+int64(j)], st[l.i+int64(i)]
			return true
		})
	}
	ev.call = func(call ssa.CallInstruction, args []sv) (sv, bool) {
		fr := ev.fr
		if call == nil {
			if len(args) == 2 && args[0].s == "next" {
				it := args[1].s
				var keys []sv
				var vals []sv
				switch {
				case it == "range(GLYPHS)":
					for _, k := range r.m.delivery {
						keys, vals = append(keys, strV(k)), append(vals, glyphVal(k))
					}
				case strings.HasPrefix(it, "range(fresh"):
					mm := r.mapOf(symV(strings.TrimSuffix(strings.TrimPrefix(it, "range("), ")")))
					for _, k := range mm.keys {
						keys, vals = append(keys, mm.ksv[k]), append(vals, mm.vals[k])
					}
				default:
					return sv{}, false
				}
				p := r.iter[it]
				if p >= len(keys) {
					r.iter[it] = 0
					return sv{k: svTuple, tup: []sv{boolV(false), sv{k: svNil}, sv{k: svNil}}}, true
				}
				r.iter[it] = p + 1
				return sv{k: svTuple, tup: []sv{boolV(true), keys[p], vals[p]}}, true
			}
			return sv{}, false
		}
		name := callName(call)
		cargs := call.Common().Args
		switch name {
		case "builtin append":
			// append to a slice of a local array (a literal): the evaluator knows lists only
			if len(args) == 2 && args[0].k != svList && args[0].k != svNil {
				if a, ok := ev.elems(args[0]); ok {
					if b, ok := ev.elems(args[1]); ok {
						return ev.newList(append(append([]sv{}, a...), b...)), true
					}
				}
			}
			return sv{}, false
		case "slices.Contains", "slices.Index", "golang.org/x/exp/slices.Contains", "golang.org/x/exp/slices.Index":
			if len(args) == 2 && args[1].isConst() {
				if el, ok := ev.elems(args[0]); ok {
					at := -1
					for i, x := range el {
						if !x.isConst() {
							return sv{}, true
						}
						if at < 0 && x.k == args[1].k && x.String() == args[1].String() {
							at = i
						}
					}
					if strings.HasSuffix(name, "Contains") {
						return boolV(at >= 0), true
					}
					return intV(int64(at)), true
				}
			}
			return sv{}, true
		case "builtin len":
			if len(args) == 1 && args[0].k == svSym {
				if args[0].s == "GLYPHS" {
					return intV(int64(len(r.m.delivery))), true
				}
				if mm := r.mapOf(args[0]); mm != nil {
					return intV(int64(len(mm.keys))), true
				}
			}
			return sv{}, false
		case "golang.org/x/exp/maps.Keys":
			if len(args) == 1 {
				if l, ok := listOfKeys(args[0]); ok {
					return l, true
				}
			}
			return sv{}, true
		case "maps.Keys":
			if len(args) == 1 && args[0].k == svSym {
				return symV("seq:keys:" + args[0].s), true
			}
			return sv{}, true
		case "slices.Collect", "slices.Sorted":
			if len(args) == 1 && strings.HasPrefix(args[0].s, "seq:keys:") {
				if l, ok := listOfKeys(symV(strings.TrimPrefix(args[0].s, "seq:keys:"))); ok {
					if name == "slices.Sorted" && !natural(l) {
						return sv{}, true
					}
					return l, true
				}
			}
			return sv{}, true
		case "slices.Sort", "golang.org/x/exp/slices.Sort", "sort.Strings", "sort.Ints":
			if len(args) == 1 && natural(args[0]) {
				return sv{k: svNil}, true
			}
			ev.why = "a sort of values the model does not know"
			return sv{}, true
		case "cmp.Compare", "strings.Compare":
			if len(args) == 2 {
				if c, ok := cmpConst(args[0], args[1]); ok {
					return intV(int64(c)), true
				}
			}
			return sv{}, true
		case "cmp.Less":
			if len(args) == 2 {
				if c, ok := cmpConst(args[0], args[1]); ok {
					return boolV(c < 0), true
				}
			}
			return sv{}, true
		case "cmp.Or":
			if len(args) == 1 {
				if el, ok := ev.elems(args[0]); ok {
					for _, x := range el {
						if x.k != svInt {
							return sv{}, true
						}
						if x.i != 0 {
							return x, true
						}
					}
					return intV(0), true
				}
			}
			return sv{}, true
		case "sort.Slice", "sort.SliceStable":
			l := args[0]
			if l.k == svNil {
				return sv{k: svNil}, true
			}
			if l.k != svList || len(cargs) != 2 {
				ev.why = "a sort of a slice the model does not know"
				return sv{}, true
			}
			ok := sortModel(int(l.n), func(i, j int) (bool, bool) {
				ret := ev.callFn(cargs[1], fr, []sv{intV(int64(i)), intV(int64(j))})
				if len(ret) != 1 || ret[0].k != svBool {
					return false, false
				}
				return ret[0].b, true
			}, func(i, j int) bool {
				st := ev.lists[l.s]
				st[l.i+int64(i)], st[l.i+int64(j)] = st[l.i+int64(j)], st[l.i+int64(i)]
				return true
			})
			if !ok && ev.why == "" {
				ev.why = "the comparison function of the sort could not be evaluated"
			}
			return sv{k: svNil}, true
		case "slices.SortFunc", "slices.SortStableFunc", "golang.org/x/exp/slices.SortFunc", "golang.org/x/exp/slices.SortStableFunc":
			l := args[0]
			if l.k == svNil {
				return sv{k: svNil}, true
			}
			if l.k != svList || len(cargs) != 2 {
				ev.why = "a sort of a slice the model does not know"
				return sv{}, true
			}
			ok := sortModel(int(l.n), func(i, j int) (bool, bool) {
				st := ev.lists[l.s]
				ret := ev.callFn(cargs[1], fr, []sv{st[l.i+int64(i)], st[l.i+int64(j)]})
				if len(ret) != 1 {
					return false, false
				}
				switch ret[0].k {
				case svBool:
					return ret[0].b, true
				case svInt:
					return ret[0].i < 0, true
				}
				return false, false
			}, func(i, j int) bool {
				st := ev.lists[l.s]
				st[l.i+int64(i)], st[l.i+int64(j)] = st[l.i+int64(j)], st[l.i+int64(i)]
				return true
			})
			if !ok && ev.why == "" {
				ev.why = "the comparison function of the sort could not be evaluated"
			}
			return sv{k: svNil}, true
		case "sort.Sort", "sort.Stable":
			mi, isMI := cargs[0].(*ssa.MakeInterface)
			if !isMI {
				ev.why = "sort.Sort of a value whose type is not known here"
				return sv{}, true
			}
			mset := r.c.prog.MethodSets.MethodSet(mi.X.Type())
			get := func(n string) *ssa.Function {
				if sel := mset.Lookup(nil, n); sel != nil {
					return r.c.prog.MethodValue(sel)
				}
				return nil
			}
			fLen, fLess, fSwap := get("Len"), get("Less"), get("Swap")
			if fLen == nil || fLess == nil || fSwap == nil {
				ev.why = "Len/Less/Swap not found"
				return sv{}, true
			}
			recv := args[0]
			n := ev.callFn(fLen, fr, []sv{recv})
			if len(n) != 1 || n[0].k != svInt {
				ev.why = "Len could not be evaluated on the model"
				return sv{}, true
			}
			ok := sortModel(int(n[0].i), func(i, j int) (bool, bool) {
				ret := ev.callFn(fLess, fr, []sv{recv, intV(int64(i)), intV(int64(j))})
				if len(ret) != 1 || ret[0].k != svBool {
					return false, false
				}
				return ret[0].b, true
			}, func(i, j int) bool {
				ev.callFn(fSwap, fr, []sv{recv, intV(int64(i)), intV(int64(j))})
				return ev.why == ""
			})
			if !ok && ev.why == "" {
				ev.why = "Less could not be evaluated on the model"
			}
			return sv{k: svNil}, true
		}
		return sv{}, false
	}
}

// runModel evaluates query method fn on model m and returns its results.
func (c *Ctx) runModel(fn *ssa.Function, m *glyphModel) ([]sv, *ssaEval) {
	ev := &ssaEval{c: c, bind: map[ssa.Value]sv{}, mem: map[string]sv{}, makeLists: true}
	r := &modelRun{c: c, ev: ev, m: m, maps: map[string]*modelMap{}, iter: map[string]int{}}
	r.hooks()
	// a glyph found in the map is not nil
	ev.oracle = func(op token.Token, x, y sv) (bool, bool) {
		if (x.k == svNil && y.k == svAddr) || (x.k == svAddr && y.k == svNil) {
			switch op {
			case token.EQL:
				return false, true
			case token.NEQ:
				return true, true
			}
		}
		return false, false
	}
	var args []sv
	for i := range fn.Params {
		args = append(args, sv{k: svAddr, s: fmt.Sprintf("param%d", i)})
	}
	return ev.runFunc(fn, args), ev
}

// glyphListModels decides Q-NOTDEF, Q-LISTSOURCE and Q-ORDER for one type.
func (c *Ctx) glyphListModels(pkg, typ string) {
	num := c.method(pkg, typ, "NumGlyphs")
	gl := c.method(pkg, typ, "GlyphList")
	name := pkg + ".(*" + typ + ")"
	var undecided, source, order, count, first []string
	nrun := 0
	for _, m0 := range glyphModels() {
		rev := &glyphModel{name: m0.name + " (keys delivered in the opposite order)", encoding: m0.encoding}
		for i := len(m0.delivery) - 1; i >= 0; i-- {
			rev.delivery = append(rev.delivery, m0.delivery[i])
		}
		for _, m := range []*glyphModel{m0, rev} {
			nrun++
			res, ev := c.runModel(gl, m)
			var list []string
			ok := len(res) == 1
			if ok {
				el, isList := ev.elems(res[0])
				ok = isList
				for _, x := range el {
					if x.k != svString {
						ok = false
						break
					}
					list = append(list, x.s)
				}
			}
			if !ok {
				undecided = append(undecided, fmt.Sprintf("GlyphList could not be evaluated for a font %s: %s", m.name, ev.why))
				continue
			}
			want := m.want()
			// source: exactly the keys of the glyph map plus .notdef, each once
			seen := map[string]int{}
			for _, n := range list {
				seen[n]++
			}
			for _, n := range want {
				if seen[n] != 1 {
					source = append(source, fmt.Sprintf("font %s (glyphs %q, encoding %q): %q occurs %d times in the list %q", m.name, m.delivery, short(m.encoding), n, seen[n], list))
				}
				delete(seen, n)
			}
			for n := range seen {
				source = append(source, fmt.Sprintf("font %s (glyphs %q, encoding %q): the list %q contains %q, which is not a glyph of the font", m.name, m.delivery, short(m.encoding), list, n))
			}
			if len(list) == 0 || list[0] != ".notdef" {
				first = append(first, fmt.Sprintf("font %s: the list %q does not start with .notdef", m.name, list))
			}
			if strings.Join(list, "\x00") != strings.Join(want, "\x00") {
				order = append(order, fmt.Sprintf("font %s (glyphs delivered as %q, encoding %q): the list is %q, expected %q", m.name, m.delivery, short(m.encoding), list, want))
			}
			nres, nev := c.runModel(num, m)
			if len(nres) != 1 || nres[0].k != svInt {
				undecided = append(undecided, fmt.Sprintf("NumGlyphs could not be evaluated for a font %s: %s", m.name, nev.why))
				continue
			}
			if nres[0].i != int64(len(list)) || nres[0].i != int64(len(want)) {
				count = append(count, fmt.Sprintf("font %s (glyphs %q): NumGlyphs is %d, the list %q has %d names, the font has %d glyphs including .notdef", m.name, m.delivery, nres[0].i, list, len(list), len(want)))
			}
		}
	}
	sortStrings := func(l []string) []string { sort.Strings(l); return dedup(l) }
	tactic := fmt.Sprintf("evaluated on %d model fonts", nrun)
	c.check(len(undecided)+len(count) == 0, "Q-NOTDEF", name, "NumGlyphs counts .notdef exactly when GlyphList lists it (same test)", gl.Pos(), tactic,
		"the length of the glyph list and the reported glyph count differ: "+joinMax(sortStrings(append(undecided, count...)), 2))
	c.check(len(undecided)+len(first) == 0, "Q-NOTDEF", name, "the count includes .notdef", num.Pos(), tactic,
		"the implicit .notdef glyph is not listed first / counted: "+joinMax(sortStrings(append(undecided, first...)), 2))
	c.check(len(undecided)+len(source) == 0, "Q-LISTSOURCE", name, "the list holds the keys of the glyph map (plus .notdef) and nothing else", gl.Pos(), tactic,
		"GlyphList does not return exactly the keys of the glyph map plus .notdef, each once: "+joinMax(sortStrings(append(undecided, source...)), 2))
	c.check(len(undecided)+len(order) == 0, "Q-ORDER", name, "order key: −1 for .notdef, the code for encoded glyphs (.notdef entries skipped), 256 otherwise", gl.Pos(), tactic,
		"the list is not .notdef, then the encoded glyphs by code, then the others by name: "+joinMax(sortStrings(append(undecided, order...)), 2))
}

func short(l []string) []string {
	if len(l) > 8 {
		return append(append([]string{}, l[:3]...), "…", l[len(l)-1])
	}
	return l
}
