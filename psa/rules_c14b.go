package main

import (
	"fmt"
	"go/token"
	"go/types"
	"regexp"
	"sort"
	"strings"

	"golang.org/x/tools/go/ssa"
)

// C14 — header validation, segment length, state coverage and the size of text reads, decided
// by decision tables over one symbolic iteration of the decoder's main loop (ssaeval.go).
// Helper functions are evaluated in place, field and variable names play no part.

var cellIndex = regexp.MustCompile(`^cell\d+\[(\d+)\]$`)

type pfbIter struct {
	ev      *ssaEval
	back    bool
	ret     []sv
	why     string
	effects []ssaEffect
}

// pfbIteration evaluates one iteration of the main loop of pfbReader.Read in the given state.
// hdr supplies the header bytes (nil entries are symbols b<k>); cmp decides the comparison
// between the room in the caller's buffer and the remaining segment length (-1, 0, +1, or 2 for
// "not fixed").
func (c *Ctx) pfbIteration(fn *ssa.Function, H *ssa.BasicBlock, state int64, hdr map[int]int64, cmp int) pfbIter {
	return c.pfbIterationLen(fn, H, state, hdr, cmp, 0)
}

// pfbIterationLen: as pfbIteration; lenZero fixes the cell "the segment length decoded in this
// iteration is zero" (+1), "is not zero" (-1) or leaves it open (0).
func (c *Ctx) pfbIterationLen(fn *ssa.Function, H *ssa.BasicBlock, state int64, hdr map[int]int64, cmp int, lenZero int) pfbIter {
	return c.pfbIterationOpt(fn, H, state, hdr, cmp, pfbOpt{lenZero: lenZero, hdrK: -1})
}

// pfbOpt: further cells of the table.  readErr: the read of a data state fails with the error
// of that name (EOF, ErrUnexpectedEOF, or `readerr` for any other error); hdrK/hdrErr: the header read delivers hdrK bytes and the error named hdrErr
// (hdrK < 0: a full header, no error).
type pfbOpt struct {
	lenZero int
	readErr string
	hdrK    int
	hdrErr  string
	// ctl: the control state the iteration starts in (ext_g_pfb.go); nil: the state that plays
	// the role given by the state argument (0 header, 1..3 segment states).  isHdr: ctl is the
	// header state (whatever is read is a header).
	ctl   pfbCtl
	isHdr bool
}

func isErrSym(v sv) bool {
	return v.k == svSym && (strings.HasPrefix(v.s, "Err") || v.s == "EOF" || v.s == "readerr")
}

func (c *Ctx) pfbIterationOpt(fn *ssa.Function, H *ssa.BasicBlock, state int64, hdr map[int]int64, cmp int, opt pfbOpt) pfbIter {
	lenZero := opt.lenZero
	lenF, tailF, srcF := c.fld("pfb.len"), c.fld("pfb.tail"), c.fld("pfb.r")
	ctl, isHdrState := opt.ctl, opt.isHdr
	if ctl == nil {
		ctl, isHdrState = c.pfbRoles(fn, H).role(state), state == 0
		if ctl == nil {
			return pfbIter{why: fmt.Sprintf("the state after a header of type %d could not be determined", state)}
		}
	}
	ev := &ssaEval{c: c, bind: map[ssa.Value]sv{}, mem: map[string]sv{}}
	hdrBase := "" // address of the buffer the header was read into
	ev.load = func(ld *ssa.UnOp, addr sv) (sv, bool) {
		a := addr.s
		if strings.HasPrefix(a, "r.") {
			if v, ok := ctl[a[2:]]; ok {
				return v, true
			}
		}
		if v, ok := ev.fixedTableLoad(ld, addr); ok { // dispatch through a table of step functions
			return v, true
		}
		switch {
		case pfbFieldG(a, lenF):
			return symV("rem"), true
		case pfbFieldG(a, tailF):
			return symV("tail"), true
		case pfbFieldG(a, srcF):
			return symV("src"), true
		case strings.HasPrefix(a, "global:"):
			i := strings.LastIndex(a, ".")
			return symV(a[i+1:]), true
		}
		m := cellIndex.FindStringSubmatch(a)
		if m == nil && hdrBase != "" && strings.HasPrefix(a, hdrBase+"[") && strings.HasSuffix(a, "]") {
			// the header buffer is whatever was handed to the header read
			if _, err := fmt.Sscan(a[len(hdrBase)+1:len(a)-1], new(int)); err == nil {
				m = []string{a, a[len(hdrBase)+1 : len(a)-1]}
			}
		}
		if m != nil {
			var k int
			fmt.Sscan(m[1], &k)
			if v, ok := hdr[k]; ok {
				return intV(v), true
			}
			return symV(fmt.Sprintf("b%d", k)), true
		}
		return sv{}, false
	}
	hdrByte := func(k int) sv {
		if v, ok := hdr[k]; ok {
			return intV(v)
		}
		return symV(fmt.Sprintf("b%d", k))
	}
	// the length decoded from the header in this iteration (the last value stored in the length cell)
	decodedLen := func() (sv, bool) {
		for i := len(ev.effects) - 1; i >= 0; i-- {
			if ef := ev.effects[i]; ef.what == "store" && pfbFieldG(ef.addr, lenF) {
				return ef.args[0], true
			}
		}
		return sv{}, false
	}
	ev.oracle = func(op token.Token, x, y sv) (bool, bool) {
		xs, ys := x.String(), y.String()
		// the decoded length (an unsigned 32-bit quantity) against a constant, in the cell fixed
		// by lenZero
		if lenZero != 0 {
			if l, ok := decodedLen(); ok && l.k == svSym {
				lx, ky, o := x, y, op
				if ys == l.String() {
					lx, ky, o = y, x, flipCmp(op)
				}
				if lx.String() == l.String() && ky.k == svInt {
					if lenZero > 0 {
						return cmpHolds(o, cmpInt(0, ky.i)), true
					}
					if ky.i <= 0 { // l >= 1
						return cmpHolds(o, 1), true
					}
					if ky.i == 1 && (o == token.GEQ || o == token.LSS) {
						return o == token.GEQ, true
					}
				}
			}
		}
		// room in the caller's buffer: len(b) > 0 holds inside the loop
		if xs == "len(b)" && y.k == svInt && y.i == 0 {
			switch op {
			case token.GTR, token.NEQ:
				return true, true
			case token.EQL, token.LEQ:
				return false, true
			}
		}
		// requested size against remaining length
		if cmp != 2 {
			r := cmp
			switch {
			case strings.Contains(xs, "len(b)") && ys == "rem":
			case xs == "rem" && strings.Contains(ys, "len(b)"):
				r = -r
			default:
				goto other
			}
			switch op {
			case token.LSS:
				return r < 0, true
			case token.LEQ:
				return r <= 0, true
			case token.GTR:
				return r > 0, true
			case token.GEQ:
				return r >= 0, true
			case token.EQL:
				return r == 0, true
			case token.NEQ:
				return r != 0, true
			}
		}
	other:
		// an error symbol against nil, two error symbols against each other (sentinels are
		// distinct values; `readerr` stands for an error that is none of the sentinels)
		if isErrSym(x) && y.k == svNil || isErrSym(y) && x.k == svNil {
			if op == token.EQL || op == token.NEQ {
				return op == token.NEQ, true
			}
		}
		if isErrSym(x) && isErrSym(y) && (op == token.EQL || op == token.NEQ) {
			return (x.s == y.s) == (op == token.EQL), true
		}
		// error values against nil: reads succeed
		if y.k == svNil && x.k == svNil {
			return op == token.EQL, true
		}
		// nil (the read succeeded) against a sentinel error
		if (x.k == svNil && strings.HasPrefix(ys, "Err")) || (y.k == svNil && strings.HasPrefix(xs, "Err")) {
			return op == token.NEQ, true
		}
		return false, false
	}
	ev.call = func(call ssa.CallInstruction, args []sv) (sv, bool) {
		n := callName(call)
		if little, size, ok := byteOrderRead(n); ok && len(args) == 2 {
			// encoding/binary on a slice of the header array: the same term as the hand-written
			// shifts and ors (bytes widen without sign, the result is unsigned)
			a := args[1]
			if a.k == svList && a.n >= int64(size) {
				if el, ok := ev.elems(a); ok {
					var parts []sv
					for i := 0; i < size; i++ {
						sh := int64(8 * i)
						if !little {
							sh = int64(8 * (size - 1 - i))
						}
						if sh == 0 {
							parts = append(parts, el[i])
						} else {
							parts = append(parts, term("<<", el[i], intV(sh)))
						}
					}
					return term("|", parts...), true
				}
			}
			if a.op == "slice" && len(a.args) == 3 && a.args[0].k == svAddr && (hdrBase == a.args[0].s || strings.HasPrefix(a.args[0].s, "cell") && !strings.ContainsAny(a.args[0].s, ".[")) {
				lo := 0
				if a.args[1].k == svInt {
					lo = int(a.args[1].i)
				} else if a.args[1].s != "_" {
					return sv{}, false
				}
				var parts []sv
				for i := 0; i < size; i++ {
					sh := int64(8 * i)
					if !little {
						sh = int64(8 * (size - 1 - i))
					}
					if sh == 0 {
						parts = append(parts, hdrByte(lo+i))
					} else {
						parts = append(parts, term("<<", hdrByte(lo+i), intV(sh)))
					}
				}
				return term("|", parts...), true
			}
			return sv{}, false
		}
		switch {
		case n == "io.ReadFull" && len(args) == 2:
			ev.effects = append(ev.effects, ssaEffect{ins: call, what: "readfull", args: args})
			n := term("len", args[1])
			isHeader := false
			if sl, ok := call.Common().Args[1].(*ssa.Slice); ok {
				if p, ok := sl.X.Type().Underlying().(*types.Pointer); ok {
					if arr, ok := p.Elem().Underlying().(*types.Array); ok && sl.Low == nil && sl.High == nil {
						n = intV(arr.Len())
						isHeader = true
					}
				}
			}
			if isHdrState {
				// in the header state whatever is read is the header
				isHeader = true
				if a := args[1]; a.op == "slice" && len(a.args) == 3 && a.args[0].k == svAddr && a.args[1].s == "_" {
					hdrBase = a.args[0].s
					if a.args[2].k == svInt {
						n = intV(a.args[2].i)
					}
				} else if a.k == svList {
					for i := int64(0); i < a.n; i++ {
						ev.lists[a.s][a.i+i] = hdrByte(int(i))
					}
					n = intV(a.n)
				}
			}
			if isHeader && opt.hdrK >= 0 {
				return sv{k: svTuple, tup: []sv{intV(int64(opt.hdrK)), symV(opt.hdrErr)}}, true
			}
			if !isHeader && opt.readErr != "" {
				return sv{k: svTuple, tup: []sv{symV("k"), symV(opt.readErr)}}, true
			}
			return sv{k: svTuple, tup: []sv{n, sv{k: svNil}}}, true
		case strings.HasPrefix(n, "invoke ") && strings.HasSuffix(n, ".Read") && len(args) == 2:
			ev.effects = append(ev.effects, ssaEffect{ins: call, what: "read", args: args})
			if opt.readErr != "" {
				return sv{k: svTuple, tup: []sv{symV("k"), symV(opt.readErr)}}, true
			}
			return sv{k: svTuple, tup: []sv{symV("k"), sv{k: svNil}}}, true
		}
		return sv{}, false
	}
	fr := &frame{vals: map[ssa.Value]sv{}}
	fr.vals[fn.Params[0]] = sv{k: svAddr, s: "r"}
	fr.vals[fn.Params[1]] = symV("b")
	res := pfbIter{ev: ev}
	at, _, _ := ev.runBlocks(fr, fn.Blocks[0], nil, func(next, from *ssa.BasicBlock) bool { return next == H })
	if at != H {
		res.why = "the main loop is not reached: " + ev.why
		return res
	}
	for _, ins := range H.Instrs {
		if phi, ok := ins.(*ssa.Phi); ok {
			if _, isSlice := phi.Type().Underlying().(*types.Slice); isSlice {
				fr.vals[phi] = symV("b")
			} else {
				fr.vals[phi] = symV("n")
			}
		}
	}
	ev.effects, ev.why = nil, ""
	_, _, ret := ev.runBlocks(fr, H, nil, func(next, from *ssa.BasicBlock) bool {
		if next == H {
			res.back = true
		}
		return next == H
	})
	res.ret, res.why, res.effects = ret, ev.why, ev.effects
	return res
}

func (c *Ctx) pfbTables() {
	fn := c.method("pfb", "pfbReader", "Read")
	fname := c.fname(fn)
	H := loopHeader(fn)
	if H == nil {
		c.undecided("PFB-STATES", fname, "main loop", fn.Pos(), "the decoder has no main loop")
		return
	}
	lenF := c.fld("pfb.len")
	roles := c.pfbRoles(fn, H)
	// ---- header: all 65536 (marker, type) pairs
	bad := ""
	if len(roles.why) > 0 {
		bad = roles.why[0]
	}
	nAccepted := 0
	wantLen := term("|", symV("b2"), term("<<", symV("b3"), intV(8)), term("<<", symV("b4"), intV(16)), term("<<", symV("b5"), intV(24)))
	// the same value however it is assembled (shifts written out, accumulated in a loop, sums of
	// products): the header bytes are 8-bit symbols, bit fields that cannot overlap add up (ext_x8.go)
	lenWidths := map[string]uint{"b2": 8, "b3": 8, "b4": 8, "b5": 8}
	for b0 := int64(0); b0 < 256 && bad == ""; b0++ {
		for b1 := int64(0); b1 < 256; b1++ {
			it := c.pfbIteration(fn, H, 0, map[int]int64{0: b0, 1: b1}, 2)
			valid := b0 == 0x80 && b1 >= 1 && b1 <= 3
			rejected := len(it.ret) == 2 && it.ret[1].s == "ErrInvalidPFB"
			var ln sv
			for _, ef := range it.effects {
				if ef.what == "store" && pfbFieldG(ef.addr, lenF) {
					ln = ef.args[0]
				}
			}
			switch {
			case !valid && !rejected:
				bad = fmt.Sprintf("header bytes %#02x %#02x are not rejected with ErrInvalidPFB (outcome: %v %s)", b0, b1, it.ret, it.why)
			case valid && rejected:
				bad = fmt.Sprintf("header bytes %#02x %#02x are rejected", b0, b1)
			case valid:
				nAccepted++
				if b1 != 3 && !bitFieldsAgreeX8(ln, wantLen, lenWidths, 64) {
					bad = fmt.Sprintf("the segment length is computed as %s, expected the little-endian value %s", ln, wantLen)
				}
			}
			if bad != "" {
				break
			}
		}
	}
	// ---- an accepted header leaves the decoder in the state of its type, whatever the four
	// bytes after the type are: the end marker (type 3) has no length field, so nothing that
	// depends on those bytes may take the decoder out of the final state; a data segment of
	// length zero may equally well go straight back to the header state
	for b1 := int64(1); b1 <= 3 && bad == ""; b1++ {
		for _, lz := range []int{1, -1} {
			it := c.pfbIterationLen(fn, H, 0, map[int]int64{0: 0x80, 1: b1}, 2, lz)
			cell := map[int]string{1: "zero", -1: "not zero"}[lz]
			if !it.back || it.why != "" {
				bad = fmt.Sprintf("header type %d with the four bytes after the type %s: the iteration cannot be followed to its end (%s)", b1, cell, it.why)
				break
			}
			st, okSt := pfbApply(roles.hdr, it.effects)
			okState := okSt && (st.String() == roles.seg[b1].String() || (b1 != 3 && lz > 0 && st.String() == roles.hdr.String()))
			if !okState {
				bad = fmt.Sprintf("header type %d with the four bytes after the type %s leaves the decoder in state %s, expected %s", b1, cell, st, roles.seg[b1])
				if b1 == 3 {
					bad += ": the end marker has no length field, whatever follows it must not take the decoder out of the final state"
				}
				break
			}
		}
	}
	// ---- the type becomes the state: the state after a header of type 1 reads text (one plain
	// read of the source), the state after type 2 reads binary data (io.ReadFull), the state after
	// type 3 is final (end of file without reading)
	if bad == "" {
		for t, want := range map[int64]string{1: "one plain read (text)", 2: "one io.ReadFull (binary)", 3: "io.EOF without reading (final)"} {
			it := c.pfbIterationOpt(fn, H, t, nil, -1, pfbOpt{hdrK: -1})
			plain, full := 0, 0
			for _, ef := range it.effects {
				switch ef.what {
				case "read":
					plain++
				case "readfull":
					full++
				}
			}
			eof := len(it.ret) == 2 && it.ret[1].k == svSym && it.ret[1].s == "EOF"
			ok := map[int64]bool{1: plain == 1 && full == 0 && !eof, 2: plain == 0 && full == 1 && !eof, 3: plain == 0 && full == 0 && eof}[t]
			if !ok {
				bad = fmt.Sprintf("header type %d puts the decoder into state %s, in which an iteration performs %d plain read(s), %d io.ReadFull and returns %v; expected %s", t, roles.seg[t], plain, full, it.ret, want)
				break
			}
		}
	}
	c.check(bad == "" && nAccepted == 3, "PFB-HEADER", fname, "exactly marker 0x80 with type 1, 2 or 3 is accepted, anything else gives ErrInvalidPFB; the type becomes the state; length = little-endian bytes 2..5", fn.Pos(), "65536 header prefixes evaluated", "header: "+bad)

	// ---- states: every control state the decoder can get into is handled (no spinning)
	list := c.pfbStoredStates(roles)
	var spin []string
	for _, v := range list {
		it := c.pfbIterationOpt(fn, H, 0, map[int]int64{0: 0x80, 1: 1}, 2, pfbOpt{hdrK: -1, ctl: v, isHdr: v.String() == roles.hdr.String()})
		if it.back && len(it.effects) == 0 {
			spin = append(spin, v.String())
		}
	}
	c.check(len(spin) == 0 && len(list) >= 5 && len(roles.pend) > 0, "PFB-STATES", fname, "every value the state can take is handled by the main loop", fn.Pos(), fmt.Sprintf("states %v each read, emit or return", list),
		fmt.Sprintf("in state(s) %v an iteration of the main loop does nothing: the `for len(b) > 0` loop spins forever (states considered: %d, pending-digit states found: %d)", spin, len(list), len(roles.pend)))

	// ---- text state: at most min(len(b), remaining) bytes are requested
	var tbad []string
	nText := 0
	for _, r := range []int{-1, 0, 1} {
		it := c.pfbIteration(fn, H, 1, nil, r)
		for _, ef := range it.effects {
			if ef.what != "read" {
				continue
			}
			nText++
			want := "len(b)"
			if r > 0 {
				want = "rem"
			}
			hi := ""
			if ef.args[1].op == "slice" && len(ef.args[1].args) == 3 {
				hi = ef.args[1].args[2].String()
			}
			if hi != want && !(r == 0 && (hi == "rem" || hi == "len(b)")) {
				tbad = append(tbad, fmt.Sprintf("with the caller's buffer %s the remaining segment the read asks for %s bytes, expected %s", map[int]string{-1: "smaller than", 0: "equal to", 1: "larger than"}[r], hi, want))
			}
		}
	}
	c.check(len(tbad) == 0 && nText == 3, "PFB-TEXT", fname, "a text read never asks for more than the remaining segment length", fn.Pos(), "k = min(len(b), remaining) in all three orderings", "text segments: "+joinMax(tbad, 2))
}

// pfbExpandRule: the binary state is evaluated for caller buffers of 1, 4 and 5 bytes holding
// symbolic bytes; the segment bytes read are symbols d0, d1, …; the nibble encoder is opaque.
// Afterwards position i of the buffer must hold hex(high nibble of d[i/2]) for even i and
// hex(low nibble) for odd i — which is only the case if the in-place expansion runs from the back.
func (c *Ctx) pfbExpandRule() *pfbEncoders {
	enc := &pfbEncoders{fns: map[*ssa.Function]bool{}, tables: map[string]bool{}}
	fn := c.method("pfb", "pfbReader", "Read")
	fname := c.fname(fn)
	H := loopHeader(fn)
	if H == nil {
		return enc
	}
	roles := c.pfbRoles(fn, H)
	var bad []string
	if roles.seg[2] == nil {
		bad = append(bad, "the state of a binary segment could not be determined")
	}
	for _, n := range []int{1, 2, 4, 5} {
		if roles.seg[2] == nil {
			break
		}
		x := c.pfbExpandOnce(fn, H, n, 1000, roles.seg[2])
		for g := range x.enc.fns {
			enc.fns[g] = true
		}
		for t := range x.enc.tables {
			enc.tables[t] = true
		}
		if x.why != "" {
			bad = append(bad, x.why)
			continue
		}
		var want []string
		for i := 0; i < n; i++ {
			d := fmt.Sprintf("d%d", i/2)
			if i%2 == 0 {
				want = append(want, "hex(>>u8("+d+",4))")
			} else {
				want = append(want, "hex(&u8(15,"+d+"))")
			}
		}
		if strings.Join(x.got, " ") != strings.Join(want, " ") {
			bad = append(bad, fmt.Sprintf("a caller buffer of %d byte(s) ends up as [%s], expected [%s]", n, strings.Join(x.got, " "), strings.Join(want, " ")))
		}
		// bytes delivered, pending nibble
		if x.hasDelivered && (x.delivered.k != svInt || x.delivered.i != int64(n)) {
			bad = append(bad, fmt.Sprintf("a caller buffer of %d byte(s) is reported as %s bytes delivered", n, x.delivered))
		}
		if n%2 == 1 {
			// the last digit is parked, and the decoder is left in a state that is not the
			// binary state it was in (PFB-LEFTOVER decides that this state emits the digit first)
			wantTail := fmt.Sprintf("hex(&u8(15,d%d))", n/2)
			if x.tail != wantTail || !x.ctlOK || x.ctlAfter.String() == roles.seg[2].String() {
				bad = append(bad, fmt.Sprintf("an odd buffer of %d byte(s) leaves the pending digit %q in state %s, expected %s in a leftover state", n, x.tail, x.ctlAfter, wantTail))
			}
		} else if x.tail != "" || !x.ctlOK || x.ctlAfter.String() != roles.seg[2].String() {
			bad = append(bad, fmt.Sprintf("an even buffer of %d byte(s) with data left in the segment parks a digit (%q) or leaves the binary state (%s)", n, x.tail, x.ctlAfter))
		}
	}
	c.check(len(bad) == 0, "PFB-EXPAND", fname, "in-place expansion from the back: position i gets the high (i even) or low (i odd) nibble of byte i/2; an odd buffer keeps the last digit pending", fn.Pos(), "buffers of 1, 2, 4, 5 bytes evaluated", "hex expansion: "+joinMax(bad, 2))
	return enc
}

type pfbExpandG struct {
	got          []string // the caller's buffer afterwards
	delivered    sv       // the byte count carried into the next iteration
	hasDelivered bool
	tail         string // what was stored as pending digit ("" if nothing)
	ctlAfter     pfbCtl
	ctlOK        bool
	why          string
	enc          *pfbEncoders
}

// pfbExpandOnce evaluates one pass of the main loop in the control state ctl (the binary state)
// for a caller buffer of n symbolic bytes and a segment with rem bytes left.
func (c *Ctx) pfbExpandOnce(fn *ssa.Function, H *ssa.BasicBlock, n int, rem int64, ctl pfbCtl) pfbExpandG {
	enc := &pfbEncoders{fns: map[*ssa.Function]bool{}, tables: map[string]bool{}}
	res := pfbExpandG{enc: enc}
	lenF, tailF, srcF := c.fld("pfb.len"), c.fld("pfb.tail"), c.fld("pfb.r")
	{
		ev := &ssaEval{c: c, bind: map[ssa.Value]sv{}, mem: map[string]sv{}}
		var cells []sv
		for i := 0; i < n; i++ {
			cells = append(cells, symV(fmt.Sprintf("old%d", i)))
		}
		buf := ev.newList(cells)
		// the bytes of the segment (and of the caller's buffer) are 8-bit values: a mask that
		// cannot clear a bit of its operand is dropped ((v>>4)&0x0f is v>>4)
		nibW := map[string]uint{}
		for i := 0; i < n; i++ {
			nibW[fmt.Sprintf("d%d", i)], nibW[fmt.Sprintf("old%d", i)] = 8, 8
		}
		ev.noInline = func(g *ssa.Function) bool {
			// the nibble encoder: a function from one byte to one byte
			sig := g.Signature
			return sig.Recv() == nil && sig.Params().Len() == 1 && sig.Results().Len() == 1 && sig.Params().At(0).Type().String() == "byte" && sig.Results().At(0).Type().String() == "byte"
		}
		ev.load = func(ld *ssa.UnOp, addr sv) (sv, bool) {
			a := addr.s
			if strings.HasPrefix(a, "r.") {
				if v, ok := ctl[a[2:]]; ok {
					return v, true
				}
			}
			if v, ok := ev.fixedTableLoad(ld, addr); ok {
				return v, true
			}
			switch {
			case pfbFieldG(a, lenF):
				return intV(rem), true
			case pfbFieldG(a, tailF):
				return symV("tail"), true
			case pfbFieldG(a, srcF):
				return symV("src"), true
			}
			return sv{}, false
		}
		ev.call = func(call ssa.CallInstruction, args []sv) (sv, bool) {
			if call == nil {
				// the nibble encoder as a table: a constant string indexed by a value that is not fixed
				if len(args) == 3 && args[0].s == "strindex" && args[1].k == svString && args[2].k == svSym {
					enc.tables[args[1].s] = true
					return symV("hex(" + dropIdleMasksY7(args[2], nibW).String() + ")"), true
				}
				return sv{}, false
			}
			if callName(call) == "io.ReadFull" && len(args) == 2 && args[1].k == svList {
				for i := int64(0); i < args[1].n; i++ {
					ev.lists[args[1].s][args[1].i+i] = symV(fmt.Sprintf("d%d", i))
				}
				return sv{k: svTuple, tup: []sv{intV(args[1].n), {k: svNil}}}, true
			}
			if g := call.Common().StaticCallee(); g != nil && c.inModule(g) && ev.noInline(g) && len(args) == 1 {
				enc.fns[g] = true
				return symV("hex(" + dropIdleMasksY7(args[0], nibW).String() + ")"), true
			}
			return sv{}, false
		}
		fr := &frame{vals: map[ssa.Value]sv{}}
		fr.vals[fn.Params[0]] = sv{k: svAddr, s: "r"}
		fr.vals[fn.Params[1]] = buf
		at, _, _ := ev.runBlocks(fr, fn.Blocks[0], nil, func(next, from *ssa.BasicBlock) bool { return next == H })
		if at != H {
			res.why = "main loop not reached: " + ev.why
			return res
		}
		var nPhi *ssa.Phi
		for _, ins := range H.Instrs {
			if phi, ok := ins.(*ssa.Phi); ok {
				if _, isSlice := phi.Type().Underlying().(*types.Slice); isSlice {
					fr.vals[phi] = buf
				} else {
					fr.vals[phi] = intV(0)
					nPhi = phi
				}
			}
		}
		ev.effects, ev.why = nil, ""
		back := false
		_, from, _ := ev.runBlocks(fr, H, nil, func(next, f *ssa.BasicBlock) bool {
			if next == H {
				back = true
			}
			return next == H
		})
		if !back {
			res.why = fmt.Sprintf("buffer of %d byte(s): the pass does not come back to the loop (%s)", n, ev.why)
			return res
		}
		for i := 0; i < n; i++ {
			res.got = append(res.got, ev.lists[buf.s][i].String())
		}
		if nPhi != nil {
			for i, p := range H.Preds {
				if p == from {
					res.delivered, res.hasDelivered = ev.val(fr, nPhi.Edges[i]), true
				}
			}
		}
		for _, ef := range ev.effects {
			if ef.what == "store" && pfbFieldG(ef.addr, tailF) {
				res.tail = ef.args[0].String()
			}
		}
		res.ctlAfter, res.ctlOK = pfbApply(ctl, ev.effects)
	}
	return res
}

// pfbEncoders: the nibble encoders met by the evaluation of the binary state — module functions
// from one byte to one byte, and constant strings indexed by the nibble.
type pfbEncoders struct {
	fns    map[*ssa.Function]bool
	tables map[string]bool
}

// pfbHexRule: every nibble encoder the binary state uses maps 0..15 to the lower-case
// hexadecimal digits.  The encoders are found by their role in the expansion (pfbExpandRule), a
// function is evaluated on the sixteen values, a table is read.
func (c *Ctx) pfbHexRule(enc *pfbEncoders) {
	fn := c.method("pfb", "pfbReader", "Read")
	const digits = "0123456789abcdef"
	n := 0
	var fns []*ssa.Function
	for g := range enc.fns {
		fns = append(fns, g)
	}
	sort.Slice(fns, func(i, j int) bool { return fns[i].String() < fns[j].String() })
	for _, g := range fns {
		n++
		bad := ""
		for v := int64(0); v < 16; v++ {
			ev := &ssaEval{c: c, bind: map[ssa.Value]sv{}, mem: map[string]sv{}}
			ret := ev.runFunc(g, []sv{intV(v)})
			if len(ret) != 1 || ret[0].k != svInt || ret[0].i != int64(digits[v]) {
				bad = fmt.Sprintf("nibble %d → %v %s, expected %q", v, ret, ev.why, rune(digits[v]))
			}
		}
		c.check(bad == "", "PFB-HEX", c.fname(g), "nibbles 0..15 → lower-case hexadecimal digits", g.Pos(), "16 values evaluated", "hex encoder: "+bad)
	}
	var tabs []string
	for t := range enc.tables {
		tabs = append(tabs, t)
	}
	sort.Strings(tabs)
	for _, t := range tabs {
		n++
		bad := ""
		for v := 0; v < 16; v++ {
			if v >= len(t) || t[v] != digits[v] {
				bad = fmt.Sprintf("entry %d of the digit table %q is not %q", v, t, rune(digits[v]))
				break
			}
		}
		c.check(bad == "", "PFB-HEX", c.fname(fn), "nibbles 0..15 → lower-case hexadecimal digits", fn.Pos(), "digit table read", "hex encoder: "+bad)
	}
	if n == 0 {
		c.undecided("PFB-HEX", c.fname(fn), "nibble encoder", fn.Pos(), "no nibble encoder (a byte → byte function or a constant digit string) was met while evaluating the binary state")
	}
}
