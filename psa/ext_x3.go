package main

import (
	"go/constant"
	"go/token"
	"go/types"
	"sort"
	"strings"

	"golang.org/x/tools/go/ssa"
)

// Read-only tables.
//
// A package-level map that is filled by its composite literal with constant keys and constant
// values and is only ever read afterwards (every use in the module is a load whose value is looked
// up, ranged over or measured) is a constant function of its key: `len(stack) < need[op]` with a
// known op is the same test as `len(stack) < 2` written out in the case of that op.  The evaluator
// answers a look-up in such a table with the entry of the literal (the zero value for a key the
// literal does not list), so a written-out check and a table-driven one are the same thing.

type roTable struct {
	keysI map[int64]constant.Value
	keysS map[string]constant.Value
	elem  types.Type
}

var roTables = map[*ssa.Global]*roTable{}

// roTableOf returns the contents of g if g is a read-only table in the sense above, nil otherwise.
func (c *Ctx) roTableOf(g *ssa.Global) *roTable {
	if t, ok := roTables[g]; ok {
		return t
	}
	roTables[g] = nil
	mt, ok := g.Type().Underlying().(*types.Pointer).Elem().Underlying().(*types.Map)
	if !ok || g.Pkg == nil {
		return nil
	}
	if _, ok := mt.Key().Underlying().(*types.Basic); !ok {
		return nil
	}
	if _, ok := mt.Elem().Underlying().(*types.Basic); !ok {
		return nil
	}
	init := g.Pkg.Func("init")
	if init == nil {
		return nil
	}
	// every use of the variable in the module
	var mk *ssa.MakeMap
	good := true
	for _, fn := range c.modFuncs {
		eachInstr(fn, func(ins ssa.Instruction) {
			for _, op := range ins.Operands(nil) {
				if *op != ssa.Value(g) {
					continue
				}
				switch x := ins.(type) {
				case *ssa.Store:
					m, isMk := x.Val.(*ssa.MakeMap)
					if x.Addr != ssa.Value(g) || fn != init || mk != nil || !isMk {
						good = false
						return
					}
					mk = m
				case *ssa.UnOp:
					if x.Op != token.MUL {
						good = false
						return
					}
					for _, r := range *x.Referrers() {
						switch y := r.(type) {
						case *ssa.Lookup:
							if y.X != ssa.Value(x) {
								good = false
							}
						case *ssa.Range, *ssa.DebugRef:
						case *ssa.Call:
							if b, isB := y.Call.Value.(*ssa.Builtin); !isB || b.Name() != "len" {
								good = false
							}
						default:
							good = false
						}
					}
				case *ssa.DebugRef:
				default:
					good = false
				}
			}
		})
	}
	if !good || mk == nil {
		return nil
	}
	t := &roTable{keysI: map[int64]constant.Value{}, keysS: map[string]constant.Value{}, elem: mt.Elem()}
	for _, r := range *mk.Referrers() {
		switch x := r.(type) {
		case *ssa.MapUpdate:
			k, isK := x.Key.(*ssa.Const)
			v, isV := x.Value.(*ssa.Const)
			if x.Map != ssa.Value(mk) || !isK || !isV || k.Value == nil || v.Value == nil {
				return nil
			}
			switch k.Value.Kind() {
			case constant.Int:
				i, exact := constant.Int64Val(k.Value)
				if !exact {
					return nil
				}
				t.keysI[i] = v.Value
			case constant.String:
				t.keysS[constant.StringVal(k.Value)] = v.Value
			default:
				return nil
			}
		case *ssa.Store:
			if x.Val != ssa.Value(mk) || x.Addr != ssa.Value(g) {
				return nil
			}
		case *ssa.DebugRef:
		default:
			return nil
		}
	}
	roTables[g] = t
	return t
}

// roLookup: the value of a look-up with a known key in a read-only table.
func (e *ssaEval) roLookup(x *ssa.Lookup, k sv) (sv, bool) {
	g := globalLoad(x.X)
	if g == nil || (k.k != svInt && k.k != svString) {
		return sv{}, false
	}
	t := e.c.roTableOf(g)
	if t == nil {
		return sv{}, false
	}
	var cv constant.Value
	found := false
	if k.k == svInt {
		cv, found = t.keysI[k.i]
	} else {
		cv, found = t.keysS[k.s]
	}
	var r sv
	if !found {
		z, ok := aZeroSV(t.elem)
		if !ok {
			return sv{}, false
		}
		r = z
	} else {
		bt := t.elem.Underlying().(*types.Basic)
		switch {
		case cv.Kind() == constant.Bool:
			r = boolV(constant.BoolVal(cv))
		case cv.Kind() == constant.String:
			r = sv{k: svString, s: constant.StringVal(cv)}
		case bt.Info()&types.IsInteger != 0:
			i, exact := constant.Int64Val(constant.ToInt(cv))
			if !exact {
				return sv{}, false
			}
			r = intV(i)
		case bt.Info()&types.IsFloat != 0:
			f, _ := constant.Float64Val(cv)
			r = sv{k: svFloat, f: f}
		default:
			return sv{}, false
		}
	}
	if x.CommaOk {
		return sv{k: svTuple, tup: []sv{r, boolV(found)}}, true
	}
	return r, true
}

// tableFacts (fact engine): where a dominating branch has established key == c for a constant c,
// every look-up of that key in a read-only table of integers has the value the literal gives to c
// (zero if c is not listed).  `if len(stack) < need[op] { return }` before `switch op` therefore
// gives each case the fact the written-out `if len(stack) < 2 { return }` gave it.
func (fi *funcInfo) tableFacts(b *ssa.BasicBlock) []Lin {
	lks := fi.roLookups()
	if len(lks) == 0 {
		return nil
	}
	strip := func(v ssa.Value) ssa.Value {
		for {
			ct, ok := v.(*ssa.ChangeType)
			if !ok {
				return v
			}
			v = ct.X
		}
	}
	var out []Lin
	for d := b; d != nil && d.Idom() != nil; d = d.Idom() {
		if len(d.Preds) != 1 {
			continue
		}
		p := d.Preds[0]
		iff, ok := p.Instrs[len(p.Instrs)-1].(*ssa.If)
		if !ok || p.Succs[0] == p.Succs[1] {
			continue
		}
		truth := p.Succs[0] == d
		cmp, ok := iff.Cond.(*ssa.BinOp)
		if !ok || !(cmp.Op == token.EQL && truth || cmp.Op == token.NEQ && !truth) {
			continue
		}
		key, kc := cmp.X, cmp.Y
		if _, isC := key.(*ssa.Const); isC {
			key, kc = kc, key
		}
		cv, isC := kc.(*ssa.Const)
		if !isC || cv.Value == nil {
			continue
		}
		for _, lk := range lks {
			if strip(lk.Index) != strip(key) {
				continue
			}
			t := feCtx.roTableOf(globalLoad(lk.X))
			var val constant.Value
			found := false
			switch cv.Value.Kind() {
			case constant.Int:
				if i, exact := constant.Int64Val(cv.Value); exact {
					val, found = t.keysI[i]
				} else {
					continue
				}
			case constant.String:
				val, found = t.keysS[constant.StringVal(cv.Value)]
			default:
				continue
			}
			n := int64(0)
			if found {
				i, exact := constant.Int64Val(constant.ToInt(val))
				if !exact {
					continue
				}
				n = i
			}
			a := fi.term(lk)
			out = append(out, a.addK(-n), konst(n).sub(a))
		}
	}
	return out
}

// roLookups: the look-ups of the function in read-only tables with integer entries.
func (fi *funcInfo) roLookups() []*ssa.Lookup {
	if l, ok := roLookupCache[fi.fn]; ok {
		return l
	}
	var out []*ssa.Lookup
	eachInstr(fi.fn, func(ins ssa.Instruction) {
		lk, ok := ins.(*ssa.Lookup)
		if !ok || lk.CommaOk {
			return
		}
		if _, _, isInt := isIntType(lk.Type()); !isInt {
			return
		}
		if g := globalLoad(lk.X); g != nil && feCtx.roTableOf(g) != nil {
			out = append(out, lk)
		}
	})
	roLookupCache[fi.fn] = out
	return out
}

var roLookupCache = map[*ssa.Function][]*ssa.Lookup{}

// ---- the charstring machine: decoder state kept in an object, path helpers that are methods

// t1HelperKindsX3 classifies the module functions the decoder calls statically (methods of a path
// builder, plain helper functions) by the GlyphOp they emit — as t1ClosureKinds does for closures.
func (c *Ctx) t1HelperKindsX3(fn *ssa.Function, opVal map[int64]string, kinds map[*ssa.Function]string) {
	seen := map[*ssa.Function]bool{}
	visit := func(f *ssa.Function) {
		eachInstr(f, func(ins ssa.Instruction) {
			call, ok := ins.(ssa.CallInstruction)
			if !ok {
				return
			}
			sc := call.Common().StaticCallee()
			if sc == nil || seen[sc] || sc == fn || !c.inModule(sc) || len(sc.Blocks) == 0 || sc.Parent() != nil {
				return
			}
			seen[sc] = true
			kind := ""
			eachInstr(sc, func(i2 ssa.Instruction) {
				st, ok := i2.(*ssa.Store)
				if !ok {
					return
				}
				fa, ok := st.Addr.(*ssa.FieldAddr)
				if !ok {
					return
				}
				stt := fa.X.Type().Underlying().(*types.Pointer).Elem().Underlying().(*types.Struct)
				if stt.Field(fa.Field).Name() != "Op" {
					return
				}
				if k, isC := constInt(st.Val); isC {
					if n := opVal[k]; n != "" && (kind == "" || kind == "close") {
						kind = n
					}
				}
			})
			if kind != "" {
				kinds[sc] = kind
			}
		})
	}
	visit(fn)
	for _, an := range fn.AnonFuncs {
		visit(an)
	}
}

// helperOperandsX3: the arguments of a helper call that are real numbers.
func helperOperandsX3(sc *ssa.Function, args []sv) []sv {
	var out []sv
	for i, a := range args {
		if i < len(sc.Params) {
			if bt, ok := sc.Params[i].Type().Underlying().(*types.Basic); !ok || bt.Info()&types.IsFloat == 0 {
				continue
			}
		}
		out = append(out, a)
	}
	return out
}

func isStateSymX3(s string) bool {
	return strings.HasPrefix(s, "v:") || strings.HasPrefix(s, "*cell")
}

// presetStateFieldsX3: state of the decoder that lives in fields of an object of a type of the
// decoder's package (a path builder with `isClosed`, `inFlex`, `x`, `y`) instead of in locals: the
// boolean fields are preset from the table cell (by field name, as the boolean locals are by
// their name), the real-valued fields are symbols — under the name an unwritten field is read as,
// *cell.f, which is the key of the value in t1Outcome.carried.
func (m *t1Machine) presetStateFieldsX3(ev *ssaEval, fr *frame, flags map[string]bool, boolCells map[string]string) {
	cells := map[string]*types.Struct{}
	for v, x := range fr.vals {
		if x.k != svAddr || !strings.HasPrefix(x.s, "cell") || strings.ContainsAny(x.s, ".[") {
			continue
		}
		pt, ok := v.Type().Underlying().(*types.Pointer)
		if !ok {
			continue
		}
		nt, ok := pt.Elem().(*types.Named)
		if !ok || nt.Obj().Pkg() == nil || m.fn.Pkg == nil || nt.Obj().Pkg() != m.fn.Pkg.Pkg {
			continue
		}
		if st, ok := nt.Underlying().(*types.Struct); ok {
			cells[x.s] = st
		}
	}
	var names []string
	for n := range cells {
		names = append(names, n)
	}
	sort.Strings(names)
	for _, cell := range names {
		st := cells[cell]
		for i := 0; i < st.NumFields(); i++ {
			f := st.Field(i)
			bt, ok := f.Type().Underlying().(*types.Basic)
			if !ok {
				continue
			}
			key := cell + "." + f.Name()
			switch {
			case bt.Info()&types.IsBoolean != 0:
				ev.mem[key] = boolV(flags[f.Name()])
				boolCells[key] = f.Name()
			case bt.Info()&types.IsFloat != 0:
				ev.mem[key] = symV("*" + key)
			}
		}
	}
}

// ---- error values kept in package-level variables

var nonNilErrGlobals = map[*ssa.Global]bool{}

// nonNilErrorGlobalX3: g is a package-level variable of an interface type that is set once, by its
// initialiser, to something that is not nil — the result of errors.New / fmt.Errorf, or a concrete
// value boxed into the interface — and whose every other use in the module is a load.  A load of
// it is then never nil, so `if err != nil { return err }` after a helper that returned it takes the
// error branch, exactly as the `return errX` it replaces did.
func (c *Ctx) nonNilErrorGlobalX3(g *ssa.Global) bool {
	if r, ok := nonNilErrGlobals[g]; ok {
		return r
	}
	nonNilErrGlobals[g] = false
	if _, ok := g.Type().Underlying().(*types.Pointer).Elem().Underlying().(*types.Interface); !ok || g.Pkg == nil {
		return false
	}
	init := g.Pkg.Func("init")
	var val ssa.Value
	good := true
	for _, fn := range c.modFuncs {
		eachInstr(fn, func(ins ssa.Instruction) {
			for _, op := range ins.Operands(nil) {
				if *op != ssa.Value(g) {
					continue
				}
				switch x := ins.(type) {
				case *ssa.Store:
					if x.Addr != ssa.Value(g) || fn != init || val != nil {
						good = false
						return
					}
					val = x.Val
				case *ssa.UnOp:
					if x.Op != token.MUL {
						good = false
					}
				case *ssa.DebugRef:
				default:
					good = false
				}
			}
		})
	}
	if !good || val == nil {
		return false
	}
	nonNilErrGlobals[g] = c.nonNilIfaceX3(val, 0)
	return nonNilErrGlobals[g]
}

// nonNilIfaceX3: the interface value v is not nil — a concrete value boxed into the interface, the
// result of errors.New / fmt.Errorf, or the result of a module function every return of which is
// such a value (`func invalidSince(reason string) error { return &InvalidFontError{…} }`).
func (c *Ctx) nonNilIfaceX3(v ssa.Value, depth int) bool {
	for {
		if ci, ok := v.(*ssa.ChangeInterface); ok {
			v = ci.X
			continue
		}
		break
	}
	switch x := v.(type) {
	case *ssa.MakeInterface:
		return true
	case *ssa.Call:
		switch callName(x) {
		case "errors.New", "fmt.Errorf":
			return true
		}
		sc := x.Call.StaticCallee()
		if sc == nil || x.Call.IsInvoke() || !c.inModule(sc) || len(sc.Blocks) == 0 || depth >= 3 || sc.Signature.Results().Len() != 1 {
			return false
		}
		n, all := 0, true
		eachInstr(sc, func(ins ssa.Instruction) {
			if r, ok := ins.(*ssa.Return); ok {
				n++
				if len(r.Results) != 1 || !c.nonNilIfaceX3(r.Results[0], depth+1) {
					all = false
				}
			}
		})
		return n > 0 && all
	}
	return false
}

// errOracleX3 answers the comparison of an error value with nil: the symbols listed in nonNil
// (loads of package-level error values, see above) and the results of errors.New / fmt.Errorf are
// not nil.
func errOracleX3(nonNil map[string]bool) func(op token.Token, x, y sv) (bool, bool) {
	isErr := func(v sv) bool {
		if v.k != svSym {
			return false
		}
		return nonNil[v.s] || v.op == "errors.New" || v.op == "fmt.Errorf"
	}
	return func(op token.Token, x, y sv) (bool, bool) {
		if op != token.EQL && op != token.NEQ {
			return false, false
		}
		if x.k == svNil && isErr(y) || y.k == svNil && isErr(x) {
			return op == token.NEQ, true
		}
		return false, false
	}
}
