package ctl17

import "slices"

// ---- round 6, worker B: selection of the entry with the extreme key; functions of the multiset

// ArgMinKey (silent): the keys of a map are distinct, the entry with the smallest key is the same
// whatever the order of the entries.
func ArgMinKey(m map[string]any) (string, []int) {
	var (
		found bool
		best  string
		pay   []int
	)
	for k, v := range m {
		l, ok := v.([]int)
		if !ok {
			continue
		}
		if !found || k < best {
			found, best, pay = true, k, l
		}
	}
	return best, pay
}

// ArgMinValue (reported): two entries can hold the same value; which key goes with the minimum
// depends on the order.
func ArgMinValue(m map[string]int) string {
	var (
		found bool
		bestV int
		bestK string
	)
	for k, v := range m {
		if !found || v < bestV {
			found, bestV, bestK = true, v, k
		}
	}
	return bestK
}

// ArgMinFloatKey (reported): NaN keys are neither distinct nor ordered.
func ArgMinFloatKey(m map[float64]string) string {
	var (
		found bool
		best  float64
		pay   string
	)
	for k, v := range m {
		if !found || k < best {
			found, best, pay = true, k, v
		}
	}
	return pay
}

// ArgMinPeek (reported): the payload chosen so far is read by later iterations.
func ArgMinPeek(m map[string]string) string {
	var (
		found bool
		best  string
		pay   string
	)
	for k, v := range m {
		if v == pay {
			continue
		}
		if !found || k < best {
			found, best, pay = true, k, v
		}
	}
	return pay
}

// MinOfKeys (silent): the list is never sorted, but only its length and its minimum are used.
func MinOfKeys(m map[string]any) string {
	var cands []string
	for k, v := range m {
		if _, ok := v.(int); ok {
			cands = append(cands, k)
		}
	}
	if len(cands) == 0 {
		return ""
	}
	return slices.Min(cands)
}

// MinOfFloats (reported): slices.Min over floating-point values is not symmetric (±0).
func MinOfFloats(m map[string]float64) float64 {
	var vals []float64
	for _, v := range m {
		vals = append(vals, v)
	}
	if len(vals) == 0 {
		return 0
	}
	x := slices.Min(vals)
	return x
}

// FirstOfLocal (reported): never sorted, and an element is taken by position.
func FirstOfLocal(m map[string]int) string {
	var ks []string
	for k := range m {
		ks = append(ks, k)
	}
	if len(ks) == 0 {
		return ""
	}
	x := ks[0]
	return x
}
