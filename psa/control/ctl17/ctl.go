// Package ctl17 is the positive/negative control for the C17 rules: the
// checker analyses it on every run; the functions named in rules_c17.go must
// (not) be reported.  It is never executed.
package ctl17

import (
	"cmp"
	"fmt"
	"math/rand"
	"slices"
	"sort"
	"time"
)

type box struct{ lo, hi int }

func (b *box) Extend(o box) {
	if o.lo < b.lo {
		b.lo = o.lo
	}
	if o.hi > b.hi {
		b.hi = o.hi
	}
}

func keys(m map[string]int) []string {
	var out []string
	for k := range m {
		out = append(out, k)
	}
	sort.Strings(out)
	return out
}

// AppendInOrder must be reported: pushes in iteration order, never sorted.
func AppendInOrder(m map[string]int) []int {
	var out []int
	for _, v := range m {
		out = append(out, v)
	}
	return out
}

// FirstHit must be reported.
func FirstHit(m map[string]int) string {
	for k, v := range m {
		if v > 0 {
			return k
		}
	}
	return ""
}

// Concat must be reported.
func Concat(m map[string]string) string {
	line := ""
	for k, v := range m {
		line += k + v
	}
	return line
}

// KeysUnsorted must be reported (DET-COLLECT).
func KeysUnsorted(m map[string]int) string {
	var ks []string
	for k := range m {
		ks = append(ks, k)
	}
	return ks[0]
}

// PartialSort must be reported: comparator has no tie-break on the element.
func PartialSort(m map[string]int) []string {
	var ks []string
	for k := range m {
		ks = append(ks, k)
	}
	sort.Slice(ks, func(i, j int) bool { return m[ks[i]] < m[ks[j]] })
	return ks
}

func Clock() int64       { return time.Now().Unix() }
func Random() int        { return rand.Int() }
func Addr(p *int) string { return fmt.Sprintf("%p", p) }

// KeyedCopy must stay silent.
func KeyedCopy(a, b map[string]int) {
	for k, v := range a {
		b[k] = v + 1
	}
}

// SortedKeys must stay silent.
func SortedKeys(m map[string]int) []string {
	var ks []string
	for k := range m {
		ks = append(ks, k)
	}
	sort.Slice(ks, func(i, j int) bool {
		if m[ks[i]] != m[ks[j]] {
			return m[ks[i]] < m[ks[j]]
		}
		return ks[i] < ks[j]
	})
	return ks
}

// MinMax must stay silent.
func MinMax(m map[string]box) (res box) {
	first := true
	for _, b := range m {
		if first {
			res = b
			first = false
		} else {
			res.Extend(b)
		}
	}
	return res
}

// SortFuncTotal must stay silent: three-way comparison by rank, then by the element.
func SortFuncTotal(m map[string]int) []string {
	var ks []string
	for k := range m {
		ks = append(ks, k)
	}
	slices.SortFunc(ks, func(a, b string) int {
		return cmp.Or(cmp.Compare(m[a], m[b]), cmp.Compare(a, b))
	})
	return ks
}

// SortFuncPartial must be reported: the three-way comparison stops at the rank.
func SortFuncPartial(m map[string]int) []string {
	var ks []string
	for k := range m {
		ks = append(ks, k)
	}
	slices.SortFunc(ks, func(a, b string) int { return cmp.Compare(m[a], m[b]) })
	return ks
}

type byRank struct {
	names []string
	rank  map[string]int
}

func (s *byRank) Len() int      { return len(s.names) }
func (s *byRank) Swap(i, j int) { s.names[i], s.names[j] = s.names[j], s.names[i] }
func (s *byRank) Less(i, j int) bool {
	if ri, rj := s.rank[s.names[i]], s.rank[s.names[j]]; ri != rj {
		return ri < rj
	}
	return s.names[i] < s.names[j]
}

// SorterType must stay silent: the same order as a sort.Interface.
func SorterType(m map[string]int) []string {
	var ks []string
	for k := range m {
		ks = append(ks, k)
	}
	sort.Sort(&byRank{names: ks, rank: m})
	return ks
}

type byPos struct{ names []string }

func (s byPos) Len() int           { return len(s.names) }
func (s byPos) Swap(i, j int)      { s.names[i], s.names[j] = s.names[j], s.names[i] }
func (s byPos) Less(i, j int) bool { return len(s.names[i]) < len(s.names[j]) || i < j }

// SorterByPosition must be reported: the comparison looks at the positions.
func SorterByPosition(m map[string]int) []string {
	var ks []string
	for k := range m {
		ks = append(ks, k)
	}
	sort.Sort(byPos{ks})
	return ks
}

// InnerLabel must stay silent: the labelled break leaves a search loop inside the body, not the
// loop over the map.
func InnerLabel(a map[string][]int, b map[string]int) {
	for k, vs := range a {
		n := 0
	search:
		for {
			for _, v := range vs {
				if v > n {
					break search
				}
			}
			n++
		}
		b[k] = n
	}
}

// LabelledFirstHit must be reported: the labelled break ends the loop over the map.
func LabelledFirstHit(m map[string][]int, out map[string]int) {
entries:
	for k, vs := range m {
		for _, v := range vs {
			if v > 0 {
				break entries
			}
		}
		out[k] = len(vs)
	}
}

// ContinueOuter must be reported: the labelled continue ends the loop over the map.
func ContinueOuter(ms []map[string]int, out map[string]int) {
outer:
	for _, m := range ms {
		for k, v := range m {
			if v > 0 {
				continue outer
			}
			out[k] = v
		}
	}
}

// SortKeyFunc must stay silent: the key is computed by a local function that tests whether its
// look-up succeeded; ties are broken by the element.
func SortKeyFunc(m map[string]int, rank map[string]int) []string {
	var ks []string
	for k := range m {
		ks = append(ks, k)
	}
	key := func(s string) int {
		if r, ok := rank[s]; ok {
			return r
		}
		return 256
	}
	sort.Slice(ks, func(i, j int) bool {
		if a, b := key(ks[i]), key(ks[j]); a != b {
			return a < b
		}
		return ks[i] < ks[j]
	})
	return ks
}

// SortKeyFuncPartial must be reported: the same key, no tie-break.
func SortKeyFuncPartial(m map[string]int, rank map[string]int) []string {
	var ks []string
	for k := range m {
		ks = append(ks, k)
	}
	key := func(s string) int {
		if r, ok := rank[s]; ok {
			return r
		}
		return 256
	}
	sort.Slice(ks, func(i, j int) bool { return key(ks[i]) < key(ks[j]) })
	return ks
}

// SortKeyCounting must be reported: the key function changes what it returns from call to call.
func SortKeyCounting(m map[string]int, rank map[string]int) []string {
	var ks []string
	for k := range m {
		ks = append(ks, k)
	}
	n := 0
	key := func(s string) int {
		if r, ok := rank[s]; ok {
			return r
		}
		n++
		return n
	}
	sort.Slice(ks, func(i, j int) bool {
		if a, b := key(ks[i]), key(ks[j]); a != b {
			return a < b
		}
		return ks[i] < ks[j]
	})
	return ks
}

type rankedName struct {
	rank int
	name string
}

// Decorate must stay silent: the keys are looked up once into a slice of (rank, name) pairs, the
// pairs are sorted by both fields, and the names are written back slot by slot.
func Decorate(m map[string]int, rank map[string]int) []string {
	var ks []string
	for k := range m {
		ks = append(ks, k)
	}
	ps := make([]rankedName, len(ks))
	for i, k := range ks {
		ps[i] = rankedName{rank: rank[k], name: k}
	}
	sort.Slice(ps, func(i, j int) bool {
		if ps[i].rank != ps[j].rank {
			return ps[i].rank < ps[j].rank
		}
		return ps[i].name < ps[j].name
	})
	for i, p := range ps {
		ks[i] = p.name
	}
	return ks
}

// DecoratePartial must be reported: the pairs are ordered by rank only.
func DecoratePartial(m map[string]int, rank map[string]int) []string {
	var ks []string
	for k := range m {
		ks = append(ks, k)
	}
	ps := make([]rankedName, len(ks))
	for i, k := range ks {
		ps[i] = rankedName{rank: rank[k], name: k}
	}
	sort.Slice(ps, func(i, j int) bool { return ps[i].rank < ps[j].rank })
	for i, p := range ps {
		ks[i] = p.name
	}
	return ks
}

// DecorateHalf must be reported: only a part of the names is overwritten from the sorted pairs.
func DecorateHalf(m map[string]int, rank map[string]int) []string {
	var ks []string
	for k := range m {
		ks = append(ks, k)
	}
	ps := make([]rankedName, len(ks)/2)
	for i, k := range ks {
		if i < len(ps) {
			ps[i] = rankedName{rank: rank[k], name: k}
		}
	}
	sort.Slice(ps, func(i, j int) bool {
		if ps[i].rank != ps[j].rank {
			return ps[i].rank < ps[j].rank
		}
		return ps[i].name < ps[j].name
	})
	for i, p := range ps {
		ks[i] = p.name
	}
	return ks
}

// DecorateForgotten must be reported: the pairs are sorted, the names are returned as they were.
func DecorateForgotten(m map[string]int, rank map[string]int) []string {
	var ks []string
	for k := range m {
		ks = append(ks, k)
	}
	ps := make([]rankedName, len(ks))
	for i, k := range ks {
		ps[i] = rankedName{rank: rank[k], name: k}
	}
	sort.Slice(ps, func(i, j int) bool {
		if ps[i].rank != ps[j].rank {
			return ps[i].rank < ps[j].rank
		}
		return ps[i].name < ps[j].name
	})
	return ks
}

// ImageUnsorted must be reported: the image of the unordered keys is returned unsorted.
func ImageUnsorted(m map[string]int) []int {
	var ks []string
	for k := range m {
		ks = append(ks, k)
	}
	var ls []int
	for _, k := range ks {
		ls = append(ls, len(k))
	}
	sort.Strings(ks)
	return ls
}

// NamedLess must stay silent: the comparison is bound to a name first; by rank, then by the element.
func NamedLess(m map[string]int) []string {
	var ks []string
	for k := range m {
		ks = append(ks, k)
	}
	byRankThenName := func(i, j int) bool {
		if m[ks[i]] != m[ks[j]] {
			return m[ks[i]] < m[ks[j]]
		}
		return ks[i] < ks[j]
	}
	sort.Slice(ks, byRankThenName)
	return ks
}

// NamedLessPartial must be reported: the named comparison stops at the rank.
func NamedLessPartial(m map[string]int) []string {
	var ks []string
	for k := range m {
		ks = append(ks, k)
	}
	byRank := func(i, j int) bool { return m[ks[i]] < m[ks[j]] }
	sort.Slice(ks, byRank)
	return ks
}

// NamedPeek must be reported: the function bound to a name reads the unsorted slice before the sort.
func NamedPeek(m map[string]int) (string, []string) {
	var ks []string
	for k := range m {
		ks = append(ks, k)
	}
	head := func() string { return ks[0] }
	h := head()
	sort.Strings(ks)
	return h, ks
}

// GuardMinMax must stay silent: MinMax with the else branch written as a guard that continues.
func GuardMinMax(m map[string]box) (res box) {
	first := true
	for _, b := range m {
		if b.lo > b.hi {
			continue
		}
		if !first {
			res.Extend(b)
			continue
		}
		res = b
		first = false
	}
	return res
}

// GuardLast must be reported: behind the guard the last entry delivered wins.
func GuardLast(m map[string]box) (res box) {
	for _, b := range m {
		if b.lo > b.hi {
			continue
		}
		res = b
	}
	return res
}

func ranks(names []string, enc []string) map[string]int {
	r := make(map[string]int, len(names))
	for _, n := range names {
		r[n] = 256
	}
	for i, n := range enc {
		if n == "" {
			continue
		}
		r[n] = i
	}
	return r
}

// PassedOrderFree must stay silent: the unsorted keys are handed to a function that only makes keyed writes.
func PassedOrderFree(m map[string]int, enc []string) []string {
	var ks []string
	for k := range m {
		ks = append(ks, k)
	}
	rank := ranks(ks, enc)
	slices.SortFunc(ks, func(a, b string) int {
		if c := cmp.Compare(rank[a], rank[b]); c != 0 {
			return c
		}
		return cmp.Compare(a, b)
	})
	return ks
}

func joined(names []string) string {
	s := ""
	for _, n := range names {
		s += n
	}
	return s
}

// PassedOrdered must be reported: the function the unsorted keys are handed to concatenates them.
func PassedOrdered(m map[string]int) (string, []string) {
	var ks []string
	for k := range m {
		ks = append(ks, k)
	}
	h := joined(ks)
	sort.Strings(ks)
	return h, ks
}

// sortedOf must stay silent: the natural order of a type parameter constrained to ordered types.
func sortedOf[K cmp.Ordered, V any](m map[K]V) []K {
	var ks []K
	for k := range m {
		ks = append(ks, k)
	}
	slices.Sort(ks)
	return ks
}

// GenericSorted must stay silent.
func GenericSorted(m map[string]int) []string { return sortedOf(m) }

// fbox is a box of floating-point numbers: with a NaN coordinate the comparisons below are all
// false, so what Extend leaves in the accumulator depends on the order of the calls.
type fbox struct{ lo, hi float64 }

func (b *fbox) Extend(o fbox) {
	if o.lo < b.lo {
		b.lo = o.lo
	}
	if o.hi > b.hi {
		b.hi = o.hi
	}
}

// FloatMinMax must be reported: a floating-point min/max reducer over a map is order-dependent
// (NaN), unlike the integer one of MinMax.
func FloatMinMax(m map[string]fbox) (res fbox) {
	first := true
	for _, b := range m {
		if first {
			res = b
			first = false
		} else {
			res.Extend(b)
		}
	}
	return res
}
