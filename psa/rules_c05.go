package main

import (
	"fmt"
	"go/ast"
	"go/token"
	"go/types"
	"strings"

	"golang.org/x/tools/go/ssa"
)

// C05 — eexec sections are transparent.  Rule family A7 CIPHER.

func init() {
	register(&propCheck{
		id:    "C05",
		title: "eexec-encrypted program sections are transparent",
		explanation: "Decides the table/shape clauses of C05: the cipher constants equal the Adobe values (55665, 52845, 22719, four lead bytes) in both packages; the decryption step is plain = cipher ^ (r>>8), r = (cipher + r)*c1 + c2 with the *cipher* byte fed back (the function that advances the 16-bit state is evaluated on the SSA form over symbols r and c; the result and the stored state are compared with the specification as normal forms over Z/2^16 or, where the forms differ, for all 2^24 values — indifferent to extraction into a pure function, temporaries, operand order, expansion); " +
			"the white space skipped before the ciphertext is exactly {space, tab, CR, LF}; the section is taken as hexadecimal iff all of the first four bytes are hex digits; exactly four decrypted bytes are discarded; the two hex de-armouring classifiers (hex strings, hex eexec) assign every byte value the same class and digit value as the specification (skip ≤ 32 at any position, [0-9A-Fa-f], error otherwise); " +
			"the eexec operator, evaluated as a decision table (start of decryption succeeds/fails × the section ends with nil, io.EOF, another error, every error value the operator names × the section leaves the dictionary stack higher, equal, lower): it runs the section on the scanner on top of the scanner stack with systemdict pushed, treats exactly nil and io.EOF as the end of the section, and on every normal completion has ended decryption and cut the dictionary stack back to what it was before the push; closefile returns io.EOF; readstring consumes exactly one delimiter byte and then reads raw bytes from the scanner on top of the scanner stack. " +
			"It does NOT decide equality of effects with the plaintext run nor the peek/replay behaviour across buffer refills.",
		trusted:     []string{"go/types constant evaluation", "decision-table evaluation on go/ssa (ssaeval.go)", "normal form of integer terms over Z/2^w and exhaustive term comparison (ext_b.go)"},
		assumptions: nil,
		run:         runC05,
	})
}

var hexOracle = func() (cls [256]string) {
	for b := 0; b < 256; b++ {
		switch {
		case b >= '0' && b <= '9':
			cls[b] = fmt.Sprintf("digit %d", b-'0')
		case b >= 'A' && b <= 'F':
			cls[b] = fmt.Sprintf("digit %d", b-'A'+10)
		case b >= 'a' && b <= 'f':
			cls[b] = fmt.Sprintf("digit %d", b-'a'+10)
		case b <= 32:
			cls[b] = "skip"
		default:
			cls[b] = "error"
		}
	}
	return
}()

func isHexDigit(b int) bool {
	return b >= '0' && b <= '9' || b >= 'a' && b <= 'f' || b >= 'A' && b <= 'F'
}

func (c *Ctx) cipherConstants() {
	type kc struct {
		pkg, name string
		want      int64
	}
	for _, k := range []kc{{"postscript", "eexecR", 55665}, {"postscript", "eexecC1", 52845}, {"postscript", "eexecC2", 22719}, {"postscript", "eexecN", 4},
		{"type1", "eexecR0", 55665}, {"type1", "eexecC1", 52845}, {"type1", "eexecC2", 22719}} {
		got := c.constInt(k.pkg, k.name)
		c.check(got == k.want, "CIPHER-CONST", k.pkg+"."+k.name, fmt.Sprintf("= %d (Adobe Type 1 Font Format, ch. 7)", k.want), token.NoPos, fmt.Sprint(got), fmt.Sprintf("cipher constant %s.%s is %d, the specification says %d", k.pkg, k.name, got, k.want))
	}
}

func runC05(c *Ctx) {
	c.cipherConstants()
	// ---- decryption step of the scanner (ext_b.go): decided on the evaluator for symbolic state and byte
	c.cipherDecryptStepB()

	// ---- BeginEexec: white space, hex detection, lead bytes
	c.beginEexecTable()

	// ---- hex classifiers
	c.hexClassifier("postscript", "scanner", "ReadHexString", true)
	c.hexClassifier("postscript", "scanner", "readByteEexec", false)

	// ---- the eexec operator
	c.eexecOperator()

	// ---- the bytes peeked for the hex/binary decision are replayed, and the hand-over back to
	// clear text happens at the right byte, only if the scanner's buffer positions stay inside the
	// buffer across refills: 0 <= pos <= used <= len(buf) at every function boundary (CLASS-INV,
	// same verification as C01; a position moved back across a refill breaks it)
	c.initFactEngine()
}

// singleByteVar: the expression mentions exactly one variable, of type byte.
func singleByteVar(info *types.Info, e ast.Expr) types.Object {
	var v types.Object
	n := 0
	ast.Inspect(e, func(x ast.Node) bool {
		if id, ok := x.(*ast.Ident); ok {
			if o, ok := info.ObjectOf(id).(*types.Var); ok {
				if v != o {
					v = o
					n++
				}
			}
		}
		return true
	})
	if n != 1 {
		return nil
	}
	if b, ok := v.Type().Underlying().(*types.Basic); !ok || b.Kind() != types.Uint8 {
		return nil
	}
	return v
}

// hexClassifier evaluates the tagless switch of a hex reader for all bytes.
func (c *Ctx) hexClassifier(pkg, recv, name string, hasTerminator bool) {
	// The function is evaluated on the SSA form with an input that starts with the byte under
	// test followed by the digits 1 2 (and the terminator '>'); what comes back tells how the
	// byte was classified: skipped (the result is 0x12), a digit of value v (0xv1 …), or an error.
	fn := c.method(pkg, recv, name)
	fname := pkg + ".(*" + recv + ")." + name
	scT := c.typeObj(pkg, recv)
	modeF := c.fld("scanner.eexec")
	var lead []byte
	own := c.privateHelpersB(fn) // pieces of fn that were extracted are evaluated in place
	// the decryption step (the function that advances the cipher state, decided by CIPHER-SHAPE) may be
	// applied by the hex reader itself or by its caller: for the classification it is the identity
	cipherStep := map[*ssa.Function]bool{}
	if direct, _ := c.stateWritersB(scT, c.fld("scanner.r")); !hasTerminator {
		for _, f := range direct {
			cipherStep[f] = true
		}
	}
	classify := func(b byte) (kind string, val int64, why string) {
		input := append(append([]byte{}, lead...), b, '1', '2', '>')
		if len(lead) > 0 {
			input = append(append([]byte{}, lead...), b, '2', '>')
		}
		pos := 0
		ev := &ssaEval{c: c, bind: map[ssa.Value]sv{}, mem: map[string]sv{}, flatEmbedded: true}
		ev.noInline = func(f *ssa.Function) bool {
			return !own[f] && f.Signature.Recv() != nil && pointsTo(f.Signature.Recv().Type(), scT)
		}
		ev.load = func(ld *ssa.UnOp, addr sv) (sv, bool) {
			if strings.HasSuffix(addr.s, "."+modeF) {
				return intV(1), true // hexadecimal form
			}
			if strings.HasPrefix(addr.s, "global:") {
				return symV(addr.s[strings.LastIndex(addr.s, ".")+1:]), true
			}
			return symV("v:" + addr.s), true
		}
		ev.call = func(call ssa.CallInstruction, args []sv) (sv, bool) {
			if call == nil {
				return sv{}, false
			}
			sc := call.Common().StaticCallee()
			if sc == nil || own[sc] {
				return sv{}, false
			}
			if cipherStep[sc] && sc.Signature.Results().Len() == 1 && isByteB(sc.Signature.Results().At(0).Type()) {
				for i, p := range sc.Params {
					if isByteB(p.Type()) && i < len(args) {
						return args[i], true
					}
				}
			}
			if sc.Signature.Recv() != nil && pointsTo(sc.Signature.Recv().Type(), scT) {
				res := sc.Signature.Results()
				switch {
				case res.Len() == 2 && sc.Signature.Params().Len() == 0: // next byte
					if pos >= len(input) {
						return sv{k: svTuple, tup: []sv{intV(0), symV("EOF")}}, true
					}
					pos++
					return sv{k: svTuple, tup: []sv{intV(int64(input[pos-1])), {k: svNil}}}, true
				case res.Len() == 1: // the opening delimiter was there
					return sv{k: svNil}, true
				}
				return sv{}, true
			}
			if strings.HasPrefix(callName(call), "fmt.") {
				return symV("errorvalue"), true
			}
			return sv{}, false
		}
		ev.oracle = func(op token.Token, x, y sv) (bool, bool) {
			if x.k == svNil && y.k == svNil {
				return op == token.EQL, true
			}
			if (x.k == svNil) != (y.k == svNil) {
				return op == token.NEQ, true
			}
			return false, false
		}
		ret := ev.runFunc(fn, []sv{{k: svAddr, s: "s"}})
		if len(ret) != 2 {
			return "?", 0, ev.why
		}
		if ret[1].k != svNil {
			return "error", 0, ""
		}
		switch r := ret[0]; {
		case r.k == svInt:
			val = r.i
		case r.k == svString && len(r.s) >= 1:
			val = int64(r.s[0])
		case r.k == svList:
			if el, ok := ev.elems(r); ok && len(el) >= 1 && el[0].k == svInt {
				val = el[0].i
			} else {
				return "?", 0, "result not evaluable"
			}
		default:
			return "?", 0, "result " + ev.render(r) + " " + ev.why
		}
		switch {
		case val == 0x12:
			return "skip", 0, ""
		case val&0x0f == 1:
			return "digit", val >> 4, ""
		}
		return "?", val, fmt.Sprintf("unexpected result %#x", val)
	}
	var diffs []string
	for b := 0; b < 256; b++ {
		if hasTerminator && b == '>' {
			continue
		}
		k, v, why := classify(byte(b))
		want, wv := "error", int64(0)
		switch {
		case b <= 32:
			want = "skip"
		case isHexDigit(b):
			want = "digit"
			switch {
			case b >= '0' && b <= '9':
				wv = int64(b - '0')
			case b >= 'a':
				wv = int64(b-'a') + 10
			default:
				wv = int64(b-'A') + 10
			}
		}
		if k != want || v != wv {
			diffs = append(diffs, fmt.Sprintf("byte %d is classified as %s (value %d) %s, the specification says %s (value %d)", b, k, v, why, want, wv))
		}
	}
	// white space is skipped between the two digits of a byte as well
	lead = []byte{'1'}
	for b := 0; b <= 32; b++ {
		if k, _, _ := classify(byte(b)); k != "skip" {
			diffs = append(diffs, fmt.Sprintf("byte %d between the two digits of a byte is not skipped", b))
		}
	}
	lead = nil
	c.check(len(diffs) == 0, "HEX-CLASS", fname, "every byte value classified as the specification says (skip ≤ 32, [0-9A-Fa-f] with its value, error otherwise)", fn.Pos(), "256 byte values evaluated, white space also between digits",
		"hexadecimal de-armouring: "+joinMax(diffs, 3))
}

func (c *Ctx) eexecOperator() {
	ia := c.interp()
	reg := c.registry()
	f := reg.op("systemdict", "eexec")
	fname := c.fname(f)
	// the operator is decided as a table on the evaluator (ext_b.go): every way the section can end
	// × what it left on the dictionary stack; helpers for the push / clean-up are evaluated in place
	c.eexecOperatorTableB("EEXEC-OP", false)
	// closefile returns io.EOF
	cf := reg.op("systemdict", "closefile")
	okEOF := false
	for _, r := range returns(cf) {
		if g := globalLoad(r.Results[0]); g != nil && g.Pkg.Pkg.Path() == "io" && g.Name() == "EOF" {
			okEOF = true
		}
	}
	c.check(okEOF, "EEXEC-OP", c.fname(cf), "closefile signals the end of the section with io.EOF", cf.Pos(), "returns io.EOF", "closefile no longer returns io.EOF, which eexec maps to normal completion")
	_ = fname
	c.scannerOperators(ia, reg, "EEXEC-OP", "eexec", "readstring")
}

// scannerOperators: eexec and readstring work on the scanner on top of the scanner stack;
// readstring skips exactly one byte (the blank after RD / -|) before the binary data.  Decided on
// the evaluator with a scanner stack of two scanners (ext_b.go, ext_x4.go): which scanner the
// operator starts decryption on and hands to the nested run, which scanner readstring asks for
// bytes and in which order — however the top of the stack is taken (index expression, helper).
func (c *Ctx) scannerOperators(ia *interpAnchors, reg *registry, rule string, ops ...string) {
	for _, op := range ops {
		g := reg.op("systemdict", op)
		switch op {
		case "eexec":
			o := c.eexecCellB(true, "nil", 0)
			okTop := o.why == "" && o.begun == 1 && o.begunOn == "scanner1" && o.runOn == "scanner1"
			c.check(okTop, rule, c.fname(g), op+" works on the scanner on top of the scanner stack", g.Pos(), "scanners[len-1]", op+" does not take its bytes from the current (decrypting) scanner "+o.why)
		default:
			o := c.readstringCellX4(g)
			okTop := o.why == "" && len(o.calls) > 0
			for _, k := range o.calls {
				if k.on != "scanner1" {
					okTop = false
				}
			}
			c.check(okTop, rule, c.fname(g), op+" works on the scanner on top of the scanner stack", g.Pos(), "scanners[len-1]", op+" does not take its bytes from the current (decrypting) scanner "+o.why)
			if okTop {
				var seq []string
				for _, k := range o.calls {
					seq = append(seq, k.what)
				}
				got := strings.Join(seq, ",")
				c.check(got == "next byte,read into the operand", rule, c.fname(g), "readstring skips exactly one delimiter byte, then reads raw bytes", g.Pos(), "Next, Read", "readstring asks the scanner for: "+got+"; binary data starting with white space or `%` would be misread unless exactly one byte is skipped and the rest is read into the string operand")
			}
		}
	}
}

// beginEexecTable evaluates scanner.BeginEexec on the SSA form for every byte value in the
// position of the first byte after `eexec` (is it skipped as white space?) and in each of the
// four positions inspected for the hex/binary decision, and counts the lead bytes discarded.
func (c *Ctx) beginEexecTable() {
	fn := c.method("postscript", "scanner", "BeginEexec")
	fname := "postscript.(*scanner).BeginEexec"
	scT := c.typeObj("postscript", "scanner")
	modeF := c.fld("scanner.eexec")
	keyF := c.fld("scanner.r")
	// the number of lead bytes the operator asks for: the argument with which the operator, evaluated
	// as in EEXEC-OP (ext_b.go), starts decryption — itself or in a helper
	ivLen := int64(-1)
	if o := c.eexecCellB(true, "nil", 0); o.begun == 1 && o.begunWith.k == svInt {
		ivLen = o.begunWith.i
	}
	type outcome struct {
		skipped  bool  // the first byte was skipped as white space
		mode     int64 // value stored into the mode field
		peeked   int64 // number of bytes asked of the look-ahead
		consumed int   // byte reads after the decision
		key      sv    // the cipher state when the first byte is read after the decision
		why      string
	}
	own := c.privateHelpersB(fn) // pieces of fn that were extracted are evaluated in place
	// the number of lead bytes is a parameter (then the operator's argument counts) or fixed in the function
	takesLen := len(fn.Params) > 1
	run := func(first byte, window string) outcome {
		var o outcome
		o.mode = -1
		ev := &ssaEval{c: c, bind: map[ssa.Value]sv{}, mem: map[string]sv{}, flatEmbedded: true}
		ev.noInline = func(f *ssa.Function) bool {
			return !own[f] && f.Signature.Recv() != nil && pointsTo(f.Signature.Recv().Type(), scT)
		}
		ev.load = func(ld *ssa.UnOp, addr sv) (sv, bool) {
			if strings.HasSuffix(addr.s, "."+modeF) {
				return intV(0), true
			}
			return symV("v:" + addr.s), true
		}
		nPeek := 0
		decided := false
		ev.call = func(call ssa.CallInstruction, args []sv) (sv, bool) {
			if call == nil {
				return sv{}, false
			}
			sc := call.Common().StaticCallee()
			if sc == nil || own[sc] || sc.Signature.Recv() == nil || !pointsTo(sc.Signature.Recv().Type(), scT) {
				return sv{}, false
			}
			res := sc.Signature.Results()
			par := sc.Signature.Params()
			switch {
			case res.Len() == 2 && par.Len() == 0: // a single byte: look-ahead before the decision, reads after it
				if decided {
					if o.consumed == 0 {
						o.key = ev.mem["s."+keyF]
					}
					o.consumed++
					return sv{k: svTuple, tup: []sv{intV(0), {k: svNil}}}, true
				}
				nPeek++
				b := first
				if nPeek > 1 {
					b = 'X'
				}
				return sv{k: svTuple, tup: []sv{intV(int64(b)), {k: svNil}}}, true
			case res.Len() == 0 && par.Len() == 0 && !decided: // skip one byte
				if nPeek == 1 {
					o.skipped = true
				}
				return sv{}, true
			case res.Len() == 1 && par.Len() == 1: // look-ahead of n bytes
				if len(args) == 2 && args[1].k == svInt {
					o.peeked = args[1].i
				}
				decided = true
				return sv{k: svString, s: window}, true
			}
			return sv{}, false
		}
		beginArgs := []sv{{k: svAddr, s: "s"}}
		if takesLen {
			beginArgs = append(beginArgs, intV(ivLen))
		}
		ret := ev.runFunc(fn, beginArgs)
		o.why = ev.why
		if len(ret) != 1 || ret[0].k != svNil {
			o.why += fmt.Sprintf(" returns %v", ret)
		}
		for _, ef := range ev.effects {
			if ef.what == "store" && strings.HasSuffix(ef.addr, "."+modeF) && ef.args[0].k == svInt {
				o.mode = ef.args[0].i
			}
		}
		return o
	}
	// white space before the ciphertext
	var skip [256]bool
	bad := ""
	for b := 0; b < 256; b++ {
		o := run(byte(b), "0000")
		if o.mode < 0 {
			bad = fmt.Sprintf("byte %d: BeginEexec could not be evaluated (%s)", b, o.why)
			break
		}
		skip[b] = o.skipped
	}
	wantWS := setOf(func(b int) bool { return b == ' ' || b == '\t' || b == '\r' || b == '\n' })
	c.check(bad == "" && skip == wantWS, "EEXEC-WS", fname, "white space skipped before the ciphertext = {space, tab, CR, LF}", fn.Pos(), setString(skip),
		fmt.Sprintf("the bytes skipped before the ciphertext are {%s}, the specification says {9,10,13,32}: a binary section whose first cipher byte is another control character would lose it %s", setString(skip), bad))
	// hex / binary
	hexMode, binMode := int64(-1), int64(-1)
	if o := run('X', "0000"); true {
		hexMode = o.mode
	}
	if o := run('X', "\x80\x80\x80\x80"); true {
		binMode = o.mode
	}
	bad = ""
	var nonHex [256]bool
	for pos := 0; pos < 4 && bad == ""; pos++ {
		for b := 0; b < 256; b++ {
			w := []byte("0a9F")
			w[pos] = byte(b)
			o := run('X', string(w))
			isBin := o.mode == binMode
			if o.mode != binMode && o.mode != hexMode {
				bad = fmt.Sprintf("byte %d in position %d: mode %d", b, pos, o.mode)
				break
			}
			if pos == 0 {
				nonHex[b] = isBin
			} else if nonHex[b] != isBin {
				bad = fmt.Sprintf("byte %d is judged differently in position %d than in position 0", b, pos)
				break
			}
		}
	}
	wantNH := setOf(func(b int) bool { return !isHexDigit(b) })
	c.check(bad == "" && hexMode != binMode && hexMode > 0 && binMode > 0 && nonHex == wantNH, "EEXEC-HEXDETECT", fname, "binary iff one of the first bytes is not in [0-9A-Fa-f]", fn.Pos(), "4 positions × 256 byte values evaluated",
		fmt.Sprintf("the set of bytes that make the section binary is {%s}, expected the complement of the hexadecimal digits %s", setString(nonHex), bad))
	o := run('X', "0000")
	passes := fmt.Sprintf("the operator passes %d", ivLen)
	if !takesLen {
		passes = "the operator passes no length"
	}
	c.check((ivLen == 4 || !takesLen) && o.peeked == 4, "EEXEC-HEXDETECT", fname, "the first four bytes are inspected", fn.Pos(), fmt.Sprintf("look-ahead of %d bytes", o.peeked), fmt.Sprintf("hex/binary detection looks at %d bytes (%s), the specification says 4", o.peeked, passes))
	c.check(o.key.k == svInt && o.key.i == 55665, "EEXEC-LEADBYTES", fname, "the cipher state is (re)set to 55665 before the first byte is decrypted", fn.Pos(), "state at the first decrypted read: "+o.key.String(), "when the first lead byte is decrypted the cipher state is "+o.key.String()+", the specification says 55665 (a second eexec section on the same input would continue with a stale state)")
	c.check(o.consumed == 4, "EEXEC-LEADBYTES", fname, "exactly four decrypted lead bytes are discarded", fn.Pos(), fmt.Sprintf("%d reads after the decision", o.consumed), fmt.Sprintf("BeginEexec discards %d decrypted bytes, the specification says 4", o.consumed))
}
