package main

import (
	"fmt"
	"go/ast"
	"go/token"
	"go/types"
	"strings"

	"golang.org/x/tools/go/ssa"
)

// C05 — eexec sections are transparent.  Rule family A7 CIPHER.

func init() {
	register(&propCheck{
		id:    "C05",
		title: "eexec-encrypted program sections are transparent",
		explanation: "Decides the table/shape clauses of C05: the cipher constants equal the Adobe values (55665, 52845, 22719, four lead bytes) in both packages; the decryption step is plain = cipher ^ (r>>8), r = (cipher + r)*c1 + c2 with the *cipher* byte fed back (symbolic term comparison, insensitive to operand order and temporaries); " +
			"the white space skipped before the ciphertext is exactly {space, tab, CR, LF}; the section is taken as hexadecimal iff all of the first four bytes are hex digits; exactly four decrypted bytes are discarded; the two hex de-armouring classifiers (hex strings, hex eexec) assign every byte value the same class and digit value as the specification (skip ≤ 32 at any position, [0-9A-Fa-f], error otherwise); " +
			"the eexec operator pushes systemdict, refuses nesting, treats exactly io.EOF from closefile as the end of the section, and on every path to normal completion ends decryption and restores the dictionary stack to the length captured before the push; closefile returns io.EOF; readstring consumes exactly one delimiter byte and then reads raw bytes from the scanner on top of the scanner stack. " +
			"It does NOT decide equality of effects with the plaintext run nor the peek/replay behaviour across buffer refills.",
		trusted:     []string{"go/types constant evaluation", "term canonicalisation in /verif/psa/symterm.go", "byte-domain evaluation of comparison-only predicates (asteval.go)"},
		assumptions: nil,
		run:         runC05,
	})
}

const (
	termOUT  = "xor(in,u8(shr(r,8)))"
	termRDEC = "add(22719,mul(52845,add(r,u16(in))))"
	termRENC = "add(22719,mul(52845,add(r,u16(" + termOUT + "))))"
)

var hexOracle = func() (cls [256]string) {
	for b := 0; b < 256; b++ {
		switch {
		case b >= '0' && b <= '9':
			cls[b] = fmt.Sprintf("digit %d", b-'0')
		case b >= 'A' && b <= 'F':
			cls[b] = fmt.Sprintf("digit %d", b-'A'+10)
		case b >= 'a' && b <= 'f':
			cls[b] = fmt.Sprintf("digit %d", b-'a'+10)
		case b <= 32:
			cls[b] = "skip"
		default:
			cls[b] = "error"
		}
	}
	return
}()

func isHexDigit(b int) bool {
	return b >= '0' && b <= '9' || b >= 'a' && b <= 'f' || b >= 'A' && b <= 'F'
}

// findStmt returns the first node of the wanted kind in body satisfying pred.
func findNode[T ast.Node](body ast.Node, pred func(T) bool) (res T, ok bool) {
	ast.Inspect(body, func(n ast.Node) bool {
		if ok {
			return false
		}
		if t, isT := n.(T); isT && pred(t) {
			res, ok = t, true
			return false
		}
		return true
	})
	return
}

func (c *Ctx) cipherConstants() {
	type kc struct {
		pkg, name string
		want      int64
	}
	for _, k := range []kc{{"postscript", "eexecR", 55665}, {"postscript", "eexecC1", 52845}, {"postscript", "eexecC2", 22719}, {"postscript", "eexecN", 4},
		{"type1", "eexecR0", 55665}, {"type1", "eexecC1", 52845}, {"type1", "eexecC2", 22719}} {
		got := c.constInt(k.pkg, k.name)
		c.check(got == k.want, "CIPHER-CONST", k.pkg+"."+k.name, fmt.Sprintf("= %d (Adobe Type 1 Font Format, ch. 7)", k.want), token.NoPos, fmt.Sprint(got), fmt.Sprintf("cipher constant %s.%s is %d, the specification says %d", k.pkg, k.name, got, k.want))
	}
}

// charstringKey checks that fn declares its cipher state with 4330.
func (c *Ctx) charstringKey(fd *ast.FuncDecl, info *types.Info, fname string) (stateVar types.Object) {
	found := false
	ast.Inspect(fd.Body, func(n ast.Node) bool {
		vs, ok := n.(*ast.ValueSpec)
		if !ok || len(vs.Names) != 1 || len(vs.Values) != 1 {
			return true
		}
		if b, ok := info.TypeOf(vs.Names[0]).Underlying().(*types.Basic); !ok || b.Kind() != types.Uint16 {
			return true
		}
		if v, ok := constIntOf(info, vs.Values[0]); ok && v == 4330 {
			found = true
			stateVar = info.Defs[vs.Names[0]]
		}
		return true
	})
	c.check(found, "CIPHER-CONST", fname, "charstring key = 4330", fd.Pos(), "uint16 state initialised with 4330", "the charstring cipher state is not initialised with 4330")
	return
}

func runC05(c *Ctx) {
	c.cipherConstants()
	ps := c.pkg("postscript")
	info := ps.TypesInfo

	// ---- decryption step of the scanner
	{
		fd := c.funcDecl("postscript", "scanner", "eexecDecode")
		fname := "postscript.(*scanner).eexecDecode"
		env := &symEnv{info: info, vars: map[string]string{}}
		env.bind(fd.Type.Params.List[0].Names[0], "in")
		// state: the uint16 field of the receiver
		recv := fd.Recv.List[0].Names[0]
		var stateSel *ast.SelectorExpr
		ast.Inspect(fd.Body, func(n ast.Node) bool {
			if se, ok := n.(*ast.SelectorExpr); ok {
				if id, ok := se.X.(*ast.Ident); ok && info.ObjectOf(id) == info.ObjectOf(recv) {
					if b, ok := info.TypeOf(se).Underlying().(*types.Basic); ok && b.Kind() == types.Uint16 {
						stateSel = se
					}
				}
			}
			return true
		})
		if stateSel == nil {
			c.fail("CIPHER-SHAPE", fname, "16-bit cipher state", fd.Pos(), "eexecDecode does not use a uint16 state field of the scanner")
		} else {
			env.bind(stateSel, "r")
			env.exec(fd.Body.List)
			out := "?"
			if ret, ok := findNode(fd.Body, func(r *ast.ReturnStmt) bool { return len(r.Results) == 1 }); ok {
				// the returned expression is evaluated in the state *at the return*; if it is a variable it was bound earlier
				out = env.term(ret.Results[0])
			}
			k, _ := env.key(stateSel)
			c.check(out == termOUT, "CIPHER-SHAPE", fname, "plain = cipher ^ (r >> 8)", fd.Pos(), out, "the decrypted byte is computed as "+out+", expected "+termOUT)
			c.check(env.vars[k] == termRDEC, "CIPHER-SHAPE", fname, "r = (cipher + r)*c1 + c2 (cipher byte fed back)", fd.Pos(), env.vars[k], "the cipher state update is "+env.vars[k]+", expected "+termRDEC+" (the ciphertext byte, not the plaintext, is fed back)")
		}
	}

	// ---- BeginEexec: white space, hex detection, lead bytes
	{
		fd := c.funcDecl("postscript", "scanner", "BeginEexec")
		fname := "postscript.(*scanner).BeginEexec"
		peek := c.method("postscript", "scanner", "Peek")
		_ = peek
		// the first for loop: contains an if … break over a byte variable obtained from Peek
		var wsIf *ast.IfStmt
		var wsVar types.Object
		var hexIf *ast.IfStmt
		var hexVar types.Object
		ast.Inspect(fd.Body, func(n ast.Node) bool {
			switch n := n.(type) {
			case *ast.ForStmt:
				if wsIf == nil && n.Cond == nil {
					for _, st := range n.Body.List {
						if ifs, ok := st.(*ast.IfStmt); ok && len(ifs.Body.List) == 1 {
							if br, ok := ifs.Body.List[0].(*ast.BranchStmt); ok && br.Tok == token.BREAK {
								if v := singleByteVar(info, ifs.Cond); v != nil {
									wsIf, wsVar = ifs, v
								}
							}
						}
					}
				}
			case *ast.RangeStmt:
				if hexIf == nil {
					if id, ok := n.Value.(*ast.Ident); ok {
						v := info.ObjectOf(id)
						for _, st := range n.Body.List {
							if ifs, ok := st.(*ast.IfStmt); ok {
								if vv := singleByteVar(info, ifs.Cond); vv == v {
									hexIf, hexVar = ifs, v
								}
							}
						}
					}
				}
			}
			return true
		})
		if wsIf == nil {
			c.fail("EEXEC-WS", fname, "white space before the ciphertext", fd.Pos(), "the loop skipping white space before the encrypted data was not found")
		} else {
			brk, err := byteSet(info, wsIf.Cond, wsVar)
			var skip [256]bool
			for i := range brk {
				skip[i] = !brk[i]
			}
			want := setOf(func(b int) bool { return b == ' ' || b == '\t' || b == '\r' || b == '\n' })
			c.check(err == nil && skip == want, "EEXEC-WS", fname, "white space skipped before the ciphertext = {space, tab, CR, LF}", wsIf.Pos(), setString(skip),
				fmt.Sprintf("the bytes skipped before the ciphertext are {%s}, the specification says {9,10,13,32}: a binary section whose first cipher byte is another control character would lose it (%v)", setString(skip), err))
		}
		if hexIf == nil {
			c.fail("EEXEC-HEXDETECT", fname, "hex/binary detection", fd.Pos(), "the loop classifying the first bytes as hexadecimal digits was not found")
		} else {
			nonHex, err := byteSet(info, hexIf.Cond, hexVar)
			want := setOf(func(b int) bool { return !isHexDigit(b) })
			c.check(err == nil && nonHex == want, "EEXEC-HEXDETECT", fname, "binary iff one of the first bytes is not in [0-9A-Fa-f]", hexIf.Pos(), "non-hex set = complement of [0-9A-Fa-f]",
				fmt.Sprintf("the set of bytes that make the section binary is {%s}, expected the complement of the hexadecimal digits (%v)", setString(nonHex), err))
			// the assignment under the condition sets the binary flag
		}
		// number of peeked bytes and of discarded bytes
		f := c.method("postscript", "scanner", "BeginEexec")
		peekN := c.method("postscript", "scanner", "PeekN")
		okPeek := false
		for _, call := range staticCalls(f, peekN) {
			if _, isParam := origin(call.Common().Args[1]).(*ssa.Parameter); isParam {
				okPeek = true
			}
			if k, isC := constInt(call.Common().Args[1]); isC && k == 4 {
				okPeek = true
			}
		}
		eexecFn := c.registry().op("systemdict", "eexec")
		okArg := false
		for _, call := range staticCalls(eexecFn, f) {
			if k, isC := constInt(call.Common().Args[1]); isC && k == 4 {
				okArg = true
			}
		}
		c.check(okPeek && okArg, "EEXEC-HEXDETECT", fname, "the first four bytes are inspected", fd.Pos(), "PeekN(ivLen) with ivLen = 4", "hex/binary detection does not look at exactly the first four bytes")
		// discard loop: counted loop with constant bound 4 calling Next
		next := c.method("postscript", "scanner", "Next")
		okSkip := false
		for _, call := range staticCalls(f, next) {
			if !inCycle(call.Block()) {
				continue
			}
			for b := range loopBlocks(call.Block()) {
				if ifi, ok := b.Instrs[len(b.Instrs)-1].(*ssa.If); ok {
					if m, ok := asCmp(cond{ifi.Cond, true, b}); ok && m.op == token.LSS {
						if k, isC := constInt(m.y); isC && k == 4 {
							if phi, ok := m.x.(*ssa.Phi); ok && len(phi.Edges) == 2 {
								okSkip = true
							}
						}
						if _, isParam := origin(m.y).(*ssa.Parameter); isParam && okArg {
							okSkip = true
						}
					}
				}
			}
		}
		c.check(okSkip, "EEXEC-LEADBYTES", fname, "exactly four decrypted lead bytes are discarded", fd.Pos(), "counted loop i < 4 around Next()", "BeginEexec does not discard exactly four decrypted bytes")
	}

	// ---- hex classifiers
	c.hexClassifier("postscript", "scanner", "ReadHexString", true)
	c.hexClassifier("postscript", "scanner", "readByteEexec", false)

	// ---- the eexec operator
	c.eexecOperator()
}

// singleByteVar: the expression mentions exactly one variable, of type byte.
func singleByteVar(info *types.Info, e ast.Expr) types.Object {
	var v types.Object
	n := 0
	ast.Inspect(e, func(x ast.Node) bool {
		if id, ok := x.(*ast.Ident); ok {
			if o, ok := info.ObjectOf(id).(*types.Var); ok {
				if v != o {
					v = o
					n++
				}
			}
		}
		return true
	})
	if n != 1 {
		return nil
	}
	if b, ok := v.Type().Underlying().(*types.Basic); !ok || b.Kind() != types.Uint8 {
		return nil
	}
	return v
}

// hexClassifier evaluates the tagless switch of a hex reader for all bytes.
func (c *Ctx) hexClassifier(pkg, recv, name string, hasTerminator bool) {
	fd := c.funcDecl(pkg, recv, name)
	info := c.info(pkg)
	fname := pkg + ".(*" + recv + ")." + name
	var sw *ast.SwitchStmt
	ast.Inspect(fd.Body, func(n ast.Node) bool {
		if s, ok := n.(*ast.SwitchStmt); ok && s.Tag == nil && sw == nil && len(s.Body.List) >= 4 {
			sw = s
		}
		return true
	})
	if sw == nil {
		c.fail("HEX-CLASS", fname, "byte classifier", fd.Pos(), "the switch classifying input bytes was not found")
		return
	}
	// the byte variable: the one compared in most cases
	var bvar types.Object
	for _, cc := range sw.Body.List {
		for _, e := range cc.(*ast.CaseClause).List {
			if v := singleByteVar(info, e); v != nil {
				bvar = v
			}
		}
	}
	if bvar == nil {
		c.fail("HEX-CLASS", fname, "byte classifier", sw.Pos(), "no byte variable found in the classifier")
		return
	}
	// error variables are nil on the classified path
	errVars := map[types.Object]bool{}
	ast.Inspect(fd.Body, func(n ast.Node) bool {
		if id, ok := n.(*ast.Ident); ok {
			if v, ok := info.ObjectOf(id).(*types.Var); ok && types.Identical(v.Type(), types.Universe.Lookup("error").Type()) {
				errVars[v] = true
			}
		}
		return true
	})
	var got [256]string
	var evalErrMsg string
	for b := 0; b < 256; b++ {
		func() {
			defer func() {
				if r := recover(); r != nil {
					if e, ok := r.(evalErr); ok {
						evalErrMsg = e.msg
						got[b] = "undecided"
						return
					}
					panic(r)
				}
			}()
			env := &aenv{info: info, vars: map[types.Object]aval{bvar: {i: int64(b)}}}
			for v := range errVars {
				env.vars[v] = aval{i: 0}
			}
			env.vars[types.Universe.Lookup("nil")] = aval{i: 0}
			var out outcome
			left := env.stmt(sw, true, &out)
			switch {
			case left && out.kind == "continue":
				got[b] = "skip"
			case left && out.kind == "break":
				got[b] = "end"
			case left && out.kind == "return":
				got[b] = "error"
			default:
				// which variable was assigned a digit value?
				got[b] = "other"
				for _, st := range out.stmts {
					if as, ok := st.(*ast.AssignStmt); ok && len(as.Lhs) == 1 {
						if id, ok := as.Lhs[0].(*ast.Ident); ok {
							if v, has := env.vars[info.ObjectOf(id)]; has {
								got[b] = fmt.Sprintf("digit %d", v.i)
							}
						}
					}
				}
			}
		}()
	}
	var diffs []string
	for b := 0; b < 256; b++ {
		want := hexOracle[b]
		if hasTerminator && b == '>' {
			want = "end"
		}
		if got[b] != want {
			diffs = append(diffs, fmt.Sprintf("byte %d: %s (expected %s)", b, got[b], want))
		}
	}
	detail := ""
	if len(diffs) > 0 {
		detail = joinMax(diffs, 4)
		if evalErrMsg != "" {
			detail += " [" + evalErrMsg + "]"
		}
	}
	c.check(len(diffs) == 0, "HEX-CLASS", fname, "every byte value classified as the specification says (skip ≤ 32, [0-9A-Fa-f] with its value, error otherwise)", sw.Pos(), "256 byte values evaluated",
		"the hexadecimal classifier deviates from the specification: "+detail)
	// white space may occur at any position: the skip case does not depend on other state
	for _, cc := range sw.Body.List {
		cl := cc.(*ast.CaseClause)
		if len(cl.Body) == 1 {
			if br, ok := cl.Body[0].(*ast.BranchStmt); ok && br.Tok == token.CONTINUE {
				for _, e := range cl.List {
					if singleByteVar(info, e) == nil {
						c.fail("HEX-CLASS", fname, "white space accepted at every position", cl.Pos(), "the white-space case `"+types.ExprString(e)+"` depends on more than the byte itself: white space between the two digits of a byte (or elsewhere) is not skipped")
					}
				}
			}
		}
	}
}

func (c *Ctx) eexecOperator() {
	ia := c.interp()
	reg := c.registry()
	f := reg.op("systemdict", "eexec")
	fname := c.fname(f)
	// push of SystemDict
	var push *ssa.Store
	var savedLen ssa.Value
	eachInstr(f, func(ins ssa.Instruction) {
		st, ok := ins.(*ssa.Store)
		if !ok || !isFieldAddr(st.Addr, ia.T, "DictStack") {
			return
		}
		if call, ok := st.Val.(*ssa.Call); ok {
			if b, ok := call.Common().Value.(*ssa.Builtin); ok && b.Name() == "append" {
				if sl, ok := call.Common().Args[1].(*ssa.Slice); ok {
					if al, ok := sl.X.(*ssa.Alloc); ok {
						for _, r := range *al.Referrers() {
							if ix, ok := r.(*ssa.IndexAddr); ok {
								for _, rr := range *ix.Referrers() {
									if s2, ok := rr.(*ssa.Store); ok && isFieldLoad(s2.Val, ia.T, "SystemDict") {
										push = st
									}
								}
							}
						}
					}
				}
			}
		}
	})
	c.check(push != nil, "EEXEC-OP", fname, "systemdict pushed on the dictionary stack", f.Pos(), "DictStack = append(DictStack, SystemDict)", "eexec does not push the system dictionary")
	if push == nil {
		return
	}
	// saved length: a len(DictStack) computed before the push
	eachInstr(f, func(ins ssa.Instruction) {
		if call, ok := ins.(*ssa.Call); ok {
			if b, ok := call.Common().Value.(*ssa.Builtin); ok && b.Name() == "len" && isFieldLoad(call.Common().Args[0], ia.T, "DictStack") && dominatesInstr(call, push) {
				savedLen = call
			}
		}
	})
	endE := c.method("postscript", "scanner", "EndEexec")
	run := staticCalls(f, ia.execScanner)
	if len(run) != 1 {
		c.fail("EEXEC-OP", fname, "encrypted section executed", f.Pos(), "expected one call of executeScanner in eexec")
		return
	}
	okAll := true
	why := ""
	nret := 0
	for _, r := range returns(f) {
		if !isNilConst(r.Results[0]) || !dominatesInstr(run[0], r) {
			continue
		}
		nret++
		ended := false
		for _, call := range staticCalls(f, endE) {
			if dominatesInstr(call, r) {
				ended = true
			}
		}
		restored := false
		eachInstr(f, func(ins ssa.Instruction) {
			st, ok := ins.(*ssa.Store)
			if !ok || st == push || !isFieldAddr(st.Addr, ia.T, "DictStack") || !dominatesInstr(st, r) || !dominatesInstr(run[0], st) {
				return
			}
			if sl, ok := st.Val.(*ssa.Slice); ok && sl.Low == nil && sl.High != nil && savedLen != nil && origin(sl.High) == savedLen && isFieldLoad(sl.X, ia.T, "DictStack") {
				restored = true
			}
		})
		if !ended {
			okAll, why = false, "decryption is not switched off (EndEexec) before eexec completes normally"
		}
		if !restored {
			okAll, why = false, "the dictionary stack is not cut back to the length captured before systemdict was pushed (DictStack[:k]); a section that leaves `begin`s open or executes an extra `end` changes the stack for the clear text that follows"
		}
	}
	c.check(okAll && nret > 0, "EEXEC-OP", fname, "on normal completion: decryption ended, dictionary stack restored to the captured length", run[0].Pos(), "EndEexec and DictStack = DictStack[:k] dominate return nil", why)
	// closefile returns io.EOF
	cf := reg.op("systemdict", "closefile")
	okEOF := false
	for _, r := range returns(cf) {
		if g := globalLoad(r.Results[0]); g != nil && g.Pkg.Pkg.Path() == "io" && g.Name() == "EOF" {
			okEOF = true
		}
	}
	c.check(okEOF, "EEXEC-OP", c.fname(cf), "closefile signals the end of the section with io.EOF", cf.Pos(), "returns io.EOF", "closefile no longer returns io.EOF, which eexec maps to normal completion")
	// eexec maps exactly io.EOF to completion: the error of executeScanner is compared with io.EOF and nil only
	if e, ok := run[0].(*ssa.Call); ok {
		okCmp := true
		for _, r := range *e.Referrers() {
			if bo, ok := r.(*ssa.BinOp); ok && (bo.Op == token.NEQ || bo.Op == token.EQL) {
				other := bo.Y
				if bo.Y == ssa.Value(e) {
					other = bo.X
				}
				if !isNilConst(other) && !(isEOFGlobal(other) && globalLoad(other).Name() == "EOF") {
					okCmp = false
				}
			}
		}
		c.check(okCmp, "EEXEC-OP", fname, "only io.EOF is treated as the end of the section", e.Pos(), "compared with nil and io.EOF only", "eexec treats an error other than io.EOF as normal completion")
	}
	c.scannerOperators(ia, reg, "EEXEC-OP", "eexec", "readstring")
}

// scannerOperators: eexec and readstring work on the scanner on top of the scanner stack;
// readstring skips exactly one byte (the blank after RD / -|) before the binary data.
func (c *Ctx) scannerOperators(ia *interpAnchors, reg *registry, rule string, ops ...string) {
	for _, op := range ops {
		g := reg.op("systemdict", op)
		okTop := false
		var scannerVal ssa.Value
		eachInstr(g, func(ins ssa.Instruction) {
			if ld, ok := ins.(*ssa.UnOp); ok && ld.Op == token.MUL {
				if ix, ok := ld.X.(*ssa.IndexAddr); ok && isFieldLoad(ix.X, ia.T, c.fld("intp.scanners")) {
					if bo, ok := ix.Index.(*ssa.BinOp); ok && bo.Op == token.SUB && lenOfField(bo.X, ia.T, c.fld("intp.scanners")) {
						if k, isC := constInt(bo.Y); isC && k == 1 {
							okTop = true
							scannerVal = ld
						}
					}
				}
			}
		})
		c.check(okTop, rule, c.fname(g), op+" works on the scanner on top of the scanner stack", g.Pos(), "scanners[len-1]", op+" does not take its bytes from the current (decrypting) scanner")
		if op == "readstring" && scannerVal != nil {
			// calls on the scanner, in order
			var seq []string
			eachInstr(g, func(ins ssa.Instruction) {
				if call, ok := ins.(ssa.CallInstruction); ok {
					if sc := call.Common().StaticCallee(); sc != nil && sc.Signature.Recv() != nil && len(call.Common().Args) > 0 && call.Common().Args[0] == scannerVal {
						seq = append(seq, sc.Name())
					}
				}
			})
			c.check(strings.Join(seq, ",") == "Next,Read", rule, c.fname(g), "readstring skips exactly one delimiter byte, then reads raw bytes", g.Pos(), "Next, Read", "readstring calls "+strings.Join(seq, ",")+" on the scanner; binary data starting with white space or `%` would be misread unless exactly one byte is skipped")
		}
	}
}
