package main

import (
	"fmt"
	"go/token"
	"strings"

	"golang.org/x/tools/go/ssa"
)

// Helpers of worker W1 (round 3 of hardening): C02 / C03.

// ---- if / ifelse (CTL-BRANCH)

// branchByEvaluation evaluates the registered operator `if` / `ifelse` on the SSA form with the
// operand stack [keep bool {pt}] / [keep bool {pt} {pf}] for both values of the boolean operand
// and for a run of the procedure that succeeds and one that fails.  Running a procedure is opaque.
// Prescribed: true runs {pt}, false runs {pf} (`if`: nothing) — exactly one run, as a procedure
// (execute flag set), with all operands of the operator already removed; what the run returns is
// what the operator returns; without a run the operator returns nil and leaves [keep].
// Whether the branch is an if/else around two calls, a selection of the operand followed by one
// call, a guard clause or a helper does not matter.  decided=false: an evaluation stopped.
func (c *Ctx) branchByEvaluation(f *ssa.Function, op string) (bad []string, decided bool) {
	keep := obj("Integer", "keep")
	pt, pf := obj("Procedure", "pt"), obj("Procedure", "pf")
	for _, cond := range []bool{true, false} {
		for _, res := range []string{"nil", "other"} {
			stack := []sv{keep, boolV(cond), pt}
			want := "Procedure:pt"
			if op == "ifelse" {
				stack = append(stack, pf)
				if !cond {
					want = "Procedure:pf"
				}
			} else if !cond {
				want = ""
			}
			o := c.loopOperator(f, stack, []string{res, res, res}, nil)
			if o.why != "" || o.ret == "" {
				return nil, false
			}
			cell := fmt.Sprintf("with the boolean operand %v (the run returning %s)", cond, res)
			switch {
			case want == "":
				if len(o.runs) != 0 || o.ret != "nil" || o.final != "[Integer:keep]" {
					bad = append(bad, fmt.Sprintf("%s: %d run(s), result %s, operand stack %s afterwards; expected no run, nil and [Integer:keep]", cell, len(o.runs), o.ret, o.final))
				}
			case len(o.runs) != 1:
				bad = append(bad, fmt.Sprintf("%s: %d procedures are run, expected exactly one", cell, len(o.runs)))
			default:
				r := o.runs[0]
				wantRet := map[string]string{"nil": "nil", "other": "other"}[res]
				if r.proc != want {
					bad = append(bad, fmt.Sprintf("%s: %s is run, expected %s", cell, r.proc, want))
				}
				if r.flag != "true" {
					bad = append(bad, fmt.Sprintf("%s: the operand is run with the execute flag %s", cell, r.flag))
				}
				if r.stack != "[Integer:keep]" {
					bad = append(bad, fmt.Sprintf("%s: the operand stack when the procedure is run is %s, expected [Integer:keep]", cell, r.stack))
				}
				if o.ret != wantRet {
					bad = append(bad, fmt.Sprintf("%s: the operator returns %s, the run returned %s", cell, o.ret, wantRet))
				}
			}
		}
	}
	return bad, true
}

// ---- what a return yields when the result lives in a cell (range-over-func, defer)

// retValuesAt is retValues made flow-aware for a result kept in a cell (go/ssa does this when a
// deferred call or the body closure of a range-over-func loop can set the result): of the stores
// to the cell only those count whose block can reach the return, and the stores a closure makes
// through its captured reference to the cell count too (`return x` inside the body of a
// range-over-func loop is such a store, followed by a return of the cell in the enclosing
// function).  With no store in reach the answer of retValues stands.
func retValuesAt(r *ssa.Return, idx int) []ssa.Value {
	u, ok := r.Results[idx].(*ssa.UnOp)
	if !ok {
		return retValues(r, idx)
	}
	al, ok := u.X.(*ssa.Alloc)
	if !ok {
		return retValues(r, idx)
	}
	blk := r.Block()
	for i := len(blk.Instrs) - 1; i >= 0; i-- {
		if st, ok := blk.Instrs[i].(*ssa.Store); ok && st.Addr == al {
			return []ssa.Value{st.Val}
		}
	}
	reach := map[*ssa.BasicBlock]bool{}
	var back func(b *ssa.BasicBlock)
	back = func(b *ssa.BasicBlock) {
		for _, p := range b.Preds {
			if !reach[p] {
				reach[p] = true
				back(p)
			}
		}
	}
	back(blk)
	var out []ssa.Value
	for _, ref := range *al.Referrers() {
		switch x := ref.(type) {
		case *ssa.Store:
			if x.Addr == al && reach[x.Block()] {
				out = append(out, x.Val)
			}
		case *ssa.MakeClosure:
			if !reach[x.Block()] {
				continue
			}
			fn, _ := x.Fn.(*ssa.Function)
			for i, b := range x.Bindings {
				if b != ssa.Value(al) || fn == nil || i >= len(fn.FreeVars) {
					continue
				}
				for _, fr := range *fn.FreeVars[i].Referrers() {
					if st, ok := fr.(*ssa.Store); ok && st.Addr == ssa.Value(fn.FreeVars[i]) {
						out = append(out, st.Val)
					}
				}
			}
		}
	}
	if len(out) == 0 {
		return retValues(r, idx)
	}
	return out
}

// errExitName: the error name a block returns ("" if it does not end in the return of a
// PostScript error), reading a result kept in a cell with retValuesAt.
func (c *Ctx) errExitName(b *ssa.BasicBlock) string {
	if len(b.Instrs) == 0 {
		return ""
	}
	r, ok := b.Instrs[len(b.Instrs)-1].(*ssa.Return)
	if !ok || len(r.Results) == 0 {
		return ""
	}
	for _, v := range retValuesAt(r, len(r.Results)-1) {
		if n := c.errNameOf(v); n != "" {
			return n
		}
	}
	return ""
}

// ---- size operands of array / string / dict (OP-REGION)

// sizeOperandByEvaluation evaluates the registered operator (array, string, dict) on the SSA form
// with the operand stack [keep n] for n = -1, 0, 1, 7 and the largest integer: a negative size is
// a rangecheck, 0 and small sizes are accepted (result nil, the operand replaced by one object),
// a size beyond every implementation limit is a limitcheck (or VMerror).  The tests may stand in
// the operator or in a helper it calls (evaluated in place).  decided=false: an evaluation stopped.
func (c *Ctx) sizeOperandByEvaluation(f *ssa.Function, op string) (bad []string, decided bool, why string) {
	keep := obj("Integer", "keep")
	bits := uint(8 * c.pkg("postscript").TypesSizes.Sizeof(c.typeObj("postscript", "Integer").Type()))
	maxI := -((int64(-1) << (bits - 1)) + 1)
	for _, n := range []int64{-1, 0, 1, 7, maxI} {
		o := c.loopOperator(f, []sv{keep, intV(n)}, nil, nil)
		if o.why != "" || o.ret == "" {
			return nil, false, fmt.Sprintf("%d %s: %s", n, op, o.why)
		}
		switch {
		case n < 0:
			if o.ret != "error:rangecheck" {
				bad = append(bad, fmt.Sprintf("`%d %s` gives %s, the PLRM prescribes rangecheck", n, op, o.ret))
			}
		case n == maxI:
			if o.ret != "error:limitcheck" && o.ret != "error:VMerror" {
				bad = append(bad, fmt.Sprintf("`%d %s` gives %s, expected limitcheck", n, op, o.ret))
			}
		default:
			if o.ret != "nil" {
				bad = append(bad, fmt.Sprintf("`%d %s` gives %s, the PLRM accepts this size", n, op, o.ret))
			}
		}
		if o.ret != "nil" && o.final != "[Integer:keep "+fmt.Sprint(n)+"]" {
			bad = append(bad, fmt.Sprintf("`%d %s` fails with %s and leaves the operand stack %s", n, op, o.ret, o.final))
		}
	}
	return bad, true, ""
}

// ---- operators that create a composite object hand out a new one on every call (OP-SHARE)

// creators: the operators whose PLRM result is a newly created composite object.
var creatorOps = []string{"matrix", "array", "string", "dict", "]", ">>"}

// creationRules: PostScript composite objects are shared by reference and can be written through
// any reference (`put`, `putinterval`, `def` into a dictionary).  An operator whose result the PLRM
// describes as a *new* array, string or dictionary must therefore allocate it during the call:
// every composite value it places on the operand stack must be fresh (make, a composite literal,
// append to nil, a library clone, a module function all of whose results are fresh) — never a
// package-level variable or something derived from one, which would be one object for every call
// and every interpreter (`matrix dup 0 7 put matrix` would give [7 0 0 1 0 0]).  For every other
// operator nothing it pushes or stores may be a package-level composite either.
func (c *Ctx) creationRules(ia *interpAnchors, reg *registry) {
	isCreator := map[string]bool{}
	for _, op := range creatorOps {
		isCreator[op] = true
	}
	strip := func(v ssa.Value) ssa.Value {
		for {
			switch x := v.(type) {
			case *ssa.MakeInterface:
				v = x.X
			case *ssa.ChangeInterface:
				v = x.X
			default:
				return v
			}
		}
	}
	n := 0
	for _, e := range reg.builtins() {
		if e.table != "systemdict" {
			continue
		}
		f := e.fn
		fname := c.fname(f)
		type cand struct {
			kind string
			val  ssa.Value
			pos  token.Pos
		}
		var cands []cand
		for _, s := range c.opSinks(ia, f) {
			if strings.HasSuffix(s.kind, "...") {
				continue // a run of objects moved from elsewhere, not one object
			}
			cands = append(cands, cand{s.kind, strip(s.val), s.at.Pos()})
		}
		// an object handed to a module helper (a push by other means)
		eachInstr(f, func(ins ssa.Instruction) {
			call, ok := ins.(*ssa.Call)
			if !ok {
				return
			}
			g := call.Call.StaticCallee()
			if g == nil || !c.inModule(g) || g == ia.e {
				return
			}
			for _, a := range call.Call.Args {
				if mi, ok := a.(*ssa.MakeInterface); ok && isComposite(strip(mi).Type()) {
					cands = append(cands, cand{"helper", strip(mi), call.Pos()})
				}
			}
		})
		fresh, undec := 0, ""
		for _, cd := range cands {
			if !isComposite(cd.val.Type()) {
				continue
			}
			if cd.kind == "helper" && !isCreator[e.key] {
				continue // what a helper does with its argument is not known here
			}
			src := c.freshComposite(cd.val, 0)
			switch {
			case strings.HasPrefix(src, "shared:"):
				c.fail("OP-SHARE", fname, e.key+": no object handed to the program lives in a package-level variable", cd.pos,
					fmt.Sprintf("%s hands %s to the program (%s): composite objects are shared by reference and writable, so a store through one result (`put`, `putinterval`) changes what every later call returns, in this and in every other interpreter of the process; the PLRM result is an object of its own", e.key, src[len("shared:"):], cd.kind))
			case src == "fresh":
				fresh++
			default:
				undec = c.valShape(cd.val)
			}
		}
		if !isCreator[e.key] {
			continue
		}
		n++
		construct := e.key + ": the result is a newly created object"
		switch {
		case fresh > 0 && undec == "":
			c.ok("OP-SHARE", fname, construct, f.Pos(), fmt.Sprintf("%d composite value(s) allocated during the call", fresh), "")
		case fresh == 0 && undec == "":
			// nothing composite is placed anywhere by the operator itself (e.g. the object is built
			// and pushed by a helper that takes no composite argument): not decided here, not an alarm
			c.note("OP-SHARE: %s: no composite result found in the operator itself", e.key)
		default:
			c.undecided("OP-SHARE", fname, construct, f.Pos(), fmt.Sprintf("%s: whether the composite value `%s` it hands to the program is allocated during the call could not be decided", e.key, undec))
		}
	}
	c.check(n == len(creatorOps), "OP-SHARE", "postscript.makeSystemDict", "the creating operators are registered", token.NoPos, fmt.Sprintf("%d operators", n), "not all of matrix, array, string, dict, ], >> are registered operators")
}

// ---- findresource: the error names of its two look-ups (OP-ERRNAME)

// findresourceEval evaluates the registered operator `findresource` on the SSA form with the
// operand stack [keep key /Cat]; the resource directory is opaque: it has the category iff hasCat,
// and the category (a dictionary) has the instance iff hasKey.
func (c *Ctx) findresourceEval(f *ssa.Function, key sv, hasCat, hasKey bool) (ret, final, why string) {
	ia := c.interp()
	ev := &ssaEval{c: c, bind: map[ssa.Value]sv{}, mem: map[string]sv{}, maxDepth: 6}
	str := func(tp, s string) sv { return sv{k: svString, s: s, op: tp} }
	ev.mem["intp.Stack"] = ev.newList([]sv{obj("Integer", "keep"), key, str("Name", "Cat")})
	resources, catDict := obj("Dict", "resources"), obj("Dict", "category")
	ev.mem["intp.Resources"] = resources
	typeOf := func(v sv) string {
		if v.k == svList || v.k == svString {
			return v.op
		}
		if i := strings.Index(v.s, ":"); v.k == svSym && i > 0 {
			return v.s[:i]
		}
		return ""
	}
	ev.noInline = func(g *ssa.Function) bool { return g == ia.executeOne }
	ev.load = func(ld *ssa.UnOp, addr sv) (sv, bool) {
		if addr.k == svAddr && strings.HasPrefix(addr.s, "cell") && !strings.ContainsAny(addr.s, ".[") {
			return aZeroSV(ld.Type())
		}
		return sv{}, false
	}
	ev.lookup = func(x *ssa.Lookup, m, k sv) (sv, bool) {
		val, present := sv{k: svNil}, false
		switch {
		case m.k == svNil:
			// a nil map has no entries
		case m.k == svSym && m.s == resources.s && k.k == svString:
			if hasCat && k.s == "Cat" {
				val, present = catDict, true
			}
		case m.k == svSym && m.s == catDict.s && k.k == svString:
			if hasKey && k.s == "inst" {
				val, present = obj("Dict", "instance"), true
			}
		default:
			return sv{}, false
		}
		if !x.CommaOk {
			return val, true
		}
		return sv{k: svTuple, tup: []sv{val, boolV(present)}}, true
	}
	ev.call = func(call ssa.CallInstruction, args []sv) (sv, bool) {
		if call == nil {
			if len(args) == 2 && strings.HasPrefix(args[0].s, "typeassert:") && (typeOf(args[1]) != "" || args[1].k == svNil) {
				want := args[0].s[len("typeassert:"):]
				want = want[strings.LastIndex(want, ".")+1:]
				if typeOf(args[1]) == want {
					return sv{k: svTuple, tup: []sv{args[1], boolV(true)}}, true
				}
				zero := sv{k: svNil}
				if want == "Name" || want == "Operator" || want == "String" {
					zero = sv{k: svString}
				}
				return sv{k: svTuple, tup: []sv{zero, boolV(false)}}, true
			}
			return sv{}, false
		}
		if cc := call.Common(); cc.StaticCallee() == ia.e && len(cc.Args) > 1 {
			return symV("error:" + c.errNameOfArg(cc.Args[1])), true
		}
		return sv{}, false
	}
	ev.oracle = func(op token.Token, x, y sv) (bool, bool) {
		if (x.k == svSym || x.k == svNil) && (y.k == svSym || y.k == svNil) {
			eq := x.String() == y.String()
			switch op {
			case token.EQL:
				return eq, true
			case token.NEQ:
				return !eq, true
			}
		}
		return false, false
	}
	res := ev.runFunc(f, []sv{{k: svAddr, s: "intp"}})
	if ev.why != "" || len(res) != 1 {
		w := ev.why
		if w == "" {
			w = "no return reached"
		}
		return "", "", w
	}
	return res[0].String(), ev.render(ev.mem["intp.Stack"]), ""
}

// findresourceRule: the PLRM gives `findresource` two different errors for its two look-ups:
// `undefined` when the category does not exist, `undefinedresource` when the category exists and
// has no such instance (the key may be a name or a string); a key of another type is a typecheck;
// with both present the two operands are replaced by the instance.  Decided by evaluation, so the
// look-ups may be written as `v, ok := m[k]`, as a checked assertion of the element, in a helper.
func (c *Ctx) findresourceRule(reg *registry) {
	e := reg.byKey["systemdict/findresource"]
	if e == nil || e.fn == nil {
		return
	}
	f := e.fn
	str := func(tp, s string) sv { return sv{k: svString, s: s, op: tp} }
	before := func(key sv) string {
		return "[Integer:keep " + key.String() + " " + str("Name", "Cat").String() + "]"
	}
	var bad []string
	for _, t := range []struct {
		what           string
		key            sv
		hasCat, hasKey bool
		ret            string
	}{
		{"the category and the instance exist", str("Name", "inst"), true, true, "nil"},
		{"the category and the instance exist (string key)", str("String", "inst"), true, true, "nil"},
		{"the category exists, the instance does not", str("Name", "other"), true, false, "error:undefinedresource"},
		{"the category exists, the instance does not (string key)", str("String", "other"), true, false, "error:undefinedresource"},
		{"the category does not exist", str("Name", "inst"), false, false, "error:undefined"},
		{"the category does not exist (string key)", str("String", "inst"), false, false, "error:undefined"},
		{"the key is an integer", obj("Integer", "5"), true, false, "error:typecheck"},
	} {
		ret, final, why := c.findresourceEval(f, t.key, t.hasCat, t.hasKey)
		if why != "" {
			c.undecided("OP-ERRNAME", c.fname(f), "findresource: undefined for a missing category, undefinedresource for a missing instance", f.Pos(), "the evaluation of findresource stops: "+why)
			return
		}
		wantFinal := before(t.key)
		if t.ret == "nil" {
			wantFinal = "[Integer:keep Dict:instance]"
		}
		if ret != t.ret || final != wantFinal {
			bad = append(bad, fmt.Sprintf("when %s: result %s with operand stack %s, the PLRM prescribes %s with %s", t.what, ret, final, t.ret, wantFinal))
		}
	}
	c.check(len(bad) == 0, "OP-ERRNAME", c.fname(f), "findresource: undefined for a missing category, undefinedresource for a missing instance", f.Pos(), "7 cells evaluated: category × instance × kind of key", "findresource: "+joinMax(bad, 3))
}
