package main

import (
	"fmt"
	"go/ast"
	"go/token"
	"go/types"
	"regexp"
	"sort"
	"strings"
	"text/template/parse"

	"golang.org/x/tools/go/ssa"
)

// C09 — write/read round trip; C10 — read/write/read closure.
// Rule family A11 FIELDSYM (Type 1 part) and the writer side of A1.

func init() {
	register(&propCheck{
		id:    "C09",
		title: "Writing a font and reading it back returns the same font in all formats",
		explanation: "Decides the key/field symmetry clauses of C09: from the parsed font template the table (PostScript key → template field → escape function → condition) and from the reader the table (looked-up key → accepted object types → destination) are extracted; every key the template writes for a data field is looked up by the reader with a type that matches what the template emits there (string through PS ↔ String, name through PN ↔ Name, number ↔ Real or Integer, boolean ↔ Boolean, array ↔ Array), and the template field is filled from the same font field the reader stores the key into; " +
			"elision conditions of BlueScale/BlueShift/BlueFuzz use exactly the defaults the reader substitutes (BlueScale within 1e-6); the date layout the template formats with is one of the layouts the reader accepts; string escaping ⊆ string scanning (C04's 512-case table); the StandardEncoding shortcut is taken only when every entry equals the standard name or is .notdef for a glyph that is absent (decision table over the three atoms); position tracking and number formats are C20's. " +
			"It does NOT decide equality of the fonts.",
		trusted:     []string{"text/template/parse", "template's default formatting of numbers, booleans and slices is valid PostScript number/array syntax"},
		assumptions: []string{"finite numbers, regular-character names (the writable domain)"},
		run:         func(c *Ctx) { runRoundTrip(c, false) },
	})
	register(&propCheck{
		id:    "C10",
		title: "Any font that was read can be written and re-read without further change",
		explanation: "Decides structural clauses of C10: (a) name provenance — every conversion of non-constant data to a PostScript name in the interpreter is fed from bytes that passed the regular-character test, or is used for look-ups only, so that glyph names, encoding entries and the font name of a font that was read are accepted by the name serialiser (whose panic is the only data-dependent failure of the writer), and the serialiser, evaluated for every byte and for regular bytes that spell multi-byte characters, accepts exactly the names made of bytes the scanner keeps in a name; " +
			"(b) the path-command switch of the encoder is exhaustive and every GlyphOp literal in the reader has the number of coordinates the encoder indexes; (c) template escaping — every string-typed field is written through PS, PN or the comment sanitiser, or is length-prefixed binary; a field written raw is also written through PN, which rejects line breaks, or only ever holds constant text or a time in a constant layout; the string function of the template, evaluated for every byte alone, next to parentheses and before a digit, writes text that the PLRM's string syntax reads back as the same bytes (a string that was read is written back as itself); (d) quantisation sources — the only rounding calls on the write path are the two width roundings, and the only lossy number path is appendNumber (C20), which is a projection: integral values pass unchanged, every denominator 1..107 is tried and the best one taken, the quotient written is the value returned (so a value that was read back is written as itself); (e) the default-elision window and the defaults agree (shared with C09). " +
			"It does NOT decide equality under tolerance, idempotence of the second cycle as a numerical statement, nor non-finite numbers.",
		trusted:     []string{"text/template/parse", "go/ssa"},
		assumptions: []string{"finite numbers"},
		run:         func(c *Ctx) { runRoundTrip(c, true) },
	})
}

type tmplKey struct {
	key    string
	field  string // .Field
	pipe   string // PS, PN, C, E or ""
	conds  []string
	goType string // type of the fontInfo field
}

// templateKeys extracts `/Key ⟦.Field|F⟧` pairs.
func (c *Ctx) templateKeys() []tmplKey {
	t := c.fontTemplate()
	fi := c.typeObj("type1", "fontInfo").Type().Underlying().(*types.Struct)
	ftype := map[string]string{}
	for i := 0; i < fi.NumFields(); i++ {
		ftype[fi.Field(i).Name()] = fi.Field(i).Type().String()
	}
	var out []tmplKey
	keyRe := regexp.MustCompile(`/(\w+) $`)
	for _, sec := range t.order {
		prev := ""
		for _, it := range t.items(sec) {
			if it.action == "" {
				prev = it.text
				continue
			}
			an, ok := it.node.(*parse.ActionNode)
			if !ok {
				continue
			}
			m := keyRe.FindStringSubmatch(prev)
			prev = ""
			if m == nil {
				continue
			}
			cmds := an.Pipe.Cmds
			field := ""
			pipe := ""
			if len(cmds) >= 1 && len(cmds[0].Args) == 1 {
				if fn, ok := cmds[0].Args[0].(*parse.FieldNode); ok && len(fn.Ident) == 1 {
					field = fn.Ident[0]
				}
			}
			if len(cmds) == 2 && len(cmds[1].Args) == 1 {
				if id, ok := cmds[1].Args[0].(*parse.IdentifierNode); ok {
					pipe = id.Ident
				}
			}
			if field == "" {
				continue
			}
			out = append(out, tmplKey{m[1], field, pipe, it.conds, ftype[field]})
		}
	}
	return out
}

type readerKey struct {
	dict  string
	key   string
	types map[string]bool
	vars  map[string]bool // local variables influenced
	objs  map[types.Object]bool
	// fields the looked-up value flows into, decided on the SSA form (ext_d.go)
	fields []string
}

// readerKeys: every const-string index into a Dict in type1.Read with the asserted types.
func (c *Ctx) readerKeys() map[string]*readerKey {
	info := c.info("type1")
	fd := c.funcDecl("type1", "", "Read")
	out := map[string]*readerKey{}
	decls := map[types.Object]*ast.FuncDecl{}
	for _, f := range c.pkg("type1").Syntax {
		for _, d := range f.Decls {
			if x, ok := d.(*ast.FuncDecl); ok && x.Body != nil && x.Recv == nil {
				decls[info.Defs[x.Name]] = x
			}
		}
	}
	var visit func(n ast.Node, lhs []string)
	var lhsObjs []types.Object // the variables of the assignment being visited, by object
	record := func(ix *ast.IndexExpr, typ string, lhs []string) {
		k, ok := constStrOf(info, ix.Index)
		if !ok {
			return
		}
		rk := out[k]
		if rk == nil {
			rk = &readerKey{dict: types.ExprString(ix.X), key: k, types: map[string]bool{}, vars: map[string]bool{}, objs: map[types.Object]bool{}}
			out[k] = rk
		}
		for _, o := range lhsObjs {
			rk.objs[o] = true
		}
		if typ != "" {
			rk.types[typ] = true
		}
		for _, l := range lhs {
			if l != "_" && l != "ok" {
				rk.vars[l] = true
			}
		}
	}
	visit = func(n ast.Node, lhs []string) {
		ast.Inspect(n, func(m ast.Node) bool {
			switch m := m.(type) {
			case *ast.AssignStmt:
				var names []string
				var objs []types.Object
				for _, l := range m.Lhs {
					names = append(names, types.ExprString(l))
					if id, ok := l.(*ast.Ident); ok && id.Name != "_" && id.Name != "ok" {
						if o := info.ObjectOf(id); o != nil {
							objs = append(objs, o)
						}
					}
				}
				saved := lhsObjs
				lhsObjs = objs
				for _, r := range m.Rhs {
					visit(r, names)
				}
				lhsObjs = saved
				return false
			case *ast.TypeAssertExpr:
				if ix, ok := m.X.(*ast.IndexExpr); ok && m.Type != nil {
					t := types.ExprString(m.Type)
					t = strings.TrimPrefix(t, "postscript.")
					record(ix, t, lhs)
					return false
				}
			case *ast.CallExpr:
				// a helper of the package applied to a dictionary entry: the types the helper
				// asserts on its parameter are the types the reader accepts for the entry
				if id, ok := m.Fun.(*ast.Ident); ok {
					if d := decls[info.Uses[id]]; d != nil {
						handled := false
						for ai, a := range m.Args {
							if ix, ok := a.(*ast.IndexExpr); ok {
								if _, isConst := constStrOf(info, ix.Index); isConst {
									for _, t := range paramAssertedTypes(info, d, ai) {
										record(ix, t, lhs)
										handled = true
									}
								}
							}
						}
						if handled {
							return false
						}
					}
				}
			case *ast.IndexExpr:
				if _, ok := constStrOf(info, m.Index); ok {
					if _, isMap := info.TypeOf(m.X).Underlying().(*types.Map); isMap {
						record(m, "", lhs)
					}
				}
			}
			return true
		})
	}
	visit(fd.Body, nil)
	// the same table read off the value flow of the SSA form: keys looked up through helpers that
	// get the key as an argument, types asserted anywhere on the way, the field reached
	for k, fl := range c.readerKeyFlows() {
		rk := out[k]
		if rk == nil {
			rk = &readerKey{dict: "", key: k, types: map[string]bool{}, vars: map[string]bool{}, objs: map[types.Object]bool{}}
			out[k] = rk
		}
		for t := range fl.types {
			rk.types[t] = true
		}
		rk.fields = sortedKeys(fl.fields)
	}
	return out
}

func runRoundTrip(c *Ctx, closure bool) {
	info := c.info("type1")
	tk := c.templateKeys()
	rk := c.readerKeys()

	if !closure {
		// ---------------- key/type symmetry
		// what the template emits for a Go type
		emits := func(k tmplKey) string {
			switch k.pipe {
			case "PS":
				return "String"
			case "PN":
				return "Name"
			}
			switch {
			case k.goType == "string":
				return "raw"
			case k.goType == "bool":
				return "Boolean"
			case strings.HasPrefix(k.goType, "[]") || strings.HasPrefix(k.goType, "["):
				return "Array"
			case k.goType == "float64" || strings.HasPrefix(k.goType, "int"):
				return "Number"
			}
			return "?"
		}
		n := 0
		for _, k := range tk {
			n++
			r := rk[k.key]
			construct := fmt.Sprintf("/%s ← .%s|%s", k.key, k.field, k.pipe)
			if r == nil {
				c.fail("RT-KEYS", "type1 template / type1.Read", construct, token.NoPos, "the template writes /"+k.key+" from field "+k.field+", but the reader never looks that key up: the value is lost in a write/read cycle")
				continue
			}
			e := emits(k)
			okT := false
			switch e {
			case "String", "Name", "Boolean", "Array":
				okT = r.types[e]
			case "Number":
				okT = r.types["Real"] && r.types["Integer"] || (r.types["Integer"] && strings.HasPrefix(k.goType, "int"))
			}
			c.check(okT, "RT-KEYS", "type1 template / type1.Read", construct, token.NoPos, fmt.Sprintf("written as %s, read as %v", e, sortedKeys(r.types)),
				fmt.Sprintf("/%s is written as a %s (field %s, %s) but the reader accepts only %v for it", k.key, e, k.field, k.goType, sortedKeys(r.types)))
		}
		c.floor("RT-KEYS", 18)

		// ---------------- field correspondence: template field ← font field (makeTemplateData) vs key → reader variable → font field
		c.fieldCorrespondence(info, tk, rk)

		// ---------------- date layout
		{
			// the action that writes the date: text in front of it and the layout it uses
			// (written in the template or handed to time.Time.Format by a template function)
			dateBefore, layout, _ := c.dateAction()
			var layouts []string
			p := c.pkg("type1")
			for _, f := range p.Syntax {
				ast.Inspect(f, func(n ast.Node) bool {
					// the reader's layouts: a list of string constants that are time layouts
					if vs, ok := n.(*ast.ValueSpec); ok && len(vs.Names) == 1 && len(vs.Values) == 1 {
						if cl, ok := vs.Values[0].(*ast.CompositeLit); ok {
							var l []string
							for _, e := range cl.Elts {
								if s, ok := constStrOf(info, e); ok && strings.Contains(s, "2006") {
									l = append(l, s)
								}
							}
							if len(l) == len(cl.Elts) && len(l) > 0 {
								layouts = append(layouts, l...)
							}
						}
					}
					return true
				})
			}
			found := false
			for _, l := range layouts {
				if l == layout {
					found = true
				}
			}
			hasSeconds := strings.Contains(layout, "05") && strings.Contains(layout, "-0700")
			c.check(found && hasSeconds, "RT-DATE", "type1 template / type1.dateFormats", "the creation date is written in a layout the reader accepts, to the second, with its zone", token.NoPos, layout, fmt.Sprintf("the template formats the creation date as %q, which is not among the reader's layouts %q (or lacks seconds/zone)", layout, layouts))
			// every element of the layout must read back whatever it prints: the zone abbreviation does
			// not — time.Format prints the location's name verbatim (any text, line ends included) or,
			// for a zone without a name, a numeric offset, while time.Parse accepts three or four
			// capital letters only; the numeric offset carries the zone
			c.check(layout != "" && !strings.Contains(layout, "MST"), "RT-DATE", "type1 template / type1.dateFormats", "every element of the written layout reads back what it prints (no zone abbreviation)", token.NoPos, layout,
				fmt.Sprintf("the creation date is written with the layout %q: the zone abbreviation element prints the name of the location as it is — an unnamed fixed zone gives a second numeric offset, a one-letter or long name gives text that time.Parse refuses, and a name with a line end leaves the comment — so the creation time of such fonts is lost (or worse) on reading", layout))
			// written on a %%CreationDate: line, read from DSC key CreationDate
			okKey := strings.HasSuffix(dateBefore, "\n%%CreationDate: ") || dateBefore == "%%CreationDate: "
			// the reader (or a helper of it) compares a comment key with "CreationDate"
			readsKey := false
			for _, d := range c.declsFrom("type1", c.funcDecl("type1", "", "Read"), 2) {
				ast.Inspect(d.Body, func(n ast.Node) bool {
					switch x := n.(type) {
					case *ast.BinaryExpr:
						if x.Op == token.EQL || x.Op == token.NEQ {
							for _, e := range []ast.Expr{x.X, x.Y} {
								if s, ok := constStrOf(info, e); ok && s == "CreationDate" {
									readsKey = true
								}
							}
						}
					case *ast.CaseClause:
						for _, e := range x.List {
							if s, ok := constStrOf(info, e); ok && s == "CreationDate" {
								readsKey = true
							}
						}
					}
					return true
				})
			}
			c.check(okKey && readsKey, "RT-DATE", "type1 template / type1.Read", "the date travels in the %%CreationDate: comment", token.NoPos, "", "the creation date is not written as a `%%CreationDate:` DSC comment that the reader looks for")
		}

		// ---------------- strings
		rt := c.readStringTables(c.info("postscript"))
		c.stringWriter(c.info("postscript"), rt)

		// ---------------- encoding shortcut
		c.encodingShortcutX9() // decided on writeEncoding as a whole (ext_x9.go)
		c.encodingWriter(info)

		// ---- every closepath the encoder writes comes back as a ClosePath (ext_a.go)
		c.closePathRule()
	}

	// ---------------- defaults vs elision conditions (C09 and C10)
	c.defaultElision(info)
	// ---------------- every real number is printed in a form that reads back as the same number
	// (C08's rule W-NUMEXACT, ext_d.go: the template's own printing, printf formats, FuncMap functions)
	c.numbersExact()
	// ---------------- the encoder tracks the position the decoder reconstructs (C20's rule; coordinates "within 0.005 / 1/214")
	c.positionTracking(info)
	// ---------------- no unescaped string reaches the program text
	c.templateEscaping(tk)
	// ---- a value on a comment line cannot end the line (ext_a.go)
	c.commentSanitiser()

	if closure {
		// ---- a string that was read is written in a form that reads back as itself (ext_a.go)
		c.writtenStringsReadBack(tk, rk)
		c.nameProvenance()
		// the other half of the name clause: the serialiser accepts every name made of bytes the scanner
		// keeps in a name, whatever characters those bytes spell (C04's rule LEX-NAME, ext_a.go)
		if regular, why := c.regularClass(); why != "" {
			c.undecided("LEX-NAME", "postscript.isRegular", "the regular-character class", token.NoPos, why)
		} else {
			c.nameWriter(regular)
		}
		c.roundingSources()
		c.quantisationRule() // ext_a.go
		// the one lossy number path must be a projection, or the second write/read cycle moves the
		// coordinates again: appendNumber takes the best of ALL denominators 1..107 (a value p/q
		// that was read back is then reproduced with error 0, nothing nearer exists) and returns
		// exactly the quotient it wrote (C20's rule)
		c.fractionEncoder(info)
		c.glyphOpSwitches()
		c.glyphOpLiterals()
		c.writerPanics()
	}
}

// fieldCorrespondence: the font field a key is written from is the one it is read into.
func (c *Ctx) fieldCorrespondence(info *types.Info, tk []tmplKey, rk map[string]*readerKey) {
	// template field → the font field it is filled from: the writer is evaluated on the SSA form
	// up to its template executions (font fields are symbols `f.<path>`), so it does not matter
	// where and how the template data is put together
	src := map[string]string{}
	if execs, why := c.evalWriterData(c.method("type1", "Font", "Write"), c.constInt("type1", "FormatPFA"), false); why == "" && len(execs) > 0 {
		for name, v := range execs[0].fields {
			src[name] = v.String()
			if el := execs[0].elems[name]; len(el) == 1 {
				src[name] = el[0].String()
			}
		}
	}
	// reader: struct literal fields ← expressions mentioning variables
	rd := c.funcDecl("type1", "", "Read")
	litField := map[types.Object]string{} // variable → struct.field
	ast.Inspect(rd.Body, func(n ast.Node) bool {
		cl, ok := n.(*ast.CompositeLit)
		if !ok {
			return true
		}
		tn := types.ExprString(cl.Type)
		if tn != "FontInfo" && tn != "PrivateDict" && tn != "Font" {
			return true
		}
		for _, e := range cl.Elts {
			if kv, ok := e.(*ast.KeyValueExpr); ok {
				for _, id := range identsOf(kv.Value) {
					if o, isVar := info.ObjectOf(id).(*types.Var); isVar {
						litField[o] = tn + "." + types.ExprString(kv.Key)
					}
				}
			}
		}
		return true
	})
	// variables derived from key variables (x := f(y); x[i] = f(y); for _, x := range y), by object
	derive := map[types.Object][]types.Object{}
	isFlag := func(id *ast.Ident) bool { return id.Name == "_" || id.Name == "ok" }
	ast.Inspect(rd.Body, func(n ast.Node) bool {
		if as, ok := n.(*ast.AssignStmt); ok && len(as.Lhs) >= 1 {
			for _, r := range as.Rhs {
				for _, id := range identsOf(r) {
					if src, isVar := info.ObjectOf(id).(*types.Var); isVar {
						for _, l := range as.Lhs {
							// an element assignment `x[i] = …` fills x
							if ix, ok := l.(*ast.IndexExpr); ok {
								l = ix.X
							}
							if lid, ok := l.(*ast.Ident); ok && !isFlag(lid) && info.ObjectOf(lid) != nil {
								derive[src] = append(derive[src], info.ObjectOf(lid))
							}
						}
					}
				}
			}
		}
		// `switch v := x.(type)`: the variable of every clause is x
		if ts, ok := n.(*ast.TypeSwitchStmt); ok {
			if as, ok := ts.Assign.(*ast.AssignStmt); ok && len(as.Rhs) == 1 {
				for _, id := range identsOf(as.Rhs[0]) {
					if src, isVar := info.ObjectOf(id).(*types.Var); isVar {
						for _, cl := range ts.Body.List {
							if o := info.Implicits[cl]; o != nil {
								derive[src] = append(derive[src], o)
							}
						}
					}
				}
			}
		}
		// the elements a loop takes out of x derive from x
		if rs, ok := n.(*ast.RangeStmt); ok && rs.Value != nil {
			for _, id := range identsOf(rs.X) {
				if src, isVar := info.ObjectOf(id).(*types.Var); isVar {
					if lid, ok := rs.Value.(*ast.Ident); ok && !isFlag(lid) && info.ObjectOf(lid) != nil {
						derive[src] = append(derive[src], info.ObjectOf(lid))
					}
				}
			}
		}
		return true
	})
	fieldOfKey := func(r *readerKey) string {
		seen := map[types.Object]bool{}
		var q []types.Object
		for o := range r.objs {
			q = append(q, o)
		}
		sort.Slice(q, func(i, j int) bool { return q[i].Pos() < q[j].Pos() })
		for len(q) > 0 {
			v := q[0]
			q = q[1:]
			if seen[v] {
				continue
			}
			seen[v] = true
			if f, ok := litField[v]; ok {
				return f
			}
			q = append(q, derive[v]...)
		}
		return ""
	}
	want := func(srcExpr string) string {
		// f.FontInfo.X → FontInfo.X ; f.Private.X → PrivateDict.X ; float64(f.FontInfo.X) …
		m := regexp.MustCompile(`f\.(FontInfo|Private)\.(\w+)`).FindStringSubmatch(srcExpr)
		if m == nil {
			return ""
		}
		if m[1] == "Private" {
			return "PrivateDict." + m[2]
		}
		return "FontInfo." + m[2]
	}
	n := 0
	for _, k := range tk {
		r := rk[k.key]
		if r == nil {
			continue
		}
		w := want(src[k.field])
		if w == "" {
			continue // FontMatrix default handling, Encoding, CharStrings: structural
		}
		g := fieldOfKey(r)
		if g == "" {
			g = strings.Join(r.fields, "|")
		}
		n++
		c.check(g == w, "RT-FIELDS", "type1.makeTemplateData / type1.Read", fmt.Sprintf("/%s: written from %s, read into %s", k.key, w, g), token.NoPos, "same font field on both sides",
			fmt.Sprintf("/%s is written from %s but the reader stores it into %s", k.key, w, g))
	}
	c.floor("RT-FIELDS", 18)
}

func (c *Ctx) defaultElision(info *types.Info) {
	t := c.fontTemplate()
	// defaults in Read: the constant that flows into the PrivateDict field when the key is absent
	read := c.fn("type1", "Read")
	privT := c.typeObj("type1", "PrivateDict")
	defaults := map[string]float64{}
	for _, key := range []string{"BlueScale", "BlueShift", "BlueFuzz"} {
		var consts []float64
		eachInstr(read, func(ins ssa.Instruction) {
			if st, ok := ins.(*ssa.Store); ok && isFieldAddr(st.Addr, privT, key) {
				consts = append(consts, c.constSources(st.Val)...)
			}
		})
		consts = uniqFloats(consts)
		// the reader evaluated with the entry absent: what it stores is the default, wherever the
		// constant is written (inline, argument of a helper shared between keys, generic helper)
		d, evaluated := c.readerDefaultEval(key)
		if !evaluated {
			// the field is stored more than once (defaults first, then what the dictionary holds)
			d, evaluated = c.readerDefaultEvalY6(key)
		}
		switch {
		case evaluated && (len(consts) != 1 || consts[0] == d):
			defaults[key] = d
		case !evaluated && len(consts) == 1:
			defaults[key] = consts[0]
		}
	}
	for _, it := range t.allItems() {
		ifn, ok := it.node.(*parse.IfNode)
		if !ok || !strings.HasPrefix(it.action, "if ") {
			continue
		}
		s := it.action
		key := ""
		for _, k := range []string{"BlueScale", "BlueShift", "BlueFuzz"} {
			if strings.Contains(s, k) {
				key = k
			}
		}
		if key == "" {
			continue
		}
		d, have := defaults[key]
		// written(v): does the template write the entry for the value v
		written := func(v float64) (bool, bool) { return c.tmplCond(ifn.Pipe, key, v) }
		bad := ""
		if !have {
			bad = "the reader has no single default for " + key
		}
		type pt struct {
			v    float64
			want bool
		}
		var pts []pt
		if key == "BlueScale" {
			pts = []pt{{d, false}, {d + 0.9e-6, false}, {d - 0.9e-6, false}, {d + 1.1e-6, true}, {d - 1.1e-6, true}, {d * 2, true}, {0, true}}
		} else {
			pts = []pt{{d, false}, {d + 1, true}, {d - 1, true}, {0, d != 0}}
		}
		for _, p := range pts {
			w, ok := written(p.v)
			if !ok {
				bad = "the condition `" + s + "` could not be evaluated"
				break
			}
			if w != p.want && bad == "" {
				bad = fmt.Sprintf("the value %g is %s although the reader's default is %g", p.v, map[bool]string{true: "written", false: "omitted"}[w], d)
			}
		}
		if key == "BlueScale" {
			c.check(bad == "", "RT-DEFAULTS", "type1 template / type1.Read", "BlueScale is omitted exactly within 1e-6 of the default the reader substitutes", token.NoPos, fmt.Sprintf("default %g; omitted at ±0.9e-6, written at ±1.1e-6", d), "the BlueScale elision `"+s+"`: "+bad+": values outside the documented snap range come back as the default")
		} else {
			c.check(bad == "", "RT-DEFAULTS", "type1 template / type1.Read", key+" is omitted exactly when it equals the default the reader substitutes", token.NoPos, s, fmt.Sprintf("%s elision `%s`: %s", key, s, bad))
		}
	}
	c.floor("RT-DEFAULTS", 3)
}

// ---- C10 specific

// nameProvenance: conversions of data to postscript.Name.
var nameConvAllowed = []struct{ pkg, recv, name, why string }{
	{"postscript", "scanner", "ScanToken", "bytes collected under the isRegular test"},
	{"postscript", "", "makeSystemDict", "names of psenc.StandardEncoding (constants)"},
	{"postscript", "Interpreter", "load", "operator names come from the scanner (regular characters); used for look-up"},
	{"postscript", "", "isSameDict", "decimal digits; probe key removed again"},
	{"postscript", "", "ReadCMap", "a key already present in the directory"},
}

func (c *Ctx) nameProvenance() {
	nameT := c.typeObj("postscript", "Name")
	n := 0
	for _, f := range c.modFuncs {
		if f.Pkg == nil && f.Parent() == nil {
			continue
		}
		// the interpreter (reader side) only: writers convert strings to names to serialise them
		top := f
		for top.Parent() != nil {
			top = top.Parent()
		}
		if top.Pkg == nil || top.Pkg.Pkg.Path() != modPath {
			continue
		}
		eachInstr(f, func(ins ssa.Instruction) {
			var v ssa.Value
			var x ssa.Value
			switch cv := ins.(type) {
			case *ssa.Convert:
				v, x = cv, cv.X
			case *ssa.ChangeType:
				v, x = cv, cv.X
			default:
				return
			}
			if !typeIsNamed(v.Type(), nameT) {
				return
			}
			if _, isConst := x.(*ssa.Const); isConst {
				return
			}
			// Name ← Operator/string conversions of values that are already names
			if nt, ok := x.Type().(*types.Named); ok && nt.Obj().Name() == "Operator" {
				// operators are scanner tokens of regular characters
				c.ok("CL-NAMES", c.fname(f), "Name(Operator)", ins.Pos(), "operator tokens consist of regular characters", "")
				n++
				return
			}
			n++
			fname := c.fname(f)
			// used for look-ups only?
			lookupOnly := true
			seenV := map[ssa.Value]bool{}
			var scan func(val ssa.Value)
			scan = func(val ssa.Value) {
				if seenV[val] || val.Referrers() == nil {
					return
				}
				seenV[val] = true
				for _, r := range *val.Referrers() {
					switch r := r.(type) {
					case *ssa.Lookup:
						if r.Index != val {
							lookupOnly = false
						}
					case *ssa.DebugRef:
					case *ssa.Phi:
						scan(r)
					case *ssa.Extract:
						scan(r)
					case *ssa.Return:
						// handed back by a helper that is only called directly: follow the result at every call
						sites := staticCallSites(r.Parent())
						if len(sites) == 0 {
							lookupOnly = false
							break
						}
						for i, res := range r.Results {
							if res != val {
								continue
							}
							for _, site := range sites {
								if len(r.Results) == 1 {
									scan(site)
									continue
								}
								for _, u := range *site.Referrers() {
									if ex, ok := u.(*ssa.Extract); ok && ex.Index == i {
										scan(ex)
									}
								}
							}
						}
					case *ssa.MakeInterface:
						// boxed for a message: check its users
						for _, rr := range *r.Referrers() {
							if call, ok := rr.(ssa.CallInstruction); ok {
								if sc := call.Common().StaticCallee(); sc != nil && (c.isFn(sc, "postscript", "Interpreter", "e") || calleeName(sc) == "fmt.Sprintf" || calleeName(sc) == "fmt.Errorf") {
									continue
								}
							}
							if st, ok := rr.(*ssa.Store); ok {
								if _, isIx := st.Addr.(*ssa.IndexAddr); isIx {
									continue // varargs of a message
								}
							}
							lookupOnly = false
						}
					default:
						lookupOnly = false
					}
				}
			}
			scan(v)
			if lookupOnly {
				c.ok("CL-NAMES", fname, "Name(data) used for look-up only", ins.Pos(), "never stored as a key or value", "")
				return
			}
			for _, al := range nameConvAllowed {
				if c.isFn(top, al.pkg, al.recv, al.name) {
					c.ok("CL-NAMES", fname, "Name(data)", ins.Pos(), "reviewed: "+al.why, "")
					return
				}
			}
			c.fail("CL-NAMES", fname, "Name(data) stored", ins.Pos(), "data that did not pass the regular-character test is converted to a PostScript name and stored (e.g. as a dictionary key): a font read with such a glyph or font name cannot be written, because the name serialiser refuses it")
		})
	}
	c.floor("CL-NAMES", 3)
}

func (c *Ctx) templateEscaping(tk []tmplKey) {
	t := c.fontTemplate()
	fi := c.typeObj("type1", "fontInfo").Type().Underlying().(*types.Struct)
	ftype := map[string]types.Type{}
	for i := 0; i < fi.NumFields(); i++ {
		ftype[fi.Field(i).Name()] = fi.Field(i).Type()
	}
	// what the function at the end of a pipeline does with a byte that would change the program
	// text is decided by evaluating it (ext_a.go), not by its name in the function map
	st := c.aInitFrom("type1", c.aInit("postscript"))
	type fclass struct{ class, why string }
	classes := map[string]fclass{}
	classOf := func(pipe string) fclass {
		if k, ok := classes[pipe]; ok {
			return k
		}
		cl, why := c.tmplFuncClass(st, pipe)
		classes[pipe] = fclass{cl, why}
		return classes[pipe]
	}
	viaPN := map[string]bool{}
	type use struct {
		field, pipe string
		pos         string
		onComment   bool
	}
	var uses []use
	for _, sec := range t.order {
		line := ""
		for _, it := range t.items(sec) {
			if it.action == "" {
				if i := strings.LastIndexAny(it.text, "\r\n\f"); i >= 0 {
					line = it.text[i+1:]
				} else {
					line += it.text
				}
				continue
			}
			an, ok := it.node.(*parse.ActionNode)
			if !ok {
				continue
			}
			// the text of the line in front of the action: a comment line has a % outside a string
			onComment := strings.Contains(line, "%") && !strings.Contains(line, "(")
			line += "⟦⟧"
			cmds := an.Pipe.Cmds
			if len(cmds) == 0 {
				continue
			}
			field := ""
			isVar := false
			first := cmds[0]
			if len(first.Args) == 1 {
				switch a := first.Args[0].(type) {
				case *parse.FieldNode:
					if len(a.Ident) == 1 {
						field = a.Ident[0]
					}
				case *parse.VariableNode:
					isVar = true
					field = a.Ident[0]
				}
			}
			if field == "" {
				continue
			}
			pipe := ""
			if len(cmds) >= 2 && len(cmds[len(cmds)-1].Args) == 1 {
				if id, ok := cmds[len(cmds)-1].Args[0].(*parse.IdentifierNode); ok {
					pipe = id.Ident
				}
			}
			isString := false
			if ft, ok := ftype[field]; ok {
				if b, ok := ft.Underlying().(*types.Basic); ok && b.Kind() == types.String {
					isString = true
				}
			}
			if pipe != "" && (isVar || isString) && classOf(pipe).class == "refuses" {
				viaPN[field] = true
			}
			if isVar || isString {
				// $name | PN, $cs / $subr after `len … RD`
				uses = append(uses, use{field, pipe, it.action, onComment})
			}
		}
	}
	n := 0
	for _, u := range uses {
		n++
		okU := false
		why := ""
		detail := ""
		switch {
		case u.pipe != "":
			k := classOf(u.pipe)
			switch k.class {
			case "literal", "refuses", "guarded":
				okU = true
				why = "(" + u.pipe + ": " + k.class + ")"
			case "noeol":
				// enough on a comment line (every byte value is decided by the comment-line rule)
				okU = u.onComment
				why = "(" + u.pipe + " removes line ends, on a comment line)"
				detail = " (" + u.pipe + " only removes line ends, which is not enough outside a comment)"
			default:
				detail = " (" + k.why + ")"
			}
		case u.field == "$cs" || u.field == "$subr":
			okU = true // length-prefixed binary (checked by W-TEMPLATE in C08)
		case u.field == "$index":
			okU = true
		case u.pipe == "" && viaPN[u.field]:
			okU = true
			why = "also written through a function that refuses white space and delimiters (the name writer)"
		case u.pipe == "":
			// a field that only ever holds constant text or a time in a constant layout
			if closed, lit, how := c.tmplFieldText(u.field); closed && !strings.ContainsAny(lit, "\r\n\f()%\\") {
				okU = true
				why = "every value the module stores into the field is " + how
			}
		}
		c.check(okU, "CL-ESCAPE", "type1 font program template", "string `"+u.pos+"` is escaped", token.NoPos, "written as a literal string or a checked name, sanitised on a comment line, or length-prefixed binary "+why, "the string field `"+u.pos+"` is written into the font program without escaping: a line break, parenthesis or `%` in it changes the program (header injection) or makes the file unreadable"+detail)
	}
	c.floor("CL-ESCAPE", 10)
}

func (c *Ctx) roundingSources() {
	// rounding calls reachable from the writers
	roots := []*ssa.Function{c.method("type1", "Font", "Write"), c.method("type1", "Font", "WritePDF")}
	seen := map[*ssa.Function]bool{}
	var sites []string
	var walk func(f *ssa.Function)
	walk = func(f *ssa.Function) {
		if seen[f] || !c.inModule(f) {
			return
		}
		seen[f] = true
		eachInstr(f, func(ins ssa.Instruction) {
			call, ok := ins.(ssa.CallInstruction)
			if !ok {
				return
			}
			if sc := call.Common().StaticCallee(); sc != nil {
				switch calleeName(sc) {
				case "math.Round", "math.Floor", "math.Ceil", "math.Trunc", "math.RoundToEven":
					// what is rounded, not where: an advance width, or a product (the numerator
					// search of the fraction encoder)
					what := "other value " + c.valShape(call.Common().Args[0]) + " in " + c.fname(f)
					switch a := origin(call.Common().Args[0]).(type) {
					case *ssa.UnOp:
						if _, fld, ok := fieldAddrOf(a.X); ok && (fld.Name() == "WidthX" || fld.Name() == "WidthY") {
							what = "advance width " + fld.Name()
						}
					case *ssa.BinOp:
						if a.Op == token.MUL {
							what = "numerator = value × denominator"
						}
					}
					sites = append(sites, sc.Name()+" of "+what)
				}
				walk(sc)
			}
			for _, cl := range closuresOf(call.Common().Value) {
				walk(cl)
			}
		})
	}
	for _, r := range roots {
		walk(r)
	}
	sort.Strings(sites)
	want := []string{"Round of advance width WidthX", "Round of advance width WidthY", "Round of numerator = value × denominator"}
	c.check(fmt.Sprint(sites) == fmt.Sprint(want), "CL-ROUNDING", "type1 writer", "the only roundings on the write path: advance widths (x, y) to whole units, and the numerator search of appendNumber", token.NoPos, fmt.Sprint(sites),
		fmt.Sprintf("rounding calls reachable from the writers are %v, documented are %v: an undocumented quantisation changes a font that was read", sites, want))
}

func (c *Ctx) writerPanics() {
	// panics reachable from Write: Name.PS (data dependent), encodeCharString default (exhaustive switch), invalid format (caller's option)
	roots := []*ssa.Function{c.method("type1", "Font", "Write"), c.method("type1", "Font", "WritePDF")}
	seen := map[*ssa.Function]bool{}
	var sites []string
	var walk func(f *ssa.Function)
	walk = func(f *ssa.Function) {
		if seen[f] || !c.inModule(f) {
			return
		}
		seen[f] = true
		eachInstr(f, func(ins ssa.Instruction) {
			if _, ok := ins.(*ssa.Panic); ok {
				sites = append(sites, c.fname(f))
			}
			if call, ok := ins.(ssa.CallInstruction); ok {
				if sc := call.Common().StaticCallee(); sc != nil {
					walk(sc)
				}
				for _, cl := range closuresOf(call.Common().Value) {
					walk(cl)
				}
			}
			if mc, ok := ins.(*ssa.MakeClosure); ok {
				walk(mc.Fn.(*ssa.Function))
			}
		})
	}
	for _, r := range roots {
		walk(r)
	}
	// template functions are reached through the template engine
	for _, name := range []string{"PS"} {
		_ = name
	}
	walk(c.method("postscript", "Name", "PS"))
	walk(c.fn("type1", "writeEncoding"))
	sites = dedupSorted(sites)
	want := []string{"(*type1.Font).Write", "(*type1.Glyph).encodeCharString", "(postscript.Name).PS"}
	c.check(fmt.Sprint(sites) == fmt.Sprint(want), "CL-PANICS", "type1 writer", "explicit panics on the write path: invalid format option, impossible path command (exhaustive switch), non-regular name (excluded by name provenance)", token.NoPos, fmt.Sprint(sites),
		fmt.Sprintf("functions with an explicit panic reachable from the writers are %v, accounted for are %v", sites, want))
}

func dedupSorted(l []string) []string {
	sort.Strings(l)
	var out []string
	for i, s := range l {
		if i == 0 || s != l[i-1] {
			out = append(out, s)
		}
	}
	return out
}

// tmplCond evaluates the condition of a template {{if}} for one value of the fontInfo field
// `key`: pipelines of or/and/not/lt/le/gt/ge/eq/ne over the field and number literals are
// evaluated directly; a niladic method of the template data is evaluated on the SSA form with
// the field set to the value.  Nothing is executed.
func (c *Ctx) tmplCond(pipe *parse.PipeNode, key string, v float64) (bool, bool) {
	type val struct {
		f      float64
		b      bool
		isBool bool
	}
	var evalNode func(n parse.Node) (val, bool)
	var evalCmd func(cmd *parse.CommandNode) (val, bool)
	evalNode = func(n parse.Node) (val, bool) {
		switch x := n.(type) {
		case *parse.NumberNode:
			if x.IsFloat {
				return val{f: x.Float64}, true
			}
			if x.IsInt {
				return val{f: float64(x.Int64)}, true
			}
		case *parse.BoolNode:
			return val{b: x.True, isBool: true}, true
		case *parse.FieldNode:
			if len(x.Ident) == 1 && x.Ident[0] == key {
				return val{f: v}, true
			}
			if len(x.Ident) == 1 {
				// a method of the template data
				fiT := c.typeObj("type1", "fontInfo")
				for _, recv := range []types.Type{types.NewPointer(fiT.Type()), fiT.Type()} {
					sel := types.NewMethodSet(recv).Lookup(c.pkg("type1").Types, x.Ident[0])
					if sel == nil {
						continue
					}
					fn := c.prog.MethodValue(sel)
					if fn == nil || len(fn.Blocks) == 0 {
						continue
					}
					ev := &ssaEval{c: c, bind: map[ssa.Value]sv{}, mem: map[string]sv{}}
					ev.load = func(ld *ssa.UnOp, addr sv) (sv, bool) {
						if addr.s == "fi."+key {
							if bt, ok := ld.Type().Underlying().(*types.Basic); ok && bt.Info()&types.IsInteger != 0 {
								return intV(int64(v)), true
							}
							return sv{k: svFloat, f: v}, true
						}
						return sv{}, false
					}
					ret := ev.runFunc(fn, []sv{{k: svAddr, s: "fi"}})
					if len(ret) == 1 && ret[0].k == svBool {
						return val{b: ret[0].b, isBool: true}, true
					}
				}
			}
		case *parse.PipeNode:
			if len(x.Cmds) == 1 {
				return evalCmd(x.Cmds[0])
			}
		case *parse.CommandNode:
			return evalCmd(x)
		}
		return val{}, false
	}
	evalCmd = func(cmd *parse.CommandNode) (val, bool) {
		if len(cmd.Args) == 1 {
			return evalNode(cmd.Args[0])
		}
		id, ok := cmd.Args[0].(*parse.IdentifierNode)
		if !ok {
			return val{}, false
		}
		var args []val
		for _, a := range cmd.Args[1:] {
			x, ok := evalNode(a)
			if !ok {
				return val{}, false
			}
			args = append(args, x)
		}
		truth := func(x val) bool {
			if x.isBool {
				return x.b
			}
			return x.f != 0
		}
		switch id.Ident {
		case "not":
			if len(args) == 1 {
				return val{b: !truth(args[0]), isBool: true}, true
			}
		case "or":
			r := false
			for _, a := range args {
				r = r || truth(a)
			}
			return val{b: r, isBool: true}, true
		case "and":
			r := true
			for _, a := range args {
				r = r && truth(a)
			}
			return val{b: r, isBool: true}, true
		case "lt", "le", "gt", "ge", "eq", "ne":
			if len(args) != 2 || args[0].isBool || args[1].isBool {
				return val{}, false
			}
			a, b := args[0].f, args[1].f
			var r bool
			switch id.Ident {
			case "lt":
				r = a < b
			case "le":
				r = a <= b
			case "gt":
				r = a > b
			case "ge":
				r = a >= b
			case "eq":
				r = a == b
			case "ne":
				r = a != b
			}
			return val{b: r, isBool: true}, true
		}
		return val{}, false
	}
	r, ok := evalNode(pipe)
	if !ok {
		return false, false
	}
	if r.isBool {
		return r.b, true
	}
	return r.f != 0, true
}

// paramAssertedTypes: the PostScript object types a function asserts on its idx-th parameter
// (type assertions and type-switch cases), e.g. getReal → Real, Integer.
func paramAssertedTypes(info *types.Info, d *ast.FuncDecl, idx int) []string {
	var param types.Object
	k := 0
	for _, fl := range d.Type.Params.List {
		for _, n := range fl.Names {
			if k == idx {
				param = info.Defs[n]
			}
			k++
		}
	}
	if param == nil {
		return nil
	}
	set := map[string]bool{}
	name := func(e ast.Expr) string {
		t := types.ExprString(e)
		return strings.TrimPrefix(t, "postscript.")
	}
	isParam := func(e ast.Expr) bool {
		id, ok := ast.Unparen(e).(*ast.Ident)
		return ok && info.ObjectOf(id) == param
	}
	ast.Inspect(d.Body, func(n ast.Node) bool {
		switch x := n.(type) {
		case *ast.TypeAssertExpr:
			if x.Type != nil && isParam(x.X) {
				set[name(x.Type)] = true
			}
		case *ast.TypeSwitchStmt:
			var subj ast.Expr
			switch a := x.Assign.(type) {
			case *ast.AssignStmt:
				if ta, ok := a.Rhs[0].(*ast.TypeAssertExpr); ok {
					subj = ta.X
				}
			case *ast.ExprStmt:
				if ta, ok := a.X.(*ast.TypeAssertExpr); ok {
					subj = ta.X
				}
			}
			if subj != nil && isParam(subj) {
				for _, cc := range x.Body.List {
					for _, e := range cc.(*ast.CaseClause).List {
						set[name(e)] = true
					}
				}
			}
		}
		return true
	})
	var out []string
	for t := range set {
		out = append(out, t)
	}
	sort.Strings(out)
	return out
}
