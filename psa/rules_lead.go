package main

import (
	"fmt"
	"go/constant"
	"go/token"
	"go/types"
	"regexp"
	"sort"
	"strings"

	"golang.org/x/tools/go/ssa"
)

// W-SHADOW (C08, C09): the glyph names of a font are written as keys of the CharStrings
// dictionary while that dictionary is the current one; a glyph whose name is one of the names
// the font program executes there (the charstring procedures RD/ND, the operators in their
// bodies, the closing `end`) hides that procedure or operator from the rest of the program and
// the file cannot be read.  The names are read off the template; the writers must refuse every
// one of them as a glyph name before they produce output.
func (c *Ctx) glyphNameShadowing() {
	t := c.fontTemplate()
	text := t.flatText()
	// the text emitted while CharStrings is current: from `/CharStrings … dict dup begin` to the
	// `end` that closes it (template actions are ⟦…⟧ and emit data, not names)
	i := strings.Index(text, "/CharStrings")
	if i < 0 {
		c.fail("W-SHADOW", "type1 template", "CharStrings section", token.NoPos, "the template has no /CharStrings section: the rule lost its anchor")
		return
	}
	rest := text[i:]
	b := regexp.MustCompile(`\bbegin\b`).FindStringIndex(rest)
	if b == nil {
		c.fail("W-SHADOW", "type1 template", "CharStrings section", token.NoPos, "the CharStrings dictionary is not made current with `begin`: the rule lost its anchor")
		return
	}
	body := rest[b[1]:]
	e := regexp.MustCompile(`(?m)^end\b|\send\b`).FindStringIndex(body)
	if e == nil {
		c.fail("W-SHADOW", "type1 template", "CharStrings section", token.NoPos, "the CharStrings section is not closed with `end`")
		return
	}
	section := body[:e[1]]
	actions := regexp.MustCompile(`⟦[^⟧]*⟧`)
	tokens := func(s string) []string {
		s = actions.ReplaceAllString(s, " ")
		var out []string
		for _, w := range strings.FieldsFunc(s, func(r rune) bool {
			return r == ' ' || r == '\n' || r == '\t' || r == '{' || r == '}' || r == '[' || r == ']'
		}) {
			if w == "" || strings.HasPrefix(w, "/") || strings.HasPrefix(w, "(") || strings.HasPrefix(w, "%") {
				continue
			}
			if regexp.MustCompile(`^[-+]?[0-9.]+$`).MatchString(w) {
				continue
			}
			out = append(out, w)
		}
		return out
	}
	// procedures the template defines: /X {body} … def
	procs := map[string]string{}
	for _, m := range regexp.MustCompile(`/([A-Za-z|\-]+)\s*\{([^{}]*)\}`).FindAllStringSubmatch(text, -1) {
		procs[m[1]] = m[2]
	}
	executed := map[string]bool{}
	var add func(w string, depth int)
	add = func(w string, depth int) {
		if executed[w] || depth > 3 {
			return
		}
		executed[w] = true
		if bodyText, ok := procs[w]; ok {
			for _, x := range tokens(bodyText) {
				add(x, depth+1)
			}
		}
	}
	for _, w := range tokens(section) {
		add(w, 0)
	}
	var names []string
	for w := range executed {
		names = append(names, w)
	}
	sort.Strings(names)
	if len(names) < 3 {
		c.fail("W-SHADOW", "type1 template", "names executed while CharStrings is current", token.NoPos, fmt.Sprintf("only %v found: the rule lost its anchor", names))
		return
	}
	// the refusal: a function that ranges over the glyph map, looks the name up in a constant set
	// and returns an error when it is found; called by every writer before anything is written
	fontT := c.typeObj("type1", "Font")
	type refusal struct {
		fn   *ssa.Function
		keys map[string]bool
	}
	var refusals []refusal
	for _, fn := range c.modFuncs {
		if fn.Pkg == nil || fn.Pkg.Pkg.Name() != "type1" {
			continue
		}
		keys := map[string]bool{}
		rangesGlyphs := false
		eachInstr(fn, func(ins ssa.Instruction) {
			switch x := ins.(type) {
			case *ssa.Range:
				if isFieldLoad(x.X, fontT, "Glyphs") {
					rangesGlyphs = true
				}
			case *ssa.Call:
				// the sorted list of the glyph names (rule Q-LISTSOURCE of C19: exactly the keys of the map)
				if sc := x.Call.StaticCallee(); sc != nil && sc.Signature.Recv() != nil && c.isFn(sc, "type1", "Font", "GlyphList") {
					rangesGlyphs = true
				}
			case *ssa.Lookup:
				if g := globalLoad(x.X); g != nil {
					for k := range stringSetKeys(g) {
						keys[k] = true
					}
				}
			case *ssa.BinOp:
				if x.Op == token.EQL {
					for _, o := range []ssa.Value{x.X, x.Y} {
						if cst, ok := o.(*ssa.Const); ok && cst.Value != nil && cst.Value.Kind() == constant.String {
							keys[constant.StringVal(cst.Value)] = true
						}
					}
				}
			}
		})
		if rangesGlyphs && len(keys) > 0 && returnsError(fn) {
			refusals = append(refusals, refusal{fn, keys})
		}
	}
	for _, w := range []struct{ recv, name string }{{"Font", "Write"}, {"Font", "WritePDF"}} {
		entry := c.method("type1", w.recv, w.name)
		fname := c.fname(entry)
		var missing []string
		called := false
		for _, r := range refusals {
			if len(staticCalls(entry, r.fn)) == 0 {
				continue
			}
			called = true
			missing = nil
			for _, n := range names {
				if !r.keys[n] {
					missing = append(missing, n)
				}
			}
			if len(missing) == 0 {
				break
			}
		}
		construct := "glyph names that the font program executes inside CharStrings are refused: " + strings.Join(names, " ")
		switch {
		case !called:
			c.fail("W-SHADOW", fname, construct, entry.Pos(), "the writer does not check the glyph names against the names the font program executes while CharStrings is the current dictionary ("+strings.Join(names, " ")+"): a glyph called `ND` or `def` hides the procedure or operator and the written font cannot be read")
		case len(missing) > 0:
			c.fail("W-SHADOW", fname, construct, entry.Pos(), "the writer's check of the glyph names misses "+strings.Join(missing, " ")+", which the font program executes while CharStrings is the current dictionary")
		default:
			c.ok("W-SHADOW", fname, construct, entry.Pos(), "a function that ranges over the glyphs and returns an error for each of these names is called by the writer", "")
		}
	}
	c.floor("W-SHADOW", 2)
}

func returnsError(fn *ssa.Function) bool {
	res := fn.Signature.Results()
	return res.Len() > 0 && types.Identical(res.At(res.Len()-1).Type(), types.Universe.Lookup("error").Type())
}

// stringSetKeys: the constant string keys of the map literal a package-level variable is
// initialised with.
func stringSetKeys(g *ssa.Global) map[string]bool {
	out := map[string]bool{}
	if g.Pkg == nil || g.Pkg.Func("init") == nil {
		return out
	}
	var m ssa.Value
	eachInstr(g.Pkg.Func("init"), func(ins ssa.Instruction) {
		if st, ok := ins.(*ssa.Store); ok && st.Addr == ssa.Value(g) {
			m = st.Val
		}
	})
	if m == nil {
		return out
	}
	eachInstr(g.Pkg.Func("init"), func(ins ssa.Instruction) {
		if mu, ok := ins.(*ssa.MapUpdate); ok && mu.Map == m {
			if cst, ok := mu.Key.(*ssa.Const); ok && cst.Value != nil && cst.Value.Kind() == constant.String {
				out[constant.StringVal(cst.Value)] = true
			}
		}
	})
	return out
}

// T1-LENGUARD (C06): whether an encrypted charstring or subroutine is long enough is a question
// about lenIV, which a font may set to any value >= 0 (with lenIV 0 a one-byte entry is complete).
// No call of the charstring decryption may sit behind a test that compares the length of the
// cipher text with a constant: such a test drops short entries of fonts whose lenIV is smaller.
func (c *Ctx) lenIVGuards() {
	deob := c.fn("type1", "deobfuscateCharstring")
	n := 0
	for _, f := range c.modFuncs {
		for _, call := range staticCalls(f, deob) {
			n++
			cipher := origin(call.Common().Args[0])
			fname := c.fname(f)
			bad := ""
			for _, cd := range domConds(call.Block()) {
				m, ok := asCmp(cd)
				if !ok {
					continue
				}
				isLen := func(v ssa.Value) bool {
					cl, ok := origin(v).(*ssa.Call)
					if !ok {
						return false
					}
					b, ok := cl.Call.Value.(*ssa.Builtin)
					return ok && b.Name() == "len" && origin(cl.Call.Args[0]) == cipher
				}
				var k int64
				var isC bool
				switch {
				case isLen(m.x):
					k, isC = constInt(m.y)
				case isLen(m.y):
					k, isC = constInt(m.x)
				default:
					continue
				}
				if isC && k > 0 {
					bad = fmt.Sprintf("the decryption is reached only when the length of the entry compares with the constant %d", k)
				}
			}
			construct := "entries are not dropped by a fixed length threshold: " + c.valShape(call.Common().Args[0])
			if bad == "" {
				c.ok("T1-LENGUARD", fname, construct, call.Pos(), "no dominating comparison of the cipher text's length with a positive constant", "")
			} else {
				c.fail("T1-LENGUARD", fname, construct, call.Pos(), bad+": with a smaller lenIV (0 and 1 are legal) a complete charstring can be shorter than that — `4 callsubr` is two bytes — and the glyph or subroutine is silently left out of the font")
			}
		}
	}
	c.floor("T1-LENGUARD", 2)
	_ = n
}
