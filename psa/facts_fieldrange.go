package main

import (
	"go/constant"
	"go/token"
	"go/types"
	"sort"
	"strings"

	"golang.org/x/tools/go/ssa"
)

// Inductive constant ranges of unexported integer fields: a counter that indexes a fixed array
// (`errors[numErrors]`, `stack[depth]`) stays within bounds that the code establishes with its own
// tests.  A candidate lo <= f <= hi (lo = 0; hi from the constants the field is compared with and
// the lengths of the arrays it indexes) is accepted for *all times* when the zero value lies in
// it and every store to the field in the module stores a value shown to lie in it, under the
// hypothesis that every load of the field does.  The field is unexported, so the module's stores
// are all there are.

var fieldRangeCache = map[string]*constRange{}
var fieldRangeHyp = map[string]*constRange{}
var fieldRangeBusy = false

func fieldKeyOfValAtom(a string) string {
	if !strings.HasPrefix(a, "val(") {
		return ""
	}
	body := a[4 : len(a)-1]
	// base#name.<pkgpath>.<Type>.<field>@<epoch>: the key starts after the first '.' that follows
	// '#' and ends at the first '@' after it (epochs contain '@' themselves)
	j := strings.Index(body, "#")
	if j < 0 {
		return ""
	}
	i := strings.Index(body[j:], "@")
	if i < 0 {
		return ""
	}
	body = body[:j+i]
	k := strings.Index(body[j:], ".")
	if k < 0 {
		return ""
	}
	return body[j+k+1:]
}

// fieldRangeFacts: lo <= a <= hi for a field-value atom whose field has an accepted range.
func fieldRangeFacts(a string) []Lin {
	key := fieldKeyOfValAtom(a)
	if key == "" {
		return nil
	}
	cr := fieldRangeHyp[key]
	if cr == nil {
		cr = fieldConstRange(key)
	}
	if cr == nil {
		return nil
	}
	return []Lin{atom(a).addK(-cr.lo), konst(cr.hi).sub(atom(a))}
}

func fieldConstRange(key string) *constRange {
	if r, ok := fieldRangeCache[key]; ok {
		return r
	}
	if fieldRangeBusy || feCtx == nil {
		return nil
	}
	c := feCtx
	// the field: unexported, integer, of a struct of the module
	var stores []*ssa.Store
	var loads []*ssa.UnOp
	var ftype types.Type
	for _, fn := range c.modFuncs {
		for _, b := range fn.Blocks {
			for _, ins := range b.Instrs {
				fa, ok := ins.(*ssa.FieldAddr)
				if !ok || fieldName(fa) != key {
					continue
				}
				st := fa.X.Type().Underlying().(*types.Pointer).Elem().Underlying().(*types.Struct)
				fv := st.Field(fa.Field)
				if fv.Exported() {
					fieldRangeCache[key] = nil
					return nil
				}
				ftype = fv.Type()
				for _, r := range *fa.Referrers() {
					switch r := r.(type) {
					case *ssa.Store:
						if r.Addr == ssa.Value(fa) {
							stores = append(stores, r)
						} else {
							fieldRangeCache[key] = nil
							return nil
						}
					case *ssa.UnOp:
						if r.Op == token.MUL {
							loads = append(loads, r)
						}
					case *ssa.DebugRef:
					default:
						fieldRangeCache[key] = nil // the address escapes
						return nil
					}
				}
			}
		}
	}
	if ftype == nil || len(stores) == 0 {
		fieldRangeCache[key] = nil
		return nil
	}
	if _, _, isInt := isIntType(ftype); !isInt {
		fieldRangeCache[key] = nil
		return nil
	}
	// candidate upper bounds
	seenK := map[int64]bool{}
	var his []int64
	add := func(k int64) {
		if k >= 0 && k < 1<<31 && !seenK[k] {
			seenK[k] = true
			his = append(his, k)
		}
	}
	// (v is the field's value plus off: a bound K of v is the bound K-off of the field, so that a field
	// which indexes a table as `tab[f+1]` gets the candidates of `tab[f]` shifted by one)
	var visit func(v ssa.Value, depth int, off int64)
	visit = func(v ssa.Value, depth int, off int64) {
		if depth > 3 || v.Referrers() == nil {
			return
		}
		for _, r := range *v.Referrers() {
			switch x := r.(type) {
			case *ssa.BinOp:
				switch x.Op {
				case token.EQL, token.NEQ, token.LSS, token.LEQ, token.GTR, token.GEQ:
					for _, o := range []ssa.Value{x.X, x.Y} {
						if cst, ok := o.(*ssa.Const); ok && cst.Value != nil && cst.Value.Kind() == constant.Int {
							if k, ok := constant.Int64Val(cst.Value); ok {
								add(k)
								add(k - 1)
								add(k + 1)
								if off != 0 {
									add(k - off)
									add(k - off - 1)
									add(k - off + 1)
								}
							}
						}
					}
				case token.ADD, token.SUB:
					if cst, isC := x.Y.(*ssa.Const); isC {
						d := off
						if k, ok := constIntVal(cst); ok && x.X == v && k > -1<<20 && k < 1<<20 {
							if x.Op == token.ADD {
								d += k
							} else {
								d -= k
							}
						}
						visit(x, depth+1, d)
					}
				}
			case *ssa.IndexAddr:
				if x.Index == v {
					t := x.X.Type().Underlying()
					if p, ok := t.(*types.Pointer); ok {
						t = p.Elem().Underlying()
					}
					if at, ok := t.(*types.Array); ok {
						add(at.Len())
						add(at.Len() - 1)
						if off != 0 {
							add(at.Len() - 1 - off)
						}
					}
				}
			case *ssa.Phi:
				visit(x, depth+1, off)
			}
		}
	}
	for _, ld := range loads {
		visit(ld, 0, 0)
	}
	// the lower bound: 0, or the smallest negative constant the module stores to the field (a sentinel
	// such as -1); like the upper bound it is only a candidate, every store is checked against it
	lo := int64(0)
	for _, st := range stores {
		if k, ok := constIntVal(st.Val); ok && k < lo && k > -1<<31 {
			lo = k
		}
	}
	if len(his) == 0 || len(his) > 16 {
		fieldRangeCache[key] = nil
		return nil
	}
	sort.Slice(his, func(i, j int) bool { return his[i] < his[j] })
	fieldRangeBusy = true
	saved := fiByFn
	defer func() {
		fieldRangeBusy = false
		fiByFn = saved
		delete(fieldRangeHyp, key)
	}()
	var best *constRange
	for _, hi := range his {
		cand := &constRange{lo, hi}
		fieldRangeHyp[key] = cand
		fiByFn = map[*ssa.Function]*funcInfo{}
		ok := true
		for _, st := range stores {
			fi := newFuncInfo(st.Parent())
			t := fi.term(st.Val)
			if !fi.prove([]Lin{t.addK(-lo), konst(hi).sub(t)}, fi.factsAt(st.Block(), st), 1) {
				ok = false
				break
			}
		}
		if ok {
			best = cand
			break // the smallest bound that holds
		}
	}
	fieldRangeCache[key] = best
	if best != nil {
		// proofs made before the range was known may have given up on terms that are now linear
		for _, fi := range saved {
			fi.terms = map[ssa.Value]Lin{}
		}
	}
	return best
}
