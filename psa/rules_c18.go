package main

import (
	"fmt"
	"go/token"
	"go/types"
	"sort"
	"strings"

	"golang.org/x/tools/go/ssa"
)

// C18 — isolation of interpreter instances and data-race freedom.
// Rule family A16 ISOLATION.
//
//	ISO-GLOBALSTORE  no function other than a package initialiser assigns a package-level variable
//	ISO-SHARED       storage owned by a package-level map/slice/array is never written through,
//	                 and never escapes into instance state / interfaces / API results, except
//	                 through a sanitizer that produces fresh storage
//	ISO-IMMUTABLE    struct types that package-level pointers point to are written only while
//	                 they are being constructed
//	ISO-LOCK         fields of a struct guarded by an embedded mutex are accessed only under the lock
//	ISO-PUBLISH      a map published from under the lock is complete before it is stored
//	ISO-CONC         no go statement, unsafe or sync/atomic in library code

func init() {
	register(&propCheck{
		id:    "C18",
		title: "Interpreter instances are isolated and the library is free of data races",
		explanation: "Decides the structural clause of C18: the inventory of package-level variables is computed from the type-checked program; " +
			"no function other than a package initialiser stores to one; memory owned by a package-level map, slice or array is never written through any alias " +
			"(value flow followed through phi, slicing, element loads, local variables, closures, parameters of module functions and results of unexported functions) " +
			"and never reaches an interface value, a field or element store, or the result of an exported function unless it passed a cloning sanitizer; " +
			"struct types reachable from package-level pointers are written only during construction; every access to a field of a mutex-guarded struct is dominated by Lock on the same receiver " +
			"(or lies in a function all of whose call sites are); maps published out of the critical section are complete before publication; library code has no go statement, unsafe or sync/atomic. " +
			"Consequence: two interpreter instances and any reader/writer calls share no mutable memory except the glyph-name tables, whose conflicting accesses are ordered by one mutex. " +
			"It does NOT decide `same results as sequential use` (a value statement) nor races inside the standard library.",
		trusted: []string{"go/ssa value flow (field- and type-based, no pointer analysis)", "text/template.Template, regexp.Regexp, embed.FS are safe for concurrent use (documented)",
			"maps.Clone / slices.Clone / element-wise copy produce fresh storage"},
		assumptions: []string{"API users do not write to exported package-level variables (psenc.StandardEncoding etc.) themselves"},
		run:         runC18,
	})
}

func isInitFunc(fn *ssa.Function) bool {
	for fn.Parent() != nil {
		fn = fn.Parent()
	}
	return fn.Name() == "init" || strings.HasPrefix(fn.Name(), "init#")
}

func typeHasRefData(t types.Type, seen map[types.Type]bool) bool {
	if seen[t] {
		return false
	}
	seen[t] = true
	switch u := t.Underlying().(type) {
	case *types.Map, *types.Slice:
		return true
	case *types.Array:
		return true // arrays are addressable element-wise
	case *types.Struct:
		for i := 0; i < u.NumFields(); i++ {
			if typeHasRefData(u.Field(i).Type(), seen) {
				return true
			}
		}
	}
	return false
}

func runC18(c *Ctx) {
	// ---- inventory of package-level variables
	type gvar struct {
		g    *ssa.Global
		kind string
	}
	var globals []gvar
	immutable := map[*types.Named]bool{}
	guarded := map[*types.Named]bool{}
	for _, sp := range c.spkgs {
		if _, ok := c.pkgs[sp.Pkg.Path()]; !ok {
			continue
		}
		for _, m := range sp.Members {
			g, ok := m.(*ssa.Global)
			if !ok || strings.HasPrefix(g.Name(), "init$") {
				continue
			}
			elem := g.Type().(*types.Pointer).Elem()
			kind := "value"
			switch {
			case safeObjectTypes[elem.String()]:
				kind = "safe-object"
			case mutexStructY5(elem) != nil && c.pkgs[mutexStructY5(elem).Obj().Pkg().Path()] != nil:
				// a mutex-carrying struct of the module held by value (`var tables tableSet`, the zero value ready for
				// use) is the same shared object as one held through a pointer assigned once
				// (`var tables = &tableSet{…}`): its fields are under the lock discipline (ISO-LOCK,
				// ISO-PUBLISH, no copies), which decides every access to them
				guarded[mutexStructY5(elem)] = true
				kind = "guarded"
			case typeHasRefData(elem, map[types.Type]bool{}):
				kind = "refdata"
			default:
				if p, ok := elem.Underlying().(*types.Pointer); ok {
					kind = "pointer"
					if n, ok := p.Elem().(*types.Named); ok {
						if structHasMutex(n) {
							guarded[n] = true
							kind = "guarded"
						} else if _, isStruct := n.Underlying().(*types.Struct); isStruct && n.Obj().Pkg() != nil && c.pkgs[n.Obj().Pkg().Path()] != nil {
							immutable[n] = true
						}
					}
				} else if _, ok := elem.Underlying().(*types.Interface); ok {
					kind = "interface"
				} else if sig, ok := elem.Underlying().(*types.Signature); ok && c.memoProducer(g) != nil && sig.Results().Len() > 0 {
					// a memoising function (sync.OnceValue): every call yields the same value,
					// which is therefore shared exactly like the value of a package-level variable
					kind = "memo"
				}
			}
			globals = append(globals, gvar{g, kind})
		}
	}
	sort.Slice(globals, func(i, j int) bool { return globalName(globals[i].g) < globalName(globals[j].g) })
	// error types of the module are shared through sentinel values as well
	for _, p := range c.pkgs {
		sc := p.Types.Scope()
		for _, name := range sc.Names() {
			tn, ok := sc.Lookup(name).(*types.TypeName)
			if !ok {
				continue
			}
			n, ok := tn.Type().(*types.Named)
			if !ok {
				continue
			}
			if _, isStruct := n.Underlying().(*types.Struct); !isStruct {
				continue
			}
			if types.Implements(types.NewPointer(n), errorIface()) {
				immutable[n] = true
			}
			if structHasMutex(n) {
				guarded[n] = true
				delete(immutable, n)
			}
		}
	}
	inv := map[string]string{}
	for _, gv := range globals {
		inv[globalName(gv.g)] = gv.kind + " " + gv.g.Type().(*types.Pointer).Elem().String()
	}
	c.rep.Extra["package_level_variables"] = inv
	c.floor("ISO-GLOBALSTORE", 10)
	c.floor("ISO-SHARED", 5)

	// ---- index uses of globals
	uses := map[*ssa.Global][]ssa.Instruction{}
	for _, fn := range c.modFuncs {
		for _, b := range fn.Blocks {
			for _, ins := range b.Instrs {
				for _, op := range ins.Operands(nil) {
					if g, ok := (*op).(*ssa.Global); ok {
						uses[g] = append(uses[g], ins)
					}
				}
			}
		}
	}

	for _, gv := range globals {
		g := gv.g
		name := globalName(g)
		// ISO-GLOBALSTORE
		var bad []string
		for _, ins := range uses[g] {
			if st, ok := ins.(*ssa.Store); ok && st.Addr == g && !isInitFunc(ins.Parent()) {
				if underOnceOrLock(ins) {
					continue
				}
				bad = append(bad, fmt.Sprintf("%s assigns it at %s", c.fname(ins.Parent()), c.pos(ins.Pos())))
			}
		}
		if len(bad) > 0 {
			c.fail("ISO-GLOBALSTORE", name, "assignment outside init", g.Pos(), "package-level variable "+name+" is assigned after initialisation: "+joinMax(bad, 4)+"; every interpreter instance and goroutine shares it")
		} else {
			c.ok("ISO-GLOBALSTORE", name, "assignment outside init", g.Pos(), "no Store to the variable outside package initialisers", "")
		}
		if gv.kind != "refdata" && gv.kind != "safe-object" && gv.kind != "memo" {
			continue
		}
		// ISO-SHARED: follow the storage
		t := newFlowTracker(c)
		if gv.kind == "refdata" {
			t.immutableElems = c.globalElemsImmutable(g, map[ssa.Value]bool{})
		}
		if gv.kind == "memo" {
			// the shared storage is what the calls of the memoising function return
			t.immutableElems = c.resultElemsImmutable(c.memoProducer(g), map[ssa.Value]bool{})
			for _, ins := range uses[g] {
				ld, ok := ins.(*ssa.UnOp)
				if !ok || ld.X != g || isInitFunc(ins.Parent()) {
					continue
				}
				for _, r := range *ld.Referrers() {
					if call, ok := r.(*ssa.Call); ok && call.Call.Value == ld {
						if isPointerLike(call.Type()) || isAggregateWithRefs(call.Type()) {
							t.track(call)
						} else if _, isTuple := call.Type().(*types.Tuple); isTuple {
							for i := 0; i < call.Type().(*types.Tuple).Len(); i++ {
								t.trackExtract(call, i)
							}
						}
						continue
					}
					if _, ok := r.(*ssa.DebugRef); !ok {
						t.use(ld, r) // the function value itself is passed on
					}
				}
			}
		}
		for _, ins := range uses[g] {
			if isInitFunc(ins.Parent()) || gv.kind == "memo" {
				continue
			}
			switch ins := ins.(type) {
			case *ssa.Store:
				if ins.Addr == g {
					continue // reported above
				}
				t.use(g, ins)
			case *ssa.UnOp:
				// load of the variable: the map/slice header or the array/struct value
				if isPointerLike(ins.Type()) {
					t.track(ins)
				} else if isAggregateWithRefs(ins.Type()) {
					t.track(ins)
				}
			case *ssa.IndexAddr, *ssa.FieldAddr:
				t.addr(ins.(ssa.Value))
			case *ssa.Slice:
				t.track(ins)
			case *ssa.DebugRef:
			default:
				t.use(g, ins)
			}
		}
		writes := t.summary("write")
		escapes := t.summary("escape")
		if gv.kind == "safe-object" {
			// only method calls are expected
			if len(writes)+len(escapes) > 0 {
				c.fail("ISO-SHARED", name, "shared library object", g.Pos(), "the shared "+gv.g.Type().(*types.Pointer).Elem().String()+" is used other than through its goroutine-safe methods: "+joinMax(append(writes, escapes...), 4))
			} else {
				c.ok("ISO-SHARED", name, "shared library object", g.Pos(), fmt.Sprintf("only goroutine-safe method calls (%d uses)", len(t.events)), "")
			}
			continue
		}
		if len(writes) > 0 {
			c.fail("ISO-SHARED", name, "written after initialisation", g.Pos(), "memory owned by package-level "+name+" is written: "+joinMax(writes, 4))
		} else {
			c.ok("ISO-SHARED", name, "written after initialisation", g.Pos(), fmt.Sprintf("no write through any alias (%d uses followed)", len(t.events)), "")
		}
		if len(escapes) > 0 {
			c.fail("ISO-SHARED", name, "escapes", g.Pos(), "a reference to the storage of package-level "+name+" leaves the package's control without being cloned: "+joinMax(escapes, 4)+"; a PostScript program or API user can then mutate state shared by all instances")
		} else {
			c.ok("ISO-SHARED", name, "escapes", g.Pos(), fmt.Sprintf("never boxed, stored or returned un-cloned (%d uses followed)", len(t.events)), "")
		}
	}

	// ---- ISO-IMMUTABLE
	var immNames []string
	for n := range immutable {
		immNames = append(immNames, n.Obj().Name())
	}
	sort.Strings(immNames)
	c.rep.Extra["immutable_after_construction_types"] = immNames
	immBad := map[string][]string{}
	for _, fn := range c.modFuncs {
		for _, b := range fn.Blocks {
			for _, ins := range b.Instrs {
				st, ok := ins.(*ssa.Store)
				if !ok {
					continue
				}
				fa, ok := st.Addr.(*ssa.FieldAddr)
				if !ok {
					continue
				}
				n, ok := fa.X.Type().Underlying().(*types.Pointer).Elem().(*types.Named)
				if !ok || !immutable[n] {
					continue
				}
				if al, ok := fa.X.(*ssa.Alloc); ok && al.Parent() == fn {
					continue // under construction
				}
				immBad[n.Obj().Name()] = append(immBad[n.Obj().Name()], fmt.Sprintf("%s at %s", c.fname(fn), c.pos(st.Pos())))
			}
		}
	}
	for _, n := range immNames {
		if bad := immBad[n]; len(bad) > 0 {
			c.fail("ISO-IMMUTABLE", n, "field store after construction", token.NoPos, "values of type "+n+" are shared through package-level pointers/sentinel errors but a field is written after construction: "+joinMax(bad, 4))
		} else {
			c.ok("ISO-IMMUTABLE", n, "field store after construction", token.NoPos, "fields are stored only into the fresh allocation of a composite literal", "")
		}
	}

	// ---- ISO-LOCK / ISO-PUBLISH
	c.lockRules(guarded)

	// ---- ISO-READONLY: serialisers and query methods do not modify their receiver
	c.readOnlyAPI()

	// ---- ISO-CONC
	n := 0
	for _, fn := range c.modFuncs {
		for _, b := range fn.Blocks {
			for _, ins := range b.Instrs {
				if _, ok := ins.(*ssa.Go); ok {
					n++
					c.fail("ISO-CONC", c.fname(fn), "go statement", ins.Pos(), "library code starts a goroutine")
				}
			}
		}
	}
	for _, p := range c.pkgs {
		for path := range p.Imports {
			if path == "unsafe" || path == "sync/atomic" {
				n++
				c.fail("ISO-CONC", p.PkgPath, "import "+path, token.NoPos, "library package imports "+path)
			}
		}
	}
	if n == 0 {
		c.ok("ISO-CONC", "-", "go/unsafe/atomic", token.NoPos, "none in 8 packages", "")
	}
	c.poolRule()
}

func errorIface() *types.Interface {
	return types.Universe.Lookup("error").Type().Underlying().(*types.Interface)
}

func structHasMutex(n *types.Named) bool {
	st, ok := n.Underlying().(*types.Struct)
	if !ok {
		return false
	}
	for i := 0; i < st.NumFields(); i++ {
		ft := st.Field(i).Type().String()
		if ft == "sync.Mutex" || ft == "sync.RWMutex" {
			return true
		}
	}
	return false
}

// underOnceOrLock: the instruction lies in a function literal passed to
// (*sync.Once).Do, or is dominated by a mutex Lock in its function.
func underOnceOrLock(ins ssa.Instruction) bool {
	fn := ins.Parent()
	if fn.Parent() != nil {
		// closure: is it the argument of once.Do in the parent?
		for _, b := range fn.Parent().Blocks {
			for _, pi := range b.Instrs {
				call, ok := pi.(ssa.CallInstruction)
				if !ok {
					continue
				}
				sc := call.Common().StaticCallee()
				if sc == nil || sc.String() != "(*sync.Once).Do" {
					continue
				}
				for _, a := range call.Common().Args {
					if mc, ok := a.(*ssa.MakeClosure); ok && mc.Fn == fn {
						return true
					}
					if f, ok := a.(*ssa.Function); ok && f == fn {
						return true
					}
				}
			}
		}
	}
	return len(locksHeldAt(ins)) > 0
}

// locksHeldAt returns the receivers whose Lock() dominates ins without an
// intervening non-deferred Unlock on the same receiver.
func locksHeldAt(ins ssa.Instruction) []ssa.Value {
	var held []ssa.Value
	for _, h := range locksHeldModes(ins) {
		held = append(held, h.recv)
	}
	return held
}

// heldLock: a mutex held at an instruction; shared = only the read side of a sync.RWMutex
// (any number of goroutines can hold it at the same time, so it orders reads against writes
// under the exclusive lock but nothing against other holders of the read lock).
type heldLock struct {
	recv   ssa.Value
	shared bool
}

func locksHeldModes(ins ssa.Instruction) []heldLock {
	fn := ins.Parent()
	var held []heldLock
	for _, b := range fn.Blocks {
		for i, li := range b.Instrs {
			call, ok := li.(*ssa.Call)
			if !ok {
				continue
			}
			sc := call.Common().StaticCallee()
			if sc == nil || (sc.String() != "(*sync.Mutex).Lock" && sc.String() != "(*sync.RWMutex).Lock" && sc.String() != "(*sync.RWMutex).RLock") {
				continue
			}
			if !instrDominates(b, i, ins) {
				continue
			}
			recv := call.Common().Args[0]
			// an explicit (non-deferred) Unlock between Lock and ins?
			released := false
			for _, b2 := range fn.Blocks {
				for j, ui := range b2.Instrs {
					uc, ok := ui.(*ssa.Call)
					if !ok {
						continue
					}
					usc := uc.Common().StaticCallee()
					if usc == nil || !strings.HasSuffix(usc.String(), "Unlock") || !strings.HasPrefix(usc.String(), "(*sync.") {
						continue
					}
					if sameMutex(uc.Common().Args[0], recv) && instrDominates(b, i, ui) && instrDominates(b2, j, ins) {
						released = true
					}
				}
			}
			if !released {
				held = append(held, heldLock{recv: recv, shared: sc.String() == "(*sync.RWMutex).RLock"})
			}
		}
	}
	return held
}

// lockOn: is the lock on base held at ins — exclusively, if exclusive is asked for?
func lockOn(ins ssa.Instruction, base ssa.Value, exclusive bool) (held, onlyShared bool) {
	for _, h := range locksHeldModes(ins) {
		if mutexBase(h.recv) != base {
			continue
		}
		if exclusive && h.shared {
			onlyShared = true
			continue
		}
		return true, false
	}
	return false, onlyShared
}

// writesGuarded: the access through field address fa modifies the guarded memory: a store to the
// field, or an update of the map / an element store into the slice loaded from it (here or in a
// module function it is handed to).
func (c *Ctx) writesGuarded(fa ssa.Value) bool {
	seen := map[ssa.Value]bool{}
	var through func(v ssa.Value, depth int) bool
	through = func(v ssa.Value, depth int) bool {
		if seen[v] || depth > 4 || v.Referrers() == nil {
			return false
		}
		seen[v] = true
		for _, r := range *v.Referrers() {
			switch r := r.(type) {
			case *ssa.Store:
				if r.Addr == v {
					return true
				}
			case *ssa.MapUpdate:
				if r.Map == v {
					return true
				}
			case *ssa.UnOp:
				if r.Op == token.MUL && r.X == v && isPointerLike(r.Type()) && through(r, depth+1) {
					return true
				}
			case *ssa.IndexAddr:
				if r.X == v && through(r, depth+1) {
					return true
				}
			case *ssa.FieldAddr:
				if r.X == v && through(r, depth+1) {
					return true
				}
			case *ssa.Slice:
				if r.X == v && through(r, depth+1) {
					return true
				}
			case *ssa.Phi:
				if through(r, depth+1) {
					return true
				}
			case ssa.CallInstruction:
				com := r.Common()
				if b, ok := com.Value.(*ssa.Builtin); ok {
					switch b.Name() {
					case "delete", "clear", "copy", "append":
						if len(com.Args) > 0 && com.Args[0] == v {
							return true
						}
					}
					continue
				}
				if callee := com.StaticCallee(); callee != nil {
					eff := c.effects().of(callee)
					for i, a := range com.Args {
						if a == v && eff.Params[i] {
							return true
						}
					}
				}
			}
		}
		return false
	}
	return through(fa, 0)
}

func instrDominates(b *ssa.BasicBlock, idx int, ins ssa.Instruction) bool {
	ib := ins.Block()
	if ib == b {
		for j, x := range b.Instrs {
			if x == ins {
				return idx < j
			}
		}
		return false
	}
	return b.Dominates(ib)
}

// sameMutex: both values address the mutex field of the same base pointer.
func sameMutex(a, b ssa.Value) bool {
	return mutexBase(a) != nil && mutexBase(a) == mutexBase(b)
}

func mutexBase(v ssa.Value) ssa.Value {
	if fa, ok := v.(*ssa.FieldAddr); ok {
		return fa.X
	}
	return v
}

func (c *Ctx) lockRules(guarded map[*types.Named]bool) {
	if len(guarded) == 0 {
		c.fail("ISO-LOCK", "-", "mutex-guarded struct", token.NoPos, "no mutex-guarded struct type found: the glyph-name tables are expected to be guarded by an embedded sync.Mutex")
		return
	}
	// functions that access guarded fields without holding the lock themselves
	type access struct {
		fn  *ssa.Function
		ins ssa.Instruction
		fa  *ssa.FieldAddr
	}
	var unlocked []access
	nacc := 0
	for _, fn := range c.modFuncs {
		for _, b := range fn.Blocks {
			for _, ins := range b.Instrs {
				fa, ok := ins.(*ssa.FieldAddr)
				if !ok {
					continue
				}
				n, ok := fa.X.Type().Underlying().(*types.Pointer).Elem().(*types.Named)
				if !ok || !guarded[n] {
					continue
				}
				st := n.Underlying().(*types.Struct)
				ft := st.Field(fa.Field).Type().String()
				if ft == "sync.Mutex" || ft == "sync.RWMutex" {
					continue
				}
				if isInitFunc(fn) {
					continue
				}
				if ft == "sync.Once" {
					// goroutine-safe as long as it is used through Do only (never copied, reset or handed on)
					nacc++
					var other []string
					for _, r := range *fa.Referrers() {
						if _, isDbg := r.(*ssa.DebugRef); isDbg {
							continue
						}
						if fld, _, _, isDo := onceDo(r, n); !isDo || fld != fa.Field {
							other = append(other, c.pos(r.Pos()))
						}
					}
					onceName := n.Obj().Name() + "." + st.Field(fa.Field).Name()
					if len(other) > 0 {
						c.fail("ISO-LOCK", c.fname(fn), onceName, ins.Pos(), "the sync.Once "+onceName+" that publishes lazily built state is used other than as the receiver of Do (copied, overwritten or handed on): "+joinMax(other, 4))
					} else {
						c.ok("ISO-LOCK", c.fname(fn), onceName, ins.Pos(), "the sync.Once is used as the receiver of Do only", "")
					}
					continue
				}
				if al, ok := fa.X.(*ssa.Alloc); ok && al.Parent() == fn {
					continue // construction
				}
				nacc++
				isWrite := c.writesGuarded(fa)
				heldHere, onlyShared := lockOn(ins, fa.X, isWrite)
				fieldName := n.Obj().Name() + "." + st.Field(fa.Field).Name()
				if heldHere {
					c.ok("ISO-LOCK", c.fname(fn), fieldName, ins.Pos(), "Lock on the same receiver dominates the access", "")
				} else if onlyShared {
					c.fail("ISO-LOCK", c.fname(fn), fieldName, ins.Pos(), "mutex-guarded field "+fieldName+" is written while only the read lock (RLock) is held: any number of goroutines can hold the read lock at once, so the write races with their reads and writes")
				} else {
					unlocked = append(unlocked, access{fn, ins, fa})
				}
			}
		}
	}
	// an unlocked access is fine if every call site of the function holds the lock on the value passed as receiver
	for _, a := range unlocked {
		n := a.fa.X.Type().Underlying().(*types.Pointer).Elem().(*types.Named)
		st := n.Underlying().(*types.Struct)
		fieldName := n.Obj().Name() + "." + st.Field(a.fa.Field).Name()
		par, isParam := a.fa.X.(*ssa.Parameter)
		okAll := isParam && a.fn.Parent() == nil && !exportedAPI(a.fn)
		isWrite := c.writesGuarded(a.fa)
		ncalls := 0
		var why string
		if okAll {
			pidx := 0
			for i, p := range a.fn.Params {
				if p == par {
					pidx = i
				}
			}
			for _, caller := range c.modFuncs {
				for _, b := range caller.Blocks {
					for _, ins := range b.Instrs {
						call, ok := ins.(ssa.CallInstruction)
						if !ok {
							continue
						}
						com := call.Common()
						usesFn := false
						for _, op := range ins.Operands(nil) {
							if *op == ssa.Value(a.fn) {
								usesFn = true
							}
						}
						if com.StaticCallee() != a.fn {
							if usesFn {
								okAll = false
								why = "its value is taken at " + c.pos(ins.Pos())
							}
							continue
						}
						ncalls++
						held, onlyShared := lockOn(ins, com.Args[pidx], isWrite)
						if _, isDefer := ins.(*ssa.Defer); isDefer || !held {
							okAll = false
							why = "call site in " + c.fname(caller) + " at " + c.pos(ins.Pos()) + " does not hold the lock"
							if onlyShared {
								why = "call site in " + c.fname(caller) + " at " + c.pos(ins.Pos()) + " holds only the read lock (RLock) although the field is written here: concurrent holders of the read lock race with the write"
							}
						}
					}
				}
			}
			if ncalls == 0 {
				okAll = false
				why = "no static call site found"
			}
		} else {
			why = "the function is exported, a closure, or the receiver is not its parameter"
		}
		if okAll {
			c.ok("ISO-LOCK", c.fname(a.fn), fieldName, a.ins.Pos(), fmt.Sprintf("all %d call sites hold the lock on the receiver", ncalls), "")
		} else if onceFld, byOnce := c.publishedByOnce(n, a.fa.Field); byOnce {
			c.ok("ISO-LOCK", c.fname(a.fn), fieldName, a.ins.Pos(), "every write of the field happens inside "+n.Obj().Name()+"."+st.Field(onceFld).Name()+".Do on the same receiver, every read there or after such a call has returned", "")
		} else {
			c.fail("ISO-LOCK", c.fname(a.fn), fieldName, a.ins.Pos(), "access to mutex-guarded field "+fieldName+" without the lock: no dominating Lock in the function, and "+why)
		}
	}
	c.lockCopies(guarded)
	c.onceMemos()
	c.floor("ISO-LOCK", 4)

	// ISO-PUBLISH: a map stored into a guarded field must not be updated
	// after the store (readers may hold it outside the lock).
	for _, fn := range c.modFuncs {
		for _, b := range fn.Blocks {
			for i, ins := range b.Instrs {
				var stored ssa.Value
				var where string
				switch ins := ins.(type) {
				case *ssa.Store:
					fa, ok := ins.Addr.(*ssa.FieldAddr)
					if !ok {
						continue
					}
					n, ok := fa.X.Type().Underlying().(*types.Pointer).Elem().(*types.Named)
					if !ok || !guarded[n] {
						continue
					}
					if _, isMap := ins.Val.Type().Underlying().(*types.Map); !isMap {
						continue
					}
					stored = ins.Val
					where = n.Obj().Name() + "." + n.Underlying().(*types.Struct).Field(fa.Field).Name()
				case *ssa.MapUpdate:
					// map stored as an element of a guarded map field
					if _, isMap := ins.Value.Type().Underlying().(*types.Map); !isMap {
						continue
					}
					ld, ok := ins.Map.(*ssa.UnOp)
					if !ok {
						continue
					}
					fa, ok := ld.X.(*ssa.FieldAddr)
					if !ok {
						continue
					}
					n, ok := fa.X.Type().Underlying().(*types.Pointer).Elem().(*types.Named)
					if !ok || !guarded[n] {
						continue
					}
					stored = ins.Value
					where = "an element of " + n.Obj().Name() + "." + n.Underlying().(*types.Struct).Field(fa.Field).Name()
				default:
					continue
				}
				// all MapUpdates on `stored` must not come after the publication
				var late []string
				if refs := stored.Referrers(); refs != nil {
					for _, r := range *refs {
						mu, ok := r.(*ssa.MapUpdate)
						if !ok || mu.Map != stored {
							continue
						}
						// late if the publication may precede the update: publication block reaches update block
						if reaches(b, i, mu) {
							late = append(late, c.pos(mu.Pos()))
						}
					}
				}
				fresh := false
				switch x := stored.(type) {
				case *ssa.MakeMap:
					fresh = true
				case *ssa.Call:
					// built by a helper that returns a map it made itself and keeps no reference to
					if g := x.Call.StaticCallee(); g != nil && c.inModule(g) && c.effects().returnsFresh(g) {
						fresh = true
					}
				}
				if ld, isLd := stored.(*ssa.UnOp); isLd && ld.Op == token.MUL {
					// read out of a local variable that function literals share (ext_y7.go)
					if al, isAl := ld.X.(*ssa.Alloc); isAl && al.Parent() == fn {
						var l2 []string
						if fresh, l2 = c.sharedMapCellY7(fn, al, ld, b, i); fresh {
							late = append(late, l2...)
						}
					}
				}
				if !fresh {
					late = append(late, "the published map is not a map freshly made in this function (or by a helper that returns a fresh map)")
				}
				if len(late) > 0 {
					c.fail("ISO-PUBLISH", c.fname(fn), "map published to "+where, ins.Pos(), "the map is modified after it was published under the lock (readers use it outside the lock): "+strings.Join(late, ", "))
				} else {
					c.ok("ISO-PUBLISH", c.fname(fn), "map published to "+where, ins.Pos(), "fresh map, every update precedes the publishing store", "")
				}
			}
		}
	}
	// no MapUpdate anywhere on a map loaded from a guarded field, except the registry-of-maps update itself under lock (checked above as access)
	for _, fn := range c.modFuncs {
		for _, b := range fn.Blocks {
			for _, ins := range b.Instrs {
				mu, ok := ins.(*ssa.MapUpdate)
				if !ok {
					continue
				}
				// value flows from a load of guarded field?
				src := mapSourceField(mu.Map, guarded, 0)
				if src == "" {
					continue
				}
				if _, isMap := mu.Value.Type().Underlying().(*types.Map); isMap {
					continue // registry update, covered by ISO-LOCK on the FieldAddr and ISO-PUBLISH
				}
				c.fail("ISO-PUBLISH", c.fname(fn), "update of published map "+src, mu.Pos(), "a map that was loaded from mutex-guarded field "+src+" (and is handed to readers outside the lock) is updated in place")
			}
		}
	}
}

func mapSourceField(v ssa.Value, guarded map[*types.Named]bool, depth int) string {
	if depth > 6 {
		return ""
	}
	switch v := v.(type) {
	case *ssa.UnOp:
		if fa, ok := v.X.(*ssa.FieldAddr); ok {
			if n, ok := fa.X.Type().Underlying().(*types.Pointer).Elem().(*types.Named); ok && guarded[n] {
				return n.Obj().Name() + "." + n.Underlying().(*types.Struct).Field(fa.Field).Name()
			}
		}
	case *ssa.Lookup:
		return mapSourceField(v.X, guarded, depth+1)
	case *ssa.Phi:
		for _, e := range v.Edges {
			if s := mapSourceField(e, guarded, depth+1); s != "" {
				return s
			}
		}
	case *ssa.Extract:
		return mapSourceField(v.Tuple, guarded, depth+1)
	case *ssa.Call:
		if sc := v.Common().StaticCallee(); sc != nil && sc.Blocks != nil {
			for _, b := range sc.Blocks {
				for _, ins := range b.Instrs {
					if ret, ok := ins.(*ssa.Return); ok {
						for _, r := range ret.Results {
							if s := mapSourceField(r, guarded, depth+1); s != "" {
								return s
							}
						}
					}
				}
			}
		}
	}
	return ""
}

// reaches: can control flow from (b, after index i) reach instruction target?
func reaches(b *ssa.BasicBlock, i int, target ssa.Instruction) bool {
	tb := target.Block()
	if tb == b {
		for j, x := range b.Instrs {
			if x == target {
				if j > i {
					return true
				}
			}
		}
		// same block but earlier: reachable only through a cycle
	}
	seen := map[*ssa.BasicBlock]bool{}
	var stack []*ssa.BasicBlock
	stack = append(stack, b.Succs...)
	for len(stack) > 0 {
		x := stack[len(stack)-1]
		stack = stack[:len(stack)-1]
		if seen[x] {
			continue
		}
		seen[x] = true
		if x == tb {
			return true
		}
		stack = append(stack, x.Succs...)
	}
	return false
}

// readOnlyAPI: the serialisation and query entry points are documented to
// leave the value they are called on unchanged; two goroutines (or two
// successive calls) may use the same font or metrics value.  Frozen list, by
// type and method name; a method that disappears is reported in evidence only.
var readOnlyMethods = map[string][]string{
	"type1.Font":     {"Write", "WritePDF", "NumGlyphs", "GlyphList", "BuiltinEncoding", "WidthsMapPDF", "FontBBox", "FontBBoxPDF", "GlyphBBoxPDF", "GlyphWidthPDF"},
	"type1.Glyph":    {"BBox"},
	"afm.Metrics":    {"Write", "NumGlyphs", "GlyphList", "FontBBoxPDF", "GlyphWidthPDF"},
	"type1.FontInfo": {"PostScriptName"},
}

func (c *Ctx) readOnlyAPI() {
	c.readOnlyEntryPoints("ISO-READONLY", "does not modify the value it is called on", 12,
		": the same font/metrics value then gives different results on the next call or races with concurrent readers")
}

// readOnlyEntryPoints decides, for every serialiser and query method, that no store is reachable
// from the receiver and no package-level variable is written (write effects, effects.go).
func (c *Ctx) readOnlyEntryPoints(rule, construct string, floor int, consequence string) {
	var keys []string
	for k := range readOnlyMethods {
		keys = append(keys, k)
	}
	sort.Strings(keys)
	n := 0
	var missing []string
	for _, k := range keys {
		parts := strings.SplitN(k, ".", 2)
		for _, m := range readOnlyMethods[k] {
			f := c.methodOpt(parts[0], parts[1], m)
			if f == nil {
				missing = append(missing, k+"."+m)
				continue
			}
			n++
			eff := c.effects().of(f)
			var bad []string
			if eff.Params[0] {
				bad = append(bad, "writes memory reachable from its receiver")
			}
			for g := range eff.Globals {
				bad = append(bad, "writes package-level "+g)
			}
			sort.Strings(bad)
			if len(eff.Heap) > 0 {
				bad = append(bad, dedup(eff.Heap)...)
			}
			if eff.Captured {
				bad = append(bad, "writes captured variables")
			}
			c.check(len(bad) == 0, rule, c.fname(f), construct, f.Pos(), "no store reachable from the receiver, no package-level write", c.fname(f)+" is a serialiser/query method but "+strings.Join(bad, "; ")+consequence)
		}
	}
	for _, fn := range []struct{ pkg, name string }{{"names", "ToUnicode"}, {"names", "FromUnicode"}, {"names", "IsValid"}} {
		f := c.fnOpt(fn.pkg, fn.name)
		if f == nil {
			missing = append(missing, fn.pkg+"."+fn.name)
			continue
		}
		_ = f
	}
	if len(missing) > 0 {
		c.rep.Extra["readonly_api_missing"] = missing
	}
	c.floor(rule, floor)
}

// memoProducer: package-level g (of function type) is initialised with sync.OnceValue(f) /
// sync.OnceValues(f) and never assigned otherwise; f is returned.
func (c *Ctx) memoProducer(g *ssa.Global) *ssa.Function {
	var prod *ssa.Function
	n := 0
	for _, fn := range c.modFuncs {
		for _, b := range fn.Blocks {
			for _, ins := range b.Instrs {
				st, ok := ins.(*ssa.Store)
				if !ok || st.Addr != g {
					continue
				}
				n++
				call, ok := st.Val.(*ssa.Call)
				if !ok {
					return nil
				}
				callee := call.Call.StaticCallee()
				if callee == nil || len(call.Call.Args) != 1 {
					return nil
				}
				if nm := extName(callee); nm != "sync.OnceValue" && nm != "sync.OnceValues" {
					return nil
				}
				switch a := call.Call.Args[0].(type) {
				case *ssa.Function:
					prod = a
				case *ssa.MakeClosure:
					prod = a.Fn.(*ssa.Function)
				default:
					return nil
				}
			}
		}
	}
	if n != 1 {
		return nil
	}
	return prod
}

// ---- lazily initialised shared state behind sync.Once --------------------------------------
//
// A field F of a mutex-carrying struct may be published through a sync.Once field O of the same
// struct instead of the mutex: every write of F happens inside the function handed to
// (&x.O).Do, and every read happens there or after a call (&x.O).Do(…) on the same x has
// returned (the completion of the function happens-before the return of every Do).  The
// discipline must hold for *all* accesses of F; a single access outside it leaves the field to
// the mutex rule.

// lockBase names the object a pointer designates, across the representation go/ssa chooses:
// cells that are stored once, variables captured by a function literal (resolved through the
// literal's only make-closure site), package-level pointers (the variable stands for its value;
// ISO-GLOBALSTORE shows it is not reassigned).
func lockBase(v ssa.Value) ssa.Value {
	for i := 0; i < 8; i++ {
		v = origin(v)
		u, ok := v.(*ssa.UnOp)
		if !ok || u.Op != token.MUL {
			return v
		}
		switch x := u.X.(type) {
		case *ssa.Global:
			return x
		case *ssa.FreeVar:
			fn := x.Parent()
			idx := -1
			for j, fv := range fn.FreeVars {
				if fv == x {
					idx = j
				}
			}
			par := fn.Parent()
			if idx < 0 || par == nil {
				return v
			}
			var site *ssa.MakeClosure
			n := 0
			eachInstr(par, func(ins ssa.Instruction) {
				if mc, ok := ins.(*ssa.MakeClosure); ok && mc.Fn == ssa.Value(fn) {
					site = mc
					n++
				}
			})
			if n != 1 || idx >= len(site.Bindings) {
				return v
			}
			al, ok := site.Bindings[idx].(*ssa.Alloc)
			if !ok {
				return v
			}
			s := singleStore(al)
			if s == nil {
				return v
			}
			v = s
		default:
			return v
		}
	}
	return v
}

// onceDo: ins is a call (&x.O).Do(f) with O a sync.Once field of a struct of type n.
func onceDo(ins ssa.Instruction, n *types.Named) (field int, base, f ssa.Value, ok bool) {
	call, isCall := ins.(*ssa.Call)
	if !isCall {
		return 0, nil, nil, false
	}
	sc := call.Call.StaticCallee()
	if sc == nil || sc.String() != "(*sync.Once).Do" || len(call.Call.Args) != 2 {
		return 0, nil, nil, false
	}
	fa, isFA := call.Call.Args[0].(*ssa.FieldAddr)
	if !isFA {
		return 0, nil, nil, false
	}
	if pn, isN := fa.X.Type().Underlying().(*types.Pointer).Elem().(*types.Named); !isN || pn != n {
		return 0, nil, nil, false
	}
	return fa.Field, fa.X, call.Call.Args[1], true
}

type onceKey struct {
	fn   *ssa.Function
	base ssa.Value
}

// onceState decides the sync.Once discipline for the structs of one type.
type onceState struct {
	c     *Ctx
	n     *types.Named
	memo  map[onceKey][2]map[int]bool
	busy  map[onceKey]bool
	users map[*ssa.Function][]ssa.Instruction // instructions of module functions that mention a function
}

func (c *Ctx) newOnceState(n *types.Named) *onceState {
	o := &onceState{c: c, n: n, memo: map[onceKey][2]map[int]bool{}, busy: map[onceKey]bool{}, users: map[*ssa.Function][]ssa.Instruction{}}
	for _, fn := range c.modFuncs {
		eachInstr(fn, func(ins ssa.Instruction) {
			for _, op := range ins.Operands(nil) {
				switch f := (*op).(type) {
				case *ssa.Function:
					o.users[f] = append(o.users[f], ins)
					// the wrapper of a method value x.m stands for the method
					if f.Synthetic != "" && f.Object() != nil {
						if m, ok := f.Object().(*types.Func); ok {
							if mf := c.prog.FuncValue(m); mf != nil && mf != f {
								o.users[mf] = append(o.users[mf], ins)
							}
						}
					}
				}
			}
		})
	}
	return o
}

func intersect(a, b map[int]bool) map[int]bool {
	out := map[int]bool{}
	for k := range a {
		if b[k] {
			out[k] = true
		}
	}
	return out
}

// at: the once fields O of the struct designated by base (a value of ins's function) such that
// ins executes inside the function handed to (&base.O).Do (in), or after such a call has
// returned (done).
func (o *onceState) at(ins ssa.Instruction, base ssa.Value, depth int) (in, done map[int]bool) {
	fn := ins.Parent()
	in, done = o.function(fn, base, depth)
	out := map[int]bool{}
	for k := range done {
		out[k] = true
	}
	lb := lockBase(base)
	for _, b := range fn.Blocks {
		for i, di := range b.Instrs {
			if fld, dbase, _, ok := onceDo(di, o.n); ok && lockBase(dbase) == lb && instrDominates(b, i, ins) {
				out[fld] = true
			}
		}
	}
	return in, out
}

// function: the same for every execution of fn, with base a value of fn that does not depend on
// the point of execution (a parameter, a captured variable, a package-level pointer).
func (o *onceState) function(fn *ssa.Function, base ssa.Value, depth int) (in, done map[int]bool) {
	none := map[int]bool{}
	key := onceKey{fn, base}
	if r, ok := o.memo[key]; ok {
		return r[0], r[1]
	}
	if depth > 4 || o.busy[key] || isInitFunc(fn) {
		return none, none
	}
	o.busy[key] = true
	defer delete(o.busy, key)
	first := true
	merge := func(i, d map[int]bool) {
		if first {
			in, done, first = i, d, false
			return
		}
		in, done = intersect(in, i), intersect(done, d)
	}
	lb := lockBase(base)
	pidx := -1
	if p, ok := origin(base).(*ssa.Parameter); ok {
		for i, q := range fn.Params {
			if q == p {
				pidx = i
			}
		}
	}
	if exportedAPI(fn) {
		merge(none, none)
	}
	for _, use := range o.users[fn] {
		// the value of fn (the function itself, its closure, the wrapper of a method value)
		var fv ssa.Value
		var recvBinding ssa.Value
		switch u := use.(type) {
		case *ssa.MakeClosure:
			fv = u
			if u.Fn != ssa.Value(fn) { // wrapper of the method value x.fn: x is the only binding
				if len(u.Bindings) != 1 {
					merge(none, none)
					continue
				}
				recvBinding = u.Bindings[0]
			}
		case ssa.CallInstruction:
			com := u.Common()
			if com.StaticCallee() == fn {
				if _, isCall := use.(*ssa.Call); !isCall || pidx < 0 || pidx >= len(com.Args) {
					merge(none, none)
					continue
				}
				i, d := o.at(use, com.Args[pidx], depth+1)
				merge(i, d)
				continue
			}
			fv = fn
		default:
			merge(none, none)
			continue
		}
		// every use of the function value must be the argument of a Do
		var dos []ssa.Instruction
		okUses := true
		if fv == ssa.Value(fn) {
			dos = append(dos, use)
		} else {
			for _, r := range *fv.Referrers() {
				if _, ok := r.(*ssa.DebugRef); ok {
					continue
				}
				dos = append(dos, r)
			}
		}
		for _, di := range dos {
			fld, dbase, f, ok := onceDo(di, o.n)
			if !ok || f != fv {
				okUses = false
				break
			}
			same := false
			if recvBinding != nil {
				same = pidx == 0 && lockBase(recvBinding) == lockBase(dbase)
			} else {
				same = lb == lockBase(dbase)
			}
			if !same {
				okUses = false
				break
			}
			_, d := o.at(di, dbase, depth+1)
			merge(map[int]bool{fld: true}, d)
		}
		if !okUses {
			merge(none, none)
		}
	}
	if first {
		in, done = none, none
	}
	o.memo[key] = [2]map[int]bool{in, done}
	return in, done
}

// onceCache: results of publishedByOnce and the onceState of each struct type (keys are objects
// of the loaded program, so entries of different loads never meet).
var onceCache = map[any]any{}

// publishedByOnce: field `field` of the structs of type n follows the sync.Once discipline
// described above, for one once field of the same struct.
func (c *Ctx) publishedByOnce(n *types.Named, field int) (once int, ok bool) {
	type key struct {
		n *types.Named
		f int
	}
	if r, hit := onceCache[key{n, field}]; hit {
		v := r.([2]int)
		return v[0], v[1] == 1
	}
	st := n.Underlying().(*types.Struct)
	var candidates map[int]bool
	for i := 0; i < st.NumFields(); i++ {
		if st.Field(i).Type().String() == "sync.Once" {
			if candidates == nil {
				candidates = map[int]bool{}
			}
			candidates[i] = true
		}
	}
	res := [2]int{0, 0}
	if len(candidates) > 0 {
		os, _ := onceCache[n].(*onceState)
		if os == nil {
			os = c.newOnceState(n)
			onceCache[n] = os
		}
		writes := 0
		for _, fn := range c.modFuncs {
			if isInitFunc(fn) {
				continue
			}
			eachInstr(fn, func(ins ssa.Instruction) {
				fa, isFA := ins.(*ssa.FieldAddr)
				if !isFA || fa.Field != field || len(candidates) == 0 {
					return
				}
				if pn, isN := fa.X.Type().Underlying().(*types.Pointer).Elem().(*types.Named); !isN || pn != n {
					return
				}
				if al, isAl := fa.X.(*ssa.Alloc); isAl && al.Parent() == fn {
					return // construction
				}
				in, done := os.at(ins, fa.X, 0)
				isWrite := c.writesGuarded(fa)
				if isWrite {
					writes++
				}
				for o := range candidates {
					if !(in[o] || !isWrite && done[o]) {
						delete(candidates, o)
					}
				}
			})
		}
		if len(candidates) > 0 && writes > 0 {
			best := -1
			for o := range candidates {
				if best < 0 || o < best {
					best = o
				}
			}
			res = [2]int{best, 1}
		}
	}
	onceCache[key{n, field}] = res
	return res[0], res[1] == 1
}

// lockCopies: a mutex orders the accesses of all goroutines only if they all lock the same
// mutex.  A copy of a mutex-carrying struct has a mutex of its own but shares the maps and slices
// of the original, so code that locks "the" mutex of the copy excludes nobody (value receiver,
// `x := *p`, passing or returning the struct by value).  No value of such a type may exist
// outside the memory it was constructed in.
func (c *Ctx) lockCopies(guarded map[*types.Named]bool) {
	var names []*types.Named
	for n := range guarded {
		names = append(names, n)
	}
	sort.Slice(names, func(i, j int) bool { return names[i].Obj().Name() < names[j].Obj().Name() })
	var holds func(t types.Type, n *types.Named, depth int) bool
	holds = func(t types.Type, n *types.Named, depth int) bool {
		if depth > 4 || t == nil {
			return false
		}
		if nn, ok := t.(*types.Named); ok && nn == n {
			return true
		}
		switch u := t.Underlying().(type) {
		case *types.Struct:
			for i := 0; i < u.NumFields(); i++ {
				if holds(u.Field(i).Type(), n, depth+1) {
					return true
				}
			}
		case *types.Array:
			return holds(u.Elem(), n, depth+1)
		case *types.Tuple:
			for i := 0; i < u.Len(); i++ {
				if holds(u.At(i).Type(), n, depth+1) {
					return true
				}
			}
		}
		return false
	}
	for _, n := range names {
		var bad []string
		for _, fn := range c.modFuncs {
			for _, p := range fn.Params {
				if holds(p.Type(), n, 0) {
					bad = append(bad, fmt.Sprintf("%s receives a %s by value (%s)", c.fname(fn), n.Obj().Name(), c.pos(fn.Pos())))
				}
			}
			eachInstr(fn, func(ins ssa.Instruction) {
				v, ok := ins.(ssa.Value)
				if !ok {
					return
				}
				if _, isAlloc := v.(*ssa.Alloc); isAlloc {
					return
				}
				if holds(v.Type(), n, 0) {
					where := ""
					if ins.Pos().IsValid() {
						where = " at " + c.pos(ins.Pos())
					}
					bad = append(bad, fmt.Sprintf("%s holds the struct as a value%s", c.fname(fn), where))
				}
			})
		}
		name := n.Obj().Name()
		if len(bad) > 0 {
			c.fail("ISO-LOCK", name, "copies of "+name, n.Obj().Pos(), "values of the mutex-carrying type "+name+" are copied: a copy has a mutex of its own but shares the guarded maps, so locking it excludes no other goroutine: "+joinMax(dedup(bad), 4))
		} else {
			c.ok("ISO-LOCK", name, "copies of "+name, n.Obj().Pos(), "no parameter, result, load or other value of the struct type: every Lock reaches the one mutex of the object", "")
		}
	}
}

// onceMemos: a package-level `var f = sync.OnceValue(g)` is lazily initialised shared state whose
// synchronisation is the once inside f — provided g runs nowhere else (a second, unsynchronised
// execution would write whatever g builds while readers use it) and f is what the callers call.
// What the calls return is followed by ISO-SHARED (kind memo).
func (c *Ctx) onceMemos() {
	for _, sp := range c.spkgs {
		if _, ok := c.pkgs[sp.Pkg.Path()]; !ok {
			continue
		}
		var gs []*ssa.Global
		for _, m := range sp.Members {
			if g, ok := m.(*ssa.Global); ok {
				if _, isSig := g.Type().(*types.Pointer).Elem().Underlying().(*types.Signature); isSig && c.memoProducer(g) != nil {
					gs = append(gs, g)
				}
			}
		}
		sort.Slice(gs, func(i, j int) bool { return gs[i].Name() < gs[j].Name() })
		for _, g := range gs {
			prod := c.memoProducer(g)
			name := globalName(g)
			var elsewhere []string
			ncalls := 0
			for _, fn := range c.modFuncs {
				eachInstr(fn, func(ins ssa.Instruction) {
					for _, op := range ins.Operands(nil) {
						if *op == ssa.Value(prod) {
							// the one permitted mention: the argument of sync.OnceValue(s) in the initialiser
							if call, ok := ins.(*ssa.Call); ok && isInitFunc(fn) && call.Call.StaticCallee() != nil && strings.HasPrefix(extName(call.Call.StaticCallee()), "sync.OnceValue") {
								continue
							}
							if mc, ok := ins.(*ssa.MakeClosure); ok && isInitFunc(fn) {
								only := true
								for _, r := range *mc.Referrers() {
									call, isCall := r.(*ssa.Call)
									if _, isDbg := r.(*ssa.DebugRef); isDbg {
										continue
									}
									if !isCall || call.Call.StaticCallee() == nil || !strings.HasPrefix(extName(call.Call.StaticCallee()), "sync.OnceValue") {
										only = false
									}
								}
								if only {
									continue
								}
							}
							elsewhere = append(elsewhere, c.fname(fn)+" at "+c.pos(ins.Pos()))
						}
					}
					if call, ok := ins.(ssa.CallInstruction); ok {
						if ld, ok := call.Common().Value.(*ssa.UnOp); ok && ld.X == ssa.Value(g) {
							ncalls++
						}
					}
				})
			}
			if len(elsewhere) > 0 {
				c.fail("ISO-LOCK", name, "initialiser of "+name, g.Pos(), "the function that builds the value cached by "+name+" (sync.OnceValue) is also reachable without the once: "+joinMax(elsewhere, 4)+"; a second execution is not ordered against the readers of the first result")
			} else {
				c.ok("ISO-LOCK", name, "initialiser of "+name, g.Pos(), "the building function is mentioned only as the argument of sync.OnceValue in the package initialiser", "")
			}
			c.ok("ISO-LOCK", name, "calls of "+name, g.Pos(), fmt.Sprintf("%d call sites obtain the value through the once (the call returns after the one execution of the initialiser has finished)", ncalls), "")
		}
	}
}
