package main

import (
	"fmt"
	"go/ast"
	"go/constant"
	"go/token"
	"go/types"
	"sort"
	"strings"
)

// Symbolic terms for straight-line arithmetic code (cipher steps, number
// formulas).  A statement list is rewritten into terms over named input
// symbols; terms are canonical strings (commutative operands sorted,
// constants folded by the type checker), so syntactic variation (operand
// order, temporaries, parentheses, named constants) does not matter while a
// change of the data flow (e.g. plaintext instead of ciphertext feedback)
// does.  Pure term rewriting; no solver, nothing executed.

type symEnv struct {
	info *types.Info
	vars map[string]string // key (object id or selector path) -> term
}

func (s *symEnv) key(e ast.Expr) (string, bool) {
	switch e := e.(type) {
	case *ast.Ident:
		obj := s.info.ObjectOf(e)
		if obj == nil {
			return "", false
		}
		return fmt.Sprintf("v%p", obj), true
	case *ast.SelectorExpr:
		if sel, ok := s.info.Selections[e]; ok && sel.Kind() == types.FieldVal {
			base, ok := s.key(e.X)
			if !ok {
				return "", false
			}
			return base + "." + sel.Obj().Name(), true
		}
	case *ast.IndexExpr:
		base, ok := s.key(e.X)
		if !ok {
			return "", false
		}
		return base + "[" + s.term(e.Index) + "]", true
	case *ast.ParenExpr:
		return s.key(e.X)
	}
	return "", false
}

func (s *symEnv) set(e ast.Expr, term string) {
	if k, ok := s.key(e); ok {
		s.vars[k] = term
	}
}

func (s *symEnv) bind(e ast.Expr, sym string) { s.set(e, sym) }

func typeTag(t types.Type) string {
	if b, ok := t.Underlying().(*types.Basic); ok {
		switch b.Kind() {
		case types.Uint8:
			return "u8"
		case types.Uint16:
			return "u16"
		case types.Uint32:
			return "u32"
		case types.Int32:
			return "i32"
		case types.Int64, types.Int:
			return "int"
		case types.Float64:
			return "f64"
		case types.Int16:
			return "i16"
		}
	}
	return t.String()
}

func (s *symEnv) term(e ast.Expr) string {
	if tv, ok := s.info.Types[e]; ok && tv.Value != nil {
		switch tv.Value.Kind() {
		case constant.Int:
			return tv.Value.ExactString()
		case constant.Float:
			if iv := constant.ToInt(tv.Value); iv.Kind() == constant.Int {
				return iv.ExactString()
			}
			f, _ := constant.Float64Val(tv.Value)
			return fmt.Sprint(f)
		case constant.Bool, constant.String:
			return tv.Value.ExactString()
		}
	}
	switch e := e.(type) {
	case *ast.ParenExpr:
		return s.term(e.X)
	case *ast.Ident, *ast.SelectorExpr, *ast.IndexExpr:
		if k, ok := s.key(e); ok {
			if t, ok := s.vars[k]; ok {
				return t
			}
			return "?" + types.ExprString(e)
		}
	case *ast.UnaryExpr:
		x := s.term(e.X)
		switch e.Op {
		case token.SUB:
			return "neg(" + x + ")"
		case token.NOT:
			return "not(" + x + ")"
		case token.XOR:
			return "compl(" + x + ")"
		}
	case *ast.BinaryExpr:
		x, y := s.term(e.X), s.term(e.Y)
		comm := func(name string) string {
			ops := append(flatten(name, x), flatten(name, y)...)
			sort.Strings(ops)
			return name + "(" + strings.Join(ops, ",") + ")"
		}
		switch e.Op {
		case token.ADD:
			return comm("add")
		case token.MUL:
			return comm("mul")
		case token.XOR:
			return comm("xor")
		case token.AND:
			return comm("and")
		case token.OR:
			return comm("or")
		case token.SUB:
			return "sub(" + x + "," + y + ")"
		case token.QUO:
			return "div(" + x + "," + y + ")"
		case token.REM:
			return "rem(" + x + "," + y + ")"
		case token.SHL:
			return "shl(" + x + "," + y + ")"
		case token.SHR:
			return "shr(" + x + "," + y + ")"
		}
	case *ast.CallExpr:
		if tv, ok := s.info.Types[e.Fun]; ok && tv.IsType() && len(e.Args) == 1 {
			x := s.term(e.Args[0])
			from := s.info.TypeOf(e.Args[0])
			tag := typeTag(tv.Type)
			if from != nil && typeTag(from) == tag {
				return x // no-op conversion
			}
			return tag + "(" + x + ")"
		}
		var args []string
		for _, a := range e.Args {
			args = append(args, s.term(a))
		}
		return types.ExprString(e.Fun) + "(" + strings.Join(args, ",") + ")"
	}
	return "?" + types.ExprString(e)
}

// flatten splits a term of the given associative operator into its operands.
func flatten(op, t string) []string {
	if !strings.HasPrefix(t, op+"(") || !strings.HasSuffix(t, ")") {
		return []string{t}
	}
	inner := t[len(op)+1 : len(t)-1]
	var out []string
	depth, start := 0, 0
	for i := 0; i < len(inner); i++ {
		switch inner[i] {
		case '(':
			depth++
		case ')':
			depth--
		case ',':
			if depth == 0 {
				out = append(out, inner[start:i])
				start = i + 1
			}
		}
	}
	out = append(out, inner[start:])
	return out
}

// exec rewrites a straight-line statement list.
func (s *symEnv) exec(list []ast.Stmt) {
	for _, st := range list {
		switch st := st.(type) {
		case *ast.AssignStmt:
			if len(st.Lhs) != len(st.Rhs) {
				continue
			}
			var terms []string
			for i := range st.Rhs {
				t := s.term(st.Rhs[i])
				switch st.Tok {
				case token.ADD_ASSIGN:
					t = (&symEnv{s.info, s.vars}).binTerm("add", s.term(st.Lhs[i]), t)
				case token.XOR_ASSIGN:
					t = (&symEnv{s.info, s.vars}).binTerm("xor", s.term(st.Lhs[i]), t)
				case token.SUB_ASSIGN:
					t = "sub(" + s.term(st.Lhs[i]) + "," + t + ")"
				case token.MUL_ASSIGN:
					t = (&symEnv{s.info, s.vars}).binTerm("mul", s.term(st.Lhs[i]), t)
				}
				terms = append(terms, t)
			}
			for i := range st.Lhs {
				s.set(st.Lhs[i], terms[i])
			}
		case *ast.DeclStmt:
			if gd, ok := st.Decl.(*ast.GenDecl); ok {
				for _, sp := range gd.Specs {
					if vs, ok := sp.(*ast.ValueSpec); ok {
						for i, n := range vs.Names {
							if i < len(vs.Values) {
								t := s.term(vs.Values[i])
								// typed declaration converts the constant
								s.set(n, t)
							}
						}
					}
				}
			}
		case *ast.BlockStmt:
			s.exec(st.List)
		}
	}
}

func (s *symEnv) binTerm(op, x, y string) string {
	ops := append(flatten(op, x), flatten(op, y)...)
	sort.Strings(ops)
	return op + "(" + strings.Join(ops, ",") + ")"
}
