package main

import (
	"fmt"
	"go/token"
	"go/types"
	"sort"
	"strings"

	"golang.org/x/tools/go/ssa"
)

// C07 — the CMap operators, decided by evaluating each registered operator on the SSA form
// (ssaeval.go) for symbolic operand stacks: the operands are typed symbols (String:lo0,
// Integer:d0, …), the relations between the bounds of a range (equal length? low ≤ high?) are
// the cells of a decision table, the scratch buffer has a known number of entries.  What the
// operator does — which error it reports, what it stores into the scratch entries, which table
// it extends, what is left on the stack — is compared with the PLRM's description of the
// CIDInit procedure set.  Helper functions are evaluated in place; names of fields, locals and
// helpers play no part.

type cmapOutcome struct {
	err      string            // "" or the PostScript error name
	other    bool              // returned some other error
	ret      bool              // returned nil
	stack    string            // operand stack afterwards
	scratch  []string          // scratch entries afterwards, rendered field by field
	scratchN int               // length of the scratch buffer afterwards (-1: nil)
	tables   map[string]string // CMapInfo field → what was stored ("append(table,scratch)" …)
	tabElems map[string]int    // CMapInfo field → number of elements afterwards
	why      string
	effects  []ssaEffect
	tableIDs map[string]string // CMapInfo field → id of the list it held at entry
	cmNil    bool              // the mappings pointer was set to nil
	newCM    bool              // a fresh CMapInfo was stored
	dictPut  []string
	sortMem  []map[string]sv // the memory at each "sort" effect, in their order
}

type cmapMachine struct {
	c       *Ctx
	ia      *interpAnchors
	cmField string            // Interpreter field holding *CMapInfo
	scratch map[string]string // element type name → Interpreter scratch field
}

func (c *Ctx) cmapMachine() *cmapMachine {
	m := &cmapMachine{c: c, ia: c.interp(), cmField: c.fld("intp.cmapMappings"), scratch: map[string]string{}}
	st := m.ia.T.Type().Underlying().(*types.Struct)
	for i := 0; i < st.NumFields(); i++ {
		if sl, ok := st.Field(i).Type().Underlying().(*types.Slice); ok {
			if n, ok := sl.Elem().(*types.Named); ok {
				switch n.Obj().Name() {
				case "CodeSpaceRange", "CharMap", "RangeMap":
					if prev, dup := m.scratch[n.Obj().Name()]; dup {
						abort("two scratch buffers of type []%s in Interpreter (%s, %s)", n.Obj().Name(), prev, st.Field(i).Name())
					}
					m.scratch[n.Obj().Name()] = st.Field(i).Name()
				}
			}
		}
	}
	return m
}

type cmapCase struct {
	inCmap   bool
	stack    []sv
	scratchT string // element type of the scratch buffer in use
	scratchN int
	lenEq    bool // bounds of a range have equal length
	order    int  // sign of Compare(low, high)
	// emptyTables: the tables of the open block are still empty
	emptyTables bool
}

func obj(typ, name string) sv { return symV(typ + ":" + name) }

func (m *cmapMachine) run(fn *ssa.Function, cs cmapCase) cmapOutcome {
	return m.runOp(fn, nil, cs)
}

// runOp evaluates an operator of the CIDInit table: fn with the values its free variables hold for
// the key under which it is registered (an operator made by a factory; ext_y5.go).
func (m *cmapMachine) runOp(fn *ssa.Function, binds []ssa.Value, cs cmapCase) cmapOutcome {
	c := m.c
	out := cmapOutcome{tables: map[string]string{}, tabElems: map[string]int{}, scratchN: -2}
	ev := &ssaEval{c: c, bind: map[ssa.Value]sv{}, mem: map[string]sv{}}
	ev.bindFreeVarsY5(fn, binds)
	stack := ev.newList(cs.stack)
	ev.mem["intp.Stack"] = stack
	ev.mem["intp.DictStack"] = ev.newList([]sv{symV("dict0"), symV("dict1")})
	if cs.inCmap {
		ev.mem["intp."+m.cmField] = sv{k: svAddr, s: "cm"}
	} else {
		ev.mem["intp."+m.cmField] = sv{k: svNil}
	}
	// scratch buffers: the one in use has scratchN zero entries
	scratchID := ""
	for t, f := range m.scratch {
		n := 0
		if t == cs.scratchT {
			n = cs.scratchN
		}
		var el []sv
		for i := 0; i < n; i++ {
			el = append(el, symV(fmt.Sprintf("zero%d", i)))
		}
		l := ev.newList(el)
		ev.mem["intp."+f] = l
		if t == cs.scratchT {
			scratchID = l.s
		}
	}
	cmT := c.typeObj("postscript", "CMapInfo").Type().Underlying().(*types.Struct)
	tableID := map[string]string{}
	for i := 0; i < cmT.NumFields(); i++ {
		if _, ok := cmT.Field(i).Type().Underlying().(*types.Slice); ok {
			var pre []sv
			if !cs.emptyTables {
				pre = []sv{symV("old:" + cmT.Field(i).Name())}
			}
			l := ev.newList(pre)
			ev.mem["cm."+cmT.Field(i).Name()] = l
			tableID[cmT.Field(i).Name()] = l.s
		}
	}
	out.tableIDs = tableID
	ev.load = func(ld *ssa.UnOp, addr sv) (sv, bool) {
		if r, ok := ev.loadConstRecordY5(ld); ok {
			return r, true
		}
		if strings.HasPrefix(addr.s, "global:") {
			return symV(addr.s[strings.LastIndex(addr.s, ".")+1:]), true
		}
		return sv{}, false
	}
	typeOf := func(v sv) string {
		if i := strings.Index(v.s, ":"); v.k == svSym && i > 0 {
			return v.s[:i]
		}
		return ""
	}
	ev.call = func(call ssa.CallInstruction, args []sv) (sv, bool) {
		if call == nil {
			if len(args) == 2 && strings.HasPrefix(args[0].s, "typeassert:") {
				want := args[0].s[len("typeassert:"):]
				want = want[strings.LastIndex(want, ".")+1:]
				if typeOf(args[1]) == want {
					if args[1].op == "const" {
						return sv{k: svTuple, tup: []sv{intV(args[1].i), boolV(true)}}, true
					}
					return sv{k: svTuple, tup: []sv{args[1], boolV(true)}}, true
				}
				return sv{k: svTuple, tup: []sv{{k: svNil}, boolV(false)}}, true
			}
			return sv{}, false
		}
		cc := call.Common()
		n := callName(call)
		switch {
		case cc.StaticCallee() == m.ia.e:
			if len(cc.Args) > 1 {
				return symV("error:" + c.errNameG(cc.Args[1])), true
			}
		case n == "bytes.Compare" && len(args) == 2:
			r := cs.order
			// orientation: low is the operand named lo…, high the one named hi…
			if strings.Contains(args[0].s, ":hi") && strings.Contains(args[1].s, ":lo") {
				r = -r
			}
			return intV(int64(r)), true
		case strings.HasPrefix(n, "slices.Grow") && len(args) == 2:
			if args[0].k == svList && args[1].k == svInt && args[1].i >= 0 {
				st := ev.lists[args[0].s]
				need := int(args[0].i+args[0].n+args[1].i) - len(st)
				for i := 0; i < need; i++ {
					st = append(st, symV("spare"))
				}
				ev.lists[args[0].s] = st
				return args[0], true
			}
			if args[0].k == svNil && args[1].k == svInt && args[1].i >= 0 {
				l := ev.newList(nil)
				for i := int64(0); i < args[1].i; i++ {
					ev.lists[l.s] = append(ev.lists[l.s], symV("spare"))
				}
				return l, true
			}
		case n == "sort.Slice" || n == "sort.SliceStable":
			ev.effects = append(ev.effects, ssaEffect{ins: call, what: "sort", args: args})
			snap := make(map[string]sv, len(ev.mem))
			for k, v := range ev.mem {
				snap[k] = v
			}
			out.sortMem = append(out.sortMem, snap)
			return sv{}, true
		}
		return sv{}, false
	}
	ev.oracle = func(op token.Token, x, y sv) (bool, bool) {
		// lengths of the two bounds
		if strings.HasPrefix(x.s, "len(String:") && strings.HasPrefix(y.s, "len(String:") {
			switch op {
			case token.EQL:
				return cs.lenEq, true
			case token.NEQ:
				return !cs.lenEq, true
			}
		}
		if x.k == svNil || y.k == svNil {
			other := x
			if x.k == svNil {
				other = y
			}
			if other.k == svAddr || other.k == svSym || other.k == svList {
				return op == token.NEQ, true
			}
		}
		return false, false
	}
	ret := ev.runFunc(fn, []sv{{k: svAddr, s: "intp"}})
	out.why = ev.why
	out.effects = ev.effects
	if len(ret) == 1 {
		switch {
		case ret[0].k == svNil:
			out.ret = true
		case strings.HasPrefix(ret[0].s, "error:"):
			out.err = ret[0].s[len("error:"):]
		default:
			out.other = true
		}
	}
	out.stack = ev.render(ev.mem["intp.Stack"])
	if cs.scratchT != "" {
		sc := ev.mem["intp."+m.scratch[cs.scratchT]]
		switch sc.k {
		case svNil:
			out.scratchN = -1
		case svList:
			out.scratchN = int(sc.n)
		}
		// the entries as they were filled (storage of the original buffer)
		elT := c.typeObj("postscript", cs.scratchT).Type().Underlying().(*types.Struct)
		for k := 0; k < cs.scratchN && scratchID != ""; k++ {
			el := ev.lists[scratchID][k]
			if el.k == svStruct {
				out.scratch = append(out.scratch, el.s)
				continue
			}
			var p []string
			for i := 0; i < elT.NumFields(); i++ {
				f := elT.Field(i).Name()
				if v, ok := ev.mem[fmt.Sprintf("list:%s:%d.%s", scratchID, k, f)]; ok {
					p = append(p, f+":"+ev.render(v))
				}
			}
			sort.Strings(p)
			out.scratch = append(out.scratch, "{"+strings.Join(p, ",")+"}")
		}
	}
	for f, id := range tableID {
		v := ev.mem["cm."+f]
		if v.k == svList {
			out.tabElems[f] = int(v.n)
		}
		if v.k == svList && v.s == id && (v.n == 1 || (cs.emptyTables && v.n == 0)) {
			continue // untouched
		}
		desc := ev.render(v)
		for _, ef := range ev.effects {
			if ef.what == "append" && ef.args[2].s == v.s && ef.args[2].k == svList {
				src := "?"
				if ef.args[1].k == svList && ef.args[1].s == scratchID {
					src = "scratch"
				}
				base := "?"
				if ef.args[0].k == svList && ef.args[0].s == id {
					base = "table"
				}
				desc = "append(" + base + "," + src + ")"
			}
		}
		if v.k == svList && v.s == scratchID {
			desc = "the scratch buffer itself"
		}
		out.tables[f] = desc
	}
	if v, ok := ev.mem["intp."+m.cmField]; ok {
		out.cmNil = v.k == svNil && cs.inCmap
		out.newCM = v.k == svAddr && v.s != "cm"
	}
	for _, ef := range ev.effects {
		if ef.what == "mapupdate" {
			out.dictPut = append(out.dictPut, ef.addr+"["+ef.args[0].String()+"]="+ef.args[1].String())
		}
	}
	return out
}

func (c *Ctx) cmapTables() {
	m := c.cmapMachine()
	reg := c.registry()
	elemType := map[string]string{"CodeSpaceRanges": "CodeSpaceRange", "CidChars": "CharMap", "BfChars": "CharMap", "NotdefChars": "CharMap", "CidRanges": "RangeMap", "BfRanges": "RangeMap", "NotdefRanges": "RangeMap"}
	destTypes := map[string][]string{"Integer": {"Integer"}, "String|Name": {"String", "Name"}, "String|Array": {"String", "Array"}, "": nil}
	allTypes := []string{"Integer", "String", "Name", "Array", "Real", "Boolean", "Dict"}
	for _, k := range cmapKinds {
		// ---------------- begin*
		{
			f := reg.op("cidInit", k.begin)
			fB := reg.opBinds("cidInit", k.begin)
			fname := c.fname(f)
			et := elemType[k.field]
			var bad []string
			expect := func(desc string, cs cmapCase, wantErr string, wantN int) {
				cs.scratchT = et
				o := m.runOp(f, fB, cs)
				switch {
				case wantErr != "" && o.err != wantErr:
					bad = append(bad, fmt.Sprintf("%s: reports `%s`%s, expected `%s`", desc, o.err, o.why, wantErr))
				case wantErr == "" && (!o.ret || o.scratchN != wantN || o.stack != "[Integer:keep]"):
					bad = append(bad, fmt.Sprintf("%s: returns nil: %v (error `%s` %s), scratch buffer of %d entries, stack %s; expected %d entries and the count popped", desc, o.ret, o.err, o.why, o.scratchN, o.stack, wantN))
				}
			}
			keep := obj("Integer", "keep")
			expect("outside a cmap block", cmapCase{inCmap: false, stack: []sv{keep, intV(2)}}, "undefined", 0)
			expect("on an empty stack", cmapCase{inCmap: true, stack: nil}, "stackunderflow", 0)
			expect("with a string operand", cmapCase{inCmap: true, stack: []sv{keep, obj("String", "x")}}, "typecheck", 0)
			for _, n := range []int64{-1, 101, 1 << 40} {
				expect(fmt.Sprintf("with count %d", n), cmapCase{inCmap: true, stack: []sv{keep, cmapInt(n)}}, "rangecheck", 0)
			}
			for _, n := range []int64{0, 1, 100} {
				expect(fmt.Sprintf("with count %d", n), cmapCase{inCmap: true, stack: []sv{keep, cmapInt(n)}}, "", int(n))
			}
			c.check(len(bad) == 0, "CMAP-BEGIN", fname, k.begin+": open cmap block (undefined), one integer operand (stackunderflow, typecheck) in 0..100 (rangecheck); the scratch buffer gets exactly that many entries and the count is popped", f.Pos(), "9 cases evaluated", k.begin+" "+joinMax(bad, 3))
		}
		// ---------------- end*
		{
			g := reg.op("cidInit", k.end)
			gB := reg.opBinds("cidInit", k.end)
			fname := c.fname(g)
			et := elemType[k.field]
			dests := destTypes[k.dest]
			mk := func(n int, mod func(i int, field string) sv) []sv {
				st := []sv{obj("Integer", "keep")}
				for i := 0; i < n; i++ {
					fields := []string{"lo", "hi", "dst"}
					if !k.isRange {
						fields = []string{"lo", "dst"}
					}
					if k.dest == "" {
						fields = []string{"lo", "hi"}
					}
					for _, fl := range fields {
						var v sv
						switch fl {
						case "dst":
							v = obj(dests[0], fmt.Sprintf("dst%d", i))
						default:
							v = obj("String", fmt.Sprintf("%s%d", fl, i))
						}
						if mod != nil {
							if r := mod(i, fl); r.known() {
								v = r
							}
						}
						st = append(st, v)
					}
				}
				return st
			}
			var bad []string
			base := cmapCase{inCmap: true, scratchT: et, scratchN: 2, lenEq: true, order: -1}
			// the good case
			cs := base
			cs.stack = mk(2, nil)
			o := m.runOp(g, gB, cs)
			var wantEntries []string
			for i := 0; i < 2; i++ {
				switch {
				case k.dest == "":
					wantEntries = append(wantEntries, fmt.Sprintf("{High:String:hi%d,Low:String:lo%d}", i, i))
				case k.isRange:
					wantEntries = append(wantEntries, fmt.Sprintf("{Dst:%s:dst%d,High:String:hi%d,Low:String:lo%d}", dests[0], i, i, i))
				default:
					wantEntries = append(wantEntries, fmt.Sprintf("{Dst:%s:dst%d,Src:String:lo%d}", dests[0], i, i))
				}
			}
			if !o.ret {
				bad = append(bad, fmt.Sprintf("two well-formed entries are refused (`%s` %s)", o.err, o.why))
			} else {
				if strings.Join(o.scratch, " ") != strings.Join(wantEntries, " ") {
					bad = append(bad, fmt.Sprintf("the entries are filled as %v, expected %v", o.scratch, wantEntries))
				}
				if o.stack != "[Integer:keep]" {
					bad = append(bad, fmt.Sprintf("the operand stack afterwards is %s, expected exactly the %d operands popped", o.stack, 2*k.k))
				}
				if o.tables[k.field] != "append(table,scratch)" || len(o.tables) != 1 {
					bad = append(bad, fmt.Sprintf("the tables are updated as %v, expected %s = append(%s, scratch entries…)", o.tables, k.field, k.field))
				}
				if o.scratchN > 0 {
					bad = append(bad, fmt.Sprintf("the scratch buffer keeps %d entries", o.scratchN))
				}
				// the first block of its kind: the table must still get copies, not the buffer
				cs2 := cs
				cs2.emptyTables = true
				if o2 := m.runOp(g, gB, cs2); !o2.ret || o2.tables[k.field] != "append(table,scratch)" {
					bad = append(bad, fmt.Sprintf("for the first block of a cmap the table is set to %v (error `%s`): the scratch buffer is reused by the next block, so the table must hold copies", o2.tables, o2.err))
				}
			}
			c.check(len(bad) == 0, "CMAP-END", fname, fmt.Sprintf("%s: %d operands per entry below the stack top are validated, copied to %s (append), popped; scratch buffer reset", k.end, k.k, k.field), g.Pos(), "two well-formed entries evaluated", k.end+": "+joinMax(bad, 3))
			// refusals: nothing may reach the table
			bad = nil
			refuse := func(desc string, cs cmapCase, wantErr string) {
				o := m.runOp(g, gB, cs)
				if o.err != wantErr {
					bad = append(bad, fmt.Sprintf("%s: reports `%s`%s, expected `%s`", desc, o.err, o.why, wantErr))
				}
				if len(o.tables) != 0 {
					bad = append(bad, fmt.Sprintf("%s: the table was already changed (%v) when the error was found", desc, o.tables))
				}
			}
			cs = base
			cs.inCmap = false
			cs.stack = mk(2, nil)
			refuse("outside a cmap block", cs, "undefined")
			cs = base
			cs.stack = mk(2, nil)[2:]
			refuse("with one operand too few", cs, "stackunderflow")
			for _, fl := range []string{"lo", "hi"} {
				if fl == "hi" && !k.isRange {
					continue
				}
				for entry := 0; entry < 2; entry++ {
					cs = base
					fl, entry := fl, entry
					cs.stack = mk(2, func(i int, f string) sv {
						if i == entry && f == fl {
							return obj("Integer", "bad")
						}
						return sv{}
					})
					refuse(fmt.Sprintf("with an integer as %s bound of entry %d", fl, entry), cs, "typecheck")
				}
			}
			if k.dest != "" {
				for _, t := range allTypes {
					okT := false
					for _, d := range dests {
						if d == t {
							okT = true
						}
					}
					cs = base
					t := t
					cs.stack = mk(2, func(i int, f string) sv {
						if i == 1 && f == "dst" {
							return obj(t, "d")
						}
						return sv{}
					})
					if okT {
						if o := m.runOp(g, gB, cs); !o.ret {
							bad = append(bad, fmt.Sprintf("a destination of type %s is refused (`%s`)", t, o.err))
						}
					} else {
						refuse("with a destination of type "+t, cs, "typecheck")
					}
				}
			}
			if k.isRange {
				cs = base
				cs.stack = mk(2, nil)
				cs.lenEq = false
				refuse("with bounds of unequal length", cs, "rangecheck")
				cs = base
				cs.stack = mk(2, nil)
				cs.order = 1
				refuse("with low > high", cs, "rangecheck")
				cs = base
				cs.stack = mk(2, nil)
				cs.order = 0
				if o := m.runOp(g, gB, cs); !o.ret {
					bad = append(bad, fmt.Sprintf("a range with low == high is refused (`%s`)", o.err))
				}
			}
			c.check(len(bad) == 0, "CMAP-END", fname, k.end+": missing block (undefined), missing operands (stackunderflow), wrong types (typecheck), unequal or reversed bounds (rangecheck) are refused before the table is touched", g.Pos(), "refusal cases evaluated", k.end+": "+joinMax(bad, 3))
		}
	}
	c.floor("CMAP-END", 14)
	c.floor("CMAP-BEGIN", 7)

	// ---------------- begincmap / usecmap / endcmap
	{
		f := reg.op("cidInit", "begincmap")
		fB := reg.opBinds("cidInit", "begincmap")
		o := m.runOp(f, fB, cmapCase{inCmap: false})
		c.check(o.ret && o.newCM, "CMAP-BEGIN", c.fname(f), "begincmap opens a block with fresh tables", f.Pos(), "", "begincmap does not store a fresh CMapInfo")
		u := reg.op("cidInit", "usecmap")
		uB := reg.opBinds("cidInit", "usecmap")
		o1 := m.runOp(u, uB, cmapCase{inCmap: true, stack: []sv{obj("Integer", "keep"), obj("Name", "other")}})
		stored := ""
		for _, ef := range o1.effects {
			if ef.what == "store" && ef.addr == "cm.UseCMap" {
				stored = ef.args[0].String()
			}
		}
		o2 := m.runOp(u, uB, cmapCase{inCmap: false, stack: []sv{obj("Name", "other")}})
		o3 := m.runOp(u, uB, cmapCase{inCmap: true, stack: nil})
		o4 := m.runOp(u, uB, cmapCase{inCmap: true, stack: []sv{obj("String", "x")}})
		c.check(o1.ret && stored == "Name:other" && o1.stack == "[Integer:keep]" && o2.err == "undefined" && o3.err == "stackunderflow" && o4.err == "typecheck", "CMAP-USECMAP", c.fname(u), "usecmap records its name operand; undefined / stackunderflow / typecheck otherwise", u.Pos(), "UseCMap = operand",
			fmt.Sprintf("usecmap: stores %q, stack %s; outside a block `%s`, empty stack `%s`, string operand `%s`", stored, o1.stack, o2.err, o3.err, o4.err))
	}
	c.endcmapRules(m)
}

func cmapInt(n int64) sv {
	// an Integer operand with a known value: the type assertion yields the value itself
	return sv{k: svSym, s: fmt.Sprintf("Integer:%d", n), i: n, op: "const"}
}

func (c *Ctx) endcmapRules(m *cmapMachine) {
	reg := c.registry()
	f := reg.op("cidInit", "endcmap")
	fB := reg.opBinds("cidInit", "endcmap")
	fname := c.fname(f)
	o := m.runOp(f, fB, cmapCase{inCmap: true})
	// which tables are sorted, and with which comparator
	// the comparison is what the second argument of the sort call evaluates to: a function literal
	// written in place, a closure made by a helper, a declared function
	type sortedBy struct {
		cmp  sv            // the function value with the values its free variables are bound to
		mem  map[string]sv // the memory when the sort was called
		list string        // the list that is sorted
	}
	sorted := map[string]*sortedBy{}
	nSort := 0
	for _, ef := range o.effects {
		if ef.what != "sort" {
			continue
		}
		nSort++
		if len(ef.args) != 2 || ef.args[0].k != svList || ef.args[1].fn == nil || nSort > len(o.sortMem) {
			continue
		}
		for fld, id := range o.tableIDs {
			if id == ef.args[0].s {
				sorted[fld] = &sortedBy{cmp: ef.args[1], mem: o.sortMem[nSort-1], list: id}
			}
		}
	}
	var missing []string
	for _, k := range cmapKinds {
		if sorted[k.field] == nil {
			missing = append(missing, k.field)
		}
	}
	sort.Strings(missing)
	c.check(len(missing) == 0, "CMAP-SORT", fname, "all seven tables are sorted", f.Pos(), "7 sort calls", "endcmap does not sort "+strings.Join(missing, ", "))
	for _, k := range cmapKinds {
		by := sorted[k.field]
		if by == nil {
			continue
		}
		key := "Src"
		if k.isRange {
			key = "Low"
		}
		bad := c.cmapComparator(by.cmp, by.mem, by.list, k.field, key, k.field == "CodeSpaceRanges")
		want := "sorted by source code ([i] before [j], <)"
		if k.field == "CodeSpaceRanges" {
			want += ", length first"
		}
		c.check(bad == "", "CMAP-SORT", fname, k.field+": "+want, f.Pos(), "decision table over (length order, byte order)", "the comparator for "+k.field+": "+bad)
	}
	okPut := false
	for _, p := range o.dictPut {
		if strings.Contains(p, `["CodeMap"]=&cm`) && strings.HasPrefix(p, "dict1") {
			okPut = true
		}
	}
	c.check(o.ret && okPut && o.cmNil, "CMAP-SORT", fname, "the finished tables are stored under CodeMap in the current dictionary and the block is closed", f.Pos(), "CodeMap: intp.cmapMappings = nil", fmt.Sprintf("endcmap does not store the tables under CodeMap in the current dictionary (or leaves the cmap block open): dictionary updates %v, block closed %v %s", o.dictPut, o.cmNil, o.why))
	o2 := m.runOp(f, fB, cmapCase{inCmap: false})
	c.check(o2.err != "" && len(o2.dictPut) == 0, "CMAP-SORT", fname, "endcmap outside a block is an error", f.Pos(), o2.err, "endcmap without begincmap is accepted")
}

// cmapComparator evaluates a sort comparator less(i, j) for the cells (order of lengths, order
// of bytes) and checks that it orders by the key of the table it is applied to.
//
// The entries must be those of the list that is being sorted: the symbolic address the comparator
// indexes (free variable k, `*` a load, `.f` a field) is followed through the values the closure
// captured and the memory at the time of the sort call (snap), and must arrive at that list.
func (c *Ctx) cmapComparator(cmpV sv, snap map[string]sv, sortedList string, field, key string, lengthFirst bool) string {
	cmp := cmpV.fn
	var image func(s string, depth int) sv
	image = func(s string, depth int) sv {
		if depth > 12 {
			return sv{}
		}
		if strings.HasPrefix(s, "free") && !strings.ContainsAny(s, ".*[") {
			var k int
			if _, err := fmt.Sscanf(s, "free%d", &k); err == nil && k < len(cmpV.fv) {
				return cmpV.fv[k]
			}
			return sv{}
		}
		if strings.HasSuffix(s, "*") {
			if a := image(s[:len(s)-1], depth+1); a.k == svAddr {
				return snap[a.s]
			}
			return sv{}
		}
		if i := strings.LastIndex(s, "."); i > 0 && !strings.Contains(s[i:], "]") {
			if a := image(s[:i], depth+1); a.k == svAddr {
				return sv{k: svAddr, s: a.s + s[i:]}
			}
		}
		return sv{}
	}
	for _, lenRel := range []int{-1, 0, 1} {
		for _, byteRel := range []int{-1, 0, 1} {
			ev := &ssaEval{c: c, bind: map[ssa.Value]sv{}, mem: map[string]sv{}}
			usedField := map[string]bool{}
			otherCmp := ""
			otherTable := ""
			ev.load = func(ld *ssa.UnOp, addr sv) (sv, bool) {
				a := addr.s
				// …<table>[i].<key>
				for _, idx := range []string{"i", "j"} {
					if at := strings.Index(a, "["+idx+"]."); at >= 0 {
						switch tbl := image(a[:at], 0); {
						case tbl.k == svList && tbl.s == sortedList:
						case tbl.k == svList:
							otherTable = "it reads the entries of another table than the one it sorts"
						default:
							otherTable = "the entries it reads are not shown to be those of the table it sorts"
						}
						parts := strings.Split(a, ".")
						fld := parts[len(parts)-1]
						usedField[fld] = true
						if fld != key {
							// another field of the entry (the upper bound of a range, the destination):
							// a value of its own, about which the table of source-code orders says nothing
							return symV(fld + "(" + idx + ")"), true
						}
						return symV("key(" + idx + ")"), true
					}
				}
				// a whole entry …<table>[i], handed to a key function or copied into a local: the
				// record of its fields, the key being the source code of entry i
				for _, idx := range []string{"i", "j"} {
					st, isStruct := ld.Type().Underlying().(*types.Struct)
					if !strings.HasSuffix(a, "["+idx+"]") || !isStruct {
						continue
					}
					switch tbl := image(a[:len(a)-len(idx)-2], 0); {
					case tbl.k == svList && tbl.s == sortedList:
					case tbl.k == svList:
						otherTable = "it reads the entries of another table than the one it sorts"
					default:
						otherTable = "the entries it reads are not shown to be those of the table it sorts"
					}
					r := sv{k: svStruct, s: "entry(" + idx + ")"}
					for f := 0; f < st.NumFields(); f++ {
						fld := st.Field(f).Name()
						r.args = append(r.args, sv{k: svString, s: fld})
						if fld == key {
							r.tup = append(r.tup, symV("key("+idx+")"))
						} else {
							r.tup = append(r.tup, symV(fld+"("+idx+")"))
						}
					}
					return r, true
				}
				// a captured variable that held a function when the sort was called (the key function
				// a generic helper was given): that function
				if v := image(a+"*", 0); v.fn != nil && len(v.fv) == 0 && len(v.fn.FreeVars) == 0 {
					ev.noteFunc(v.fn)
					return sv{k: svSym, s: "func:" + v.fn.String(), fn: v.fn}, true
				}
				return sv{k: svAddr, s: a + "*"}, true
			}
			ev.call = func(call ssa.CallInstruction, args []sv) (sv, bool) {
				if callName(call) == "bytes.Compare" && len(args) == 2 {
					if strings.HasPrefix(args[0].s, "key(") && strings.HasPrefix(args[1].s, "key(") {
						usedField[key] = true
					}
					switch {
					case args[0].s == "key(i)" && args[1].s == "key(j)":
						return intV(int64(byteRel)), true
					case args[0].s == "key(j)" && args[1].s == "key(i)":
						return intV(int64(-byteRel)), true
					case args[0].s == args[1].s && strings.HasPrefix(args[0].s, "key("):
						return intV(0), true
					}
					// a comparison involving anything but the two source codes is not fixed by the table
					otherCmp = fmt.Sprintf("bytes.Compare(%s, %s)", args[0].s, args[1].s)
					return sv{}, false
				}
				return sv{}, false
			}
			ev.inlineLib = cmpHelperG
			ev.oracle = func(op token.Token, x, y sv) (bool, bool) {
				if x.k == svSym && y.k == svSym && x.s == y.s && strings.HasPrefix(x.s, "len(key(") {
					// an integer compared with itself (cmp.Compare's NaN test)
					return op == token.EQL || op == token.LEQ || op == token.GEQ, true
				}
				if x.s == "len(key(i))" && y.s == "len(key(j))" || x.s == "len(key(j))" && y.s == "len(key(i))" {
					r := lenRel
					if x.s == "len(key(j))" {
						r = -r
					}
					switch op {
					case token.LSS:
						return r < 0, true
					case token.LEQ:
						return r <= 0, true
					case token.GTR:
						return r > 0, true
					case token.GEQ:
						return r >= 0, true
					case token.EQL:
						return r == 0, true
					case token.NEQ:
						return r != 0, true
					}
				}
				return false, false
			}
			fr := &frame{vals: map[ssa.Value]sv{}}
			for i, fv := range cmp.FreeVars {
				fr.vals[fv] = sv{k: svAddr, s: fmt.Sprintf("free%d", i)}
			}
			if len(cmp.Params) != 2 {
				return "not a function of two indices"
			}
			fr.vals[cmp.Params[0]] = symV("i")
			fr.vals[cmp.Params[1]] = symV("j")
			_, _, ret := ev.runBlocks(fr, cmp.Blocks[0], nil, nil)
			if len(ret) != 1 || ret[0].k != svBool {
				if otherCmp != "" {
					return fmt.Sprintf("it compares %s, expected the %s of entry i against the %s of entry j", otherCmp, key, key)
				}
				return "not evaluable: " + ev.why
			}
			want := byteRel < 0
			if lengthFirst {
				want = lenRel < 0 || (lenRel == 0 && byteRel < 0)
			}
			if ret[0].b != want {
				return fmt.Sprintf("with lengths %s and bytes %s it answers %v, expected %v", relName(lenRel), relName(byteRel), ret[0].b, want)
			}
			if !usedField[key] {
				return fmt.Sprintf("it reads %v, expected the %s of the entries of %s", sortedKeys(usedField), key, field)
			}
			if otherTable != "" {
				return otherTable
			}
			if !lengthFirst {
				break // the length plays no part
			}
		}
	}
	return ""
}

func relName(r int) string {
	return map[int]string{-1: "i < j", 0: "equal", 1: "i > j"}[r]
}
