package main

import (
	"fmt"
	"go/token"
	"go/types"
	"strings"

	"golang.org/x/tools/go/ssa"
)

// flow tracking: where does a reference to some storage (a package-level
// map/slice/array, or a value loaded from it) go, and is the storage
// written through it?

type flowEvent struct {
	kind string // "write" | "escape" | "read" | "safe-call"
	what string
	pos  token.Pos
	fn   *ssa.Function
}

type flowTracker struct {
	c      *Ctx
	events []flowEvent
	seen   map[ssa.Value]bool
	params map[string]bool // fn+param index already tracked
	// sanitizers: functions whose result does not alias their argument
	depth int
	// immutableElems: every element of the tracked container is an immutable value (a function,
	// a number, a string): loading an element, or copying all of them into a fresh container
	// (maps.Clone, a copy loop), then yields nothing through which shared memory can be changed
	immutableElems bool
	// shallow: values that are a fresh copy of the container (maps.Clone, slices.Clone,
	// maps.Values) whose elements still are the shared, mutable element values: writing the copy
	// itself is harmless, handing it out hands out the shared elements
	shallow map[ssa.Value]bool
}

func newFlowTracker(c *Ctx) *flowTracker {
	return &flowTracker{c: c, seen: map[ssa.Value]bool{}, params: map[string]bool{}, shallow: map[ssa.Value]bool{}}
}

func (t *flowTracker) ev(kind, what string, ins ssa.Instruction) {
	t.events = append(t.events, flowEvent{kind: kind, what: what, pos: ins.Pos(), fn: ins.Parent()})
}

// esc records that v leaves the package's control.
func (t *flowTracker) esc(v ssa.Value, what string, ins ssa.Instruction) {
	if t.shallow[v] {
		what = "a shallow copy of it, whose elements still are the shared mutable values, is " + what
	}
	t.ev("escape", what, ins)
}

// trackFrom follows v, which designates the same storage as parent.
func (t *flowTracker) trackFrom(parent, v ssa.Value) {
	if t.shallow[parent] && v != nil && !t.seen[v] {
		t.shallow[v] = true
	}
	t.track(v)
}

// trackShallow follows v, a fresh container filled with the elements of the tracked one.
func (t *flowTracker) trackShallow(v ssa.Value) {
	if v == nil || t.seen[v] {
		return
	}
	t.shallow[v] = true
	t.track(v)
}

// shallowCopyExt: external functions whose result is a fresh container holding the element
// values of the argument (a copy one level deep).
var shallowCopyExt = map[string]bool{
	"maps.Clone": true, "slices.Clone": true, "golang.org/x/exp/maps.Clone": true, "golang.org/x/exp/slices.Clone": true,
	"golang.org/x/exp/maps.Values": true,
}

// readOnlyExt: external functions that only read the memory of their
// arguments and whose results do not alias them.
var readOnlyExt = map[string]bool{
	"golang.org/x/exp/maps.Clone": true, "golang.org/x/exp/maps.Keys": true, "golang.org/x/exp/maps.Values": true,
	"maps.Clone": true, "slices.Clone": true, "slices.Contains": true, "slices.Index": true, "slices.Equal": true,
	"bytes.Compare": true, "bytes.Equal": true, "strings.Join": true, "fmt.Sprintf": true, "fmt.Sprint": true, "fmt.Errorf": true,
	"time.Parse": true, "strings.Contains": true, "strings.HasPrefix": true, "strconv.Itoa": true,
}

// goroutine-safe library objects: methods may be called on shared instances.
var safeObjectTypes = map[string]bool{
	"*text/template.Template": true, "*regexp.Regexp": true, "embed.FS": true, "*sync.Mutex": true,
}

func extName(fn *ssa.Function) string {
	if o := fn.Origin(); o != nil {
		fn = o
	}
	return fn.String()
}

// track follows value v (which designates or aliases the storage).
func (t *flowTracker) track(v ssa.Value) {
	if v == nil || t.seen[v] {
		return
	}
	t.seen[v] = true
	refs := v.Referrers()
	if refs == nil {
		return
	}
	for _, u := range *refs {
		t.use(v, u)
	}
}

func exportedAPI(fn *ssa.Function) bool {
	if fn.Parent() != nil {
		return false
	}
	if !token.IsExported(fn.Name()) {
		return false
	}
	if recv := fn.Signature.Recv(); recv != nil {
		rt := recv.Type()
		if p, ok := rt.(*types.Pointer); ok {
			rt = p.Elem()
		}
		if n, ok := rt.(*types.Named); ok && !n.Obj().Exported() {
			return false
		}
	}
	return true
}

func (t *flowTracker) use(v ssa.Value, u ssa.Instruction) {
	switch u := u.(type) {
	case *ssa.DebugRef:
	case *ssa.Phi, *ssa.ChangeType, *ssa.TypeAssert, *ssa.ChangeInterface, *ssa.SliceToArrayPointer:
		t.trackFrom(v, u.(ssa.Value))
	case *ssa.Convert:
		// conversions between slice and string copy; named-type conversions alias
		if _, isStr := u.Type().Underlying().(*types.Basic); isStr {
			t.ev("read", "converted to string (copy)", u)
		} else if _, fromStr := u.X.Type().Underlying().(*types.Basic); fromStr {
			t.ev("read", "converted (copy)", u)
		} else {
			t.trackFrom(v, u)
		}
	case *ssa.Slice:
		if u.X == v {
			t.trackFrom(v, u)
		}
	case *ssa.IndexAddr:
		if u.X == v {
			t.addrFrom(v, u)
		}
	case *ssa.FieldAddr:
		if u.X == v {
			t.addrFrom(v, u)
		}
	case *ssa.Field:
		if isPointerLike(u.Type()) {
			t.track(u)
		}
	case *ssa.UnOp:
		if u.Op == token.MUL && u.X == v {
			// v is an address (of the global itself or of an element): load
			if isPointerLike(u.Type()) || isAggregateWithRefs(u.Type()) {
				t.track(u)
			} else {
				t.ev("read", "load", u)
			}
		}
	case *ssa.Index:
		if u.X == v && isPointerLike(u.Type()) && !t.immutableElems {
			t.track(u)
		} else {
			t.ev("read", "index", u)
		}
	case *ssa.Lookup:
		if u.X == v {
			if t.immutableElems {
				// the elements give no access to shared mutable memory
			} else if u.CommaOk {
				t.trackExtract(u, 0)
			} else if isPointerLike(u.Type()) {
				t.track(u)
			}
			t.ev("read", "lookup", u)
		}
	case *ssa.Range:
		if u.X == v {
			// Next → Extract(1)=key, Extract(2)=value
			for _, r := range *u.Referrers() {
				if nx, ok := r.(*ssa.Next); ok && !t.immutableElems {
					t.trackExtract(nx, 2)
				}
			}
			t.ev("read", "range", u)
		}
	case *ssa.Extract:
		// handled by trackExtract
	case *ssa.MapUpdate:
		if u.Map == v {
			if !t.shallow[v] {
				t.ev("write", "map update", u)
			}
		} else if u.Value == v || u.Key == v {
			t.esc(v, "stored as a map element", u)
		}
	case *ssa.Store:
		if u.Addr == v {
			if !t.shallow[v] {
				t.ev("write", "store", u)
			}
		} else if u.Val == v {
			if al, ok := u.Addr.(*ssa.Alloc); ok && !allocEscapes(al) {
				// local variable: follow its loads
				for _, r := range *al.Referrers() {
					if ld, ok := r.(*ssa.UnOp); ok && ld.Op == token.MUL {
						t.trackFrom(v, ld)
					}
				}
			} else if al, ok := u.Addr.(*ssa.Alloc); ok {
				// captured/escaping local: follow loads here and in closures
				t.trackCell(v, al)
			} else {
				t.esc(v, "stored into "+describeAddr(u.Addr), u)
			}
		}
	case *ssa.MakeInterface:
		t.iface(v, u)
	case *ssa.MakeClosure:
		fn := u.Fn.(*ssa.Function)
		for i, b := range u.Bindings {
			if b == v && i < len(fn.FreeVars) {
				t.trackFrom(v, fn.FreeVars[i])
			}
		}
	case *ssa.Return:
		fn := u.Parent()
		idx := -1
		for i, r := range u.Results {
			if r == v {
				idx = i
			}
		}
		if exportedAPI(fn) {
			t.esc(v, "returned from exported "+t.c.fname(fn), u)
		} else {
			t.results(v, fn, idx)
		}
	case *ssa.BinOp, *ssa.If:
		t.ev("read", "compare", u)
	case *ssa.Send:
		t.esc(v, "sent on a channel", u)
	case ssa.CallInstruction:
		t.call(v, u)
	default:
		t.esc(v, fmt.Sprintf("used by %T", u), u)
	}
}

func isAggregateWithRefs(t types.Type) bool {
	switch t := t.Underlying().(type) {
	case *types.Struct:
		for i := 0; i < t.NumFields(); i++ {
			if isPointerLike(t.Field(i).Type()) || isAggregateWithRefs(t.Field(i).Type()) {
				return true
			}
		}
	case *types.Array:
		return isPointerLike(t.Elem()) || isAggregateWithRefs(t.Elem())
	}
	return false
}

func allocEscapes(al *ssa.Alloc) bool {
	for _, r := range *al.Referrers() {
		switch r := r.(type) {
		case *ssa.Store:
			if r.Val == al {
				return true
			}
		case *ssa.UnOp, *ssa.DebugRef:
		default:
			return true
		}
	}
	return false
}

func (t *flowTracker) trackCell(v ssa.Value, al *ssa.Alloc) {
	for _, r := range *al.Referrers() {
		switch r := r.(type) {
		case *ssa.UnOp:
			t.trackFrom(v, r)
		case *ssa.MakeClosure:
			fn := r.Fn.(*ssa.Function)
			for i, b := range r.Bindings {
				if b == al && i < len(fn.FreeVars) {
					for _, fr := range *fn.FreeVars[i].Referrers() {
						if ld, ok := fr.(*ssa.UnOp); ok {
							t.trackFrom(v, ld)
						}
					}
				}
			}
		}
	}
}

func describeAddr(a ssa.Value) string {
	switch a := a.(type) {
	case *ssa.FieldAddr:
		st := a.X.Type().Underlying().(*types.Pointer).Elem().Underlying().(*types.Struct)
		return "field " + st.Field(a.Field).Name()
	case *ssa.IndexAddr:
		return "an element of a slice or array"
	case *ssa.Global:
		return "package variable " + a.Name()
	}
	return "memory"
}

func (t *flowTracker) trackExtract(tuple ssa.Value, idx int) {
	for _, r := range *tuple.Referrers() {
		if ex, ok := r.(*ssa.Extract); ok && ex.Index == idx && (isPointerLike(ex.Type()) || isAggregateWithRefs(ex.Type())) {
			t.track(ex)
		}
	}
}

// addrFrom: a is an address inside the storage designated by parent.
func (t *flowTracker) addrFrom(parent, a ssa.Value) {
	if t.shallow[parent] && !t.seen[a] {
		t.shallow[a] = true
	}
	t.addr(a)
}

// addr: a is an address inside the storage.
func (t *flowTracker) addr(a ssa.Value) {
	if t.seen[a] {
		return
	}
	t.seen[a] = true
	_, isElem := a.(*ssa.IndexAddr)
	for _, u := range *a.Referrers() {
		switch u := u.(type) {
		case *ssa.Store:
			if u.Addr == a {
				if !t.shallow[a] {
					t.ev("write", "store to "+describeAddr(a), u)
				}
			} else {
				t.esc(a, "address stored", u)
			}
		case *ssa.UnOp:
			if isElem && t.immutableElems {
				t.ev("read", "load", u)
			} else if isPointerLike(u.Type()) || isAggregateWithRefs(u.Type()) {
				// the element values of a shallow copy are the shared ones
				t.track(u)
			} else {
				t.ev("read", "load", u)
			}
		case *ssa.IndexAddr, *ssa.FieldAddr:
			t.addrFrom(a, u.(ssa.Value))
		case *ssa.DebugRef:
		case ssa.CallInstruction:
			t.call(a, u)
		default:
			t.use(a, u)
		}
	}
}

// iface: the storage reference was boxed into an interface value.
func (t *flowTracker) iface(v ssa.Value, mi *ssa.MakeInterface) {
	for _, u := range *mi.Referrers() {
		switch u := u.(type) {
		case *ssa.BinOp, *ssa.DebugRef:
		case ssa.CallInstruction:
			if sc := u.Common().StaticCallee(); sc != nil && readOnlyExt[extName(sc)] && !shallowCopyExt[extName(sc)] {
				continue
			}
			t.esc(v, "boxed into an interface and passed to a call", u)
		case *ssa.Slice, *ssa.IndexAddr:
			// variadic packing for a call: look at the user of the slice
			t.esc(v, "boxed into an interface (variadic)", u)
		default:
			t.esc(v, fmt.Sprintf("boxed into an interface value (%T)", u), u)
		}
	}
}

// results: fn returns the reference as result idx; continue at call sites.
func (t *flowTracker) results(v ssa.Value, fn *ssa.Function, idx int) {
	if fn.Parent() != nil {
		// closure: call sites are calls of the closure value; be conservative
		t.events = append(t.events, flowEvent{kind: "escape", what: "returned from a closure", pos: fn.Pos(), fn: fn})
		return
	}
	for _, caller := range t.c.modFuncs {
		for _, b := range caller.Blocks {
			for _, ins := range b.Instrs {
				call, ok := ins.(*ssa.Call)
				if !ok || call.Common().StaticCallee() != fn {
					continue
				}
				if fn.Signature.Results().Len() == 1 {
					t.trackFrom(v, call)
				} else {
					for _, r := range *call.Referrers() {
						if ex, ok := r.(*ssa.Extract); ok && ex.Index == idx && (isPointerLike(ex.Type()) || isAggregateWithRefs(ex.Type())) {
							t.trackFrom(v, ex)
						}
					}
				}
			}
		}
	}
}

func (t *flowTracker) call(v ssa.Value, ins ssa.CallInstruction) {
	com := ins.Common()
	argIdx := -1
	for i, a := range com.Args {
		if a == v {
			argIdx = i
		}
	}
	if b, ok := com.Value.(*ssa.Builtin); ok {
		switch b.Name() {
		case "len", "cap", "print", "println":
			t.ev("read", b.Name(), ins)
		case "append":
			if argIdx == 0 {
				if !t.shallow[v] {
					t.ev("write", "append to the shared slice (may write into spare capacity)", ins)
				}
				if val, ok := ins.(ssa.Value); ok {
					t.trackFrom(v, val)
				}
			} else {
				t.ev("read", "appended from", ins)
			}
		case "copy":
			if argIdx == 0 {
				if !t.shallow[v] {
					t.ev("write", "copy into", ins)
				}
			} else {
				t.ev("read", "copy from", ins)
			}
		case "delete", "clear":
			if !t.shallow[v] {
				t.ev("write", b.Name(), ins)
			}
		default:
			t.ev("read", b.Name(), ins)
		}
		return
	}
	if com.IsInvoke() {
		if com.Value == v {
			t.ev("safe-call", "method "+com.Method.Name(), ins)
			return
		}
		t.esc(v, "passed to interface method "+com.Method.Name(), ins)
		return
	}
	callee := com.StaticCallee()
	if callee == nil {
		if com.Value == v {
			t.ev("read", "called", ins)
			return
		}
		t.esc(v, "passed to a dynamically dispatched call", ins)
		return
	}
	if argIdx < 0 {
		return
	}
	if !t.c.inModule(callee) || callee.Blocks == nil {
		name := extName(callee)
		if shallowCopyExt[name] && !t.immutableElems && !staticElemsImmutable(v.Type()) {
			// one level is copied: the new container holds the same (mutable) element values
			t.ev("read", "passed to "+name+" (shallow copy)", ins)
			if val, ok := ins.(ssa.Value); ok {
				t.trackShallow(val)
			}
			return
		}
		if readOnlyExt[name] {
			t.ev("read", "passed to "+name, ins)
			return
		}
		if recv := callee.Signature.Recv(); recv != nil && argIdx == 0 && safeObjectTypes[recv.Type().String()] {
			t.ev("safe-call", name, ins)
			return
		}
		if s := extSummary[name]; s == "pure" {
			t.ev("read", "passed to "+name, ins)
			return
		} else if s == "w0" && argIdx == 0 {
			t.ev("write", "passed to "+name+", which writes it", ins)
			return
		}
		if callee.Pkg != nil && purePkgs[callee.Pkg.Pkg.Path()] {
			t.ev("read", "passed to "+name, ins)
			return
		}
		t.esc(v, "passed to "+name, ins)
		return
	}
	// module function: follow the parameter
	key := fmt.Sprintf("%p/%d", callee, argIdx)
	if t.params[key] {
		return
	}
	t.params[key] = true
	if argIdx < len(callee.Params) {
		t.trackFrom(v, callee.Params[argIdx])
	}
}

func (t *flowTracker) summary(kind string) []string {
	var out []string
	for _, e := range t.events {
		if e.kind == kind {
			out = append(out, fmt.Sprintf("%s in %s at %s", e.what, t.c.fname(e.fn), t.c.pos(e.pos)))
		}
	}
	return out
}

func joinMax(l []string, n int) string {
	if len(l) > n {
		return strings.Join(l[:n], "; ") + fmt.Sprintf("; … (%d more)", len(l)-n)
	}
	return strings.Join(l, "; ")
}

// ---- are the elements of a shared container immutable values?

// staticElemsImmutable: by its type alone, a container of type T cannot hold references to
// mutable memory (keys and elements are numbers, strings, structs of such).
func staticElemsImmutable(T types.Type) bool {
	plain := func(t types.Type) bool { return !isPointerLike(t) && !isAggregateWithRefs(t) }
	switch u := T.Underlying().(type) {
	case *types.Map:
		return plain(u.Key()) && plain(u.Elem())
	case *types.Slice:
		return plain(u.Elem())
	case *types.Array:
		return plain(u.Elem())
	case *types.Pointer:
		if a, ok := u.Elem().Underlying().(*types.Array); ok {
			return plain(a.Elem())
		}
	}
	return false
}

// immutableValue: x gives no access to memory that can be modified: a constant, a value of a
// type without references, a top-level function (not a closure), or such a value boxed.
func immutableValue(x ssa.Value) bool {
	switch x := x.(type) {
	case *ssa.Const, *ssa.Function:
		return true
	case *ssa.ChangeType:
		return immutableValue(x.X)
	case *ssa.MakeInterface:
		return immutableValue(x.X)
	case *ssa.MakeClosure, *ssa.Call:
		// a closure over variables that are never written again and hold no references, also as the
		// result of the function that makes it (ext_x5.go, ext_x10.go: two derivations of the same fact)
		if immutableFuncValue(x, 0) || frozenFuncValueX10(x, 0) {
			return true
		}
	case *ssa.Phi:
		if frozenFuncValueX10(x, 0) {
			return true
		}
	}
	return !isPointerLike(x.Type()) && !isAggregateWithRefs(x.Type())
}

// elemsImmutable: every element ever put into the container v is an immutable value.  Decided
// by the element type or, for interface and function elements, by inspecting every store into
// the fresh container (v is followed to its allocation through phis, module helpers that return
// it, and package-level variables, all of whose assignments are inspected).
func (c *Ctx) elemsImmutable(v ssa.Value, seen map[ssa.Value]bool) bool {
	if staticElemsImmutable(v.Type()) {
		return true
	}
	if seen[v] {
		return true // a cycle adds no new store
	}
	if len(seen) > 64 {
		return false
	}
	seen[v] = true
	switch v := v.(type) {
	case *ssa.MakeMap:
		for _, r := range *v.Referrers() {
			switch r := r.(type) {
			case *ssa.MapUpdate:
				if r.Map != v || !immutableValue(r.Value) || !immutableValue(r.Key) {
					return false
				}
			case *ssa.Store:
				if _, toGlobal := r.Addr.(*ssa.Global); !toGlobal || r.Val != v {
					return false
				}
			case *ssa.DebugRef, *ssa.Lookup, *ssa.Range, *ssa.Return:
			case ssa.CallInstruction:
				if b, ok := r.Common().Value.(*ssa.Builtin); !ok || (b.Name() != "len") {
					return false
				}
			default:
				return false
			}
		}
		return true
	case *ssa.Slice:
		al, ok := v.X.(*ssa.Alloc)
		if !ok {
			return false
		}
		for _, r := range *al.Referrers() {
			switch r := r.(type) {
			case *ssa.IndexAddr:
				for _, rr := range *r.Referrers() {
					if st, ok := rr.(*ssa.Store); !ok || st.Addr != r || !immutableValue(st.Val) {
						return false
					}
				}
			case *ssa.Slice, *ssa.DebugRef:
			default:
				return false
			}
		}
		return true
	case *ssa.Phi:
		for _, e := range v.Edges {
			if !c.elemsImmutable(e, seen) {
				return false
			}
		}
		return true
	case *ssa.Call:
		callee := v.Common().StaticCallee()
		if callee == nil || callee.Blocks == nil || !c.inModule(callee) || callee.Signature.Results().Len() != 1 {
			return false
		}
		return c.resultElemsImmutable(callee, seen)
	case *ssa.UnOp:
		if g, ok := v.X.(*ssa.Global); ok && v.Op == token.MUL {
			return c.globalElemsImmutable(g, seen)
		}
	}
	return false
}

// resultElemsImmutable: the (single) result of fn is a container with immutable elements.
func (c *Ctx) resultElemsImmutable(fn *ssa.Function, seen map[ssa.Value]bool) bool {
	n := 0
	for _, r := range returns(fn) {
		if len(r.Results) != 1 || !c.elemsImmutable(r.Results[0], seen) {
			return false
		}
		n++
	}
	return n > 0
}

// globalElemsImmutable: every value ever assigned to package-level g is a container with
// immutable elements (element writes through g are reported by ISO-SHARED on their own).
func (c *Ctx) globalElemsImmutable(g *ssa.Global, seen map[ssa.Value]bool) bool {
	if staticElemsImmutable(g.Type().(*types.Pointer).Elem()) {
		return true
	}
	n := 0
	for _, fn := range c.modFuncs {
		for _, b := range fn.Blocks {
			for _, ins := range b.Instrs {
				if st, ok := ins.(*ssa.Store); ok && st.Addr == g {
					n++
					if !c.elemsImmutable(st.Val, seen) {
						return false
					}
				}
			}
		}
	}
	return n > 0
}
