package main

import (
	"fmt"
	"go/types"
	"sort"
	"strings"

	"golang.org/x/tools/go/ssa"
)

// Effects summarises which memory outside its own frame a function may
// write.  It is computed on go/ssa by a fixpoint over static callees.
type Effects struct {
	Globals  map[string]bool // package-level variables (pkg.name) written (store/mapupdate/delete/copy through them)
	Params   map[int]bool    // parameter indices (receiver = 0) whose pointed-to memory may be written
	Captured bool            // writes a captured variable of the enclosing function
	Heap     []string        // writes through pointers loaded from memory (unknown target), with description
	IO       []string        // calls that perform I/O or are otherwise externally visible
	Dynamic  []string        // calls whose callee could not be resolved statically
	Unknown  []string        // external callees without a summary
}

func (e *Effects) pureExceptParams() bool {
	return len(e.Globals) == 0 && !e.Captured && len(e.Heap) == 0 && len(e.IO) == 0 && len(e.Dynamic) == 0 && len(e.Unknown) == 0
}

func (e *Effects) pure() bool { return e.pureExceptParams() && len(e.Params) == 0 }

func (e *Effects) String() string {
	var parts []string
	if len(e.Globals) > 0 {
		var g []string
		for k := range e.Globals {
			g = append(g, k)
		}
		sort.Strings(g)
		parts = append(parts, "writes globals "+strings.Join(g, ","))
	}
	if len(e.Params) > 0 {
		var p []int
		for k := range e.Params {
			p = append(p, k)
		}
		sort.Ints(p)
		parts = append(parts, fmt.Sprint("writes through parameters ", p))
	}
	if e.Captured {
		parts = append(parts, "writes captured variables")
	}
	for _, l := range [][]string{e.Heap, e.IO, e.Dynamic, e.Unknown} {
		if len(l) > 0 {
			parts = append(parts, strings.Join(dedup(l), "; "))
		}
	}
	if len(parts) == 0 {
		return "pure"
	}
	return strings.Join(parts, "; ")
}

func dedup(l []string) []string {
	m := map[string]bool{}
	var out []string
	for _, s := range l {
		if !m[s] {
			m[s] = true
			out = append(out, s)
		}
	}
	if len(out) > 6 {
		out = append(out[:6], "…")
	}
	return out
}

// root kinds
type rootSet struct {
	local    bool
	params   map[int]bool
	globals  map[string]bool
	captured bool
	heap     bool
}

func (r *rootSet) add(o *rootSet) {
	r.local = r.local || o.local
	r.captured = r.captured || o.captured
	r.heap = r.heap || o.heap
	for k := range o.params {
		if r.params == nil {
			r.params = map[int]bool{}
		}
		r.params[k] = true
	}
	for k := range o.globals {
		if r.globals == nil {
			r.globals = map[string]bool{}
		}
		r.globals[k] = true
	}
}

func (r *rootSet) onlyLocal() bool {
	return !r.captured && !r.heap && len(r.params) == 0 && len(r.globals) == 0
}

type effAnalysis struct {
	c       *Ctx
	sum     map[*ssa.Function]*Effects
	working map[*ssa.Function]bool
	fresh   map[*ssa.Function]bool
}

func (c *Ctx) effects() *effAnalysis {
	if c.eff == nil {
		c.eff = &effAnalysis{c: c, sum: map[*ssa.Function]*Effects{}, working: map[*ssa.Function]bool{}}
	}
	return c.eff
}

func globalName(g *ssa.Global) string {
	p := g.Pkg.Pkg.Path()
	p = strings.TrimPrefix(p, modPath+"/")
	if p == modPath {
		p = "postscript"
	}
	return p + "." + g.Name()
}

// roots computes where the memory designated by v (an address, slice, map
// or pointer value) may live.
func (a *effAnalysis) roots(v ssa.Value, seen map[ssa.Value]bool) *rootSet {
	r := &rootSet{}
	if seen[v] {
		return r
	}
	seen[v] = true
	switch v := v.(type) {
	case *ssa.Alloc, *ssa.MakeSlice, *ssa.MakeMap, *ssa.MakeChan, *ssa.Const, *ssa.MakeClosure, *ssa.Function:
		r.local = true
	case *ssa.Global:
		r.globals = map[string]bool{globalName(v): true}
	case *ssa.Parameter:
		idx := -1
		for i, p := range v.Parent().Params {
			if p == v {
				idx = i
			}
		}
		r.params = map[int]bool{idx: true}
	case *ssa.FreeVar:
		r.captured = true
	case *ssa.IndexAddr:
		r.add(a.roots(v.X, seen))
	case *ssa.FieldAddr:
		r.add(a.roots(v.X, seen))
	case *ssa.Slice:
		r.add(a.roots(v.X, seen))
	case *ssa.ChangeType:
		r.add(a.roots(v.X, seen))
	case *ssa.Convert:
		// string<->[]byte conversions allocate
		r.local = true
	case *ssa.SliceToArrayPointer:
		r.add(a.roots(v.X, seen))
	case *ssa.MakeInterface:
		r.add(a.roots(v.X, seen))
	case *ssa.TypeAssert:
		r.add(a.roots(v.X, seen))
	case *ssa.ChangeInterface:
		r.add(a.roots(v.X, seen))
	case *ssa.Phi:
		for _, e := range v.Edges {
			r.add(a.roots(e, seen))
		}
	case *ssa.UnOp:
		// load: the value comes out of memory.  A pointer loaded from a field or
		// element of an object is attributed to that object ("reachable from").
		switch ad := v.X.(type) {
		case *ssa.Alloc:
			// a local cell: union over everything stored into it in this function
			stored := false
			for _, ref := range *ad.Referrers() {
				switch ref := ref.(type) {
				case *ssa.Store:
					if ref.Addr == ad {
						stored = true
						r.add(a.roots(ref.Val, seen))
					}
				case *ssa.MakeClosure:
					// captured: closures may store other values into it
					fn := ref.Fn.(*ssa.Function)
					for i, b := range ref.Bindings {
						if b == ssa.Value(ad) && i < len(fn.FreeVars) {
							for _, fr := range *fn.FreeVars[i].Referrers() {
								if st, ok := fr.(*ssa.Store); ok && st.Addr == ssa.Value(fn.FreeVars[i]) {
									stored = true
									r.add(a.roots(st.Val, seen))
								}
							}
						}
					}
				}
			}
			if !stored {
				r.local = true // zero value
			}
		case *ssa.FieldAddr, *ssa.IndexAddr:
			var base ssa.Value
			if fa, ok := ad.(*ssa.FieldAddr); ok {
				base = fa.X
			} else {
				base = ad.(*ssa.IndexAddr).X
			}
			// a local object: what was stored into its fields/elements in this function
			if al, ok := base.(*ssa.Alloc); ok {
				r.local = true
				for _, ref := range *al.Referrers() {
					var sub ssa.Value
					switch ref := ref.(type) {
					case *ssa.FieldAddr:
						sub = ref
					case *ssa.IndexAddr:
						sub = ref
					}
					if sub == nil {
						continue
					}
					for _, rr := range *sub.Referrers() {
						if st, ok := rr.(*ssa.Store); ok && st.Addr == sub {
							r.add(a.roots(st.Val, seen))
						}
					}
				}
			} else {
				r.add(a.roots(base, seen))
			}
		case *ssa.FreeVar:
			// value of a captured variable of the enclosing function
			r.captured = true
		case *ssa.Global:
			r.globals = map[string]bool{globalName(ad): true}
		default:
			r.heap = true
		}
	case *ssa.Lookup, *ssa.Index, *ssa.Field, *ssa.Extract, *ssa.Next:
		if f, ok := v.(*ssa.Field); ok {
			// field of a struct value: where the struct value's pointers live
			r.add(a.roots(f.X, seen))
			break
		}
		if ex, ok := v.(*ssa.Extract); ok {
			r.add(a.roots(ex.Tuple, seen))
			break
		}
		if lk, ok := v.(*ssa.Lookup); ok {
			r.add(a.roots(lk.X, seen))
			break
		}
		if ix, ok := v.(*ssa.Index); ok {
			r.add(a.roots(ix.X, seen))
			break
		}
		if nx, ok := v.(*ssa.Next); ok {
			if rg, ok := nx.Iter.(*ssa.Range); ok {
				r.add(a.roots(rg.X, seen))
				break
			}
		}
		r.heap = true
	case *ssa.Call:
		com := v.Common()
		if b, ok := com.Value.(*ssa.Builtin); ok && b.Name() == "append" {
			r.local = true
			r.add(a.roots(com.Args[0], seen))
			break
		}
		if callee := com.StaticCallee(); callee != nil && freshResult[callee.String()] {
			r.local = true
			break
		}
		if callee := com.StaticCallee(); callee != nil && a.returnsFresh(callee) {
			r.local = true
			break
		}
		r.heap = true
	case *ssa.BinOp:
		r.local = true // string concatenation etc.
	default:
		r.heap = true
	}
	return r
}

func isPointerLike(t types.Type) bool {
	switch t.Underlying().(type) {
	case *types.Pointer, *types.Slice, *types.Map, *types.Interface, *types.Chan, *types.Signature:
		return true
	}
	return false
}

// freshResult lists external functions whose result is freshly allocated
// memory that nothing else references.
var freshResult = map[string]bool{
	"strings.Split":  true,
	"strings.SplitN": true,
	"strings.Fields": true,
	"bytes.Clone":    true,
	"slices.Clone":   true,
	"maps.Clone":     true,
}

// returnsFresh: every returned pointer-like value of fn is rooted in local
// allocations of fn (one level, no recursion into callees).
func (a *effAnalysis) returnsFresh(fn *ssa.Function) bool {
	if fn.Blocks == nil {
		name := fn.String()
		if o := fn.Origin(); o != nil {
			name = o.String()
		}
		return freshResult[name] || strings.HasPrefix(name, "golang.org/x/exp/maps.Keys") || strings.HasPrefix(name, "golang.org/x/exp/maps.Values") || strings.HasPrefix(name, "golang.org/x/exp/maps.Clone")
	}
	if a.working[fn] {
		return false
	}
	if v, ok := a.fresh[fn]; ok {
		return v
	}
	if a.fresh == nil {
		a.fresh = map[*ssa.Function]bool{}
	}
	a.fresh[fn] = false
	ok := true
	for _, b := range fn.Blocks {
		for _, ins := range b.Instrs {
			if ret, isRet := ins.(*ssa.Return); isRet {
				for _, res := range ret.Results {
					if !isPointerLike(res.Type()) || types.Identical(res.Type(), types.Universe.Lookup("error").Type()) {
						continue
					}
					if !a.roots(res, map[ssa.Value]bool{}).onlyLocal() {
						ok = false
					}
				}
			}
		}
	}
	a.fresh[fn] = ok
	return ok
}

// external summaries: by full name of the (origin) function.
//
//	"pure"         no effect
//	"w0","w1"      writes the memory of argument 0/1 (receiver is 0)
//	"io"           performs I/O on argument 0
var extSummary = map[string]string{
	"fmt.Sprintf": "pure", "fmt.Sprint": "pure", "fmt.Sprintln": "pure", "fmt.Errorf": "pure",
	"errors.New": "pure", "errors.Is": "pure", "errors.As": "w1",
	"fmt.Fprintf": "io", "fmt.Fprint": "io", "fmt.Fprintln": "io",
	"io.ReadFull": "io", "io.WriteString": "io", "io.Copy": "io", "io.ReadAll": "io",
	"sort.Slice": "w0", "sort.SliceStable": "w0", "sort.Strings": "w0", "sort.Ints": "w0", "sort.Sort": "w0",
	"slices.Sort": "w0", "slices.SortFunc": "w0", "slices.Grow": "pure", "slices.Clone": "pure", "slices.Reverse": "w0",
	"golang.org/x/exp/slices.Sort": "w0", "golang.org/x/exp/slices.SortFunc": "w0",
	"golang.org/x/exp/maps.Keys": "pure", "golang.org/x/exp/maps.Values": "pure", "golang.org/x/exp/maps.Clone": "pure",
	"maps.Clone": "pure", "maps.Keys": "pure",
	"copy": "w0", "delete": "w0", "clear": "w0",
	"time.Parse": "pure", "bufio.NewScanner": "pure", "bufio.NewReader": "pure", "bufio.NewWriter": "pure",
	"(*bufio.Scanner).Scan": "io", "(*bufio.Scanner).Text": "pure", "(*bufio.Scanner).Err": "pure", "(*bufio.Scanner).Bytes": "pure",
	"(*strings.Builder).WriteString": "w0", "(*strings.Builder).WriteByte": "w0", "(*strings.Builder).Write": "w0", "(*strings.Builder).String": "pure", "(*strings.Builder).Len": "pure",
	"(*bytes.Buffer).WriteString": "w0", "(*bytes.Buffer).WriteByte": "w0", "(*bytes.Buffer).Write": "w0", "(*bytes.Buffer).String": "pure", "(*bytes.Buffer).Len": "pure", "(*bytes.Buffer).Bytes": "pure", "(*bytes.Buffer).Reset": "w0",
	"(*sync.Mutex).Lock": "pure", "(*sync.Mutex).Unlock": "pure",
	"(*text/template.Template).Execute": "io", "(*text/template.Template).ExecuteTemplate": "io",
	"(embed.FS).Open": "pure", "regexp.MustCompile": "pure", "(*regexp.Regexp).FindSubmatch": "pure",
	"strings.NewReader": "pure", "bytes.NewReader": "pure",
}

var purePkgs = map[string]bool{"math": true, "strconv": true, "strings": true, "bytes": true, "unicode": true, "unicode/utf8": true, "math/bits": true, "time": true}

func calleeName(fn *ssa.Function) string {
	if o := fn.Origin(); o != nil {
		fn = o
	}
	return fn.String()
}

func (a *effAnalysis) external(fn *ssa.Function) string {
	name := calleeName(fn)
	if s, ok := extSummary[name]; ok {
		return s
	}
	if fn.Pkg != nil && purePkgs[fn.Pkg.Pkg.Path()] && fn.Signature.Recv() == nil {
		return "pure"
	}
	if fn.Signature.Recv() != nil {
		// value-receiver methods of basic library types (time.Time, …) are pure
		if _, isPtr := fn.Signature.Recv().Type().(*types.Pointer); !isPtr {
			if fn.Pkg != nil && (purePkgs[fn.Pkg.Pkg.Path()] || fn.Pkg.Pkg.Path() == "reflect") {
				return "pure"
			}
		}
	}
	return ""
}

// of returns the effect summary of fn.
func (a *effAnalysis) of(fn *ssa.Function) *Effects {
	if e, ok := a.sum[fn]; ok {
		return e
	}
	e := &Effects{Globals: map[string]bool{}, Params: map[int]bool{}}
	a.sum[fn] = e
	if fn.Blocks == nil || !a.analysable(fn) {
		switch a.external(fn) {
		case "pure":
		case "w0":
			e.Params[0] = true
		case "w1":
			e.Params[1] = true
		case "io":
			e.IO = append(e.IO, "calls "+calleeName(fn))
		default:
			e.Unknown = append(e.Unknown, "calls "+calleeName(fn)+" (no summary)")
		}
		return e
	}
	a.working[fn] = true
	defer delete(a.working, fn)
	for _, b := range fn.Blocks {
		for _, ins := range b.Instrs {
			a.instr(fn, ins, e)
		}
	}
	return e
}

// analysable: bodies of the module and of the small helper modules are
// analysed; the standard library is summarised by table.
func (a *effAnalysis) analysable(fn *ssa.Function) bool {
	if a.c.inModule(fn) {
		return true
	}
	f := fn
	for f.Parent() != nil {
		f = f.Parent()
	}
	if o := f.Origin(); o != nil {
		f = o
	}
	if f.Pkg == nil {
		return false
	}
	p := f.Pkg.Pkg.Path()
	if _, ok := extSummary[calleeName(fn)]; ok {
		return false
	}
	return strings.HasPrefix(p, "seehuhn.de/go/geom") || leafStdPkgs[p]
}

// leafStdPkgs: small standard-library packages without I/O, reflection or global state whose
// function bodies are analysed like module code instead of being listed one by one (a call of
// binary.BigEndian.AppendUint32 then has the effects of the `append` it consists of; PutUint32
// writes its slice argument).  Entries of extSummary take precedence.
var leafStdPkgs = map[string]bool{"encoding/binary": true, "cmp": true, "slices": true, "maps": true, "golang.org/x/exp/slices": true, "golang.org/x/exp/maps": true, "unicode/utf16": true}

func (a *effAnalysis) write(fn *ssa.Function, target ssa.Value, what string, e *Effects) {
	r := a.roots(target, map[ssa.Value]bool{})
	for g := range r.globals {
		e.Globals[g] = true
	}
	for p := range r.params {
		e.Params[p] = true
	}
	if r.captured {
		e.Captured = true
	}
	if r.heap {
		e.Heap = append(e.Heap, what+" through a pointer loaded from memory at "+a.c.pos(target.Pos()))
	}
}

func (a *effAnalysis) instr(fn *ssa.Function, ins ssa.Instruction, e *Effects) {
	switch ins := ins.(type) {
	case *ssa.Store:
		a.write(fn, ins.Addr, "store", e)
	case *ssa.MapUpdate:
		a.write(fn, ins.Map, "map update", e)
	case *ssa.Send:
		e.IO = append(e.IO, "channel send")
	case *ssa.Go:
		e.IO = append(e.IO, "go statement")
	case ssa.CallInstruction:
		a.call(fn, ins, e)
	}
}

func (a *effAnalysis) call(fn *ssa.Function, ins ssa.CallInstruction, e *Effects) {
	com := ins.Common()
	if b, ok := com.Value.(*ssa.Builtin); ok {
		switch b.Name() {
		case "copy", "delete", "clear":
			a.write(fn, com.Args[0], b.Name(), e)
		}
		return
	}
	var callees []*ssa.Function
	var args []ssa.Value
	if com.IsInvoke() {
		e.Dynamic = append(e.Dynamic, "interface method call "+com.Method.Name()+" at "+a.c.pos(ins.Pos()))
		return
	}
	args = com.Args
	if sc := com.StaticCallee(); sc != nil {
		callees = append(callees, sc)
		if mc, ok := com.Value.(*ssa.MakeClosure); ok {
			_ = mc
		}
	} else if cl := closuresOf(com.Value); cl != nil {
		callees = cl
	} else {
		e.Dynamic = append(e.Dynamic, "call of a function value at "+a.c.pos(ins.Pos()))
		return
	}
	for _, callee := range callees {
		if a.working[callee] {
			continue // recursion: effects are accumulated by the outer visit
		}
		ce := a.of(callee)
		for g := range ce.Globals {
			e.Globals[g] = true
		}
		for p := range ce.Params {
			if p < len(args) {
				a.write(fn, args[p], "call of "+calleeName(callee), e)
			}
		}
		if ce.Captured {
			// the callee writes variables it captured; those belong to an
			// enclosing function.  If that function is fn itself or an
			// ancestor of fn, treat like a local/captured write.
			if callee.Parent() == fn {
				// local effect
			} else {
				e.Captured = true
			}
		}
		e.Heap = append(e.Heap, ce.Heap...)
		e.IO = append(e.IO, ce.IO...)
		e.Dynamic = append(e.Dynamic, ce.Dynamic...)
		e.Unknown = append(e.Unknown, ce.Unknown...)
	}
}

// closuresOf resolves a called value to the anonymous functions it can be:
// a MakeClosure, or a load of a local cell into which only closures are stored.
func closuresOf(v ssa.Value) []*ssa.Function {
	switch v := v.(type) {
	case *ssa.MakeClosure:
		return []*ssa.Function{v.Fn.(*ssa.Function)}
	case *ssa.Function:
		return []*ssa.Function{v}
	case *ssa.UnOp:
		al, ok := v.X.(*ssa.Alloc)
		if !ok {
			return nil
		}
		var out []*ssa.Function
		for _, ref := range *al.Referrers() {
			if st, ok := ref.(*ssa.Store); ok && st.Addr == al {
				switch val := st.Val.(type) {
				case *ssa.MakeClosure:
					out = append(out, val.Fn.(*ssa.Function))
				case *ssa.Function:
					out = append(out, val)
				default:
					return nil
				}
			}
		}
		return out
	}
	return nil
}
