package main

import (
	"fmt"
	"go/types"
	"sort"
	"strings"

	"golang.org/x/tools/go/ssa"
)

// C14 — the control states of the PFB decoder, found by role.
//
// The decoder is a state machine, but how it encodes its states is its own business: one integer
// with a sentinel value for "a hex digit is pending", an integer plus a flag, fields grouped into
// an embedded struct.  The rules therefore do not name state values.  The *control fields* are
// the boolean and integer fields of the decoder other than the remaining length and the pending
// digit; a *control state* is an assignment of constants to them.  The states the rules talk
// about are identified by what brings the decoder there:
//
//	header state      the state of a fresh decoder (all control fields zero)
//	segment state t   the state after an accepted header of type t (1 text, 2 binary, 3 end)
//	pending states    the states after a pass over a binary segment that filled an odd caller
//	                  buffer (a digit is parked), with and without data left in the segment
//
// Each is obtained by evaluating one iteration of the main loop from the state before.

type pfbCtl map[string]sv

func (s pfbCtl) String() string {
	var p []string
	for k, v := range s {
		p = append(p, k+"="+v.String())
	}
	sort.Strings(p)
	return "{" + strings.Join(p, " ") + "}"
}

func (s pfbCtl) clone() pfbCtl {
	r := pfbCtl{}
	for k, v := range s {
		r[k] = v
	}
	return r
}

type pfbRolesG struct {
	fields []string // control fields: paths relative to the receiver
	hdr    pfbCtl
	seg    [4]pfbCtl // seg[1..3]; nil if not derivable
	pend   []pfbCtl
	why    []string
}

var pfbRolesCacheG = map[*Ctx]*pfbRolesG{}

// pfbControlFields: boolean and integer fields of the decoder (through structs held by value),
// except the remaining length and the pending digit.
func (c *Ctx) pfbControlFields() (fields []string, zero pfbCtl) {
	lenF, tailF := c.fld("pfb.len"), c.fld("pfb.tail")
	zero = pfbCtl{}
	var walk func(st *types.Struct, prefix string, depth int)
	walk = func(st *types.Struct, prefix string, depth int) {
		if depth > 3 {
			return
		}
		for i := 0; i < st.NumFields(); i++ {
			f := st.Field(i)
			switch t := f.Type().Underlying().(type) {
			case *types.Struct:
				walk(t, prefix+f.Name()+".", depth+1)
			case *types.Basic:
				if f.Name() == lenF || f.Name() == tailF {
					continue
				}
				switch {
				case t.Info()&types.IsBoolean != 0:
					zero[prefix+f.Name()] = boolV(false)
				case t.Info()&types.IsInteger != 0:
					zero[prefix+f.Name()] = intV(0)
				default:
					continue
				}
				fields = append(fields, prefix+f.Name())
			}
		}
	}
	if st, ok := c.typeObj("pfb", "pfbReader").Type().Underlying().(*types.Struct); ok {
		walk(st, "", 0)
	}
	sort.Strings(fields)
	return
}

// pfbApply: the control state after the stores of an evaluated iteration; ok is false if a
// control field received a value that is not a constant.
func pfbApply(before pfbCtl, effects []ssaEffect) (pfbCtl, bool) {
	after := before.clone()
	ok := true
	for _, ef := range effects {
		if ef.what != "store" || !strings.HasPrefix(ef.addr, "r.") {
			continue
		}
		k := ef.addr[2:]
		if _, isCtl := before[k]; !isCtl {
			continue
		}
		if v := ef.args[0]; v.k == svInt || v.k == svBool {
			after[k] = v
		} else {
			after[k] = v
			ok = false
		}
	}
	return after, ok
}

func (c *Ctx) pfbRoles(fn *ssa.Function, H *ssa.BasicBlock) *pfbRolesG {
	if r, ok := pfbRolesCacheG[c]; ok {
		return r
	}
	r := &pfbRolesG{}
	pfbRolesCacheG[c] = r
	r.fields, r.hdr = c.pfbControlFields()
	for t := int64(1); t <= 3; t++ {
		it := c.pfbIterationOpt(fn, H, 0, map[int]int64{0: 0x80, 1: t}, 2, pfbOpt{lenZero: -1, hdrK: -1, ctl: r.hdr, isHdr: true})
		after, ok := pfbApply(r.hdr, it.effects)
		if !it.back || it.why != "" || !ok {
			r.why = append(r.why, fmt.Sprintf("the state after a header of type %d cannot be determined (%s %s)", t, after, it.why))
			continue
		}
		r.seg[t] = after
	}
	if r.seg[2] != nil {
		seen := map[string]bool{}
		for _, rem := range []int64{1000, 1} {
			x := c.pfbExpandOnce(fn, H, 1, rem, r.seg[2])
			if x.why != "" || !x.ctlOK || x.tail == "" {
				continue
			}
			if k := x.ctlAfter.String(); !seen[k] {
				seen[k] = true
				r.pend = append(r.pend, x.ctlAfter)
			}
		}
	}
	return r
}

// role: the control state that plays the given role (0 header, 1..3 segment states); nil if it
// could not be derived.
func (r *pfbRolesG) role(id int64) pfbCtl {
	switch {
	case id == 0:
		return r.hdr
	case id >= 1 && id <= 3:
		return r.seg[id]
	}
	return nil
}

// pfbStoredStates: every control state the decoder's code can produce field by field — for each
// control field the constants stored to it anywhere in the package and its zero value, combined
// freely (an over-approximation of the reachable states) — plus the role states.
func (c *Ctx) pfbStoredStates(r *pfbRolesG) []pfbCtl {
	T := c.typeObj("pfb", "pfbReader")
	vals := map[string]map[string]sv{}
	for k, z := range r.hdr {
		vals[k] = map[string]sv{z.String(): z}
	}
	for _, f := range c.modFuncs {
		if f.Pkg == nil || f.Pkg.Pkg.Name() != "pfb" {
			continue
		}
		eachInstr(f, func(ins ssa.Instruction) {
			st, ok := ins.(*ssa.Store)
			if !ok {
				return
			}
			path, ok := fieldPathG(st.Addr, T)
			if !ok || vals[path] == nil {
				return
			}
			if k, isC := constInt(st.Val); isC {
				vals[path][fmt.Sprint(k)] = intV(k)
			}
			if b, isC := constBool(st.Val); isC {
				vals[path][fmt.Sprint(b)] = boolV(b)
			}
		})
	}
	out := []pfbCtl{{}}
	for _, k := range r.fields {
		var vs []string
		for s := range vals[k] {
			vs = append(vs, s)
		}
		sort.Strings(vs)
		var next []pfbCtl
		for _, o := range out {
			for _, s := range vs {
				n := o.clone()
				n[k] = vals[k][s]
				next = append(next, n)
			}
		}
		out = next
		if len(out) > 256 {
			break
		}
	}
	seen := map[string]bool{}
	var res []pfbCtl
	add := func(s pfbCtl) {
		if s == nil || len(s) != len(r.fields) || seen[s.String()] {
			return
		}
		seen[s.String()] = true
		res = append(res, s)
	}
	for _, o := range out {
		add(o)
	}
	add(r.hdr)
	for _, s := range r.seg {
		add(s)
	}
	for _, s := range r.pend {
		add(s)
	}
	sort.Slice(res, func(i, j int) bool { return res[i].String() < res[j].String() })
	return res
}

// fieldPathG: addr is the address of a field of an object of type T (through structs held by
// value); the path of field names from the object.
func fieldPathG(addr ssa.Value, T *types.TypeName) (string, bool) {
	fa, ok := addr.(*ssa.FieldAddr)
	if !ok {
		return "", false
	}
	pt, ok := fa.X.Type().Underlying().(*types.Pointer)
	if !ok {
		return "", false
	}
	st, ok := pt.Elem().Underlying().(*types.Struct)
	if !ok {
		return "", false
	}
	name := st.Field(fa.Field).Name()
	if n, ok := pt.Elem().(*types.Named); ok && n.Obj() == T {
		return name, true
	}
	if p, ok := fieldPathG(fa.X, T); ok {
		return p + "." + name, true
	}
	return "", false
}
