package main

import (
	"fmt"
	"go/token"
	"go/types"
	"sort"
	"strings"

	"golang.org/x/tools/go/ssa"
)

// C02, second part: composite objects are shared by reference (OP-SHARE) and dictionary
// equality is identity (OP-IDENT).

// sinkKind: where an operator puts a value.
type opSink struct {
	kind string // push | dictstack | mapstore:<what> | elemstore
	val  ssa.Value
	at   ssa.Instruction
}

// opSinks lists the values an operator pushes onto the operand or dictionary stack or stores
// into dictionaries and arrays.
func (c *Ctx) opSinks(ia *interpAnchors, f *ssa.Function) []opSink {
	var out []opSink
	eachInstr(f, func(ins ssa.Instruction) {
		switch x := ins.(type) {
		case *ssa.Call:
			b, ok := x.Call.Value.(*ssa.Builtin)
			if !ok || b.Name() != "append" || len(x.Call.Args) != 2 {
				return
			}
			kind := ""
			switch {
			case sliceOfField(x.Call.Args[0], ia.T, "Stack"):
				kind = "push"
			case sliceOfField(x.Call.Args[0], ia.T, "DictStack"):
				kind = "dictstack"
			default:
				return
			}
			// the variadic argument: a slice of a fresh array whose cells are stored individually, or another slice
			if sl, ok := x.Call.Args[1].(*ssa.Slice); ok {
				if al, ok := sl.X.(*ssa.Alloc); ok {
					for _, r := range *al.Referrers() {
						if ixa, ok := r.(*ssa.IndexAddr); ok {
							for _, rr := range *ixa.Referrers() {
								if st, ok := rr.(*ssa.Store); ok && st.Addr == ixa {
									out = append(out, opSink{kind, st.Val, st})
								}
							}
						}
					}
					return
				}
			}
			out = append(out, opSink{kind + "...", x.Call.Args[1], x})
		case *ssa.MapUpdate:
			what := "dict"
			if isFieldLoad(x.Map, ia.T, "FontDirectory") {
				what = "FontDirectory"
			}
			out = append(out, opSink{"mapstore:" + what, x.Value, x})
		case *ssa.Store:
			if ixa, ok := x.Addr.(*ssa.IndexAddr); ok {
				if _, isAlloc := ixa.X.(*ssa.Alloc); isAlloc {
					return
				}
				if isFieldLoad(ixa.X, ia.T, "Stack") {
					out = append(out, opSink{"stackstore", x.Val, x})
					return
				}
				out = append(out, opSink{"elemstore", x.Val, x})
			}
		}
	})
	return out
}

func sliceOfField(v ssa.Value, T *types.TypeName, name string) bool {
	v = origin(v)
	if sl, ok := v.(*ssa.Slice); ok {
		v = origin(sl.X)
	}
	return isFieldLoad(v, T, name)
}

// valueSource describes where a sink value comes from.
func (c *Ctx) valueSource(ia *interpAnchors, v ssa.Value, depth int) string {
	if depth > 8 {
		return "?"
	}
	v = origin(v)
	switch x := v.(type) {
	case *ssa.MakeInterface:
		return c.valueSource(ia, x.X, depth+1)
	case *ssa.ChangeInterface:
		return c.valueSource(ia, x.X, depth+1)
	case *ssa.Extract:
		if call, ok := x.Tuple.(*ssa.Call); ok {
			if s, ok := c.accessorResultSource(ia, call, x.Index, depth+1); ok {
				return s
			}
		}
		return c.valueSource(ia, x.Tuple, depth+1)
	case *ssa.TypeAssert:
		return c.valueSource(ia, x.X, depth+1)
	case *ssa.Convert:
		if isComposite(x.X.Type()) != isComposite(x.Type()) {
			// string(bytes), []byte(string): a conversion that copies
			return "fresh"
		}
		return c.valueSource(ia, x.X, depth+1)
	case *ssa.Const:
		if x.Value == nil {
			return "nil"
		}
		return "fresh"
	case *ssa.MakeMap, *ssa.MakeSlice, *ssa.Alloc, *ssa.BinOp, *ssa.MakeClosure, *ssa.Function, *ssa.Global:
		return "fresh"
	case *ssa.Parameter:
		return "param"
	case *ssa.Lookup:
		return "element(" + c.valueSource(ia, x.X, depth+1) + ")"
	case *ssa.Slice:
		return "interval(" + c.valueSource(ia, x.X, depth+1) + ")"
	case *ssa.Next, *ssa.Range:
		return "element(iteration)"
	case *ssa.Phi:
		set := map[string]bool{}
		for _, e := range x.Edges {
			set[c.valueSource(ia, e, depth+1)] = true
		}
		var l []string
		for s := range set {
			l = append(l, s)
		}
		sort.Strings(l)
		return strings.Join(l, "|")
	case *ssa.UnOp:
		if x.Op == token.MUL {
			if k, ok := stackOperand(x, ia.T); ok {
				return fmt.Sprintf("operand%d", k)
			}
			if ixa, ok := x.X.(*ssa.IndexAddr); ok {
				return "element(" + c.valueSource(ia, ixa.X, depth+1) + ")"
			}
			if fa, ok := x.X.(*ssa.FieldAddr); ok {
				fld := fa.X.Type().Underlying().(*types.Pointer).Elem().Underlying().(*types.Struct).Field(fa.Field)
				return "field " + fld.Name()
			}
			if _, ok := x.X.(*ssa.FreeVar); ok {
				// a variable of the enclosing function, captured by this closure and assigned once:
				// the value it has there
				if vals := freeVarValues(x); len(vals) > 0 {
					set := map[string]bool{}
					for _, v := range vals {
						set[c.valueSource(ia, v, depth+1)] = true
					}
					var l []string
					for s := range set {
						l = append(l, s)
					}
					sort.Strings(l)
					return strings.Join(l, "|")
				}
				return "?"
			}
		}
		return "fresh"
	case *ssa.Call:
		if s, ok := c.accessorResultSource(ia, x, 0, depth+1); ok {
			return s
		}
		name := "dynamic"
		if targets := closureTargets(x.Call.Value); len(targets) > 0 && !x.Call.IsInvoke() {
			// a closure made in this function: what it returns (helpers and closures are the same thing)
			set := map[string]bool{}
			for _, mc := range targets {
				for _, r := range returns(mc.Fn.(*ssa.Function)) {
					for _, rv := range retValues(r, 0) {
						set[c.valueSource(ia, rv, depth+1)] = true
					}
				}
			}
			var l []string
			for s := range set {
				l = append(l, s)
			}
			sort.Strings(l)
			if len(l) > 0 {
				return strings.Join(l, "|")
			}
		}
		if cal := x.Call.StaticCallee(); cal != nil {
			name = cal.String()
			if cal == ia.load {
				name = "@dictstack-lookup"
			}
			if o := cal.Origin(); o != nil {
				cal = o
			}
			if cal.Pkg != nil && cloneFuncs[cal.Pkg.Pkg.Name()+"."+cal.Name()] {
				name = "COPY:" + cal.Pkg.Pkg.Name() + "." + cal.Name()
			}
		} else if b, ok := x.Call.Value.(*ssa.Builtin); ok {
			name = b.Name()
		}
		var args []string
		for _, a := range x.Call.Args {
			if isComposite(a.Type()) || types.IsInterface(a.Type()) {
				s := c.valueSource(ia, a, depth+1)
				if s != "fresh" && s != "param" {
					args = append(args, s)
				}
			}
		}
		return "call " + name + "(" + strings.Join(args, ",") + ")"
	}
	return "?"
}

func isComposite(t types.Type) bool {
	switch t.Underlying().(type) {
	case *types.Map, *types.Slice:
		return true
	}
	return false
}

// shareTable: the sinks whose value must be the very object named (PLRM: composite objects share
// their value; dup, def, get, put, … move the object, they do not copy it).
var shareTable = map[string]map[string]string{
	"dup":            {"push": "operand1"},
	"def":            {"mapstore:dict": "operand1"},
	"begin":          {"dictstack": "operand1"},
	"definefont":     {"mapstore:FontDirectory": "operand1", "push": "operand1"},
	"defineresource": {"mapstore:dict": "operand2", "push": "operand2"},
	"findfont":       {"push": "element(field FontDirectory)"},
	"currentdict":    {"push": "element(field DictStack)"},
	"put":            {"mapstore:dict": "operand1", "elemstore": "operand1"},
	"index":          {"push": "element(field Stack)"},
	"exch":           {"push": "operand1|operand2", "stackstore": "operand1|operand2"},
	"getinterval":    {"push": "interval(operand3)"},
	"get":            {"push": "element(operand2)"},
	"load":           {"push": "call @dictstack-lookup(operand1)"},
	"cvx":            {"push": "operand1", "stackstore": "operand1"},
}

// cloneFuncs: library functions that return a copy of their argument.
var cloneFuncs = map[string]bool{"maps.Clone": true, "slices.Clone": true, "bytes.Clone": true, "slices.Concat": true, "maps.Collect": true, "slices.Collect": true, "bytes.Repeat": true, "strings.Clone": true}

func (c *Ctx) sharingRules(ia *interpAnchors, reg *registry) {
	n := 0
	for _, e := range reg.builtins() {
		if e.table != "systemdict" {
			continue
		}
		f := e.fn
		fname := c.fname(f)
		sinks := c.opSinks(ia, f)
		byKind := map[string][]string{}
		for _, s := range sinks {
			src := c.valueSource(ia, s.val, 0)
			byKind[s.kind] = append(byKind[s.kind], src)
			// generic: nothing an operator pushes or stores is a library copy of an existing object,
			// except the result of `copy` (whose PLRM meaning is to copy) — and copy does not use them either.
			if i := strings.Index(src, "call COPY:"); i >= 0 && !strings.Contains(src[i:], "()") && e.key != "copy" {
				c.fail("OP-SHARE", fname, e.key+": no object is replaced by a copy ("+s.kind+")", s.at.Pos(),
					fmt.Sprintf("%s: the value of its %s is a library copy of an existing composite object (%s); the PLRM shares composite values (changes through one reference are visible through all)", e.key, s.kind, src))
			}
		}
		want, ok := shareTable[e.key]
		if !ok {
			continue
		}
		var kinds []string
		for k := range want {
			kinds = append(kinds, k)
		}
		sort.Strings(kinds)
		for _, k := range kinds {
			got := byKind[k]
			if _, own := want["stackstore"]; k == "push" && !own {
				// a result written into a slot of the operand stack (followed by a re-slice) is a
				// push by other means: the value placed on the stack is held to the same rule
				got = append(append([]string{}, got...), byKind["stackstore"]...)
			}
			if len(got) == 0 {
				if k == "stackstore" || k == "elemstore" && e.key != "put" {
					continue // alternative form not used
				}
				if k == "push" && len(byKind["stackstore"]) > 0 && want["stackstore"] != "" {
					continue
				}
				c.undecided("OP-SHARE", fname, e.key+": "+k+" is the object itself", f.Pos(), fmt.Sprintf("%s: no %s found; the sharing rule cannot be decided (sinks: %v)", e.key, k, byKind))
				continue
			}
			n++
			allowed := strings.Split(want[k], "|")
			bad := ""
			for _, g := range got {
				for _, part := range strings.Split(g, "|") {
					hit := false
					for _, a := range allowed {
						if part == a {
							hit = true
						}
					}
					// scalar values (integers from strings, booleans) are fresh by nature
					if !hit && part != "nil" && !(part == "fresh" && (e.key == "get" || e.key == "put" || e.key == "index")) {
						bad = part
					}
				}
			}
			c.check(bad == "", "OP-SHARE", fname, e.key+": "+k+" is the object itself ("+want[k]+")", f.Pos(), strings.Join(got, ", "),
				fmt.Sprintf("%s: the value of its %s is `%s`, not the object itself (`%s`); a composite object would be copied and the copies would diverge", e.key, k, bad, want[k]))
		}
	}
	c.floor("OP-SHARE", 22)
	// creating operators allocate their result during the call (ext_w1.go)
	c.creationRules(ia, reg)

	// put and putinterval write into the operand's own storage
	for _, op := range []string{"put", "putinterval"} {
		f := reg.op("systemdict", op)
		if op == "putinterval" {
			// decided on the evaluator (ext_x7.go): after the operator has run, the object that was the
			// destination operand holds the elements of the source at the prescribed places (and is
			// unchanged when the operands are rejected) — wherever the copy is written, in the operator
			// or in a helper; the inspection of the copy call below only if an evaluation stops
			var bad []string
			cells, stopped := 0, ""
			for _, kind := range []string{"Array", "String"} {
				_, b, n, decided, why := c.putintervalByEvaluation(f, kind)
				if !decided {
					stopped = why
					break
				}
				bad, cells = append(bad, b...), cells+n
			}
			if stopped == "" {
				c.check(len(bad) == 0, "OP-SHARE", c.fname(f), op+": writes into the storage of the operand", f.Pos(), fmt.Sprintf("%d cells evaluated: the destination object afterwards", cells),
					op+" does not write into the storage of its array/string operand as prescribed; other references to the object would not see the change: "+joinMax(bad, 3))
				continue
			}
			c.note("OP-SHARE: the evaluation of putinterval stops (%s); deciding on the copy call", stopped)
		}
		okW := false
		detail := ""
		eachInstr(f, func(ins ssa.Instruction) {
			switch x := ins.(type) {
			case *ssa.Store:
				if ixa, ok := x.Addr.(*ssa.IndexAddr); ok {
					if src := c.valueSource(ia, ixa.X, 0); strings.HasPrefix(src, "operand") {
						okW = true
						detail = "stores through " + src
					}
				}
			case *ssa.Call:
				if b, ok := x.Call.Value.(*ssa.Builtin); ok && b.Name() == "copy" {
					if src := c.valueSource(ia, x.Call.Args[0], 0); strings.HasPrefix(src, "interval(operand") {
						okW = true
						detail = "copies into " + src
					} else {
						okW = false
						detail = "copies into " + src
					}
				}
			}
		})
		c.check(okW, "OP-SHARE", c.fname(f), op+": writes into the storage of the operand", f.Pos(), detail, op+" does not write into the storage of its array/string operand ("+detail+"); other references to the object would not see the change")
	}
}

// identityRule: eq/ne on two dictionaries is identity, decided by probing.
func (c *Ctx) identityRule(ia *interpAnchors) {
	eq := c.fn("postscript", "equal")
	same := c.fn("postscript", "isSameDict")
	if eq == nil || same == nil {
		c.undecided("OP-IDENT", "postscript.equal", "dictionary equality", token.NoPos, "equal or isSameDict not found")
		return
	}
	// (a) equal dispatches a pair of dictionaries to isSameDict, before any normalisation
	calls := staticCalls(eq, same)
	okDispatch := len(calls) == 1
	if okDispatch {
		a0 := c.valueSource(ia, calls[0].Common().Args[0], 0)
		a1 := c.valueSource(ia, calls[0].Common().Args[1], 0)
		okDispatch = a0 == "param" && a1 == "param" && origin(stripAssert(calls[0].Common().Args[0])) != origin(stripAssert(calls[0].Common().Args[1]))
	}
	c.check(okDispatch, "OP-IDENT", c.fname(eq), "two dictionaries are compared by identity (isSameDict on both operands)", eq.Pos(), "", "equal does not hand a pair of dictionaries to the identity test with its two operands")
	for _, b := range c.reg.builtins() {
		if b.key == "eq" || b.key == "ne" {
			// decided on the evaluator (ext_x7.go): the operator is evaluated with the comparison
			// answering true, false and an error; helpers that fetch the operands are evaluated in
			// place.  The inspection of the call below only if an evaluation stops.
			if badCmp, badPol, decided, why := c.eqneByEvaluation(b.fn, eq, b.key == "ne"); decided {
				c.check(len(badCmp) == 0, "OP-IDENT", c.fname(b.fn), b.key+": compares its two operands", b.fn.Pos(), "evaluated: one comparison, of the two topmost operands", b.key+" does not compare the two topmost operands: "+joinMax(badCmp, 2))
				c.check(len(badPol) == 0, "OP-IDENT", c.fname(b.fn), b.key+": polarity of the result", b.fn.Pos(), "evaluated with the comparison answering true and false", b.key+": "+joinMax(badPol, 2))
				continue
			} else {
				c.note("OP-IDENT: the evaluation of %s stops (%s); deciding on the call of the comparison", b.key, why)
			}
			cs := staticCalls(b.fn, eq)
			okC := len(cs) == 1
			if okC {
				s0 := c.valueSource(ia, cs[0].Common().Args[0], 0)
				s1 := c.valueSource(ia, cs[0].Common().Args[1], 0)
				okC = (s0 == "operand1" && s1 == "operand2") || (s0 == "operand2" && s1 == "operand1")
			}
			c.check(okC, "OP-IDENT", c.fname(b.fn), b.key+": compares its two operands", b.fn.Pos(), "", b.key+" does not compare the two topmost operands")
			// ne negates, eq does not
			neg := false
			for _, s := range c.opSinks(ia, b.fn) {
				v := origin(s.val)
				if mi, ok := v.(*ssa.MakeInterface); ok {
					v = origin(mi.X)
				}
				if cv, ok := v.(*ssa.ChangeType); ok {
					v = cv.X
				}
				if u, ok := v.(*ssa.UnOp); ok && u.Op == token.NOT {
					neg = true
				}
			}
			c.check(neg == (b.key == "ne"), "OP-IDENT", c.fname(b.fn), b.key+": polarity of the result", b.fn.Pos(), fmt.Sprintf("negated=%v", neg), fmt.Sprintf("%s pushes the comparison result with negation=%v", b.key, neg))
		}
	}
	// (b) the probe protocol
	var upd *ssa.MapUpdate
	eachInstr(same, func(ins ssa.Instruction) {
		if mu, ok := ins.(*ssa.MapUpdate); ok {
			upd = mu
		}
	})
	fname := c.fname(same)
	if upd == nil {
		// an identity test not based on probing: accept a comparison of the map pointers
		txt := ""
		eachInstr(same, func(ins ssa.Instruction) {
			if call, ok := ins.(*ssa.Call); ok {
				if cal := call.Call.StaticCallee(); cal != nil {
					txt += cal.String() + ";"
				}
			}
		})
		c.check(strings.Contains(txt, "reflect.Value).Pointer") || strings.Contains(txt, "reflect.Value).UnsafePointer"), "OP-IDENT", fname, "identity test", same.Pos(), "pointer comparison", "isSameDict neither probes nor compares map pointers")
		return
	}
	pa, pb := same.Params[0], same.Params[1]
	ma := origin(upd.Map)
	other := ssa.Value(pb)
	if ma == ssa.Value(pb) {
		other = pa
	} else if ma != ssa.Value(pa) {
		c.undecided("OP-IDENT", fname, "probe insertion", upd.Pos(), "the probe is inserted into neither operand")
		return
	}
	key := origin(upd.Key)
	absent := func(m ssa.Value) bool {
		for _, cd := range domConds(upd.Block()) {
			ex, ok := cd.v.(*ssa.Extract)
			if !ok || ex.Index != 1 || cd.truth {
				continue
			}
			if lk, ok := ex.Tuple.(*ssa.Lookup); ok && origin(lk.X) == m && origin(lk.Index) == key {
				return true
			}
		}
		return false
	}
	c.check(absent(ma), "OP-IDENT", fname, "the probe key is absent from the dictionary it is inserted into", upd.Pos(), "", "isSameDict inserts its probe key without having established that the dictionary does not contain it: an existing entry would be overwritten and then deleted")
	c.check(absent(other), "OP-IDENT", fname, "the probe key is absent from the other dictionary before the insertion", upd.Pos(), "", "isSameDict does not check that the other dictionary lacks the probe key before inserting it: two different dictionaries of equal size compare equal when the second happens to contain the probe name (e.g. << /a 1 >> << /0 1 >> eq)")
	// after the update: result = presence in the other dictionary; the probe is deleted on every path
	resOK, delOK := false, false
	for _, r := range returns(same) {
		if !dominatesInstr(upd, r) {
			continue
		}
		for _, v := range retValues(r, 0) {
			if ex, ok := origin(v).(*ssa.Extract); ok && ex.Index == 1 {
				if lk, ok := ex.Tuple.(*ssa.Lookup); ok && origin(lk.X) == other && origin(lk.Index) == key && dominatesInstr(upd, lk) {
					resOK = true
				}
			}
		}
		delOK = false
		eachInstr(same, func(ins ssa.Instruction) {
			if call, ok := ins.(*ssa.Call); ok {
				if b, ok := call.Call.Value.(*ssa.Builtin); ok && b.Name() == "delete" && origin(call.Call.Args[0]) == ma && origin(call.Call.Args[1]) == key && dominatesInstr(upd, call) && dominatesInstr(call, r) {
					delOK = true
				}
			}
		})
	}
	c.check(resOK, "OP-IDENT", fname, "the result is the presence of the probe in the other dictionary", upd.Pos(), "", "isSameDict does not return whether the probe became visible through the other dictionary")
	c.check(delOK, "OP-IDENT", fname, "the probe is removed again", upd.Pos(), "", "isSameDict leaves its probe entry in the dictionary on some path")
}

func stripAssert(v ssa.Value) ssa.Value {
	for i := 0; i < 6; i++ {
		v = origin(v)
		switch x := v.(type) {
		case *ssa.Extract:
			v = x.Tuple
		case *ssa.TypeAssert:
			v = x.X
		default:
			return v
		}
	}
	return v
}
