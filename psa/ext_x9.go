package main

import (
	"fmt"
	"go/token"
	"go/types"
	"sort"
	"strings"

	"golang.org/x/tools/go/ssa"
)

// Round 5, worker G: evaluator support for the writers' rules.

// ---- constant tables: package-level variables that only ever hold their initialiser
//
// A switch or a run of written-out statements turned into a loop over a package-level table
// (`var layout = []struct{…}{…}`) is the same code as long as the table is what its initialiser
// says.  That holds when the module never stores into the variable or its elements after the
// package initialiser and never hands the table to code that could: every use of the variable
// outside `init` is a load whose value is only measured, indexed, ranged over, sliced and read.
// For such a variable an evaluator may use the contents the initialiser gave it (obtained by
// evaluating `init` on the SSA form, not by running it).

type constTablesX9 struct {
	readOnly map[*ssa.Global]bool
	uses     map[*ssa.Function]map[ssa.Value][]ssa.Instruction // operand → instructions of a package initialiser
}

var constTablesOfX9 = map[*Ctx]*constTablesX9{}

func (c *Ctx) constTablesX9() *constTablesX9 {
	if t := constTablesOfX9[c]; t != nil {
		return t
	}
	t := &constTablesX9{readOnly: map[*ssa.Global]bool{}, uses: map[*ssa.Function]map[ssa.Value][]ssa.Instruction{}}
	constTablesOfX9[c] = t
	return t
}

// readOnlyUseX9: v (a value loaded from a table, or an address inside it) is only read.
func readOnlyUseX9(v ssa.Value, depth int) bool {
	if depth > 8 {
		return false
	}
	refs := v.Referrers()
	if refs == nil {
		return false
	}
	for _, r := range *refs {
		switch x := r.(type) {
		case *ssa.DebugRef:
		case *ssa.UnOp:
			if x.Op != token.MUL || x.X != v {
				return false
			}
			// the loaded element: a scalar, a string, or a struct / array value (a copy); a loaded
			// slice, pointer or map leads to further storage that could be written through it
			if !readOnlyValueX9(x, depth+1) {
				return false
			}
		case *ssa.IndexAddr:
			if x.X != v || !readOnlyUseX9(x, depth+1) {
				return false
			}
		case *ssa.FieldAddr:
			if x.X != v || !readOnlyUseX9(x, depth+1) {
				return false
			}
		case *ssa.Index:
			if x.X != v || !readOnlyValueX9(x, depth+1) {
				return false
			}
		case *ssa.Field:
			if x.X != v || !readOnlyValueX9(x, depth+1) {
				return false
			}
		case *ssa.Lookup:
			if x.X != v || !readOnlyValueX9(x, depth+1) {
				return false
			}
		case *ssa.Slice:
			if x.X != v || !readOnlyUseX9(x, depth+1) {
				return false
			}
		case *ssa.Range:
			if x.X != v {
				return false
			}
			// the iterator only delivers keys and values
			for _, rr := range *x.Referrers() {
				nx, ok := rr.(*ssa.Next)
				if !ok {
					if _, dbg := rr.(*ssa.DebugRef); dbg {
						continue
					}
					return false
				}
				for _, r3 := range *nx.Referrers() {
					if ex, ok := r3.(*ssa.Extract); ok && ex.Index == 2 && !readOnlyValueX9(ex, depth+1) {
						return false
					}
				}
			}
		case *ssa.Call:
			b, ok := x.Call.Value.(*ssa.Builtin)
			if !ok || (b.Name() != "len" && b.Name() != "cap") {
				return false
			}
		case *ssa.Phi:
			if !readOnlyUseX9(x, depth+1) {
				return false
			}
		case *ssa.BinOp, *ssa.If:
			// compared (with nil)
		default:
			return false
		}
	}
	return true
}

// readOnlyArgX9: v (the address of a table) is an argument of a static call of a module function
// whose parameter in that place is only read through (indexed, ranged over, measured, its elements
// loaded); the call cannot change the table and keeps no way to.
func readOnlyArgX9(c *Ctx, call *ssa.Call, v ssa.Value) bool {
	fn := call.Call.StaticCallee()
	if fn == nil || call.Call.Value == v || !c.inModule(fn) || len(fn.Blocks) == 0 || len(fn.Params) != len(call.Call.Args) {
		return false
	}
	for i, a := range call.Call.Args {
		if a == v && !readOnlyUseX9(fn.Params[i], 1) {
			return false
		}
	}
	return true
}

// readOnlyValueX9: a value read out of a table cannot be used to write into the table.
func readOnlyValueX9(v ssa.Value, depth int) bool {
	switch v.Type().Underlying().(type) {
	case *types.Basic, *types.Signature, *types.Interface:
		return true
	case *types.Struct, *types.Array:
		// a copy; its parts are values read out of the table
		if depth > 8 {
			return false
		}
		if refs := v.Referrers(); refs != nil {
			for _, r := range *refs {
				switch x := r.(type) {
				case *ssa.Field:
					if !readOnlyValueX9(x, depth+1) {
						return false
					}
				case *ssa.Index:
					if !readOnlyValueX9(x, depth+1) {
						return false
					}
				case *ssa.DebugRef:
				case *ssa.Store:
					// the copy is put into a local cell (`seg := table[i]`): reads of that cell deliver
					// values out of the table again
					if x.Val != v {
						return false
					}
					al, ok := x.Addr.(*ssa.Alloc)
					if !ok || !readOnlyUseX9(al, depth+1) && !localCopyReadOnlyX9(al, x, depth+1) {
						return false
					}
				default:
					if hasRefType(v.Type()) {
						return false
					}
				}
			}
		}
		return true
	case *types.Slice, *types.Map, *types.Pointer:
		return readOnlyUseX9(v, depth)
	}
	return false
}

// localCopyReadOnlyX9: a local cell that receives a copy of a table element by the store st and
// is otherwise only read (field addresses loaded).
func localCopyReadOnlyX9(al *ssa.Alloc, st *ssa.Store, depth int) bool {
	if al.Heap || depth > 8 {
		return false
	}
	for _, r := range *al.Referrers() {
		switch x := r.(type) {
		case *ssa.Store:
			if x.Addr != ssa.Value(al) {
				return false
			}
		case *ssa.FieldAddr, *ssa.IndexAddr:
			if !readOnlyUseX9(x.(ssa.Value), depth+1) {
				return false
			}
		case *ssa.UnOp:
			if x.Op != token.MUL || !readOnlyValueX9(x, depth+1) {
				return false
			}
		case *ssa.DebugRef:
		default:
			return false
		}
	}
	return true
}

func hasRefType(t types.Type) bool {
	switch u := t.Underlying().(type) {
	case *types.Basic, *types.Signature:
		return false
	case *types.Struct:
		for i := 0; i < u.NumFields(); i++ {
			if hasRefType(u.Field(i).Type()) {
				return true
			}
		}
		return false
	case *types.Array:
		return hasRefType(u.Elem())
	}
	return true
}

// isConstTableX9: g is a table of the module that keeps the contents its initialiser gave it.
func (c *Ctx) isConstTableX9(g *ssa.Global) bool {
	t := c.constTablesX9()
	if r, ok := t.readOnly[g]; ok {
		return r
	}
	t.readOnly[g] = false
	if g.Pkg == nil || !strings.HasPrefix(g.Pkg.Pkg.Path(), modPath) {
		return false
	}
	elemT := g.Type().Underlying().(*types.Pointer).Elem()
	switch elemT.Underlying().(type) {
	case *types.Slice, *types.Array:
	default:
		return false
	}
	init := g.Pkg.Func("init")
	ok := true
	for _, fn := range c.modFuncs {
		if !ok {
			break
		}
		if fn == init {
			continue
		}
		eachInstr(fn, func(ins ssa.Instruction) {
			for _, op := range ins.Operands(nil) {
				if *op != ssa.Value(g) {
					continue
				}
				switch x := ins.(type) {
				case *ssa.UnOp:
					if x.Op != token.MUL || !readOnlyValueX9(x, 0) {
						ok = false
					}
				case *ssa.IndexAddr:
					if !readOnlyUseX9(x, 0) {
						ok = false
					}
				case *ssa.Slice:
					// a slice of the table that is itself only read (ranged over, indexed, measured)
					if x.X != ssa.Value(g) || !readOnlyUseX9(x, 0) {
						ok = false
					}
				case *ssa.DebugRef:
				case *ssa.Call:
					if !readOnlyArgX9(c, x, g) {
						ok = false
					}
				default:
					ok = false
				}
			}
		})
	}
	t.readOnly[g] = ok
	return ok
}

// constTableValueX9: the value of a load from a constant table (the whole variable, or a cell of
// an array-typed one), imported into ev.  Call it from an evaluator's load hook.
func (c *Ctx) constTableValueX9(ev *ssaEval, ld *ssa.UnOp, addr sv) (sv, bool) {
	if ld == nil || addr.k != svAddr || !strings.HasPrefix(addr.s, "global:") {
		return sv{}, false
	}
	var g *ssa.Global
	for root := ld.X; g == nil; {
		switch x := root.(type) {
		case *ssa.Global:
			g = x
		case *ssa.IndexAddr:
			root = x.X
		case *ssa.FieldAddr:
			root = x.X
		default:
			return sv{}, false
		}
	}
	if !strings.HasPrefix(addr.s, "global:"+g.String()) || !c.isConstTableX9(g) {
		return sv{}, false
	}
	if ld.X != ssa.Value(g) {
		// a cell of an array-typed table: the whole table is laid out in the evaluator's memory
		if _, done := ev.mem["global:"+g.String()+"#table"]; !done {
			ev.mem["global:"+g.String()+"#table"] = boolV(true)
			if whole, ok := c.constTableValueX9(ev, &ssa.UnOp{Op: token.MUL, X: g}, sv{k: svAddr, s: "global:" + g.String()}); ok {
				ev.flattenX9("global:"+g.String(), whole, g.Type().Underlying().(*types.Pointer).Elem())
			}
		}
		v, ok := ev.mem[addr.s]
		return v, ok
	}
	t := c.constTablesX9()
	init := g.Pkg.Func("init")
	if init == nil {
		return sv{}, false
	}
	uses := t.uses[init]
	if uses == nil {
		uses = map[ssa.Value][]ssa.Instruction{}
		eachInstr(init, func(ins ssa.Instruction) {
			for _, op := range ins.Operands(nil) {
				if *op != nil {
					uses[*op] = append(uses[*op], ins)
				}
			}
		})
		t.uses[init] = uses
	}
	return c.literalAtX9(ev, uses, g, g.Type().Underlying().(*types.Pointer).Elem(), 0)
}

// literalAtX9 builds the value of type t that the composite literals of a package initialiser
// leave in the storage ptr points to (straight-line stores of constants, functions and nested
// literals; anything else is not a table).
func (c *Ctx) literalAtX9(ev *ssaEval, uses map[ssa.Value][]ssa.Instruction, ptr ssa.Value, t types.Type, depth int) (sv, bool) {
	if depth > 6 {
		return sv{}, false
	}
	var stores []*ssa.Store
	fields := map[int]ssa.Value{}
	elems := map[int64]ssa.Value{}
	if ptr != nil {
		for _, ins := range uses[ptr] {
			switch x := ins.(type) {
			case *ssa.Store:
				if x.Addr != ptr {
					return sv{}, false
				}
				stores = append(stores, x)
			case *ssa.FieldAddr:
				if _, dup := fields[x.Field]; dup {
					return sv{}, false
				}
				fields[x.Field] = x
			case *ssa.IndexAddr:
				i, isC := constInt(x.Index)
				if _, dup := elems[i]; dup || !isC {
					return sv{}, false
				}
				elems[i] = x
			case *ssa.Slice:
				if x.X != ptr || x.Low != nil || x.High != nil {
					return sv{}, false
				}
			case *ssa.DebugRef:
			case *ssa.Call:
				// the table is handed to a function that only reads it (another table derived from it)
				if !readOnlyArgX9(c, x, ptr) {
					return sv{}, false
				}
			default:
				return sv{}, false
			}
		}
	}
	if len(stores) > 1 || len(stores) == 1 && (len(fields) > 0 || len(elems) > 0) {
		return sv{}, false
	}
	switch u := t.Underlying().(type) {
	case *types.Struct:
		if len(stores) > 0 {
			return sv{}, false
		}
		st := sv{k: svStruct}
		var p []string
		for i := 0; i < u.NumFields(); i++ {
			f, ok := c.literalAtX9(ev, uses, fields[i], u.Field(i).Type(), depth+1)
			if !ok {
				return sv{}, false
			}
			st.args, st.tup = append(st.args, sv{k: svString, s: u.Field(i).Name()}), append(st.tup, f)
			p = append(p, u.Field(i).Name()+":"+ev.render(f))
		}
		sort.Strings(p)
		st.s = "{" + strings.Join(p, ",") + "}"
		return st, true
	case *types.Array:
		if len(stores) > 0 || u.Len() > 4096 {
			return sv{}, false
		}
		el := make([]sv, u.Len())
		for i := range el {
			x, ok := c.literalAtX9(ev, uses, elems[int64(i)], u.Elem(), depth+1)
			if !ok {
				return sv{}, false
			}
			el[i] = x
		}
		return ev.newList(el), true
	case *types.Slice:
		if len(stores) == 0 {
			return sv{k: svNil}, true
		}
		switch v := stores[0].Val.(type) {
		case *ssa.Const:
			if v.Value == nil {
				return sv{k: svNil}, true
			}
		case *ssa.Slice:
			al, isAl := v.X.(*ssa.Alloc)
			if !isAl || v.Low != nil || v.High != nil {
				return sv{}, false
			}
			return c.literalAtX9(ev, uses, al, al.Type().Underlying().(*types.Pointer).Elem(), depth+1)
		}
		return sv{}, false
	case *types.Pointer, *types.Interface, *types.Map:
		if len(stores) == 0 {
			return sv{k: svNil}, true
		}
		if k, ok := stores[0].Val.(*ssa.Const); ok && k.Value == nil {
			return sv{k: svNil}, true
		}
		return sv{}, false
	case *types.Basic, *types.Signature:
		if len(stores) == 0 {
			return aZeroSV(t)
		}
		switch v := stores[0].Val.(type) {
		case *ssa.Const:
			if r := ev.val(&frame{vals: map[ssa.Value]sv{}}, v); r.isConst() {
				return r, true
			}
		case *ssa.Function:
			return sv{k: svSym, s: "func:" + v.String(), fn: v}, true
		}
		return sv{}, false
	}
	return sv{}, false
}

// flattenX9 lays a table value of type t out in the evaluator's memory: array elements at a[i],
// struct fields at a.f, everything else (slices included) as the cell a.
func (e *ssaEval) flattenX9(a string, v sv, t types.Type) {
	switch u := t.Underlying().(type) {
	case *types.Struct:
		if v.k == svStruct && len(v.tup) == u.NumFields() {
			for i := 0; i < u.NumFields(); i++ {
				e.flattenX9(a+"."+u.Field(i).Name(), v.tup[i], u.Field(i).Type())
			}
			return
		}
	case *types.Array:
		if el, ok := e.elems(v); ok && v.k == svList {
			for i, x := range el {
				e.flattenX9(fmt.Sprintf("%s[%d]", a, i), x, u.Elem())
			}
			return
		}
	}
	e.mem[a] = v
}

// ---- W-PDFLENGTHS on the evaluator
//
// WritePDF is evaluated on the SSA form with writers as objects: the destination, byte counters
// (the type found by the shape of its Write method: whatever is written to one is counted and
// passed on to the writer below it), cipher writers (the constructor puts the lead bytes into the
// writer below, a write passes on the encrypted content, Close the buffered rest).  Templates
// are opaque named contents.  A read of a counter yields a symbol for what it has counted so far;
// the two lengths returned must be, as sums and differences of such readings, the clear text and
// the cipher text that reached the destination.  Helpers are evaluated in place, so where the
// reads and the cipher writer sit in the source does not matter.
func (c *Ctx) pdfLengthsEvalX9(f *ssa.Function, cwT *types.TypeName, cwField string) (bool, string) {
	ev := &ssaEval{c: c, bind: map[ssa.Value]sv{}, mem: map[string]sv{}, maxDepth: 8}
	newE := c.fn("type1", "newEExecWriter")
	counted := map[string][]string{} // counter cell → contents counted
	below := map[string]sv{}         // cipher writer → the writer it writes to
	var out []string
	isCounter := func(v sv) bool {
		return v.k == svAddr && v.typ != nil && pointsTo(v.typ, cwT)
	}
	var write func(dst sv, content string, depth int) bool
	write = func(dst sv, content string, depth int) bool {
		switch {
		case depth > 8:
			return false
		case dst.k == svSym && dst.s == "w":
			out = append(out, content)
			return true
		case isCounter(dst):
			counted[dst.s] = append(counted[dst.s], content)
			// passed on to the writer below: the field of the counter that holds a writer
			if st, ok := cwT.Type().Underlying().(*types.Struct); ok {
				for i := 0; i < st.NumFields(); i++ {
					if _, isIface := st.Field(i).Type().Underlying().(*types.Interface); isIface {
						if v, ok := ev.mem[dst.s+"."+st.Field(i).Name()]; ok {
							return write(v, content, depth+1)
						}
					}
				}
			}
			return false
		case dst.k == svAddr && strings.HasPrefix(dst.s, "we"):
			return write(below[dst.s], "enc("+content+")", depth+1)
		}
		return false
	}
	bad := ""
	ev.noInline = func(fn *ssa.Function) bool {
		// exported methods (the writers' Write and Close) are modelled; an unexported method is a
		// piece of the function under evaluation that was given a receiver
		return fn.Signature.Recv() != nil && (fn.Object() == nil || fn.Object().Exported()) || fn == newE
	}
	ev.load = func(ld *ssa.UnOp, addr sv) (sv, bool) {
		if i := strings.LastIndex(addr.s, "."); i > 0 && addr.s[i+1:] == cwField && isFieldAddr(ld.X, cwT, cwField) {
			return symV("cnt:" + strings.Join(counted[addr.s[:i]], "|")), true
		}
		if strings.HasPrefix(addr.s, "global:") {
			return sv{k: svAddr, s: addr.s[strings.LastIndex(addr.s, ".")+1:]}, true
		}
		return sv{}, false
	}
	ev.oracle = func(op token.Token, x, y sv) (bool, bool) {
		if (x.k == svNil) != (y.k == svNil) {
			return op == token.NEQ, true
		}
		return false, false
	}
	nwe := 0
	ev.call = func(call ssa.CallInstruction, args []sv) (sv, bool) {
		if call == nil {
			return sv{}, false
		}
		n := callName(call)
		sc := call.Common().StaticCallee()
		switch {
		case strings.HasSuffix(n, "template.Template).ExecuteTemplate") && len(args) == 4 && args[2].k == svString:
			if !write(args[1], args[2].s, 0) && bad == "" {
				bad = "template " + args[2].s + " is written to something that is not the destination, a byte counter or a cipher writer on one"
			}
			return sv{k: svNil}, true
		case sc != nil && sc == newE && len(args) == 1:
			nwe++
			we := sv{k: svAddr, s: fmt.Sprintf("we%d", nwe)}
			below[we.s] = args[0]
			if !write(args[0], "iv", 0) && bad == "" {
				bad = "the cipher writer is not placed on the destination or a byte counter"
			}
			return sv{k: svTuple, tup: []sv{we, {k: svNil}}}, true
		case sc != nil && sc.Name() == "Close" && sc.Signature.Recv() != nil && len(args) == 1 && strings.HasPrefix(args[0].s, "we"):
			if !write(below[args[0].s], "flush", 0) && bad == "" {
				bad = "the cipher writer is not placed on the destination or a byte counter"
			}
			return sv{k: svNil}, true
		case sc != nil && c.inModule(sc) && sc.Signature.Recv() != nil && sc.Signature.Params().Len() == 0 && returnsError(sc) && sc.Signature.Results().Len() == 1:
			return sv{k: svNil}, true // a validation of the font: the table describes a font the writer accepts
		case sc != nil && c.inModule(sc) && sc.Signature.Recv() != nil && sc.Signature.Results().Len() == 1 && isPtrToModStructX9(c, sc.Signature.Results().At(0).Type()):
			// a method that builds a structure of the package (the data the templates are run on)
			return sv{k: svAddr, s: "info"}, true
		}
		return sv{}, false
	}
	ret := ev.runFunc(f, []sv{{k: svAddr, s: "f"}, symV("w")})
	if len(ret) != 3 {
		return false, "WritePDF could not be evaluated to its end: " + ev.why
	}
	if bad != "" {
		return false, bad
	}
	if ret[2].k != svNil {
		return false, "a write that succeeded does not return a nil error"
	}
	if got := strings.Join(out, " "); got != "SectionA iv enc(SectionB) flush" {
		return false, "the destination receives `" + got + "`, expected the clear text, the cipher lead bytes, the encrypted part and the flushed rest"
	}
	// a length as a combination of counter readings
	var count func(v sv, sign int, into map[string]int) bool
	count = func(v sv, sign int, into map[string]int) bool {
		switch {
		case v.k == svInt && v.i == 0:
			return true
		case v.k == svSym && strings.HasPrefix(v.s, "cnt:") && v.op == "":
			for _, p := range strings.Split(v.s[4:], "|") {
				if p != "" {
					into[p] += sign
				}
			}
			return true
		case v.op == "+" && len(v.args) == 2:
			return count(v.args[0], sign, into) && count(v.args[1], sign, into)
		case v.op == "-" && len(v.args) == 2:
			return count(v.args[0], sign, into) && count(v.args[1], -sign, into)
		}
		return false
	}
	same := func(v sv, want ...string) (bool, string) {
		got := map[string]int{}
		if !count(v, 1, got) {
			return false, "is " + v.String() + ", not a count of bytes written"
		}
		for _, w := range want {
			got[w]--
		}
		var diff []string
		for k, n := range got {
			if n != 0 {
				diff = append(diff, fmt.Sprintf("%+d×%s", n, k))
			}
		}
		sort.Strings(diff)
		return len(diff) == 0, "differs from the bytes written by " + strings.Join(diff, " ")
	}
	if ok, why := same(ret[0], "SectionA"); !ok {
		return false, "the first length " + why + " (expected: the clear text up to the cipher lead bytes)"
	}
	if ok, why := same(ret[1], "iv", "enc(SectionB)", "flush"); !ok {
		return false, "the second length " + why + " (expected: lead bytes, encrypted part and the rest flushed by Close)"
	}
	return true, ""
}

// isPtrToModStructX9: t is a pointer to a named struct type declared in the module.
func isPtrToModStructX9(c *Ctx, t types.Type) bool {
	pt, ok := t.Underlying().(*types.Pointer)
	if !ok {
		return false
	}
	nt, ok := pt.Elem().(*types.Named)
	if !ok || nt.Obj().Pkg() == nil || !strings.HasPrefix(nt.Obj().Pkg().Path(), modPath) {
		return false
	}
	_, isStruct := nt.Underlying().(*types.Struct)
	return isStruct
}

// ---- W-LEADBYTES on the evaluator
//
// The constructor of the eexec writer is evaluated (its own methods in place, `copy` performed)
// on an opaque destination and the writer it returns is closed: what reaches the destination are
// the lead bytes as a reader sees them.  There must be four of them, the first neither white
// space nor a hexadecimal digit, and a reader that starts from the key 55665 and consumes them
// must be in the state the writer is left in (the update is injective in the state, so this holds
// iff the writer started from 55665).  Where the key and the bytes are spelled does not matter.
func (c *Ctx) leadBytesX9() {
	fn := c.fn("type1", "newEExecWriter")
	fname := "type1.newEExecWriter"
	wT := c.typeObj("type1", "eexecWriter")
	RF, bufF := c.fld("eexecWriter.R"), c.fld("eexecWriter.buf")
	closeFn := c.method("type1", "eexecWriter", "Close")
	bufN := int64(0)
	if st, ok := wT.Type().Underlying().(*types.Struct); ok {
		for i := 0; i < st.NumFields(); i++ {
			if at, ok := st.Field(i).Type().Underlying().(*types.Array); ok && st.Field(i).Name() == bufF && at.Len() > 0 && at.Len() <= 4096 {
				bufN = at.Len()
			}
		}
	}
	run := func(obj string) (written []sv, state, self sv, why string) {
		var ev *ssaEval
		ev = c.cipherEvalB(func(call ssa.CallInstruction, args []sv) (sv, bool) {
			if call != nil && call.Common().IsInvoke() && call.Common().Method.Name() == "Write" && len(args) == 2 {
				el, ok := ev.elems(args[1])
				if !ok {
					return sv{}, false
				}
				written = append(written, append([]sv{}, el...)...)
				return sv{k: svTuple, tup: []sv{intV(int64(len(el))), {k: svNil}}}, true
			}
			return sv{}, false
		})
		ev.maxDepth = 8
		ev.makeLists = true // slice literals are values (the lead bytes may be handed on as one)
		ev.load = func(ld *ssa.UnOp, addr sv) (sv, bool) {
			if strings.HasPrefix(addr.s, "cell") {
				if z, ok := aZeroSV(ld.Type()); ok {
					return z, true // storage allocated here and not written yet
				}
			}
			return sv{}, false
		}
		if obj != "" && bufN > 0 {
			// (not newList: the numbering of the cells must stay that of the first pass)
			ev.lists = map[string][]sv{"BUF": intListB(make([]int64, bufN)...)}
			ev.mem[obj+"."+bufF] = sv{k: svList, s: "BUF", n: bufN}
		}
		ret := ev.runFunc(fn, []sv{symV("W")})
		if len(ret) != 2 || ret[0].k != svAddr {
			return nil, sv{}, sv{}, "the constructor could not be evaluated: " + ev.why
		}
		if ret[1].k != svNil {
			return nil, sv{}, ret[0], "the constructor fails on a writer that accepts everything"
		}
		if r := ev.runFunc(closeFn, []sv{ret[0]}); len(r) != 1 || r[0].k != svNil {
			return nil, sv{}, ret[0], "Close after the constructor could not be evaluated: " + ev.why
		}
		return written, ev.mem[ret[0].s+"."+RF], ret[0], ""
	}
	written, state, self, why := run("")
	if bufN > 0 && self.k != svAddr {
		// which cell the writer is: the constructor alone, its calls left opaque
		ev := c.cipherEvalB(nil)
		ev.noInline = func(f *ssa.Function) bool { return true }
		ev.oracle = func(op token.Token, x, y sv) (bool, bool) { return op == token.EQL, true } // every call succeeds
		if ret := ev.runFunc(fn, []sv{symV("W")}); len(ret) == 2 {
			self = ret[0]
		}
	}
	if bufN > 0 && self.k == svAddr {
		// the buffer is part of the writer: its cells are modelled from the start (same evaluation,
		// so the writer is the same cell)
		written, state, _, why = run(self.s)
	}
	okIV, detail := false, why
	if why == "" {
		detail = "lead bytes as written: " + renderListB(written)
		okIV = len(written) == 4 && written[0].k == svInt && written[0].i > 32 && !isHexDigit(int(written[0].i))
		for _, b := range written {
			if b.k != svInt {
				okIV = false
			}
		}
	}
	c.check(okIV, "W-LEADBYTES", fname, "four lead bytes; the first cipher byte is neither white space nor a hexadecimal digit", fn.Pos(), detail, "the eexec lead bytes are wrong ("+detail+"): a reader would take a binary section for hexadecimal, or skip its first byte as white space")
	okR := false
	if why == "" && okIV {
		_, want := cipherRefB(written, intV(55665), true)
		okR = state.k == svInt && want.k == svInt && state.i == want.i
		detail = fmt.Sprintf("state after the lead bytes %s, a reader starting from 55665 is in %s", state, want)
	}
	c.check(okR, "W-LEADBYTES", fname, "cipher state starts at 55665", fn.Pos(), "R: eexecR0", "the eexec writer does not start from the key 55665: "+detail)
}

// constTableX9: the contents of a constant table of the module (see isConstTableX9), as a value
// of the evaluator ev.
func (c *Ctx) constTableX9(ev *ssaEval, g *ssa.Global) (sv, bool) {
	return c.constTableValueX9(ev, &ssa.UnOp{Op: token.MUL, X: g}, sv{k: svAddr, s: "global:" + g.String()})
}

// ---- RT-ENCSHORTCUT on the evaluator
//
// writeEncoding is evaluated (string building modelled as for W-ENCODING, the test for the
// standard encoding and whatever helpers it uses in place, psenc.StandardEncoding read from its
// initialiser) on encodings that agree with the standard encoding everywhere except at one
// code.  The cells: the code is one the standard encoding assigns / leaves unassigned (first and
// last such code) × the entry is the standard name, .notdef, or another name × the glyph of the
// standard name is present in / absent from the font.  `StandardEncoding` may be written iff the
// entry is the standard name, or is .notdef while the standard glyph is absent.  A standard
// encoding shifted by one code must not be taken for the standard one (same code on both sides).
func (c *Ctx) encodingShortcutX9() {
	fn := c.fn("type1", "writeEncoding")
	fname := "type1.isStandardEncoding"
	pos := fn.Pos()
	if f := c.fnOpt("type1", "isStandardEncoding"); f != nil {
		pos = f.Pos()
	}
	const what = "`StandardEncoding` is written only if every entry equals the standard name, or is .notdef while the standard glyph is absent from the font"
	psFn := c.method("postscript", "Name", "PS")
	encIdx := -1
	for i, p := range fn.Params {
		if sl, ok := p.Type().Underlying().(*types.Slice); ok {
			if bt, ok := sl.Elem().Underlying().(*types.Basic); ok && bt.Info()&types.IsString != 0 && encIdx < 0 {
				encIdx = i
			}
		}
	}
	stdG, _ := c.spkg("psenc").Members["StandardEncoding"].(*ssa.Global)
	var std []string
	if stdG != nil {
		tmp := &ssaEval{c: c, bind: map[ssa.Value]sv{}, mem: map[string]sv{}}
		if v, ok := c.constTableX9(tmp, stdG); ok {
			if el, ok := tmp.elems(v); ok {
				for _, x := range el {
					if x.k == svString {
						std = append(std, x.s)
					}
				}
			}
		}
	}
	if encIdx < 0 || len(std) != 256 {
		c.undecided("RT-ENCSHORTCUT", fname, what, pos, "writeEncoding has no parameter holding the encoding vector, or psenc.StandardEncoding is not a table of 256 constant names that the module only reads")
		return
	}
	// run: is the shortcut taken for this encoding, when the glyphs named in absent are missing
	run := func(enc []string, absent map[string]bool) (shortcut bool, why string) {
		ev := &ssaEval{c: c, bind: map[ssa.Value]sv{}, mem: map[string]sv{}, maxDepth: 8}
		ev.steps = -200000
		sm := &strModel{e: ev, text: map[string]string{}}
		ev.load = func(ld *ssa.UnOp, addr sv) (sv, bool) { return c.constTableValueX9(ev, ld, addr) }
		ev.call = func(call ssa.CallInstruction, args []sv) (sv, bool) {
			if call == nil {
				if len(args) == 3 && args[0].s == "lookup" && args[2].k == svString {
					if absent[args[2].s] {
						return sv{k: svTuple, tup: []sv{{k: svString}, boolV(false)}}, true
					}
					return sv{k: svTuple, tup: []sv{{k: svString, s: "<charstring>"}, boolV(true)}}, true
				}
				return sv{}, false
			}
			if sc := call.Common().StaticCallee(); sc != nil && sc == psFn {
				if len(args) == 1 && args[0].k == svString {
					return sv{k: svString, s: "/" + args[0].s}, true
				}
				return sv{}, false
			}
			return sm.call(call, args)
		}
		var el []sv
		for _, n := range enc {
			el = append(el, sv{k: svString, s: n})
		}
		args := make([]sv, len(fn.Params))
		for i := range args {
			args[i] = symV(fmt.Sprintf("arg%d", i))
		}
		args[encIdx] = ev.newList(el)
		ret := ev.runFunc(fn, args)
		if sm.bad != "" {
			return false, "not evaluable: " + sm.bad
		}
		if len(ret) != 1 || ret[0].k != svString {
			return false, "not evaluable: " + ev.why
		}
		switch {
		case strings.HasPrefix(ret[0].s, "/Encoding 256 array"):
			return false, ""
		case strings.TrimSpace(ret[0].s) == "/Encoding StandardEncoding def":
			return true, ""
		}
		return false, fmt.Sprintf("writes %.40q, neither the shortcut nor an explicit encoding", ret[0].s)
	}
	firstLast := func(assigned bool) []int {
		var out []int
		for i, n := range std {
			if (n != ".notdef") == assigned {
				out = append(out, i)
			}
		}
		if len(out) > 2 {
			out = []int{out[0], out[len(out)-1]}
		}
		return out
	}
	bad := ""
	cells := 0
	for _, assigned := range []bool{true, false} {
		for _, code := range firstLast(assigned) {
			for _, entry := range []string{std[code], ".notdef", "zzz"} {
				for _, present := range []bool{true, false} {
					cells++
					enc := append([]string{}, std...)
					enc[code] = entry
					got, why := run(enc, map[string]bool{std[code]: !present})
					want := entry == std[code] || entry == ".notdef" && !present
					if why == "" && got != want {
						why = fmt.Sprintf("the shortcut is %s, expected %s", map[bool]string{true: "taken", false: "not taken"}[got], map[bool]string{true: "taken", false: "not taken"}[want])
					}
					if why != "" && bad == "" {
						bad = fmt.Sprintf("standard encoding except code %d (standard name %s) which is %s, glyph %s present in the font: %v: %s", code, std[code], entry, std[code], present, why)
					}
				}
			}
		}
	}
	c.check(bad == "", "RT-ENCSHORTCUT", fname, what, pos, fmt.Sprintf("decision table over %d cells", cells), "encoding shortcut: "+bad+" — after reading the file back the code would be assigned although the font left it unassigned (or vice versa)")
	// the same code on both sides
	shifted := append([]string{}, std[1:]...)
	shifted = append(shifted, std[0])
	okStd, why1 := run(std, nil)
	okShift, why2 := run(shifted, nil)
	c.check(why1 == "" && why2 == "" && okStd && !okShift, "RT-ENCSHORTCUT", fname, "compared with psenc.StandardEncoding at the same code", pos, "", fmt.Sprintf("entries are not compared with psenc.StandardEncoding[code]: the standard encoding itself takes the shortcut: %v %s; the standard encoding shifted by one code takes it: %v %s", okStd, why1, okShift, why2))
}

// ---- operands that come out of a helper with several results (AFM writer events)
//
// `llx, lly, urx, ury := integerBBox(g.BBox)` hands four different values on.  The operand that
// is result i of a module function with a single return statement is traced inside the function
// from that return operand; a parameter met there stands for the operand of the call the trace
// came in through.  The bindings live for one top-level trace.

type afmTraceX9 struct {
	depth  int
	actual map[*ssa.Parameter]ssa.Value
}

var afmTracesX9 = map[*Ctx]*afmTraceX9{}

func (c *Ctx) afmTraceX9() *afmTraceX9 {
	t := afmTracesX9[c]
	if t == nil {
		t = &afmTraceX9{actual: map[*ssa.Parameter]ssa.Value{}}
		afmTracesX9[c] = t
	}
	return t
}

// afmEnterX9 marks the start of a trace (nested traces share the bindings of the outermost).
func (c *Ctx) afmEnterX9() func() {
	t := c.afmTraceX9()
	if t.depth == 0 {
		t.actual = map[*ssa.Parameter]ssa.Value{}
	}
	t.depth++
	return func() { t.depth-- }
}

func (c *Ctx) afmActualX9(p *ssa.Parameter) (ssa.Value, bool) {
	v, ok := c.afmTraceX9().actual[p]
	return v, ok
}

// afmResultX9: x extracts result i of a call of a module function that has exactly one return
// statement; the operand of that return, with the function's parameters bound to this call.
func (c *Ctx) afmResultX9(x *ssa.Extract) (ssa.Value, bool) {
	call, ok := x.Tuple.(*ssa.Call)
	if !ok {
		return nil, false
	}
	fn := call.Call.StaticCallee()
	if fn == nil || !c.inModule(fn) || len(fn.Blocks) == 0 || fn.Signature.Recv() != nil {
		return nil, false
	}
	var ret *ssa.Return
	n := 0
	eachInstr(fn, func(ins ssa.Instruction) {
		if r, ok := ins.(*ssa.Return); ok {
			ret = r
			n++
		}
	})
	if n != 1 || x.Index >= len(ret.Results) || len(call.Call.Args) != len(fn.Params) {
		return nil, false
	}
	t := c.afmTraceX9()
	for i, p := range fn.Params {
		if old, bound := t.actual[p]; bound && old != call.Call.Args[i] {
			return nil, false // the helper is already being traced from another call
		}
	}
	for i, p := range fn.Params {
		t.actual[p] = call.Call.Args[i]
	}
	return ret.Results[x.Index], true
}

// ---- formatted writes in a loop over a literal table (AFM writer events)
//
// `for _, e := range []struct{key string; val float64}{{"CapHeight", m.CapHeight}, …} { write(e.key+" %.0f", e.val) }`
// is the run of writes it replaces: one event per element of the table, the parts of format and
// operands that are read out of the current element taken from what the literal put there.  The
// table must be a slice or array literal local to the function that is only read afterwards.

// elemRefX9: a value that is the field `path` of element idx of the table base.
type elemRefX9 struct {
	base ssa.Value
	idx  ssa.Value
	path []int
}

func elemRefOfValueX9(v ssa.Value, depth int) (elemRefX9, bool) {
	if depth > 8 {
		return elemRefX9{}, false
	}
	switch x := v.(type) {
	case *ssa.UnOp:
		if x.Op == token.MUL {
			return elemRefOfAddrX9(x.X, depth+1)
		}
	case *ssa.Field:
		if r, ok := elemRefOfValueX9(x.X, depth+1); ok {
			r.path = append(append([]int{}, r.path...), x.Field)
			return r, true
		}
	case *ssa.ChangeType:
		return elemRefOfValueX9(x.X, depth+1)
	}
	return elemRefX9{}, false
}

func elemRefOfAddrX9(a ssa.Value, depth int) (elemRefX9, bool) {
	if depth > 8 {
		return elemRefX9{}, false
	}
	switch x := a.(type) {
	case *ssa.FieldAddr:
		if r, ok := elemRefOfAddrX9(x.X, depth+1); ok {
			r.path = append(append([]int{}, r.path...), x.Field)
			return r, true
		}
	case *ssa.IndexAddr:
		return elemRefX9{base: x.X, idx: x.Index}, true
	case *ssa.Alloc:
		// a local copy of the element (`for _, e := range table`): written once, read otherwise
		var st *ssa.Store
		for _, r := range *x.Referrers() {
			if s, ok := r.(*ssa.Store); ok && s.Addr == ssa.Value(x) {
				if st != nil {
					return elemRefX9{}, false
				}
				st = s
			}
		}
		if st == nil || !localCopyReadOnlyX9(x, st, 0) {
			return elemRefX9{}, false
		}
		return elemRefOfValueX9(st.Val, depth+1)
	}
	return elemRefX9{}, false
}

// literalTableX9: base is (a slice of) an array the function allocates for a composite literal
// and only reads afterwards; n its length.
func literalTableX9(base ssa.Value) (al *ssa.Alloc, n int64, ok bool) {
	switch x := base.(type) {
	case *ssa.Slice:
		a, isAl := x.X.(*ssa.Alloc)
		if !isAl || x.Low != nil || x.High != nil || !readOnlyUseX9(x, 0) {
			return nil, 0, false
		}
		al = a
	case *ssa.Alloc:
		al = x
	default:
		return nil, 0, false
	}
	at, isArr := al.Type().Underlying().(*types.Pointer).Elem().Underlying().(*types.Array)
	if !isArr || at.Len() > 256 {
		return nil, 0, false
	}
	// the array itself: elements addressed by constants (the literal's stores), sliced, or — when
	// it is ranged over directly — indexed and read
	for _, r := range *al.Referrers() {
		switch y := r.(type) {
		case *ssa.IndexAddr:
			if _, isC := constInt(y.Index); !isC && !readOnlyUseX9(y, 0) {
				return nil, 0, false
			}
		case *ssa.Slice, *ssa.DebugRef:
		default:
			return nil, 0, false
		}
	}
	return al, at.Len(), true
}

// storedAtX9: the value the function stores (once) into path below addr.
func storedAtX9(addr ssa.Value, path []int, depth int) (ssa.Value, bool) {
	if depth > 8 {
		return nil, false
	}
	refs := addr.Referrers()
	if refs == nil {
		return nil, false
	}
	var whole *ssa.Store
	var sub ssa.Value
	for _, r := range *refs {
		switch y := r.(type) {
		case *ssa.Store:
			if y.Addr == addr {
				if whole != nil {
					return nil, false
				}
				whole = y
			}
		case *ssa.FieldAddr:
			if len(path) > 0 && y.Field == path[0] {
				// only the address through which the literal stores counts
				for _, rr := range *y.Referrers() {
					if s, ok := rr.(*ssa.Store); ok && s.Addr == ssa.Value(y) {
						if sub != nil && sub != ssa.Value(y) {
							return nil, false
						}
						sub = y
					}
				}
				if sub == nil && len(path) > 1 {
					sub = y
				}
			}
		}
	}
	switch {
	case whole != nil && len(path) == 0:
		return whole.Val, true
	case whole != nil:
		// a whole value stored: the field of that value
		if ld, ok := whole.Val.(*ssa.UnOp); ok && ld.Op == token.MUL {
			if l, ok := ld.X.(*ssa.Alloc); ok {
				return storedAtX9(l, path, depth+1)
			}
		}
		return nil, false
	case sub != nil:
		return storedAtX9(sub, path[1:], depth+1)
	}
	return nil, false
}

// afmTableEventsX9: the events of a formatted write whose format is put together from constants
// and fields of the current element of a literal table.
func (c *Ctx) afmTableEventsX9(call ssa.CallInstruction, f *ssa.Function, fa, va ssa.Value) ([]afmEvent, bool) {
	var ref *elemRefX9
	same := func(r elemRefX9) bool {
		if ref == nil {
			ref = &r
			return true
		}
		return ref.base == r.base && ref.idx == r.idx
	}
	// the pieces of the format
	type piece struct {
		lit  string
		path []int
		elem bool
	}
	var pieces []piece
	var split func(v ssa.Value, depth int) bool
	split = func(v ssa.Value, depth int) bool {
		if s, ok := constString(v); ok {
			pieces = append(pieces, piece{lit: s})
			return true
		}
		if b, ok := v.(*ssa.BinOp); ok && b.Op == token.ADD && depth < 6 {
			return split(b.X, depth+1) && split(b.Y, depth+1)
		}
		if r, ok := elemRefOfValueX9(v, 0); ok && same(r) {
			pieces = append(pieces, piece{path: r.path, elem: true})
			return true
		}
		return false
	}
	if !split(fa, 0) {
		return nil, false
	}
	if ref == nil {
		// a constant format: the element may still supply the operands (keyword and value both
		// read out of the current element: `write("%s %.0f", e.key, e.val)`)
		if sl, ok := va.(*ssa.Slice); ok {
			if arr, ok := sl.X.(*ssa.Alloc); ok {
				for _, r := range *arr.Referrers() {
					ia, ok := r.(*ssa.IndexAddr)
					if !ok {
						continue
					}
					for _, rr := range *ia.Referrers() {
						st, ok := rr.(*ssa.Store)
						if !ok || st.Addr != ssa.Value(ia) {
							continue
						}
						inner := st.Val
						if mi, ok := inner.(*ssa.MakeInterface); ok {
							inner = mi.X
						}
						if er, ok := elemRefOfValueX9(inner, 0); ok {
							if _, isC := constInt(er.idx); !isC {
								same(er)
							}
						}
					}
				}
			}
		}
	}
	if ref == nil {
		return nil, false
	}
	al, n, ok := literalTableX9(ref.base)
	if !ok {
		return nil, false
	}
	if _, isC := constInt(ref.idx); isC {
		return nil, false
	}
	elemAddr := func(k int64) ssa.Value {
		for _, r := range *al.Referrers() {
			if ia, ok := r.(*ssa.IndexAddr); ok {
				if i, isC := constInt(ia.Index); isC && i == k {
					return ia
				}
			}
		}
		return nil
	}
	// the operands
	var operands []ssa.Value
	switch x := va.(type) {
	case *ssa.Const:
	case *ssa.Slice:
		arr, ok := x.X.(*ssa.Alloc)
		if !ok {
			return nil, false
		}
		byIdx := map[int64]ssa.Value{}
		for _, r := range *arr.Referrers() {
			ia, ok := r.(*ssa.IndexAddr)
			if !ok {
				continue
			}
			k, isC := constInt(ia.Index)
			if !isC {
				return nil, false
			}
			for _, rr := range *ia.Referrers() {
				if st, ok := rr.(*ssa.Store); ok && st.Addr == ssa.Value(ia) {
					byIdx[k] = st.Val
				}
			}
		}
		for k := int64(0); k < int64(len(byIdx)); k++ {
			v, ok := byIdx[k]
			if !ok {
				return nil, false
			}
			operands = append(operands, v)
		}
	default:
		return nil, false
	}
	var out []afmEvent
	for k := int64(0); k < n; k++ {
		ea := elemAddr(k)
		if ea == nil {
			return nil, false
		}
		format := ""
		for _, p := range pieces {
			if !p.elem {
				format += p.lit
				continue
			}
			v, ok := storedAtX9(ea, p.path, 0)
			if !ok {
				return nil, false
			}
			s, isC := constString(v)
			if !isC {
				return nil, false
			}
			format += s
		}
		e := afmEvent{format: format, call: call, fn: f, known: true}
		verbs := afmVerbRe.FindAllStringIndex(format, -1)
		shift := 0
		for i, op := range operands {
			inner := op
			if mi, ok := inner.(*ssa.MakeInterface); ok {
				inner = mi.X
			}
			if r, ok := elemRefOfValueX9(inner, 0); ok && r.base == ref.base && r.idx == ref.idx {
				v, ok := storedAtX9(ea, r.path, 0)
				if !ok {
					return nil, false
				}
				if str, isC := constString(v); isC && len(verbs) == len(operands) && format[verbs[i][0]:verbs[i][1]] == "%s" {
					// a constant word of the element printed with %s: part of the format
					lit := strings.ReplaceAll(str, "%", "%%")
					e.format = e.format[:verbs[i][0]+shift] + lit + e.format[verbs[i][1]+shift:]
					shift += len(lit) - 2
					continue
				}
				a := c.afmOrigin(v)
				a.typ = inner.Type()
				e.args = append(e.args, a)
				continue
			}
			e.args = append(e.args, c.afmOrigin(op))
		}
		out = append(out, e)
	}
	return out, len(out) > 0
}
