package main

import (
	"fmt"
	"go/constant"
	"go/token"
	"go/types"
	"regexp"
	"sort"
	"strings"

	"golang.org/x/tools/go/ssa"
)

// Rules added in hardening round 3 (worker W2).

// ---------------------------------------------------------------------------------------------
// T1-STEMS (C06): stem hints are measured from the left side bearing point.
//
// Type 1 book §6.4: `sbx sby wx wy sbw` / `sbx wx hsbw` set the left side bearing point to
// (sbx, sby) / (sbx, 0); `y dy hstem` declares the zone y … y+dy "relative to the y coordinate
// of the left sidebearing point", `x dx vstem` the zone x … x+dx relative to its x coordinate;
// hstem3 / vstem3 declare three such zones from three operand pairs.
//
// Decided on the command-table machine (rules_c06b.go): sbw is evaluated with four symbolic
// operands; the numeric locals of the decoder that afterwards hold a function of s0 alone are
// the x component of the side bearing point, those that hold a function of s1 alone the y
// component (hsbw must leave s0 in the former and a constant in the latter).  Then each stem
// command is evaluated with symbolic operands and symbolic locals: every edge it appends to a
// stem list must be the sum of exactly one side-bearing component of the command's own
// direction and of the conversions of the operands of its pair — s(2k) for the near edge,
// s(2k) and s(2k+1) for the far edge —, each operand converted the same way.  Names, the
// spelling of the conversion, the order of the summands and where the locals live play no part.

var operandSymW2 = regexp.MustCompile(`^s[0-9]+$`)

// leafSymsW2 collects the symbols (leaves) of a value.
func leafSymsW2(v sv, into map[string]bool) {
	if v.k == svSym && len(v.args) == 0 {
		into[v.s] = true
	}
	for _, a := range v.args {
		leafSymsW2(a, into)
	}
	for _, a := range v.tup {
		leafSymsW2(a, into)
	}
}

// operandsOfW2: the indices of the operand symbols s<i> a value depends on, and whether it
// depends on any other symbol.
func operandsOfW2(v sv) (idx []int, other []string) {
	m := map[string]bool{}
	leafSymsW2(v, m)
	for s := range m {
		if operandSymW2.MatchString(s) {
			n := 0
			fmt.Sscanf(s[1:], "%d", &n)
			idx = append(idx, n)
		} else {
			other = append(other, s)
		}
	}
	sort.Ints(idx)
	sort.Strings(other)
	return
}

// summandsW2 flattens nested additions (of any width) into their summands.
func summandsW2(v sv) []sv {
	if v.k == svSym && len(v.args) > 0 && strings.HasPrefix(v.op, "+") {
		var out []sv
		for _, a := range v.args {
			out = append(out, summandsW2(a)...)
		}
		return out
	}
	return []sv{v}
}

func (c *Ctx) t1StemsW2() {
	m := c.t1Machine()
	fname := "type1.(*decodeInfo).decodeCharString"
	pos := m.fn.Pos()
	cmd := func(n string) []byte {
		code := c.constInt("type1", n)
		if code >= 0x0c00 {
			return []byte{12, byte(code & 0xff)}
		}
		return []byte{byte(code)}
	}
	// ---- the side bearing point
	role := map[string]string{} // local (by its symbol) → "x" / "y"
	o := m.run(cmd("t1sbw"), 4, 0)
	var names []string
	for n := range o.carried {
		names = append(names, n)
	}
	sort.Strings(names)
	for _, n := range names {
		v := o.carried[n]
		idx, other := operandsOfW2(v)
		if len(idx) == 1 && len(other) == 0 && idx[0] <= 1 {
			role[n] = map[int]string{0: "x", 1: "y"}[idx[0]]
		}
	}
	var xs, ys []string
	for _, n := range names {
		switch role[n] {
		case "x":
			xs = append(xs, n)
		case "y":
			ys = append(ys, n)
		}
	}
	c.check(o.back && len(xs) > 0 && len(ys) > 0, "T1-STEMS", fname, "sbw sets the left side bearing point to (s0, s1)", pos, fmt.Sprintf("x in %v, y in %v", xs, ys),
		fmt.Sprintf("after `s0 s1 s2 s3 sbw` no local of the decoder holds the side bearing point (s0, s1): x in %v, y in %v %s", xs, ys, o.why))
	if len(xs) == 0 || len(ys) == 0 {
		return
	}
	// hsbw: (s0, 0)
	{
		o := m.run(cmd("t1hsbw"), 2, 0)
		var bad []string
		for _, n := range names {
			v, has := o.carried[n]
			if !has {
				continue
			}
			idx, other := operandsOfW2(v)
			switch role[n] {
			case "x":
				if !(len(idx) == 1 && idx[0] == 0 && len(other) == 0) {
					bad = append(bad, fmt.Sprintf("the x component %s becomes %s, expected a function of s0", localNameW2(n), v))
				} else if v.String() != o0String(c, m, n) {
					bad = append(bad, fmt.Sprintf("the x component %s becomes %s, sbw makes it %s", localNameW2(n), v, o0String(c, m, n)))
				}
			case "y":
				if !(v.isConst() && (v.k == svInt && v.i == 0 || v.k == svFloat && v.f == 0)) {
					bad = append(bad, fmt.Sprintf("the y component %s becomes %s, expected 0", localNameW2(n), v))
				}
			}
		}
		c.check(o.back && len(bad) == 0, "T1-STEMS", fname, "hsbw sets the left side bearing point to (s0, 0)", pos, "x = f(s0), y = 0",
			"after `s0 s1 hsbw`: "+joinMax(bad, 2)+" "+o.why)
	}
	// ---- the four stem commands
	for _, k := range []struct {
		name  string
		dir   string
		pairs int
	}{{"t1hstem", "y", 1}, {"t1vstem", "x", 1}, {"t1hstem3", "y", 3}, {"t1vstem3", "x", 3}} {
		o := m.run(cmd(k.name), 2*k.pairs, 0)
		var bad []string
		// the edges appended to lists other than the operand stack, in order
		edges := o.appendedVals
		field := map[string]string{"y": "HStem", "x": "VStem"}[k.dir]
		nOwn := 0
		for _, ef := range o.effects {
			if ef.what != "store" || len(ef.args) != 1 {
				continue
			}
			for _, f := range []string{"HStem", "VStem"} {
				if strings.HasSuffix(ef.addr, "."+f) {
					if f == field && ef.args[0].op == "append" {
						nOwn++
					} else {
						bad = append(bad, fmt.Sprintf("%s is set to %s", f, ef.args[0]))
					}
				}
			}
		}
		if nOwn != 1 {
			bad = append(bad, fmt.Sprintf("the edges are appended to the glyph's %s %d times, expected once", field, nOwn))
		}
		if !o.back || o.why != "" {
			bad = append(bad, "not evaluable: "+o.why)
		} else if len(edges) != 2*k.pairs {
			bad = append(bad, fmt.Sprintf("%d edges are recorded (%v), expected %d", len(edges), o.appended, 2*k.pairs))
		} else {
			conv := "" // the conversion of an operand, with the operand's index abstracted
			for e, v := range edges {
				pair := e / 2
				wantOps := []int{2 * pair}
				if e%2 == 1 {
					wantOps = append(wantOps, 2*pair+1)
				}
				var gotOps []int
				nSB := 0
				okShape := true
				for _, t := range summandsW2(v) {
					idx, other := operandsOfW2(t)
					switch {
					case len(idx) == 0 && len(other) == 1 && len(t.args) == 0 && role[other[0]] != "":
						if role[other[0]] != k.dir {
							bad = append(bad, fmt.Sprintf("edge %d is measured from %s, the %s component of the side bearing point, expected the %s component", e, localNameW2(other[0]), role[other[0]], k.dir))
						}
						nSB++
					case len(idx) == 1 && len(other) == 0:
						gotOps = append(gotOps, idx[0])
						shape := strings.ReplaceAll(t.String(), fmt.Sprintf("s%d", idx[0]), "s#")
						if conv == "" {
							conv = shape
						} else if shape != conv {
							bad = append(bad, fmt.Sprintf("edge %d takes operand %d as %s, another operand as %s", e, idx[0], t, conv))
						}
					default:
						okShape = false
					}
				}
				sort.Ints(gotOps)
				if !okShape || nSB != 1 || fmt.Sprint(gotOps) != fmt.Sprint(wantOps) {
					bad = append(bad, fmt.Sprintf("edge %d is %s, expected side bearing %s + operands %v", e, v, k.dir, wantOps))
				}
			}
		}
		c.check(len(bad) == 0, "T1-STEMS", fname, fmt.Sprintf("%s: %d zone(s) sb%s + s(2k) … + s(2k+1), relative to the left side bearing point", strings.TrimPrefix(k.name, "t1"), k.pairs, k.dir), pos, fmt.Sprintf("%d symbolic operands", 2*k.pairs),
			strings.TrimPrefix(k.name, "t1")+": "+joinMax(bad, 2))
	}
	c.floor("T1-STEMS", 6)
}

// o0String: what sbw leaves in the local n (its x component), with the same operand symbol s0.
func o0String(c *Ctx, m *t1Machine, n string) string {
	code := c.constInt("type1", "t1sbw")
	o := m.run([]byte{12, byte(code & 0xff)}, 4, 0)
	return o.carried[n].String()
}

// ---------------------------------------------------------------------------------------------
// T1-DEFAULTS, codes of absent glyphs (C06): the encoding vector that Read returns names only
// glyphs of the font — a code whose glyph is absent is mapped to ".notdef".
//
// Decided on the SSA form of Read and of the module functions it calls (so the loop may live in
// Read or in a helper that is handed the slice and the map): some store writes the constant
// ".notdef" to element i of a []string which is (by value sources, parameters followed to the
// arguments of their calls) the slice stored in Font.Encoding, and the store happens exactly
// under the condition that a look-up of that same element i in the map stored in Font.Glyphs
// finds nothing.
func (c *Ctx) notdefMappingW2(read *ssa.Function) (bool, string) {
	fontT := c.typeObj("type1", "Font")
	var encVals, glyphVals []ssa.Value
	eachInstr(read, func(ins ssa.Instruction) {
		if st, ok := ins.(*ssa.Store); ok {
			if isFieldAddr(st.Addr, fontT, "Encoding") {
				encVals = append(encVals, st.Val)
			}
			if isFieldAddr(st.Addr, fontT, "Glyphs") {
				glyphVals = append(glyphVals, st.Val)
			}
		}
	})
	if len(encVals) == 0 || len(glyphVals) == 0 {
		return false, "Read does not fill Font.Encoding and Font.Glyphs"
	}
	leaves := func(vs []ssa.Value) map[ssa.Value]bool {
		out := map[ssa.Value]bool{}
		for _, v := range vs {
			for _, l := range c.valueSourcesB(v) {
				if k, isC := l.v.(*ssa.Const); isC && k.IsNil() {
					continue
				}
				out[l.v] = true
			}
		}
		return out
	}
	shares := func(a, b map[ssa.Value]bool) bool {
		for v := range a {
			if b[v] {
				return true
			}
		}
		return false
	}
	encL, glyphL := leaves(encVals), leaves(glyphVals)
	why := "no store of \".notdef\" into an element of the encoding vector"
	found := false
	for f := range c.reachFuncs(read, 4) {
		eachInstr(f, func(ins ssa.Instruction) {
			st, ok := ins.(*ssa.Store)
			if !ok || found {
				return
			}
			k, isC := st.Val.(*ssa.Const)
			if !isC || k.Value == nil || k.Value.Kind() != constant.String || constant.StringVal(k.Value) != ".notdef" {
				return
			}
			ia, ok := st.Addr.(*ssa.IndexAddr)
			if !ok {
				return
			}
			if !shares(leaves([]ssa.Value{ia.X}), encL) {
				why = "\".notdef\" is stored into a slice that is not the one returned as Font.Encoding"
				return
			}
			// the governing condition: element i is not a key of the glyph map
			for _, cd := range domConds(st.Block()) {
				v, truth := cd.v, cd.truth
				if u, ok := v.(*ssa.UnOp); ok && u.Op == token.NOT {
					v, truth = u.X, !truth
				}
				ex, ok := v.(*ssa.Extract)
				if !ok || ex.Index != 1 || truth {
					continue
				}
				lk, ok := ex.Tuple.(*ssa.Lookup)
				if !ok || !lk.CommaOk {
					continue
				}
				if !shares(leaves([]ssa.Value{lk.X}), glyphL) {
					why = "the look-up that governs the store is not in the map returned as Font.Glyphs"
					continue
				}
				ld, ok := origin(lk.Index).(*ssa.UnOp)
				if !ok || ld.Op != token.MUL {
					why = "the name looked up is not the encoding entry that is replaced"
					continue
				}
				ka, ok := ld.X.(*ssa.IndexAddr)
				if !ok || !sameValue(ka.X, ia.X) || !sameValue(ka.Index, ia.Index) {
					why = "the name looked up is not the encoding entry that is replaced"
					continue
				}
				found = true
			}
		})
	}
	if found {
		return true, ""
	}
	return false, why
}

// ---------------------------------------------------------------------------------------------
// structValueW2 (evaluator, arrays mode): the value of a struct whose fields are modelled cells
// addr.f — field names and values in declaration order (as the load of a struct cell delivers
// it), so that an array of such structs can be loaded, indexed and copied as a value: a table of
// (label, destination pointer) pairs ranged over is then the same thing as the statements it
// replaces.  ok only if every field has a known value.
func (e *ssaEval) structValueW2(addr string, t types.Type) (sv, bool) {
	stt, ok := t.Underlying().(*types.Struct)
	if !ok || stt.NumFields() == 0 {
		return sv{}, false
	}
	pos := e.structFieldsG(addr, t)
	if len(pos) != stt.NumFields() {
		return sv{}, false
	}
	st := sv{k: svStruct}
	var p []string
	for i := 0; i < stt.NumFields(); i++ {
		if !pos[i].known() {
			return sv{}, false
		}
		st.args, st.tup = append(st.args, sv{k: svString, s: stt.Field(i).Name()}), append(st.tup, pos[i])
		p = append(p, stt.Field(i).Name()+":"+e.render(pos[i]))
	}
	sort.Strings(p)
	st.s = "{" + strings.Join(p, ",") + "}"
	return st, true
}

// localNameW2: the name of a decoder local as it is shown in a report (the symbol is v:<name> for
// a variable, *cellN.<field> for a field of a struct-typed local).
func localNameW2(sym string) string {
	if i := strings.LastIndex(sym, "."); strings.HasPrefix(sym, "*cell") && i > 0 {
		return "field " + sym[i+1:]
	}
	return strings.TrimPrefix(sym, "v:")
}
