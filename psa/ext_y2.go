package main

import (
	"go/ast"
	"go/token"
	"go/types"
	"strings"

	"golang.org/x/tools/go/ssa"
	"golang.org/x/tools/go/ssa/ssautil"
)

// ---------------------------------------------------------------- visited sets (RECURSE)

// visitedSetPlace: where a recursive function keeps the set of the objects it has visited, and
// the parameter through which the set travels to the next level.
type visitedSetPlace struct {
	pi    int
	p     *ssa.Parameter
	isSet func(v ssa.Value) bool
}

// isSetType: map[K]bool or map[K]struct{…}.
func isSetTypeY2(t types.Type) bool {
	mt, ok := t.Underlying().(*types.Map)
	if !ok {
		return false
	}
	if b, ok := mt.Elem().Underlying().(*types.Basic); ok && b.Kind() == types.Bool {
		return true
	}
	_, isStruct := mt.Elem().Underlying().(*types.Struct)
	return isStruct
}

// visitedSetPlacesY2: the places of f that can hold a visited set which the next level of a
// recursion shares with this one:
//
//   - a parameter of map type (the set is threaded through the calls), or
//   - a map-typed field of a struct to which a parameter (usually the receiver) points, provided
//     nothing in the program assigns that field of an existing object: the only stores are those
//     that initialise a fresh object, so all levels that receive the same pointer see one set.
//
// In neither case may f remove keys from the set.
func visitedSetPlacesY2(f *ssa.Function) []visitedSetPlace {
	var out []visitedSetPlace
	for pi, p := range f.Params {
		pi, p := pi, p
		if isSetTypeY2(p.Type()) {
			isSet := func(v ssa.Value) bool { return origin(v) == ssa.Value(p) }
			if !removesKeysY2(f, isSet) {
				out = append(out, visitedSetPlace{pi, p, isSet})
			}
			continue
		}
		pt, ok := p.Type().Underlying().(*types.Pointer)
		if !ok {
			continue
		}
		st, ok := pt.Elem().Underlying().(*types.Struct)
		if !ok {
			continue
		}
		for fi := 0; fi < st.NumFields(); fi++ {
			fi := fi
			if !isSetTypeY2(st.Field(fi).Type()) {
				continue
			}
			if fieldReassignedY2(f.Prog, pt.Elem(), fi) {
				continue
			}
			isSet := func(v ssa.Value) bool {
				u, ok := origin(v).(*ssa.UnOp)
				if !ok || u.Op != token.MUL {
					return false
				}
				fa, ok := u.X.(*ssa.FieldAddr)
				return ok && fa.Field == fi && origin(fa.X) == ssa.Value(p)
			}
			if !removesKeysY2(f, isSet) {
				out = append(out, visitedSetPlace{pi, p, isSet})
			}
		}
	}
	return out
}

// removesKeysY2: f calls delete or clear on the set.
func removesKeysY2(f *ssa.Function, isSet func(ssa.Value) bool) bool {
	found := false
	eachInstr(f, func(ins ssa.Instruction) {
		call, ok := ins.(ssa.CallInstruction)
		if !ok {
			return
		}
		b, ok := call.Common().Value.(*ssa.Builtin)
		if !ok || (b.Name() != "delete" && b.Name() != "clear") {
			return
		}
		if len(call.Common().Args) > 0 && isSet(call.Common().Args[0]) {
			found = true
		}
	})
	return found
}

var fieldReassignedCacheY2 = map[*ssa.Program]map[[2]any]bool{}

// fieldReassignedY2: somewhere in the program field fi of an existing object of struct type t is
// assigned — a store to the field (or to the whole struct) through anything but the address of an
// object allocated in the same function — or the address of the field is taken for another use
// than loading from it.
func fieldReassignedY2(prog *ssa.Program, t types.Type, fi int) bool {
	byKey := fieldReassignedCacheY2[prog]
	if byKey == nil {
		byKey = map[[2]any]bool{}
		fieldReassignedCacheY2[prog] = byKey
	}
	key := [2]any{t, fi}
	if r, ok := byKey[key]; ok {
		return r
	}
	res := false
	for fn := range ssautil.AllFunctions(prog) {
		for _, b := range fn.Blocks {
			for _, ins := range b.Instrs {
				switch x := ins.(type) {
				case *ssa.FieldAddr:
					pt, ok := x.X.Type().Underlying().(*types.Pointer)
					if !ok || x.Field != fi || !types.Identical(pt.Elem(), t) {
						continue
					}
					_, fresh := x.X.(*ssa.Alloc)
					for _, r := range *x.Referrers() {
						switch r := r.(type) {
						case *ssa.UnOp, *ssa.DebugRef:
						case *ssa.Store:
							if r.Addr != ssa.Value(x) || !fresh {
								res = true
							}
						default:
							res = true
						}
					}
				case *ssa.Store:
					pt, ok := x.Addr.Type().Underlying().(*types.Pointer)
					if !ok || !types.Identical(pt.Elem(), t) {
						continue
					}
					if _, fresh := x.Addr.(*ssa.Alloc); !fresh {
						res = true
					}
				}
			}
		}
	}
	byKey[key] = res
	return res
}

// ---------------------------------------------------------------- nil tests made in another function (PANIC-NILDEREF)

// nilGuardInterprocY2: the pointer ptr — a load of field f of the object base — is dereferenced at
// ins in fn without a nil test in fn itself.  The test may have been made on the other side of a
// call:
//
//	(post) ins is only reached when a call g(…, base, …) has returned a nil error, and g returns a
//	       nil error only behind its own test `base.f != nil` (every other return of g yields an
//	       error that is not nil), and g and what it calls do not assign the field;
//	(pre)  base is a parameter of fn, fn is not part of the API, every call of fn (call graph:
//	       direct calls and calls of the function value) is dominated by the test `a.f != nil`
//	       for its argument a, the caller does not assign the field, and in fn nothing that can
//	       run before ins assigns it.
func (c *Ctx) nilGuardInterprocY2(fn *ssa.Function, ins ssa.Instruction, ptr ssa.Value) (string, bool) {
	u, ok := ptr.(*ssa.UnOp)
	if !ok || u.Op != token.MUL {
		return "", false
	}
	fa, ok := u.X.(*ssa.FieldAddr)
	if !ok {
		return "", false
	}
	base, fvar, _ := fieldAddrOf(fa)
	key := fieldName(fa)
	nilTested := func(conds []cond, obj ssa.Value) bool {
		for _, cd := range conds {
			m, ok := asCmp(cd)
			if !ok || m.op != token.NEQ {
				continue
			}
			x := m.x
			if isNilConst(m.x) {
				x = m.y
			} else if !isNilConst(m.y) {
				continue
			}
			if b2, f2, ok := fieldOf(origin(x)); ok && f2 == fvar && sameValue(b2, obj) {
				return true
			}
		}
		return false
	}
	assigns := func(g *ssa.Function, except func(ssa.Instruction) bool) bool {
		found := false
		eachInstr(g, func(i2 ssa.Instruction) {
			if except != nil && except(i2) {
				return
			}
			switch x := i2.(type) {
			case *ssa.Store:
				if _, f2, ok := fieldAddrOf(x.Addr); ok && f2 == fvar {
					found = true
				}
			case ssa.CallInstruction:
				if sc := x.Common().StaticCallee(); sc != nil && (modSet[sc][key] || modSet[sc]["*"]) {
					found = true
				}
			}
		})
		return found
	}
	// (post)
	for _, cd := range domConds(ins.Block()) {
		m, ok := asCmp(cd)
		if !ok || m.op != token.EQL {
			continue
		}
		e := m.x
		if isNilConst(m.x) {
			e = m.y
		} else if !isNilConst(m.y) {
			continue
		}
		var call *ssa.Call
		k := 0
		switch x := origin(e).(type) {
		case *ssa.Call:
			call = x
		case *ssa.Extract:
			call, _ = x.Tuple.(*ssa.Call)
			k = x.Index
		}
		if call == nil || call.Call.IsInvoke() {
			continue
		}
		g := call.Call.StaticCallee()
		if g == nil || !c.inModule(g) || len(g.Blocks) == 0 || len(call.Call.Args) != len(g.Params) {
			continue
		}
		for i, a := range call.Call.Args {
			if !sameValue(a, base) {
				continue
			}
			q := g.Params[i]
			good, n := true, 0
			for _, r := range returns(g) {
				n++
				if k >= len(r.Results) {
					good = false
					break
				}
				if nilTested(domConds(r.Block()), q) {
					continue
				}
				if !c.nonNilIfaceX3(r.Results[k], 0) && !c.knownNonNilError(r.Results[k], r.Block()) {
					good = false
				}
			}
			if good && n > 0 && !assigns(g, nil) {
				return "reached only after " + g.Name() + " returned a nil error, which it does only behind its own nil test of the field", true
			}
		}
	}
	// (pre)
	p, ok := base.(*ssa.Parameter)
	if !ok || p.Parent() != fn {
		return "", false
	}
	if fn.Parent() == nil && (fn.Object() == nil || fn.Object().Exported()) {
		return "", false
	}
	pi := -1
	for i, q := range fn.Params {
		if q == p {
			pi = i
		}
	}
	node := c.callgraph().Nodes[fn]
	if pi < 0 || node == nil || len(node.In) == 0 {
		return "", false
	}
	if assigns(fn, func(i2 ssa.Instruction) bool { return i2 != ins && dominatesInstr(ins, i2) }) {
		return "", false
	}
	for _, e := range node.In {
		if e.Site == nil {
			return "", false
		}
		com := e.Site.Common()
		if com.IsInvoke() || len(com.Args) != len(fn.Params) {
			return "", false
		}
		if _, isCall := e.Site.(*ssa.Call); !isCall {
			return "", false
		}
		if !nilTested(domConds(e.Site.Block()), com.Args[pi]) || assigns(e.Caller.Func, nil) {
			return "", false
		}
	}
	return "every call of the function is dominated by the caller's nil test of the field of the same object", true
}

// ---------------------------------------------------------------- a map selected under a flag (PANIC-NILMAP)

// flagGuardedPhiY2: the map p (a φ) is used at `at` only when a boolean flag f — a φ of the same
// block — is true, and flag and map are assigned together: on every edge into the block either the
// flag is false, or the map is not nil, or both come unchanged from a pair for which the same holds
// (`found, best = true, d` in a search loop that starts with `found = false` and a nil map,
// followed by `if !found { return }`).
func (c *Ctx) flagGuardedPhiY2(p *ssa.Phi, at ssa.Instruction, seen map[ssa.Value]bool) bool {
	if at == nil || at.Block() == nil {
		return false
	}
	for _, cd := range domConds(at.Block()) {
		v, truth := cd.v, cd.truth
		for {
			if u, ok := v.(*ssa.UnOp); ok && u.Op == token.NOT {
				v, truth = u.X, !truth
				continue
			}
			break
		}
		f, ok := v.(*ssa.Phi)
		if !ok || !truth || f.Block() != p.Block() {
			continue
		}
		if c.flagPairInvY2(p, f, at, seen, map[[2]*ssa.Phi]bool{}) {
			return true
		}
	}
	return false
}

// flagPairInvY2: "f is true ⇒ p is not nil" holds for the pair of φs (p, f) of one block.
func (c *Ctx) flagPairInvY2(p, f *ssa.Phi, at ssa.Instruction, seen map[ssa.Value]bool, pairs map[[2]*ssa.Phi]bool) bool {
	if pairs[[2]*ssa.Phi{p, f}] {
		return true
	}
	pairs[[2]*ssa.Phi{p, f}] = true
	if p.Block() != f.Block() || len(p.Edges) != len(f.Edges) {
		return false
	}
	for i, e := range p.Edges {
		fe := f.Edges[i]
		if b, isC := constBool(fe); isC && !b {
			continue
		}
		if pp, ok := e.(*ssa.Phi); ok {
			if fp, ok := fe.(*ssa.Phi); ok && c.flagPairInvY2(pp, fp, at, seen, pairs) {
				continue
			}
		}
		if _, isPhi := e.(*ssa.Phi); !isPhi && !isNilConst(e) && c.mapNonNilOnEdgeY2(p, i, at, seen) {
			continue
		}
		return false
	}
	return true
}

// ---------------------------------------------------------------- a type established for every element of a list of keys (PANIC-ASSERT)
//
// `for k, v := range M { if _, ok := v.(T); ok { S = append(S, k) } } … M[elem of S].(T)`: when
// every element the slice S ever receives is a key of M that was appended behind a successful
// `, ok` assertion of M's entry for that key to T, the key used is an element of S (S[i], or the
// result of a library function that returns one of the elements: slices.Min / slices.Max), and
// neither M nor S can have been written since the collecting loop began, then the assertion
// repeats one that succeeded on the same value.  "Sort the keys and return at the first T",
// "collect the keys with a T and take the smallest" are the same program.

var pureOnSliceY2 = map[string]bool{
	"slices.Min": true, "slices.Max": true, "slices.Sort": true, "slices.SortFunc": true, "slices.SortStableFunc": true,
	"slices.Contains": true, "slices.Index": true, "slices.IndexFunc": true, "slices.BinarySearch": true, "slices.Reverse": true,
	"sort.Strings": true, "slices.IsSorted": true,
}

var pureCallY2 = map[string]bool{"fmt.Errorf": true, "errors.New": true, "fmt.Sprintf": true}

func staticNameY2(call ssa.CallInstruction) string {
	if call.Common().IsInvoke() {
		return ""
	}
	sc := call.Common().StaticCallee()
	if sc == nil {
		return ""
	}
	return calleeName(sc)
}

func (c *Ctx) assertByFilteredKeysY2(x *ssa.TypeAssert) bool {
	lk, ok := origin(x.X).(*ssa.Lookup)
	if !ok || lk.CommaOk {
		return false
	}
	if _, isMap := lk.X.Type().Underlying().(*types.Map); !isMap {
		return false
	}
	fn := x.Parent()
	// the key is an element of S
	var S ssa.Value
	switch k := origin(lk.Index).(type) {
	case *ssa.Call:
		if n := staticNameY2(k); (n == "slices.Min" || n == "slices.Max") && len(k.Call.Args) == 1 {
			S = k.Call.Args[0]
		}
	case *ssa.UnOp:
		if ia, ok := k.X.(*ssa.IndexAddr); ok && k.Op == token.MUL {
			S = ia.X
		}
	case *ssa.Index:
		S = k.X
	}
	if S == nil {
		return false
	}
	if _, isSlice := S.Type().Underlying().(*types.Slice); !isSlice {
		return false
	}
	// everything S can hold
	web := map[ssa.Value]bool{}
	type appended struct {
		val ssa.Value
		at  *ssa.Call
	}
	var elems []appended
	var walk func(v ssa.Value) bool
	walk = func(v ssa.Value) bool {
		if web[v] {
			return true
		}
		web[v] = true
		switch y := v.(type) {
		case *ssa.Const:
			return y.IsNil()
		case *ssa.Phi:
			for _, e := range y.Edges {
				if !walk(e) {
					return false
				}
			}
			return true
		case *ssa.Slice:
			return walk(y.X)
		case *ssa.MakeSlice:
			n, isC := constInt(y.Len)
			return isC && n == 0
		case *ssa.Call:
			b, isB := y.Call.Value.(*ssa.Builtin)
			if !isB || b.Name() != "append" || len(y.Call.Args) != 2 {
				return false
			}
			if !walk(y.Call.Args[0]) {
				return false
			}
			if isNilConst(y.Call.Args[1]) {
				return true
			}
			sl, ok := y.Call.Args[1].(*ssa.Slice)
			if !ok {
				return false
			}
			al, ok := sl.X.(*ssa.Alloc)
			if !ok {
				return false
			}
			if _, isArr := al.Type().Underlying().(*types.Pointer).Elem().Underlying().(*types.Array); !isArr {
				return false
			}
			for _, r := range *al.Referrers() {
				switch r := r.(type) {
				case *ssa.Slice:
					if r != sl {
						return false
					}
				case *ssa.IndexAddr:
					for _, rr := range *r.Referrers() {
						st, ok := rr.(*ssa.Store)
						if !ok || st.Addr != ssa.Value(r) {
							return false
						}
						elems = append(elems, appended{st.Val, y})
					}
				case *ssa.DebugRef:
				default:
					return false
				}
			}
			return true
		}
		return false
	}
	if !walk(S) || len(elems) == 0 {
		return false
	}
	// the slice is only read, grown by append, or permuted by the library
	for v := range web {
		refs := v.Referrers()
		if refs == nil {
			continue
		}
		for _, r := range *refs {
			switch r := r.(type) {
			case *ssa.Phi:
				if !web[r] {
					return false
				}
			case *ssa.Slice:
				if !web[r] {
					return false
				}
			case *ssa.IndexAddr:
				for _, rr := range *r.Referrers() {
					if u, ok := rr.(*ssa.UnOp); ok && u.Op == token.MUL {
						continue
					}
					if _, ok := rr.(*ssa.DebugRef); ok {
						continue
					}
					return false
				}
			case *ssa.Index, *ssa.DebugRef:
			case *ssa.Call:
				if b, isB := r.Call.Value.(*ssa.Builtin); isB {
					switch b.Name() {
					case "len", "cap":
						continue
					case "append":
						if len(r.Call.Args) == 2 && r.Call.Args[1] != v {
							continue
						}
					}
					return false
				}
				if !pureOnSliceY2[staticNameY2(r)] {
					return false
				}
			default:
				return false
			}
		}
	}
	// every element is a key of the same map, appended behind the successful assertion of its entry
	var rg *ssa.Range
	for _, e := range elems {
		ex, ok := origin(e.val).(*ssa.Extract)
		if !ok || ex.Index != 1 {
			return false
		}
		nx, ok := ex.Tuple.(*ssa.Next)
		if !ok || nx.IsString {
			return false
		}
		r, ok := nx.Iter.(*ssa.Range)
		if !ok || !sameValue(r.X, lk.X) || (rg != nil && rg != r) {
			return false
		}
		rg = r
		established := false
		for _, cd := range domConds(e.at.Block()) {
			okv, isEx := cd.v.(*ssa.Extract)
			if !cd.truth || !isEx || okv.Index != 1 {
				continue
			}
			ta, ok := okv.Tuple.(*ssa.TypeAssert)
			if !ok || !ta.CommaOk || !types.Identical(ta.AssertedType, x.AssertedType) {
				continue
			}
			switch src := origin(ta.X).(type) {
			case *ssa.Extract:
				if src.Tuple == ssa.Value(nx) && src.Index == 2 {
					established = true
				}
			case *ssa.Lookup:
				if !src.CommaOk && sameValue(src.X, lk.X) && sameValue(src.Index, e.val) {
					established = true
				}
			}
		}
		if !established {
			return false
		}
	}
	if rg == nil || rg.Parent() != fn || !dominatesInstr(rg, x) {
		return false
	}
	// between the start of the collecting loop and the assertion nothing writes to a map, to memory
	// that is not a fresh local object, or calls code that could
	fwd := map[*ssa.BasicBlock]bool{}
	var f func(*ssa.BasicBlock)
	f = func(b *ssa.BasicBlock) {
		for _, s := range b.Succs {
			if !fwd[s] {
				fwd[s] = true
				f(s)
			}
		}
	}
	f(rg.Block())
	bwd := map[*ssa.BasicBlock]bool{}
	var g func(*ssa.BasicBlock)
	g = func(b *ssa.BasicBlock) {
		for _, p := range b.Preds {
			if !bwd[p] {
				bwd[p] = true
				g(p)
			}
		}
	}
	g(x.Block())
	harmless := func(ins ssa.Instruction) bool {
		switch y := ins.(type) {
		case *ssa.MapUpdate, *ssa.Defer, *ssa.Go, *ssa.Send, *ssa.RunDefers:
			return false
		case *ssa.Store:
			a := y.Addr
			for {
				switch z := a.(type) {
				case *ssa.IndexAddr:
					a = z.X
					continue
				case *ssa.FieldAddr:
					a = z.X
					continue
				}
				break
			}
			_, fresh := a.(*ssa.Alloc)
			return fresh
		case *ssa.Call:
			if b, isB := y.Call.Value.(*ssa.Builtin); isB {
				return b.Name() != "delete" && b.Name() != "clear" && b.Name() != "copy"
			}
			n := staticNameY2(y)
			return pureOnSliceY2[n] || pureCallY2[n]
		}
		return true
	}
	for _, b := range fn.Blocks {
		lo, hi := 0, len(b.Instrs)
		switch {
		case fwd[b] && bwd[b]:
		case b == rg.Block() && b == x.Block():
			lo, hi = instrIndex(rg)+1, instrIndex(x)
		case b == rg.Block():
			lo = instrIndex(rg) + 1
		case b == x.Block():
			hi = instrIndex(x)
		default:
			continue
		}
		for _, ins := range b.Instrs[lo:hi] {
			if !harmless(ins) {
				return false
			}
		}
	}
	return true
}

// ---------------------------------------------------------------- evaluator: a struct parameter spilled into a local

// symFieldLoadY2: the address names a field (of a field …) of a cell into which a symbolic struct
// value was stored as a whole (`func(a, b pair) int { … a.rank … }`: go/ssa spills the parameter
// into a local and reads the field through its address).  The load yields the same symbol as the
// selection of the field from the value itself.
func (e *ssaEval) symFieldLoadY2(addr string) (sv, bool) {
	for i := len(addr) - 1; i > 0; i-- {
		if addr[i] != '.' {
			continue
		}
		if strings.ContainsAny(addr[i+1:], "[]:") {
			return sv{}, false
		}
		if v, ok := e.mem[addr[:i]]; ok {
			if v.k == svSym && v.s != "" {
				return symV(v.s + addr[i:]), true
			}
			return sv{}, false
		}
	}
	return sv{}, false
}

// ---------------------------------------------------------------- C17 DET-COLLECT: library functions of the multiset of the elements

// symmetricLibCallY2: the call hands the slice, as argument k, to a library function whose result
// is determined by the multiset of the elements, whatever their order: slices.Min / slices.Max over
// integers or strings (elements that compare equal are identical, so it does not matter which of
// them is returned; not so for floating point: NaN, ±0) and slices.Contains.
func (d *detAnalyzer) symmetricLibCallY2(f *types.Func, call *ast.CallExpr, k int) bool {
	if f == nil || f.Pkg() == nil || f.Pkg().Path() != "slices" || k != 0 || call.Ellipsis.IsValid() {
		return false
	}
	sl, ok := d.info.TypeOf(call.Args[0]).Underlying().(*types.Slice)
	if !ok {
		return false
	}
	switch f.Name() {
	case "Min", "Max":
		if len(call.Args) != 1 {
			return false
		}
		b, ok := sl.Elem().Underlying().(*types.Basic)
		return ok && b.Info()&(types.IsInteger|types.IsString) != 0
	case "Contains":
		if len(call.Args) != 2 {
			return false
		}
		b, ok := sl.Elem().Underlying().(*types.Basic)
		return ok && b.Info()&(types.IsInteger|types.IsString|types.IsBoolean) != 0
	}
	return false
}

// scopeEndsWithListY2: the variable is declared in the block whose statements are list, so no
// statement outside the list can mention it.
func (d *detAnalyzer) scopeEndsWithListY2(list []ast.Stmt, obj types.Object) bool {
	if len(list) == 0 || obj == nil || obj.Parent() == nil || d.pkg == nil || d.pkg.Types == nil {
		return false
	}
	if _, isVar := obj.(*types.Var); !isVar || obj.Parent() == d.pkg.Types.Scope() {
		return false
	}
	inner := d.pkg.Types.Scope().Innermost(list[len(list)-1].End())
	return inner != nil && inner == obj.Parent()
}

// ---------------------------------------------------------------- C17 DET-MAPRANGE: the entry with the smallest key
//
//	if !found || k < best { found, best, payload… = true, k, f(entry)… }
//
// inside a loop over a map whose keys are integers or strings: the keys of a map are pairwise
// different and totally ordered, so whichever order the entries arrive in, after the loop `best`
// is the smallest (largest, for `>`) of the keys that reach the statement and the payload is the
// one computed from that entry.  Conditions: the flag, the best key and the payload variables are
// local variables of the function that occur nowhere else in the loop body; the flag receives the
// constant true, the best key receives the loop key, every payload receives an expression over the
// variables of the iteration only, without calls.

// rangeStmtOfY2 finds the range statement whose body b classifies.
func (b *bodyClass) rangeStmtOfY2() *ast.RangeStmt {
	var found *ast.RangeStmt
	if b.d.pkg == nil {
		return nil
	}
	for _, file := range b.d.pkg.Syntax {
		if file.Pos() > b.bodyPos || file.End() < b.bodyEnd {
			continue
		}
		ast.Inspect(file, func(n ast.Node) bool {
			if n == nil || found != nil || n.Pos() > b.bodyPos || n.End() < b.bodyEnd {
				return false
			}
			if rs, ok := n.(*ast.RangeStmt); ok && rs.Body.Pos() == b.bodyPos {
				found = rs
				return false
			}
			return true
		})
	}
	return found
}

func (b *bodyClass) argMinIdiomY2(s *ast.IfStmt) bool {
	d := b.d
	if s.Init != nil || s.Else != nil || b.key == nil || b.posVar != nil {
		return false
	}
	kb, ok := b.key.Type().Underlying().(*types.Basic)
	if !ok || kb.Info()&(types.IsInteger|types.IsString) == 0 {
		return false
	}
	rs := b.rangeStmtOfY2()
	if rs == nil || !d.isMap(rs.X) {
		return false
	}
	if id, ok := rs.Key.(*ast.Ident); !ok || d.info.ObjectOf(id) != b.key {
		return false
	}
	outerLocal := func(e ast.Expr) types.Object {
		id, ok := unparen(e).(*ast.Ident)
		if !ok {
			return nil
		}
		v, ok := d.info.ObjectOf(id).(*types.Var)
		if !ok || v.IsField() || v.Pkg() == nil || v.Parent() == v.Pkg().Scope() || b.local(v) || v == b.key || v == b.val {
			return nil
		}
		return v
	}
	isKey := func(e ast.Expr) bool {
		id, ok := unparen(e).(*ast.Ident)
		return ok && d.info.ObjectOf(id) == b.key
	}
	// the condition: !F || k < K
	or, ok := unparen(s.Cond).(*ast.BinaryExpr)
	if !ok || or.Op != token.LOR {
		return false
	}
	var flag, best types.Object
	for _, side := range []ast.Expr{or.X, or.Y} {
		switch x := unparen(side).(type) {
		case *ast.UnaryExpr:
			if x.Op == token.NOT && flag == nil {
				flag = outerLocal(x.X)
			}
		case *ast.BinaryExpr:
			if (x.Op == token.LSS || x.Op == token.GTR) && best == nil {
				switch {
				case isKey(x.X):
					best = outerLocal(x.Y)
				case isKey(x.Y):
					best = outerLocal(x.X)
				}
			}
		}
	}
	if flag == nil || best == nil || flag == best {
		return false
	}
	if fb, ok := flag.Type().Underlying().(*types.Basic); !ok || fb.Info()&types.IsBoolean == 0 {
		return false
	}
	if !types.Identical(best.Type(), b.key.Type()) {
		return false
	}
	// the body: assignments only
	targets := map[types.Object]ast.Expr{}
	for _, st := range s.Body.List {
		as, ok := st.(*ast.AssignStmt)
		if !ok || as.Tok != token.ASSIGN || len(as.Lhs) != len(as.Rhs) {
			return false
		}
		for i, l := range as.Lhs {
			t := outerLocal(l)
			if t == nil || targets[t] != nil {
				return false
			}
			targets[t] = as.Rhs[i]
		}
	}
	if v, ok := constOf(d.info, targets[flag]); targets[flag] == nil || !ok || v.String() != "true" {
		return false
	}
	if targets[best] == nil || !isKey(targets[best]) {
		return false
	}
	for t, rhs := range targets {
		if t == flag || t == best {
			continue
		}
		pure := true
		ast.Inspect(rhs, func(n ast.Node) bool {
			switch n := n.(type) {
			case *ast.CallExpr:
				if tv, ok := d.info.Types[n.Fun]; !ok || !tv.IsType() {
					pure = false
				}
			case *ast.FuncLit, *ast.UnaryExpr:
				if u, ok := n.(*ast.UnaryExpr); !ok || u.Op == token.AND || u.Op == token.ARROW {
					pure = false
				}
			case *ast.Ident:
				if v, ok := d.info.ObjectOf(n).(*types.Var); ok && !v.IsField() {
					if !(b.local(v) || v == b.key || v == b.val) {
						pure = false
					}
				}
			}
			return pure
		})
		if !pure {
			return false
		}
	}
	// nothing else in the loop body mentions the variables
	elsewhere := false
	ast.Inspect(rs.Body, func(n ast.Node) bool {
		if n == ast.Node(s) {
			return false
		}
		if id, ok := n.(*ast.Ident); ok {
			if o := d.info.ObjectOf(id); o != nil && targets[o] != nil {
				elsewhere = true
			}
		}
		return !elsewhere
	})
	if elsewhere {
		return false
	}
	// inside the statement: the condition reads flag and best once each, the body only assigns
	n := 0
	ast.Inspect(s.Cond, func(m ast.Node) bool {
		if id, ok := m.(*ast.Ident); ok {
			if o := d.info.ObjectOf(id); o != nil && targets[o] != nil {
				n++
				if o != flag && o != best {
					n += 10
				}
			}
		}
		return true
	})
	if n != 2 {
		return false
	}
	b.kinds = append(b.kinds, "entry with the smallest/largest of the distinct keys")
	return true
}

// edgeEndY2: the place at which the i-th operand of the φ is used — the end of the i-th
// predecessor block: what dominates that block holds when the value flows in.
func edgeEndY2(p *ssa.Phi, i int, at ssa.Instruction) ssa.Instruction {
	if b := p.Block(); b != nil && i < len(b.Preds) && len(b.Preds[i].Instrs) > 0 {
		return b.Preds[i].Instrs[len(b.Preds[i].Instrs)-1]
	}
	return at
}

// mapNonNilOnEdgeY2: the i-th operand of the φ is not nil, shown either with what holds at the use
// of the φ or with what holds where the operand flows in.  (Each attempt works on its own copy of
// the set that cuts cycles: a failed attempt must not count as a visit.)
func (c *Ctx) mapNonNilOnEdgeY2(p *ssa.Phi, i int, at ssa.Instruction, seen map[ssa.Value]bool) bool {
	clone := func() map[ssa.Value]bool {
		m := make(map[ssa.Value]bool, len(seen)+4)
		for k, v := range seen {
			m[k] = v
		}
		return m
	}
	if c.mapNonNil(p.Edges[i], at, clone()) {
		return true
	}
	if end := edgeEndY2(p, i, at); end != at {
		return c.mapNonNil(p.Edges[i], end, clone())
	}
	return false
}

// okPairedDictY2: m and flag are the two results of one `, ok` assertion to Dict: when the flag is
// true the value is a Dict that was boxed, hence not nil (boxed-Dict invariant).
func (c *Ctx) okPairedDictY2(m, flag ssa.Value) bool {
	if m == nil || flag == nil {
		return false
	}
	em, ok1 := origin(m).(*ssa.Extract)
	ef, ok2 := origin(flag).(*ssa.Extract)
	if !ok1 || !ok2 || em.Tuple != ef.Tuple || em.Index != 0 || ef.Index != 1 {
		return false
	}
	ta, ok := em.Tuple.(*ssa.TypeAssert)
	if !ok || !ta.CommaOk {
		return false
	}
	at := ta.AssertedType
	if tp, isTP := at.(*types.TypeParam); isTP {
		_ = tp
		return false
	}
	return typeIsNamed(at, c.typeObj("postscript", "Dict"))
}
