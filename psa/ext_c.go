package main

import (
	"go/token"
	"strings"
)

// Models of standard-library functions that carry the semantics of hand-written code they can
// replace (worker C).  They are applied by the evaluator to *known* arguments only; on symbols
// the call stays an opaque term.

// byteVals returns the elements of a byte sequence with known content: a concrete string (the
// evaluator's rendering of a constant []byte) or a list of integer constants.
func (e *ssaEval) byteVals(v sv) ([]int64, bool) {
	if v.k == svString {
		out := make([]int64, len(v.s))
		for i := 0; i < len(v.s); i++ {
			out[i] = int64(v.s[i])
		}
		return out, true
	}
	el, ok := e.elems(v)
	if !ok || (v.k != svList && v.op != "slice") {
		return nil, false
	}
	out := make([]int64, len(el))
	for i, x := range el {
		if x.k != svInt {
			return nil, false
		}
		out[i] = x.i & 0xff
	}
	return out, true
}

// stdFunc: encoding/binary byte-order methods on known bytes / known integers.
//
//	(encoding/binary.bigEndian).Uint16|Uint32|Uint64(b)            → integer
//	(encoding/binary.bigEndian).AppendUint16|32|64(b, v)           → b with the bytes of v appended
//	(encoding/binary.bigEndian).PutUint16|32|64(b, v)              → stores into a modelled list
//
// and the same for littleEndian.  args[0] is the receiver.
func (e *ssaEval) stdFunc(name string, args []sv) (sv, bool) {
	const pre = "(encoding/binary."
	if !strings.HasPrefix(name, pre) {
		return sv{}, false
	}
	rest := name[len(pre):]
	var big bool
	switch {
	case strings.HasPrefix(rest, "bigEndian)."):
		big = true
		rest = rest[len("bigEndian)."):]
	case strings.HasPrefix(rest, "littleEndian)."):
		rest = rest[len("littleEndian)."):]
	default:
		return sv{}, false
	}
	width := 0
	for _, w := range []struct {
		suffix string
		n      int
	}{{"Uint16", 2}, {"Uint32", 4}, {"Uint64", 8}} {
		if strings.HasSuffix(rest, w.suffix) {
			width = w.n
			rest = strings.TrimSuffix(rest, w.suffix)
		}
	}
	if width == 0 {
		return sv{}, false
	}
	split := func(v int64) []sv {
		out := make([]sv, width)
		for i := 0; i < width; i++ {
			sh := uint(8 * i)
			if big {
				sh = uint(8 * (width - 1 - i))
			}
			out[i] = intV(int64(uint64(v)>>sh) & 0xff)
		}
		return out
	}
	switch rest {
	case "":
		if len(args) != 2 {
			return sv{}, false
		}
		b, ok := e.byteVals(args[1])
		if !ok {
			return sv{}, false
		}
		if len(b) < width {
			e.why = "encoding/binary: slice shorter than the integer read from it"
			e.effects = append(e.effects, ssaEffect{what: "panic"})
			return sv{}, true
		}
		var u uint64
		for i := 0; i < width; i++ {
			sh := uint(8 * i)
			if big {
				sh = uint(8 * (width - 1 - i))
			}
			u |= uint64(b[i]) << sh
		}
		return intV(int64(u)), true
	case "Append":
		if len(args) != 3 || args[2].k != svInt || (args[1].k != svList && args[1].k != svNil) {
			return sv{}, false
		}
		return e.listAppend(args[1], split(args[2].i)), true
	case "Put":
		if len(args) != 3 || args[2].k != svInt || args[1].k != svList {
			return sv{}, false
		}
		l := args[1]
		if l.n < int64(width) {
			e.why = "encoding/binary: slice shorter than the integer written to it"
			e.effects = append(e.effects, ssaEffect{what: "panic"})
			return sv{}, true
		}
		for i, x := range split(args[2].i) {
			e.lists[l.s][l.i+int64(i)] = x
		}
		return sv{}, true
	}
	return sv{}, false
}

// foldMinMax: the builtins min and max on constants; between a symbol and a constant (or two
// symbols) the evaluator's oracle is asked for the order, as it is for the comparison of an
// if-statement that does the same job — only if the rule has switched this on (orderMinMax).
func (e *ssaEval) foldMinMax(name string, args []sv) (sv, bool) {
	if len(args) == 0 {
		return sv{}, false
	}
	less := func(a, b sv) (bool, bool) {
		switch {
		case a.k == svInt && b.k == svInt:
			return a.i < b.i, true
		case a.k == svFloat && b.k == svFloat:
			if a.f != a.f || b.f != b.f {
				return false, false
			}
			return a.f < b.f, true
		case a.k == svString && b.k == svString:
			return a.s < b.s, true
		}
		if e.orderMinMax && e.oracle != nil && a.known() && b.known() {
			return e.oracle(token.LSS, a, b)
		}
		return false, false
	}
	cur := args[0]
	for _, a := range args[1:] {
		lt, ok := less(a, cur)
		if !ok {
			return sv{}, false
		}
		if lt == (name == "min") {
			// a is smaller and the minimum is wanted, or a is not smaller and the maximum is
			// wanted (equal values are interchangeable)
			cur = a
		}
	}
	return cur, true
}
