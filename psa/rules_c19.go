package main

// C19 — query methods.  Rule family A17 QUERYSIB.

func init() {
	register(&propCheck{
		id:    "C19",
		title: "Font and metrics query methods agree with their definitions",
		explanation: "Decides the structural clauses of C19 for both the Type 1 font and the AFM metrics types: GlyphList and NumGlyphs are evaluated abstractly on ten model fonts each (with/without .notdef, no/partial encoding, encoding entries that are .notdef or name missing glyphs, a glyph at code 255 next to an unencoded one, two delivery orders of the glyph map): the list holds every glyph and .notdef exactly once and nothing else, starts with .notdef, continues with the encoded glyphs by code and ends with the rest by name, and its length is the reported count; " +
			"bounding boxes: the lower-left coordinates are updated under `first || v < current`, the upper-right ones under `first || v > current`, x with x and y with y, from the end points Args[0],Args[1] of moves and lines and Args[4],Args[5] of curves; the PDF variant maps every point through FontMatrix·Scale(1000,1000) before the comparison; unknown glyphs give the zero rectangle; font boxes skip zero boxes and union the rest; " +
			"widths: the per-glyph call and the width map compute the horizontal scale by the same statements over FontMatrix, multiply by 1000 once, and the per-glyph call falls back to .notdef and then 0. " +
			"It does NOT decide numerical equality with an independent recomputation.",
		trusted:     []string{"go/types, go/ssa; the evaluator's models of maps.Keys, map range/lookup/update and of the sort functions (insertion sort with the repository's comparison)"},
		assumptions: nil,
		run:         runC19,
	})
}

func runC19(c *Ctx) {
	for _, t := range []struct{ pkg, typ string }{{"type1", "Font"}, {"afm", "Metrics"}} {
		c.glyphListModels(t.pkg, t.typ)
	}
	c.bboxRulesSSA("type1", "Glyph", "BBox", false)
	c.bboxRulesSSA("type1", "Font", "GlyphBBoxPDF", true)
	c.fontBBoxRulesSSA()
	c.widthRulesSSA()
}
