package main

import (
	"fmt"
	"go/ast"
	"go/token"
	"go/types"
	"sort"
	"strings"
)

// C19 — query methods.  Rule family A17 QUERYSIB.

func init() {
	register(&propCheck{
		id:    "C19",
		title: "Font and metrics query methods agree with their definitions",
		explanation: "Decides the structural clauses of C19 for both the Type 1 font and the AFM metrics types: NumGlyphs adds one exactly when GlyphList adds the name .notdef (same test); the list's names come from the keys of the glyph map (plus .notdef) and nothing else; the order key is −1 for .notdef, the code for encoded glyphs (entries .notdef skipped), 256 otherwise, and the comparator orders by (key, name) with a total tie-break; " +
			"bounding boxes: the lower-left coordinates are updated under `first || v < current`, the upper-right ones under `first || v > current`, x with x and y with y, from the end points Args[0],Args[1] of moves and lines and Args[4],Args[5] of curves; the PDF variant maps every point through FontMatrix·Scale(1000,1000) before the comparison; unknown glyphs give the zero rectangle; font boxes skip zero boxes and union the rest; " +
			"widths: the per-glyph call and the width map compute the horizontal scale by the same statements over FontMatrix, multiply by 1000 once, and the per-glyph call falls back to .notdef and then 0. " +
			"It does NOT decide numerical equality with an independent recomputation.",
		trusted:     []string{"go/types, rendered source for sibling comparison of short statement sequences"},
		assumptions: nil,
		run:         runC19,
	})
}

func runC19(c *Ctx) {
	for _, t := range []struct{ pkg, typ string }{{"type1", "Font"}, {"afm", "Metrics"}} {
		c.glyphListRules(t.pkg, t.typ)
	}
	c.bboxRulesSSA("type1", "Glyph", "BBox", false)
	c.bboxRulesSSA("type1", "Font", "GlyphBBoxPDF", true)
	c.fontBBoxRulesSSA()
	c.widthRulesSSA()
}

func (c *Ctx) glyphListRules(pkg, typ string) {
	info := c.info(pkg)
	num := c.funcDecl(pkg, typ, "NumGlyphs")
	gl := c.funcDecl(pkg, typ, "GlyphList")
	name := pkg + ".(*" + typ + ")"
	notdefTest := func(fd *ast.FuncDecl) (*ast.IfStmt, string) {
		var res *ast.IfStmt
		var test string
		ast.Inspect(fd.Body, func(n ast.Node) bool {
			ifs, ok := n.(*ast.IfStmt)
			if !ok || ifs.Init == nil || res != nil {
				return true
			}
			init := nodeString(c, ifs.Init)
			if strings.Contains(init, `[".notdef"]`) && types.ExprString(ifs.Cond) == "!ok" {
				res = ifs
				test = init
			}
			return true
		})
		return res, test
	}
	ni, nt := notdefTest(num)
	gi, gt := notdefTest(gl)
	adds := ni != nil && strings.Contains(nodeString(c, ni.Body), "++")
	appends := gi != nil && strings.Contains(nodeString(c, gi.Body), `append(`) && strings.Contains(nodeString(c, gi.Body), `".notdef"`)
	norm := func(s string) string {
		// receiver names may differ
		return strings.Join(strings.Fields(s)[len(strings.Fields(s))-1:], "")
	}
	c.check(adds == appends && (!adds || norm(nt) == norm(gt)), "Q-NOTDEF", name, "NumGlyphs counts .notdef exactly when GlyphList lists it (same test)", gl.Pos(), fmt.Sprintf("NumGlyphs adds one: %v; GlyphList appends .notdef: %v", adds, appends),
		fmt.Sprintf("NumGlyphs adds one for a missing .notdef: %v, but GlyphList appends the name: %v — the list's length then differs from the reported count and it does not start with .notdef", adds, appends))
	c.check(adds, "Q-NOTDEF", name, "the count includes .notdef", num.Pos(), "", "NumGlyphs no longer counts the implicit .notdef glyph")

	// names come from maps.Keys(X.Glyphs) only
	var listVar types.Object
	srcOK := false
	ast.Inspect(gl.Body, func(n ast.Node) bool {
		as, ok := n.(*ast.AssignStmt)
		if !ok || as.Tok != token.DEFINE || len(as.Rhs) != 1 {
			return true
		}
		if call, ok := as.Rhs[0].(*ast.CallExpr); ok && types.ExprString(call.Fun) == "maps.Keys" && len(call.Args) == 1 {
			if sel, ok := call.Args[0].(*ast.SelectorExpr); ok && sel.Sel.Name == "Glyphs" {
				listVar = info.ObjectOf(as.Lhs[0].(*ast.Ident))
				srcOK = true
			}
		}
		return true
	})
	// the returned value is that variable; appends to it add only the constant ".notdef"
	retOK := false
	appOK := true
	ast.Inspect(gl.Body, func(n ast.Node) bool {
		switch n := n.(type) {
		case *ast.ReturnStmt:
			if id, ok := n.Results[0].(*ast.Ident); ok && info.ObjectOf(id) == listVar {
				retOK = true
			}
		case *ast.AssignStmt:
			if len(n.Lhs) == 1 && len(n.Rhs) == 1 {
				if id, ok := n.Lhs[0].(*ast.Ident); ok && listVar != nil && info.ObjectOf(id) == listVar && n.Tok == token.ASSIGN {
					call, ok := n.Rhs[0].(*ast.CallExpr)
					if !ok || types.ExprString(call.Fun) != "append" {
						appOK = false
						return true
					}
					for _, a := range call.Args[1:] {
						if s, ok := constStrOf(info, a); !ok || s != ".notdef" {
							appOK = false
						}
					}
				}
			}
		}
		return true
	})
	c.check(srcOK && retOK && appOK, "Q-LISTSOURCE", name, "the list holds the keys of the glyph map (plus .notdef) and nothing else", gl.Pos(), "maps.Keys(f.Glyphs) [+ \".notdef\"], sorted and returned", "GlyphList does not return exactly the keys of the glyph map plus .notdef: names of glyphs that are not in the font (e.g. from the encoding) can appear, or glyphs can be missing")

	// order keys
	keys := map[string]string{} // what -> assigned value text
	encGuard := false
	ast.Inspect(gl.Body, func(n ast.Node) bool {
		as, ok := n.(*ast.AssignStmt)
		if !ok || len(as.Lhs) != 1 {
			return true
		}
		ix, ok := as.Lhs[0].(*ast.IndexExpr)
		if !ok {
			return true
		}
		if _, isMap := info.TypeOf(ix.X).Underlying().(*types.Map); !isMap {
			return true
		}
		idx := types.ExprString(ix.Index)
		val := types.ExprString(as.Rhs[0])
		if s, ok := constStrOf(info, ix.Index); ok {
			idx = "const:" + s
		}
		keys[idx+"="+val] = val
		return true
	})
	ast.Inspect(gl.Body, func(n ast.Node) bool {
		rs, ok := n.(*ast.RangeStmt)
		if !ok || !strings.HasSuffix(types.ExprString(rs.X), ".Encoding") {
			return true
		}
		if len(rs.Body.List) == 1 {
			if ifs, ok := rs.Body.List[0].(*ast.IfStmt); ok && strings.Contains(types.ExprString(ifs.Cond), `!= ".notdef"`) {
				if as, ok := ifs.Body.List[0].(*ast.AssignStmt); ok {
					if k, ok := rs.Key.(*ast.Ident); ok && types.ExprString(as.Rhs[0]) == k.Name {
						encGuard = true
					}
				}
			}
		}
		return true
	})
	okKeys := keys["const:.notdef=-1"] == "-1" && encGuard
	has256 := false
	for _, v := range keys {
		if v == "256" {
			has256 = true
		}
	}
	c.check(okKeys && has256, "Q-ORDER", name, "order key: −1 for .notdef, the code for encoded glyphs (.notdef entries skipped), 256 otherwise", gl.Pos(), fmt.Sprint(sortedKV(keys)), fmt.Sprintf("order keys are %v (encoding loop assigns the code and skips .notdef: %v)", sortedKV(keys), encGuard))
}

func sortedKV(m map[string]string) []string {
	var out []string
	for k, v := range m {
		out = append(out, k+"→"+v)
	}
	sort.Strings(out)
	return out
}
