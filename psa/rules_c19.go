package main

import (
	"fmt"
	"go/ast"
	"go/token"
	"go/types"
	"sort"
	"strings"
)

// C19 — query methods.  Rule family A17 QUERYSIB.

func init() {
	register(&propCheck{
		id:    "C19",
		title: "Font and metrics query methods agree with their definitions",
		explanation: "Decides the structural clauses of C19 for both the Type 1 font and the AFM metrics types: NumGlyphs adds one exactly when GlyphList adds the name .notdef (same test); the list's names come from the keys of the glyph map (plus .notdef) and nothing else; the order key is −1 for .notdef, the code for encoded glyphs (entries .notdef skipped), 256 otherwise, and the comparator orders by (key, name) with a total tie-break; " +
			"bounding boxes: the lower-left coordinates are updated under `first || v < current`, the upper-right ones under `first || v > current`, x with x and y with y, from the end points Args[0],Args[1] of moves and lines and Args[4],Args[5] of curves; the PDF variant maps every point through FontMatrix·Scale(1000,1000) before the comparison; unknown glyphs give the zero rectangle; font boxes skip zero boxes and union the rest; " +
			"widths: the per-glyph call and the width map compute the horizontal scale by the same statements over FontMatrix, multiply by 1000 once, and the per-glyph call falls back to .notdef and then 0. " +
			"It does NOT decide numerical equality with an independent recomputation.",
		trusted:     []string{"go/types, rendered source for sibling comparison of short statement sequences"},
		assumptions: nil,
		run:         runC19,
	})
}

func runC19(c *Ctx) {
	for _, t := range []struct{ pkg, typ string }{{"type1", "Font"}, {"afm", "Metrics"}} {
		c.glyphListRules(t.pkg, t.typ)
	}
	c.bboxRules("type1", "Glyph", "BBox", false)
	c.bboxRules("type1", "Font", "GlyphBBoxPDF", true)
	c.fontBBoxRules()
	c.widthRules()
}

func (c *Ctx) glyphListRules(pkg, typ string) {
	info := c.info(pkg)
	num := c.funcDecl(pkg, typ, "NumGlyphs")
	gl := c.funcDecl(pkg, typ, "GlyphList")
	name := pkg + ".(*" + typ + ")"
	notdefTest := func(fd *ast.FuncDecl) (*ast.IfStmt, string) {
		var res *ast.IfStmt
		var test string
		ast.Inspect(fd.Body, func(n ast.Node) bool {
			ifs, ok := n.(*ast.IfStmt)
			if !ok || ifs.Init == nil || res != nil {
				return true
			}
			init := nodeString(c, ifs.Init)
			if strings.Contains(init, `[".notdef"]`) && types.ExprString(ifs.Cond) == "!ok" {
				res = ifs
				test = init
			}
			return true
		})
		return res, test
	}
	ni, nt := notdefTest(num)
	gi, gt := notdefTest(gl)
	adds := ni != nil && strings.Contains(nodeString(c, ni.Body), "++")
	appends := gi != nil && strings.Contains(nodeString(c, gi.Body), `append(`) && strings.Contains(nodeString(c, gi.Body), `".notdef"`)
	norm := func(s string) string {
		// receiver names may differ
		return strings.Join(strings.Fields(s)[len(strings.Fields(s))-1:], "")
	}
	c.check(adds == appends && (!adds || norm(nt) == norm(gt)), "Q-NOTDEF", name, "NumGlyphs counts .notdef exactly when GlyphList lists it (same test)", gl.Pos(), fmt.Sprintf("NumGlyphs adds one: %v; GlyphList appends .notdef: %v", adds, appends),
		fmt.Sprintf("NumGlyphs adds one for a missing .notdef: %v, but GlyphList appends the name: %v — the list's length then differs from the reported count and it does not start with .notdef", adds, appends))
	c.check(adds, "Q-NOTDEF", name, "the count includes .notdef", num.Pos(), "", "NumGlyphs no longer counts the implicit .notdef glyph")

	// names come from maps.Keys(X.Glyphs) only
	var listVar types.Object
	srcOK := false
	ast.Inspect(gl.Body, func(n ast.Node) bool {
		as, ok := n.(*ast.AssignStmt)
		if !ok || as.Tok != token.DEFINE || len(as.Rhs) != 1 {
			return true
		}
		if call, ok := as.Rhs[0].(*ast.CallExpr); ok && types.ExprString(call.Fun) == "maps.Keys" && len(call.Args) == 1 {
			if sel, ok := call.Args[0].(*ast.SelectorExpr); ok && sel.Sel.Name == "Glyphs" {
				listVar = info.ObjectOf(as.Lhs[0].(*ast.Ident))
				srcOK = true
			}
		}
		return true
	})
	// the returned value is that variable; appends to it add only the constant ".notdef"
	retOK := false
	appOK := true
	ast.Inspect(gl.Body, func(n ast.Node) bool {
		switch n := n.(type) {
		case *ast.ReturnStmt:
			if id, ok := n.Results[0].(*ast.Ident); ok && info.ObjectOf(id) == listVar {
				retOK = true
			}
		case *ast.AssignStmt:
			if len(n.Lhs) == 1 && len(n.Rhs) == 1 {
				if id, ok := n.Lhs[0].(*ast.Ident); ok && listVar != nil && info.ObjectOf(id) == listVar && n.Tok == token.ASSIGN {
					call, ok := n.Rhs[0].(*ast.CallExpr)
					if !ok || types.ExprString(call.Fun) != "append" {
						appOK = false
						return true
					}
					for _, a := range call.Args[1:] {
						if s, ok := constStrOf(info, a); !ok || s != ".notdef" {
							appOK = false
						}
					}
				}
			}
		}
		return true
	})
	c.check(srcOK && retOK && appOK, "Q-LISTSOURCE", name, "the list holds the keys of the glyph map (plus .notdef) and nothing else", gl.Pos(), "maps.Keys(f.Glyphs) [+ \".notdef\"], sorted and returned", "GlyphList does not return exactly the keys of the glyph map plus .notdef: names of glyphs that are not in the font (e.g. from the encoding) can appear, or glyphs can be missing")

	// order keys
	keys := map[string]string{} // what -> assigned value text
	encGuard := false
	ast.Inspect(gl.Body, func(n ast.Node) bool {
		as, ok := n.(*ast.AssignStmt)
		if !ok || len(as.Lhs) != 1 {
			return true
		}
		ix, ok := as.Lhs[0].(*ast.IndexExpr)
		if !ok {
			return true
		}
		if _, isMap := info.TypeOf(ix.X).Underlying().(*types.Map); !isMap {
			return true
		}
		idx := types.ExprString(ix.Index)
		val := types.ExprString(as.Rhs[0])
		if s, ok := constStrOf(info, ix.Index); ok {
			idx = "const:" + s
		}
		keys[idx+"="+val] = val
		return true
	})
	ast.Inspect(gl.Body, func(n ast.Node) bool {
		rs, ok := n.(*ast.RangeStmt)
		if !ok || !strings.HasSuffix(types.ExprString(rs.X), ".Encoding") {
			return true
		}
		if len(rs.Body.List) == 1 {
			if ifs, ok := rs.Body.List[0].(*ast.IfStmt); ok && strings.Contains(types.ExprString(ifs.Cond), `!= ".notdef"`) {
				if as, ok := ifs.Body.List[0].(*ast.AssignStmt); ok {
					if k, ok := rs.Key.(*ast.Ident); ok && types.ExprString(as.Rhs[0]) == k.Name {
						encGuard = true
					}
				}
			}
		}
		return true
	})
	okKeys := keys["const:.notdef=-1"] == "-1" && encGuard
	has256 := false
	for _, v := range keys {
		if v == "256" {
			has256 = true
		}
	}
	c.check(okKeys && has256, "Q-ORDER", name, "order key: −1 for .notdef, the code for encoded glyphs (.notdef entries skipped), 256 otherwise", gl.Pos(), fmt.Sprint(sortedKV(keys)), fmt.Sprintf("order keys are %v (encoding loop assigns the code and skips .notdef: %v)", sortedKV(keys), encGuard))
}

func sortedKV(m map[string]string) []string {
	var out []string
	for k, v := range m {
		out = append(out, k+"→"+v)
	}
	sort.Strings(out)
	return out
}

func (c *Ctx) bboxRules(pkg, typ, method string, pdf bool) {
	info := c.info(pkg)
	fd := c.funcDecl(pkg, typ, method)
	name := pkg + ".(*" + typ + ")." + method
	// coordinate variables from the switch over the command type
	var xVar, yVar types.Object
	okEnds := true
	var sw *ast.SwitchStmt
	ast.Inspect(fd.Body, func(n ast.Node) bool {
		if s, ok := n.(*ast.SwitchStmt); ok && s.Tag != nil && sw == nil {
			sw = s
		}
		return true
	})
	if sw == nil {
		c.fail("Q-BBOX", name, "command switch", fd.Pos(), "no switch over the path command type")
		return
	}
	for _, cc := range sw.Body.List {
		cl := cc.(*ast.CaseClause)
		var ops []string
		for _, e := range cl.List {
			ops = append(ops, types.ExprString(e))
		}
		sort.Strings(ops)
		key := strings.Join(ops, ",")
		var wantX, wantY int64 = -1, -1
		switch key {
		case "OpLineTo,OpMoveTo":
			wantX, wantY = 0, 1
		case "OpCurveTo":
			wantX, wantY = 4, 5
		case "":
			continue
		default:
			okEnds = false
			continue
		}
		got := map[string]int64{}
		for _, st := range cl.Body {
			if as, ok := st.(*ast.AssignStmt); ok && len(as.Lhs) == 1 && len(as.Rhs) == 1 {
				if ix, ok := as.Rhs[0].(*ast.IndexExpr); ok && strings.HasSuffix(types.ExprString(ix.X), ".Args") {
					k, _ := constIntOf(info, ix.Index)
					id := as.Lhs[0].(*ast.Ident)
					got[id.Name] = k
					if k == wantX {
						if xVar != nil && xVar != info.ObjectOf(id) {
							okEnds = false
						}
						xVar = info.ObjectOf(id)
					}
					if k == wantY {
						if yVar != nil && yVar != info.ObjectOf(id) {
							okEnds = false
						}
						yVar = info.ObjectOf(id)
					}
				}
			}
		}
		if len(got) != 2 {
			okEnds = false
		}
	}
	c.check(okEnds && xVar != nil && yVar != nil && xVar != yVar, "Q-BBOX", name, "end points: Args[0],Args[1] of moves and lines, Args[4],Args[5] of curves", sw.Pos(), "", "the bounding box does not use the end point of every move, line and curve command (x from Args[0]/Args[4], y from Args[1]/Args[5])")
	if xVar == nil || yVar == nil {
		return
	}
	// guarded updates
	type upd struct{ acc, op, v string }
	var upds []upd
	firstVar := ""
	ast.Inspect(fd.Body, func(n ast.Node) bool {
		ifs, ok := n.(*ast.IfStmt)
		if !ok || len(ifs.Body.List) != 1 {
			return true
		}
		be, ok := ifs.Cond.(*ast.BinaryExpr)
		if !ok || be.Op != token.LOR {
			return true
		}
		fid, ok := be.X.(*ast.Ident)
		cmp, ok2 := be.Y.(*ast.BinaryExpr)
		as, ok3 := ifs.Body.List[0].(*ast.AssignStmt)
		if !ok || !ok2 || !ok3 || len(as.Lhs) != 1 {
			return true
		}
		firstVar = fid.Name
		v, okv := cmp.X.(*ast.Ident)
		if !okv || types.ExprString(cmp.Y) != types.ExprString(as.Lhs[0]) || types.ExprString(as.Rhs[0]) != v.Name {
			upds = append(upds, upd{types.ExprString(as.Lhs[0]), "?", "?"})
			return true
		}
		role := "?"
		if info.ObjectOf(v) == xVar {
			role = "x"
		} else if info.ObjectOf(v) == yVar {
			role = "y"
		}
		upds = append(upds, upd{types.ExprString(as.Lhs[0]), cmp.Op.String(), role})
		return true
	})
	// map accumulators to rectangle fields
	fieldOfAcc := map[string]string{}
	if pdf {
		for _, u := range upds {
			if i := strings.LastIndex(u.acc, "."); i >= 0 {
				fieldOfAcc[u.acc] = u.acc[i+1:]
			}
		}
	} else {
		ast.Inspect(fd.Body, func(n ast.Node) bool {
			if r, ok := n.(*ast.ReturnStmt); ok && len(r.Results) == 1 {
				if cl, ok := r.Results[0].(*ast.CompositeLit); ok {
					for _, e := range cl.Elts {
						if kv, ok := e.(*ast.KeyValueExpr); ok {
							fieldOfAcc[types.ExprString(kv.Value)] = types.ExprString(kv.Key)
						}
					}
				}
			}
			return true
		})
	}
	want := map[string]string{"LLx": "< x", "URx": "> x", "LLy": "< y", "URy": "> y"}
	got := map[string]string{}
	for _, u := range upds {
		got[fieldOfAcc[u.acc]] = u.op + " " + u.v
	}
	okU := len(upds) == 4
	for k, w := range want {
		if got[k] != w {
			okU = false
		}
	}
	c.check(okU, "Q-BBOX", name, "LLx/LLy updated under `first || v < cur`, URx/URy under `first || v > cur`, x with x and y with y", fd.Pos(), fmt.Sprint(sortedKV(got)), fmt.Sprintf("bounding box updates are %v, expected %v", sortedKV(got), sortedKV(want)))
	// first cleared at the end of the loop body
	okFirst := false
	ast.Inspect(fd.Body, func(n ast.Node) bool {
		if rs, ok := n.(*ast.RangeStmt); ok {
			if len(rs.Body.List) > 0 {
				if as, ok := rs.Body.List[len(rs.Body.List)-1].(*ast.AssignStmt); ok && types.ExprString(as.Lhs[0]) == firstVar && types.ExprString(as.Rhs[0]) == "false" {
					okFirst = true
				}
			}
		}
		return true
	})
	c.check(okFirst, "Q-BBOX", name, "the first point initialises all four sides", fd.Pos(), "first = false at the end of the loop body", "the `first` flag is not cleared after the first end point")
	if pdf {
		txt := nodeString(c, fd.Body)
		okM := strings.Contains(txt, "f.FontMatrix.Mul(matrix.Scale(1000, 1000))")
		// Apply on every point, inside the loop, before the comparisons
		okApply := false
		ast.Inspect(fd.Body, func(n ast.Node) bool {
			rs, ok := n.(*ast.RangeStmt)
			if !ok {
				return true
			}
			for _, st := range rs.Body.List {
				if as, ok := st.(*ast.AssignStmt); ok && len(as.Lhs) == 2 && len(as.Rhs) == 1 {
					if call, ok := as.Rhs[0].(*ast.CallExpr); ok && strings.HasSuffix(types.ExprString(call.Fun), ".Apply") && len(call.Args) == 2 {
						l0, _ := as.Lhs[0].(*ast.Ident)
						l1, _ := as.Lhs[1].(*ast.Ident)
						a0, _ := call.Args[0].(*ast.Ident)
						a1, _ := call.Args[1].(*ast.Ident)
						if l0 != nil && l1 != nil && a0 != nil && a1 != nil && info.ObjectOf(l0) == xVar && info.ObjectOf(l1) == yVar && info.ObjectOf(a0) == xVar && info.ObjectOf(a1) == yVar {
							okApply = true
						}
					}
				}
			}
			return true
		})
		c.check(okM && okApply, "Q-BBOX", name, "every end point is mapped through FontMatrix·Scale(1000,1000) before it is compared", fd.Pos(), "x, y = M.Apply(x, y) in the loop", "the PDF bounding box does not transform each end point with FontMatrix × 1000 before taking minima and maxima (mapping only the corners is wrong for matrices with negative scale or shear)")
		// unknown glyph → zero rectangle
		okZero := false
		if len(fd.Body.List) >= 2 {
			if ifs, ok := fd.Body.List[1].(*ast.IfStmt); ok && types.ExprString(ifs.Cond) == "!ok" {
				if r, ok := ifs.Body.List[0].(*ast.ReturnStmt); ok && len(r.Results) == 0 {
					okZero = true
				}
			}
		}
		c.check(okZero, "Q-BBOX", name, "unknown glyph → zero rectangle", fd.Pos(), "if !ok { return }", "a missing glyph does not yield the zero rectangle")
	}
}

func (c *Ctx) fontBBoxRules() {
	for _, m := range []string{"FontBBox", "FontBBoxPDF"} {
		fd := c.funcDecl("type1", "Font", m)
		txt := nodeString(c, fd.Body)
		okSkip := strings.Contains(txt, ".IsZero() { continue }")
		okUnion := strings.Contains(txt, ".Extend(")
		c.check(okSkip && okUnion, "Q-FONTBBOX", "type1.(*Font)."+m, "zero glyph boxes are skipped, the rest is united", fd.Pos(), "IsZero → continue; first/Extend", fmt.Sprintf("font bounding box: skips empty glyph boxes: %v, unites with Extend: %v", okSkip, okUnion))
	}
	fd := c.funcDecl("afm", "Metrics", "FontBBoxPDF")
	txt := nodeString(c, fd.Body)
	c.check(strings.Contains(txt, ".Extend(") && strings.Contains(txt, "range f.Glyphs"), "Q-FONTBBOX", "afm.(*Metrics).FontBBoxPDF", "union over all glyph boxes (Extend ignores zero boxes)", fd.Pos(), "", "the AFM font box is not the union over all glyphs")
}

func (c *Ctx) widthRules() {
	w1 := c.funcDecl("type1", "Font", "WidthsMapPDF")
	w2 := c.funcDecl("type1", "Font", "GlyphWidthPDF")
	scaleStmts := func(fd *ast.FuncDecl) (string, int) {
		var parts []string
		n1000 := 0
		for _, st := range fd.Body.List {
			s := nodeString(c, st)
			if strings.Contains(s, "FontMatrix") {
				parts = append(parts, s)
			}
		}
		ast.Inspect(fd.Body, func(n ast.Node) bool {
			if bl, ok := n.(*ast.BasicLit); ok && bl.Value == "1000" {
				n1000++
			}
			return true
		})
		return strings.Join(parts, " | "), n1000
	}
	s1, k1 := scaleStmts(w1)
	s2, k2 := scaleStmts(w2)
	c.check(s1 == s2 && k1 == 1 && k2 == 1 && strings.Contains(s1, "q := f.FontMatrix[0]"), "Q-WIDTH", "type1.(*Font).GlyphWidthPDF / WidthsMapPDF", "both compute the horizontal scale by the same statements and multiply by 1000 once", w2.Pos(), s1,
		fmt.Sprintf("the per-glyph width and the width map scale differently: `%s` (×1000: %d) vs `%s` (×1000: %d)", s1, k1, s2, k2))
	t2 := nodeString(c, w2.Body)
	okFB := strings.Contains(t2, `f.Glyphs[".notdef"]`) && strings.Contains(t2, "if !ok { return 0 }")
	c.check(okFB, "Q-WIDTH", "type1.(*Font).GlyphWidthPDF", "unknown names fall back to .notdef, then 0", w2.Pos(), "", "GlyphWidthPDF does not fall back to the width of .notdef and then to 0")
	// result = WidthX * scale
	okRes := strings.Contains(t2, "return g.WidthX * (q * 1000)") || strings.Contains(t2, "return g.WidthX * q")
	t1 := nodeString(c, w1.Body)
	okRes = okRes && strings.Contains(t1, "= glyph.WidthX * q")
	c.check(okRes, "Q-WIDTH", "type1.(*Font).GlyphWidthPDF / WidthsMapPDF", "width = advance width × scale", w2.Pos(), "", "the PDF width is not the product of the advance width and the scale (e.g. a point transformation adds the matrix translation)")
	// afm
	a := c.funcDecl("afm", "Metrics", "GlyphWidthPDF")
	ta := nodeString(c, a.Body)
	c.check(strings.Contains(ta, `f.Glyphs[".notdef"]`) && strings.Contains(ta, "return 0") && strings.Contains(ta, "return glyph.WidthX"), "Q-WIDTH", "afm.(*Metrics).GlyphWidthPDF", "glyph width, else .notdef, else 0", a.Pos(), "", "afm GlyphWidthPDF does not fall back to .notdef and 0")
}
