package main

import (
	"go/token"
	"go/types"

	"golang.org/x/tools/go/ssa"
)

// Round 5 of hardening, shape of executeOne / Execute / eexec.
//
//   * the operation counter may live in a helper of the interpreter core (`countOp`): a call of a
//     function every return of which has passed the counter is the counter (opCounter);
//   * the budget test is decided across that call: the decision table follows the result of the
//     helper into its callers (gateWalker);
//   * the token loop is the place where a token delivered by the scanner is handed to executeOne,
//     whichever function holds it, and a re-entry of the token loop is bounded if every chain of
//     calls that leads to it starts at the API entry point or passes a successful BeginEexec
//     (tokenLoopEntries).

// ---- the operation counter, wherever it lives --------------------------------------------------

type opCounter struct {
	c      *Ctx
	ia     *interpAnchors
	core   *execCore
	stores []*ssa.Store
	always map[*ssa.Function]int // 1 being computed, 2 every return has counted, 3 not so
}

var opCounterCache struct {
	c  *Ctx
	oc *opCounter
}

func (c *Ctx) opCounter(ia *interpAnchors) *opCounter {
	if opCounterCache.c == c && opCounterCache.oc != nil {
		return opCounterCache.oc
	}
	oc := &opCounter{c: c, ia: ia, core: c.execCoreOf(ia.executeOne), always: map[*ssa.Function]int{}}
	for _, f := range c.modFuncs {
		eachInstr(f, func(ins ssa.Instruction) {
			if st, ok := ins.(*ssa.Store); ok && isFieldAddr(st.Addr, ia.T, "NumOps") {
				oc.stores = append(oc.stores, st)
			}
		})
	}
	opCounterCache.c, opCounterCache.oc = c, oc
	return oc
}

// isMark: executing ins counts one operation: the store to NumOps itself, or a call of a helper
// (a module function outside the interpreter core) every return of which has passed one.
func (oc *opCounter) isMark(ins ssa.Instruction) bool {
	switch x := ins.(type) {
	case *ssa.Store:
		return isFieldAddr(x.Addr, oc.ia.T, "NumOps")
	case *ssa.Call:
		return oc.alwaysCounts(x.Call.StaticCallee())
	}
	return false
}

func (oc *opCounter) marked(b *ssa.BasicBlock) bool {
	for _, ins := range b.Instrs {
		if oc.isMark(ins) {
			return true
		}
	}
	return false
}

func (oc *opCounter) marksIn(f *ssa.Function) []ssa.Instruction {
	var out []ssa.Instruction
	eachInstr(f, func(ins ssa.Instruction) {
		if oc.isMark(ins) {
			out = append(out, ins)
		}
	})
	return out
}

// alwaysCounts: g is a helper no path through which reaches a return without counting.
func (oc *opCounter) alwaysCounts(g *ssa.Function) bool {
	if g == nil || len(g.Blocks) == 0 || oc.core.in[g] || !oc.c.inModule(g) {
		return false
	}
	switch oc.always[g] {
	case 1, 3:
		return false
	case 2:
		return true
	}
	// cheap pre-test: the helper (or something it calls) must contain a counter at all
	oc.always[g] = 1
	res := true
	seen := map[*ssa.BasicBlock]bool{}
	st := []*ssa.BasicBlock{g.Blocks[0]}
	for len(st) > 0 && res {
		b := st[len(st)-1]
		st = st[:len(st)-1]
		if seen[b] {
			continue
		}
		seen[b] = true
		if oc.marked(b) {
			continue
		}
		if len(b.Instrs) > 0 {
			if _, isRet := b.Instrs[len(b.Instrs)-1].(*ssa.Return); isRet {
				res = false
			}
		}
		st = append(st, b.Succs...)
	}
	if res {
		oc.always[g] = 2
	} else {
		oc.always[g] = 3
	}
	return res
}

// home: the counter has exactly one writer, and that writer belongs to the interpreter core: it is a
// member, or a helper that always counts, is not used as a value and is called only by members or
// by such helpers.  Returns the store.
func (oc *opCounter) home() *ssa.Store {
	if len(oc.stores) != 1 {
		return nil
	}
	st := oc.stores[0]
	if oc.ownedByCore(st.Parent(), 0) {
		return st
	}
	return nil
}

func (oc *opCounter) ownedByCore(f *ssa.Function, depth int) bool {
	if oc.core.in[f] {
		return true
	}
	if depth > 3 || !oc.alwaysCounts(f) || (oc.core.taken[f] && !localClosure(f)) || len(oc.core.sites[f]) == 0 || exportedAPI(f) {
		return false
	}
	for _, cs := range oc.core.sites[f] {
		if _, isCall := cs.(*ssa.Call); !isCall {
			return false // deferred or started as a goroutine
		}
		if !oc.ownedByCore(cs.Parent(), depth+1) {
			return false
		}
	}
	return true
}

// localClosure: f is a function literal whose closure value is only ever called, directly, by the
// function that creates it (it is a local helper, not a value that travels).
func localClosure(f *ssa.Function) bool {
	par := f.Parent()
	if par == nil {
		return false
	}
	made := false
	ok := true
	eachInstr(par, func(ins ssa.Instruction) {
		mc, isMC := ins.(*ssa.MakeClosure)
		if !isMC || mc.Fn != ssa.Value(f) {
			return
		}
		made = true
		for _, r := range *mc.Referrers() {
			switch r := r.(type) {
			case *ssa.Call:
				if r.Call.Value != ssa.Value(mc) {
					ok = false
				}
				for _, a := range r.Call.Args {
					if a == ssa.Value(mc) {
						ok = false
					}
				}
			case *ssa.DebugRef:
			default:
				ok = false
			}
		}
	})
	return made && ok
}

// afterCount: the load ld of NumOps sees the incremented value: it is dominated by the store, or (in
// another function) by a call that counts.
func (oc *opCounter) afterCount(ld ssa.Instruction) bool {
	for _, m := range oc.marksIn(ld.Parent()) {
		if dominatesInstr(m, ld) {
			return true
		}
	}
	return false
}

// siteAfter: instruction site is executed only after an operation was counted since the enclosing
// invocation of executeOne began: a counting instruction dominates it in its own function, or its
// function is only entered after one was passed.
func (oc *opCounter) siteAfter(site ssa.Instruction) bool {
	for _, m := range oc.marksIn(site.Parent()) {
		if dominatesInstr(m, site) {
			return true
		}
	}
	return oc.core.enteredOnlyAfter(site.Parent(), oc.marked, map[*ssa.Function]bool{})
}

// coreGateBlocks: the blocks of members of the core in which an operation is counted.
func (oc *opCounter) coreGateBlocks() []*ssa.BasicBlock {
	var out []*ssa.BasicBlock
	for _, h := range oc.core.funcs {
		for _, b := range h.Blocks {
			if oc.marked(b) {
				out = append(out, b)
			}
		}
	}
	return out
}

// ---- the budget test, followed from the counter through the helper into its callers -----------

const (
	gvNil = iota + 1
	gvSentinel
	gvBool
	gvInt
)

type gateVal struct {
	kind int
	b    bool
	i    int64
}

type gateWalker struct {
	oc       *opCounter
	sentinel *ssa.Global
	env      func(ssa.Value) (int64, bool)
	bound    map[ssa.Value]gateVal
	from     *ssa.BasicBlock
}

func (w *gateWalker) intEnv(v ssa.Value) (int64, bool) {
	if gv, ok := w.bound[origin(v)]; ok && gv.kind == gvInt {
		return gv.i, true
	}
	return w.env(v)
}

// val: what is known about v on the path walked.
func (w *gateWalker) val(v ssa.Value) (gateVal, bool) {
	v = origin(v)
	if gv, ok := w.bound[v]; ok {
		return gv, true
	}
	if mi, ok := v.(*ssa.MakeInterface); ok {
		if gv, ok := w.bound[origin(mi.X)]; ok {
			return gv, true
		}
	}
	if phi, ok := v.(*ssa.Phi); ok && w.from != nil && phi.Block() != nil {
		for i, p := range phi.Block().Preds {
			if p == w.from && i < len(phi.Edges) {
				if _, again := origin(phi.Edges[i]).(*ssa.Phi); !again {
					return w.val(phi.Edges[i])
				}
			}
		}
		return gateVal{}, false
	}
	if isNilConst(v) {
		return gateVal{kind: gvNil}, true
	}
	if g := globalLoad(v); g != nil {
		if g == w.sentinel {
			return gateVal{kind: gvSentinel}, true
		}
		return gateVal{}, false
	}
	if b, ok := constBool(v); ok {
		return gateVal{kind: gvBool, b: b}, true
	}
	if bt, ok := v.Type().Underlying().(*types.Basic); ok {
		switch {
		case bt.Info()&types.IsBoolean != 0:
			if b, ok := w.cond(v); ok {
				return gateVal{kind: gvBool, b: b}, true
			}
		case bt.Info()&types.IsInteger != 0:
			if i, ok := evalInt(v, w.intEnv); ok {
				return gateVal{kind: gvInt, i: i}, true
			}
		}
	}
	return gateVal{}, false
}

func (w *gateWalker) cond(v ssa.Value) (bool, bool) {
	if gv, ok := w.bound[origin(v)]; ok && gv.kind == gvBool {
		return gv.b, true
	}
	switch x := v.(type) {
	case *ssa.UnOp:
		if x.Op == token.NOT {
			b, ok := w.cond(x.X)
			return !b, ok
		}
	case *ssa.Phi:
		if gv, ok := w.val(x); ok && gv.kind == gvBool {
			return gv.b, true
		}
		return false, false
	case *ssa.BinOp:
		if x.Op == token.EQL || x.Op == token.NEQ {
			if _, isIface := x.X.Type().Underlying().(*types.Interface); isIface || isPointerType(x.X.Type()) {
				a, ok1 := w.val(x.X)
				b, ok2 := w.val(x.Y)
				if ok1 && ok2 && (a.kind == gvNil || a.kind == gvSentinel) && (b.kind == gvNil || b.kind == gvSentinel) {
					return (a.kind == b.kind) == (x.Op == token.EQL), true
				}
				return false, false
			}
		}
	}
	return evalCond(v, w.intEnv)
}

func isPointerType(t types.Type) bool {
	_, ok := t.Underlying().(*types.Pointer)
	return ok
}

// walk follows the CFG from block b while the conditions are decided by the cell; a return inside a
// counting helper is followed into every caller with the returned value bound to the call.
// Results: "sentinel" (the budget error is returned from the core), "continue" (a condition the
// cell does not decide is reached: the dispatch goes on), "return" (the core returns something else),
// "mixed" (the callers of the helper disagree).
func (w *gateWalker) walk(b *ssa.BasicBlock, depth int) string {
	for steps := 0; steps < 60; steps++ {
		if len(b.Instrs) == 0 {
			return "continue"
		}
		switch last := b.Instrs[len(b.Instrs)-1].(type) {
		case *ssa.If:
			v, ok := w.cond(last.Cond)
			if !ok {
				return "continue"
			}
			w.from = b
			if v {
				b = b.Succs[0]
			} else {
				b = b.Succs[1]
			}
		case *ssa.Jump:
			w.from = b
			b = b.Succs[0]
		case *ssa.Return:
			f := b.Parent()
			if w.oc.core.in[f] || depth > 3 {
				if len(last.Results) == 0 {
					return "return"
				}
				for _, v := range retValues(last, len(last.Results)-1) {
					if gv, ok := w.val(v); ok && gv.kind == gvSentinel {
						return "sentinel"
					}
				}
				return "return"
			}
			// a helper: its results, bound to the call in every caller
			var res []gateVal
			for i := range last.Results {
				vs := retValues(last, i)
				gv, ok := gateVal{}, false
				if len(vs) == 1 {
					gv, ok = w.val(vs[0])
				}
				if !ok {
					gv = gateVal{}
				}
				res = append(res, gv)
			}
			out := ""
			for _, cs := range w.oc.core.sites[f] {
				call, isCall := cs.(*ssa.Call)
				if !isCall {
					return "mixed"
				}
				saved, savedFrom := w.bound, w.from
				w.bound = map[ssa.Value]gateVal{}
				for k, v := range saved {
					w.bound[k] = v
				}
				if len(res) == 1 && res[0].kind != 0 {
					w.bound[call] = res[0]
				} else if len(res) > 1 {
					for _, r := range *call.Referrers() {
						if ex, ok := r.(*ssa.Extract); ok && ex.Index < len(res) && res[ex.Index].kind != 0 {
							w.bound[ex] = res[ex.Index]
						}
					}
				}
				w.from = nil
				o := w.walk(call.Block(), depth+1)
				w.bound, w.from = saved, savedFrom
				if out == "" {
					out = o
				} else if out != o {
					return "mixed"
				}
			}
			if out == "" {
				return "return"
			}
			return out
		default:
			return "continue"
		}
	}
	return "continue"
}

// ---- the token loop and the ways into it ------------------------------------------------------

// tokenFromScanner: v is the object delivered by the scanner's token reader.
func (c *Ctx) tokenFromScanner(v ssa.Value) bool {
	ex, ok := origin(v).(*ssa.Extract)
	if !ok || ex.Index != 0 {
		return false
	}
	call, ok := ex.Tuple.(*ssa.Call)
	if !ok {
		return false
	}
	g := call.Call.StaticCallee()
	if g == nil {
		return false
	}
	if g == c.methodOpt("postscript", "scanner", "ScanToken") {
		return true
	}
	// by role: a method of the scanner without parameters that returns (Object, error)
	sT := c.typeObj("postscript", "scanner")
	objT := c.typeObj("postscript", "Object")
	if g.Signature.Recv() == nil || !pointsTo(g.Signature.Recv().Type(), sT) {
		return false
	}
	res, par := g.Signature.Results(), g.Signature.Params()
	if res.Len() != 2 || par.Len() != 0 {
		return false
	}
	n, isNamed := res.At(0).Type().(*types.Named)
	return isNamed && n.Obj() == objT && errIndex(g.Signature) == 1
}

// tokenLoopCalls: the calls of executeOne in f that dispatch a scanned token.
func (c *Ctx) tokenLoopCalls(ia *interpAnchors, f *ssa.Function) []ssa.CallInstruction {
	var out []ssa.CallInstruction
	for _, call := range staticCalls(f, ia.executeOne) {
		if _, isDefer := call.(*ssa.Defer); isDefer {
			continue
		}
		if len(call.Common().Args) >= 2 && c.tokenFromScanner(call.Common().Args[1]) {
			out = append(out, call)
		}
	}
	return out
}

// tokenLoopFunc: the function that holds the token loop: executeScanner, or the function it hands
// the loop to (found by what it does: it dispatches the tokens the scanner delivers).
func (c *Ctx) tokenLoopFunc(ia *interpAnchors) *ssa.Function {
	if len(c.tokenLoopCalls(ia, ia.execScanner)) > 0 {
		return ia.execScanner
	}
	var found *ssa.Function
	n := 0
	for _, f := range c.modFuncs {
		if len(c.tokenLoopCalls(ia, f)) > 0 {
			found = f
			n++
		}
	}
	if n == 1 {
		return found
	}
	return ia.execScanner
}

// beginLike: a nil result of g means that BeginEexec was called and succeeded: g is BeginEexec, or
// every return of g yields the result of such a call, a value that is certainly not nil, or nil
// at a place dominated by such a call having returned nil.
func (c *Ctx) beginLike(g, begin *ssa.Function, depth int) bool {
	if g == nil {
		return false
	}
	if g == begin {
		return true
	}
	if depth <= 0 || !c.inModule(g) || len(g.Blocks) == 0 {
		return false
	}
	ei := errIndex(g.Signature)
	if ei < 0 {
		return false
	}
	rets := returns(g)
	if len(rets) == 0 {
		return false
	}
	for _, r := range rets {
		for _, v := range retValues(r, ei) {
			v = origin(v)
			if call, ok := v.(*ssa.Call); ok {
				sc := call.Call.StaticCallee()
				if c.beginLike(sc, begin, depth-1) || sc == c.interp().e {
					continue
				}
			}
			if isNilConst(v) {
				if c.afterBegin(r, begin, depth-1) {
					continue
				}
				return false
			}
			if _, ok := v.(*ssa.MakeInterface); ok {
				continue // a concrete error value
			}
			nonNil := false
			for _, cd := range domConds(r.Block()) {
				if m, ok := asCmp(cd); ok && m.op == token.NEQ && (origin(m.x) == v && isNilConst(m.y) || origin(m.y) == v && isNilConst(m.x)) {
					nonNil = true
				}
			}
			if !nonNil {
				return false
			}
		}
	}
	return true
}

// afterBegin: instruction ins is reached only after a successful BeginEexec: a call of BeginEexec
// (or of a function whose nil result means the same) dominates it and its result was found nil.
func (c *Ctx) afterBegin(ins ssa.Instruction, begin *ssa.Function, depth int) bool {
	f := ins.Parent()
	ok := false
	eachInstr(f, func(i2 ssa.Instruction) {
		bc, isCall := i2.(*ssa.Call)
		if !isCall || ok || !dominatesInstr(bc, ins) || !c.beginLike(bc.Call.StaticCallee(), begin, depth) {
			return
		}
		for _, cd := range domConds(ins.Block()) {
			m, isCmp := asCmp(cd)
			if isCmp && m.op == token.EQL && (origin(m.x) == ssa.Value(bc) && isNilConst(m.y) || origin(m.y) == ssa.Value(bc) && isNilConst(m.x)) {
				ok = true
			}
		}
	})
	return ok
}

// tokenLoopEntry is one call that (directly or through plain helpers) enters the token loop.
type tokenLoopEntry struct {
	site   ssa.CallInstruction
	kind   string // "api" | "begin" | "bad"
	detail string
}

type tokenLoopChain struct {
	fns     map[*ssa.Function]bool // the token loop function(s) and the plain helpers through which they are entered
	entries []tokenLoopEntry
	bad     []*ssa.Function // members of the chain whose callers are unknown
}

var tokenLoopChainCache struct {
	c  *Ctx
	ch *tokenLoopChain
}

// tokenLoopEntries: the functions that hold a token loop (and executeScanner), closed under "is
// called by a plain helper from a place that is not behind a successful BeginEexec", and the calls
// that enter this set from outside: from the API entry point, behind a successful BeginEexec, or
// otherwise (a violation: the Go recursion through such a call is not bounded).
func (c *Ctx) tokenLoopEntries(ia *interpAnchors) *tokenLoopChain {
	if tokenLoopChainCache.c == c && tokenLoopChainCache.ch != nil {
		return tokenLoopChainCache.ch
	}
	core := c.execCoreOf(ia.executeOne)
	reg := c.registry()
	execute := c.method("postscript", "Interpreter", "Execute")
	begin := c.method("postscript", "scanner", "BeginEexec")
	ch := &tokenLoopChain{fns: map[*ssa.Function]bool{}}
	var work []*ssa.Function
	add := func(f *ssa.Function) {
		if !ch.fns[f] {
			ch.fns[f] = true
			work = append(work, f)
		}
	}
	add(ia.execScanner)
	for _, f := range c.modFuncs {
		if f != execute && len(c.tokenLoopCalls(ia, f)) > 0 {
			add(f)
		}
	}
	for len(work) > 0 {
		w := work[0]
		work = work[1:]
		if core.taken[w] || core.in[w] || reg.byFn[w] != nil || exportedAPI(w) {
			// callers unknown (a function value, an operator, an exported function) or the interpreter core itself
			ch.bad = append(ch.bad, w)
		}
		for _, cs := range core.sites[w] {
			f := cs.Parent()
			switch {
			case f == execute:
				ch.entries = append(ch.entries, tokenLoopEntry{cs, "api", ""})
			case c.afterBegin(cs, begin, 2):
				ch.entries = append(ch.entries, tokenLoopEntry{cs, "begin", ""})
			case ch.fns[f]:
				// a call inside the chain (the wrapper calling the loop)
			case reg.byFn[f] != nil:
				ch.entries = append(ch.entries, tokenLoopEntry{cs, "bad", "operator " + reg.byFn[f].key + " re-enters the token loop without a successful BeginEexec: nested re-entry is not refused, Go recursion unbounded"})
			case core.taken[f] || core.in[f] || exportedAPI(f) || f.Parent() != nil || len(core.sites[f]) == 0:
				ch.entries = append(ch.entries, tokenLoopEntry{cs, "bad", "the token loop is entered from a function that is neither the API entry point nor a helper called only from it or behind a successful BeginEexec"})
			default:
				add(f)
			}
		}
	}
	tokenLoopChainCache.c, tokenLoopChainCache.ch = c, ch
	return ch
}
