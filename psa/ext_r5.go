package main

import (
	"fmt"
	"go/token"
	"go/types"
	"sort"
	"strings"

	"golang.org/x/tools/go/ssa"
)

// Rules added after the fifth round of seeded changes.

// ---------------------------------------------------------------------------------------------
// L2-NOSWALLOW (C11): the budget error, once raised, reaches the caller of Execute.
//
// R is the set of module functions whose error result can be ErrExecutionLimitExceeded: those that
// return the sentinel itself, and every function one of whose returned errors comes from a call
// that can reach a function of R (call graph).  At every call site of such a function the error
// value e is followed through the caller's control-flow graph: e is "live" after the call and
// stays live along every edge except those whose branch condition shows that e is nil or is not
// the sentinel (e == nil, e == <another package-level error value>, e != sentinel, a type test
// that the sentinel's type fails, errors.Is with another value).  A return that is reached with e
// live and does not return e (or a value made from it) — `return nil`, or a function without
// error result — turns the budget error into success: the program goes on past its budget.
func (c *Ctx) noSwallowRule() {
	sentinel := c.spkg("postscript").Var("ErrExecutionLimitExceeded")
	if sentinel == nil {
		abort("anchor: ErrExecutionLimitExceeded not found")
	}
	sentT := sentinel.Type().(*types.Pointer).Elem() // static type of the variable (a pointer to the error struct)
	cgr := c.callgraph()
	isErr := func(t types.Type) bool {
		return t != nil && types.Identical(t, types.Universe.Lookup("error").Type())
	}
	calleesAt := func(f *ssa.Function, site ssa.CallInstruction) []*ssa.Function {
		var out []*ssa.Function
		if n := cgr.Nodes[f]; n != nil {
			for _, e := range n.Out {
				if e.Site == site {
					out = append(out, e.Callee.Func)
				}
			}
		}
		if sc := site.Common().StaticCallee(); sc != nil && len(out) == 0 {
			out = append(out, sc)
		}
		return out
	}
	// error result origins of a function
	type org struct {
		sentinel bool
		calls    []ssa.CallInstruction
	}
	origins := map[*ssa.Function]*org{}
	var walk func(v ssa.Value, o *org, seen map[ssa.Value]bool)
	walk = func(v ssa.Value, o *org, seen map[ssa.Value]bool) {
		if v == nil || seen[v] {
			return
		}
		seen[v] = true
		switch x := v.(type) {
		case *ssa.Phi:
			for _, e := range x.Edges {
				walk(e, o, seen)
			}
		case *ssa.MakeInterface:
			walk(x.X, o, seen)
		case *ssa.ChangeInterface:
			walk(x.X, o, seen)
		case *ssa.ChangeType:
			walk(x.X, o, seen)
		case *ssa.TypeAssert:
			walk(x.X, o, seen)
		case *ssa.Extract:
			walk(x.Tuple, o, seen)
		case *ssa.UnOp:
			if g := globalLoad(x); g == sentinel {
				o.sentinel = true
			} else if x.Op == token.MUL {
				// a load from a local cell: follow the stores to it
				if al, ok := x.X.(*ssa.Alloc); ok {
					for _, r := range *al.Referrers() {
						if st, ok := r.(*ssa.Store); ok && st.Addr == al {
							walk(st.Val, o, seen)
						}
					}
				}
			}
		case *ssa.Call:
			o.calls = append(o.calls, x)
		}
	}
	for _, f := range c.modFuncs {
		res := f.Signature.Results()
		if res.Len() == 0 || !isErr(res.At(res.Len()-1).Type()) {
			continue
		}
		o := &org{}
		for _, r := range returns(f) {
			if len(r.Results) == res.Len() {
				walk(r.Results[res.Len()-1], o, map[ssa.Value]bool{})
			}
		}
		origins[f] = o
	}
	mayRaise := map[*ssa.Function]bool{}
	for changed := true; changed; {
		changed = false
		for f, o := range origins {
			if mayRaise[f] {
				continue
			}
			hit := o.sentinel
			for _, call := range o.calls {
				for _, g := range calleesAt(f, call) {
					if mayRaise[g] {
						hit = true
					}
				}
			}
			if hit {
				mayRaise[f] = true
				changed = true
			}
		}
	}
	var raisers []string
	for f := range mayRaise {
		raisers = append(raisers, c.fname(f))
	}
	sort.Strings(raisers)
	c.rep.Extra["functions_whose_error_can_be_the_budget_error"] = raisers
	c.check(len(raisers) >= 5, "L2-NOSWALLOW", "-", "functions whose error can be the budget error", token.NoPos, fmt.Sprintf("%d functions", len(raisers)),
		"fewer than five functions can return the budget error: the rule lost its anchor")

	sentAssignable := func(t types.Type) bool {
		// can a value whose dynamic type is the sentinel's pass a type test for t?
		if types.Identical(t, sentT) {
			return true
		}
		if it, ok := t.Underlying().(*types.Interface); ok {
			return types.Implements(sentT, it)
		}
		return false
	}
	sites := 0
	for _, f := range c.modFuncs {
		if len(f.Blocks) == 0 {
			continue
		}
		for _, b := range f.Blocks {
			for _, ins := range b.Instrs {
				call, ok := ins.(*ssa.Call)
				if !ok {
					continue
				}
				raising := false
				for _, g := range calleesAt(f, call) {
					if mayRaise[g] {
						raising = true
					}
				}
				if !raising {
					continue
				}
				// the error value of the call
				var e ssa.Value
				if isErr(call.Type()) {
					e = call
				} else if tup, ok := call.Type().(*types.Tuple); ok && tup.Len() > 0 && isErr(tup.At(tup.Len()-1).Type()) {
					for _, r := range *call.Referrers() {
						if ex, ok := r.(*ssa.Extract); ok && ex.Index == tup.Len()-1 {
							e = ex
						}
					}
					if e == nil {
						e = call // the error component is never looked at
					}
				} else {
					continue
				}
				sites++
				bad := c.swallowPaths(f, call, e, sentinel, sentAssignable)
				construct := "error of " + c.valShapeIns(call) + " is not turned into success"
				if len(bad) == 0 {
					c.ok("L2-NOSWALLOW", c.fname(f), construct, call.Pos(), "every return reached with the error possibly being the budget error returns it", "")
				} else {
					c.fail("L2-NOSWALLOW", c.fname(f), construct, call.Pos(), "the call can return ErrExecutionLimitExceeded, and "+joinMax(bad, 2)+": the program continues although its operation budget is used up (Execute returns nil, or more operations are counted after the limit)")
				}
			}
		}
	}
	c.floor("L2-NOSWALLOW", 12)
	_ = sites
}

// swallowPaths follows the error value e of call through f (see noSwallowRule).
// With call == nil the value e is a parameter of f, live from the entry; with strict set every
// return reached with e live must return e itself (f is then a filter: its result is nil only
// where e was shown to be nil or not the budget error).
func (c *Ctx) swallowPaths(f *ssa.Function, call *ssa.Call, e ssa.Value, sentinel *ssa.Global, sentAssignable func(types.Type) bool) []string {
	return c.swallowPathsX(f, call, e, sentinel, sentAssignable, false)
}

var errFilterMemo = map[*ssa.Function]int{} // 1 filter, 2 not, 3 being computed

// errFilter: g takes one error and returns one error, and returns its argument on every path on
// which the argument can be the budget error.
func (c *Ctx) errFilter(g *ssa.Function, sentinel *ssa.Global, sentAssignable func(types.Type) bool) bool {
	if g == nil || len(g.Blocks) == 0 || g.Pkg == nil || c.pkgs[g.Pkg.Pkg.Path()] == nil {
		return false
	}
	switch errFilterMemo[g] {
	case 1:
		return true
	case 2, 3:
		return false
	}
	errT := types.Universe.Lookup("error").Type()
	sig := g.Signature
	if len(g.Params) != 1 || sig.Results().Len() != 1 || !types.Identical(g.Params[0].Type(), errT) || !types.Identical(sig.Results().At(0).Type(), errT) {
		errFilterMemo[g] = 2
		return false
	}
	errFilterMemo[g] = 3
	bad := c.swallowPathsX(g, nil, g.Params[0], sentinel, sentAssignable, true)
	if len(bad) == 0 {
		errFilterMemo[g] = 1
		return true
	}
	errFilterMemo[g] = 2
	return false
}

// flagImplied: for a function with a boolean result i and a final error result: +1 if on every
// return a non-nil error comes with result i true, -1 if with result i false, 0 otherwise.
func flagImplied(g *ssa.Function, i int) int {
	if g == nil || len(g.Blocks) == 0 {
		return 0
	}
	res := g.Signature.Results()
	last := res.Len() - 1
	pos, neg := true, true
	for _, r := range returns(g) {
		if len(r.Results) != res.Len() {
			return 0
		}
		re, rv := r.Results[last], r.Results[i]
		if isNilConst(re) {
			continue
		}
		if b, ok := constBool(rv); ok {
			if b {
				neg = false
			} else {
				pos = false
			}
			continue
		}
		if bo, ok := rv.(*ssa.BinOp); ok && (bo.Op == token.NEQ || bo.Op == token.EQL) {
			var other ssa.Value
			if sameValue(bo.X, re) {
				other = bo.Y
			} else if sameValue(bo.Y, re) {
				other = bo.X
			}
			if other != nil && isNilConst(other) {
				if bo.Op == token.NEQ {
					neg = false
				} else {
					pos = false
				}
				continue
			}
		}
		return 0
	}
	switch {
	case pos && !neg:
		return 1
	case neg && !pos:
		return -1
	}
	return 0
}

func (c *Ctx) swallowPathsX(f *ssa.Function, call *ssa.Call, e ssa.Value, sentinel *ssa.Global, sentAssignable func(types.Type) bool, strict bool) []string {
	alias := map[ssa.Value]bool{e: true}
	// values that carry e: conversions, type assertions on it
	closeAlias := func() {
		for changed := true; changed; {
			changed = false
			for _, b := range f.Blocks {
				for _, ins := range b.Instrs {
					v, ok := ins.(ssa.Value)
					if !ok || alias[v] {
						continue
					}
					switch x := ins.(type) {
					case *ssa.Call:
						if len(x.Call.Args) == 1 && alias[x.Call.Args[0]] && c.errFilter(x.Call.StaticCallee(), sentinel, sentAssignable) {
							alias[v], changed = true, true
						}
					case *ssa.ChangeInterface:
						if alias[x.X] {
							alias[v], changed = true, true
						}
					case *ssa.MakeInterface:
						if alias[x.X] {
							alias[v], changed = true, true
						}
					case *ssa.TypeAssert:
						if alias[x.X] && !x.CommaOk {
							alias[v], changed = true, true
						}
					case *ssa.Extract:
						if ta, ok := x.Tuple.(*ssa.TypeAssert); ok && x.Index == 0 && alias[ta.X] {
							alias[v], changed = true, true
						}
					}
				}
			}
		}
	}
	closeAlias()
	carries := func(v ssa.Value) bool {
		// does the returned value v carry e?  e itself, a φ one of whose edges does, or the result
		// of a call that was handed e (wrapping)
		seen := map[ssa.Value]bool{}
		var rec func(v ssa.Value) bool
		rec = func(v ssa.Value) bool {
			if v == nil || seen[v] {
				return false
			}
			seen[v] = true
			if alias[v] {
				return true
			}
			switch x := v.(type) {
			case *ssa.Call:
				for _, a := range x.Call.Args {
					if rec(a) {
						return true
					}
				}
			case *ssa.Extract:
				return rec(x.Tuple)
			case *ssa.MakeInterface:
				return rec(x.X)
			case *ssa.Slice:
				return rec(x.X)
			case *ssa.Alloc:
				for _, r := range *x.Referrers() {
					if st, ok := r.(*ssa.Store); ok && rec(st.Val) {
						return true
					}
					if ia, ok := r.(*ssa.IndexAddr); ok {
						for _, r2 := range *ia.Referrers() {
							if st, ok := r2.(*ssa.Store); ok && rec(st.Val) {
								return true
							}
						}
					}
				}
			}
			return false
		}
		return rec(v)
	}
	// does the condition value show, on the given outcome, that e is nil or not the sentinel?
	var kills func(cond ssa.Value, outcome bool) bool
	kills = func(cond ssa.Value, outcome bool) bool {
		switch x := cond.(type) {
		case *ssa.UnOp:
			if x.Op == token.NOT {
				return kills(x.X, !outcome)
			}
		case *ssa.BinOp:
			if x.Op != token.EQL && x.Op != token.NEQ {
				return false
			}
			var other ssa.Value
			switch {
			case alias[x.X]:
				other = x.Y
			case alias[x.Y]:
				other = x.X
			default:
				return false
			}
			equal := outcome == (x.Op == token.EQL) // on this outcome e == other
			if isNilConst(other) {
				return equal
			}
			if mi, ok := other.(*ssa.MakeInterface); ok {
				other = mi.X
			}
			if g := globalLoad(other); g != nil {
				if g == sentinel {
					return !equal // e != sentinel
				}
				return equal // e is another package-level value
			}
		case *ssa.Extract:
			if ex, ok := e.(*ssa.Extract); ok && call != nil && x.Tuple == ex.Tuple && x.Index != ex.Index {
				// another result of the same call: a flag that is set whenever the error is
				switch flagImplied(call.Call.StaticCallee(), x.Index) {
				case 1:
					return !outcome
				case -1:
					return outcome
				}
			}
			if ta, ok := x.Tuple.(*ssa.TypeAssert); ok && ta.CommaOk && x.Index == 1 && alias[ta.X] {
				if outcome {
					return !sentAssignable(ta.AssertedType) // the sentinel cannot pass this test
				}
				// failed test: e is not the sentinel if the sentinel would have passed
				return sentAssignable(ta.AssertedType)
			}
		case *ssa.Call:
			if sc := x.Call.StaticCallee(); sc != nil && calleeName(sc) == "errors.Is" && len(x.Call.Args) == 2 && alias[x.Call.Args[0]] {
				t := x.Call.Args[1]
				if mi, ok := t.(*ssa.MakeInterface); ok {
					t = mi.X
				}
				if g := globalLoad(t); g != nil {
					if g == sentinel {
						return !outcome
					}
					return outcome
				}
			}
		}
		return false
	}
	// forward propagation of "e may be the budget error" over the blocks.  A φ all of whose
	// incoming edges that are reached with e live carry e is e wherever e is live: the propagation
	// is repeated with such φs added until nothing changes.
	var liveIn map[*ssa.BasicBlock]bool
	var liveEdge map[[2]int]bool
	for round := 0; round < 8; round++ {
		liveIn = map[*ssa.BasicBlock]bool{}
		liveEdge = map[[2]int]bool{}
		var work []*ssa.BasicBlock
		flowOut := func(b *ssa.BasicBlock) {
			var ifc ssa.Value
			if len(b.Instrs) > 0 {
				if i, ok := b.Instrs[len(b.Instrs)-1].(*ssa.If); ok {
					ifc = i.Cond
				}
			}
			for k, s := range b.Succs {
				if ifc != nil && kills(ifc, k == 0) {
					continue
				}
				liveEdge[[2]int{b.Index, s.Index}] = true
				if !liveIn[s] {
					liveIn[s] = true
					work = append(work, s)
				}
			}
		}
		if call != nil {
			flowOut(call.Block())
		} else {
			liveIn[f.Blocks[0]] = true
			flowOut(f.Blocks[0])
		}
		for len(work) > 0 {
			b := work[len(work)-1]
			work = work[:len(work)-1]
			flowOut(b)
		}
		grown := false
		for _, b := range f.Blocks {
			for _, ins := range b.Instrs {
				phi, ok := ins.(*ssa.Phi)
				if !ok {
					break
				}
				if alias[phi] {
					continue
				}
				n, all := 0, true
				for i, ev := range phi.Edges {
					if !liveEdge[[2]int{b.Preds[i].Index, b.Index}] {
						continue
					}
					n++
					if !alias[ev] {
						all = false
					}
				}
				if n > 0 && all {
					alias[phi] = true
					grown = true
				}
			}
		}
		if !grown {
			break
		}
		closeAlias()
	}
	res := f.Signature.Results()
	hasErr := res.Len() > 0 && types.Identical(res.At(res.Len()-1).Type(), types.Universe.Lookup("error").Type())
	var bad []string
	seenBad := map[string]bool{}
	note := func(s string) {
		if !seenBad[s] {
			seenBad[s] = true
			bad = append(bad, s)
		}
	}
	for _, b := range f.Blocks {
		live := liveIn[b]
		for _, ins := range b.Instrs {
			if call != nil && ins == ssa.Instruction(call) {
				live = true
				continue
			}
			r, ok := ins.(*ssa.Return)
			if !ok || !live {
				continue
			}
			if !hasErr {
				// a function without error result cannot hand the error on; it may record it
				// (a store of e) for its caller
				stored := false
				for a := range alias {
					if a.Referrers() == nil {
						continue
					}
					for _, u := range *a.Referrers() {
						if st, ok := u.(*ssa.Store); ok && st.Val == a {
							stored = true
						}
					}
				}
				if !stored {
					note(fmt.Sprintf("%s has no error result and returns at %s without recording it", c.fname(f), c.pos(r.Pos())))
				}
				continue
			}
			v := r.Results[res.Len()-1]
			if strict {
				if phi, ok := v.(*ssa.Phi); ok && !alias[v] {
					pb := phi.Block()
					for i, ev := range phi.Edges {
						if liveEdge[[2]int{pb.Preds[i].Index, pb.Index}] && !alias[ev] {
							note("another value than the argument is returned")
						}
					}
				} else if !alias[v] {
					note("another value than the argument is returned")
				}
				continue
			}
			if isNilConst(v) {
				note(fmt.Sprintf("the function returns nil at %s on a path where that error was not excluded", c.pos(r.Pos())))
				continue
			}
			if phi, ok := v.(*ssa.Phi); ok {
				pb := phi.Block()
				for i, ev := range phi.Edges {
					p := pb.Preds[i]
					if liveEdge[[2]int{p.Index, pb.Index}] && isNilConst(ev) {
						note(fmt.Sprintf("the function returns nil at %s on a path where that error was not excluded", c.pos(r.Pos())))
					}
				}
				continue
			}
			if !carries(v) {
				// another error value is returned: not a success
				continue
			}
		}
	}
	return bad
}

// ---------------------------------------------------------------------------------------------
// PANIC-COMPARE (C01): comparing two interface values with == or != (also as a map key) panics at
// run time when both hold the same dynamic type and that type is not comparable (a slice, a map,
// a function — here: Array, Procedure, Dict, builtin).  For every such comparison in the module
// the set of dynamic types each operand can hold is derived from where the value is made (a
// conversion of a concrete value, the results of the module function or closure that returns it,
// a φ of such); a value of unknown origin can hold any type its static interface type admits (for
// the empty interface: every type; for an interface with methods: the module's types that
// implement it — library error values are taken to be comparable, they exist to be compared).
// The comparison cannot panic if no uncomparable type is possible on both sides.
type dynSet struct {
	top   bool // any type the static type admits
	types []types.Type
}

func (c *Ctx) dynTypes(v ssa.Value, seen map[ssa.Value]bool, depth int) dynSet {
	if seen[v] || depth > 6 {
		return dynSet{}
	}
	seen[v] = true
	if _, ok := v.Type().Underlying().(*types.Interface); !ok {
		return dynSet{types: []types.Type{v.Type()}}
	}
	union := func(a, b dynSet) dynSet {
		return dynSet{top: a.top || b.top, types: append(append([]types.Type{}, a.types...), b.types...)}
	}
	resultsOf := func(call *ssa.Call, idx int) dynSet {
		sc := call.Call.StaticCallee()
		if sc == nil || len(sc.Blocks) == 0 || sc.Pkg == nil || c.pkgs[sc.Pkg.Pkg.Path()] == nil {
			if sc != nil && sc.Parent() != nil && len(sc.Blocks) > 0 {
				// a closure of a module function
			} else {
				return dynSet{top: true}
			}
		}
		out := dynSet{}
		for _, r := range returns(sc) {
			if idx < len(r.Results) {
				out = union(out, c.dynTypes(r.Results[idx], seen, depth+1))
			}
		}
		return out
	}
	switch x := v.(type) {
	case *ssa.Const:
		return dynSet{} // nil
	case *ssa.MakeInterface:
		return dynSet{types: []types.Type{x.X.Type()}}
	case *ssa.ChangeInterface:
		return c.dynTypes(x.X, seen, depth)
	case *ssa.ChangeType:
		return c.dynTypes(x.X, seen, depth)
	case *ssa.Phi:
		out := dynSet{}
		for _, e := range x.Edges {
			out = union(out, c.dynTypes(e, seen, depth))
		}
		return out
	case *ssa.TypeAssert:
		if !x.CommaOk {
			return c.dynTypes(x.X, seen, depth)
		}
	case *ssa.Extract:
		switch t := x.Tuple.(type) {
		case *ssa.TypeAssert:
			if x.Index == 0 {
				return c.dynTypes(t.X, seen, depth)
			}
		case *ssa.Call:
			return resultsOf(t, x.Index)
		}
	case *ssa.Call:
		return resultsOf(x, 0)
	case *ssa.UnOp:
		if g := globalLoad(x); g != nil {
			if g.Pkg == nil || c.pkgs[g.Pkg.Pkg.Path()] == nil {
				// a library value that is meant to be compared (io.EOF and the like)
				return dynSet{}
			}
			out := dynSet{}
			n := 0
			for _, fn := range c.modFuncs {
				for _, b := range fn.Blocks {
					for _, ins := range b.Instrs {
						if st, ok := ins.(*ssa.Store); ok && st.Addr == ssa.Value(g) {
							n++
							if call, ok := st.Val.(*ssa.Call); ok {
								if sc := call.Call.StaticCallee(); sc != nil && (calleeName(sc) == "errors.New" || calleeName(sc) == "fmt.Errorf") {
									continue // a pointer to a library struct
								}
							}
							out = union(out, c.dynTypes(st.Val, seen, depth+1))
						}
					}
				}
			}
			if n == 0 {
				return dynSet{top: true}
			}
			return out
		}
	}
	return dynSet{top: true}
}

func (c *Ctx) compareRule(fns []*ssa.Function) {
	// the module's uncomparable types admitted by a static interface type
	var modTypes []types.Type
	for _, p := range c.sortedPkgs() {
		sc := p.Types.Scope()
		for _, name := range sc.Names() {
			if tn, ok := sc.Lookup(name).(*types.TypeName); ok && !tn.IsAlias() {
				if _, isIface := tn.Type().Underlying().(*types.Interface); isIface {
					continue
				}
				if tp, ok := tn.Type().(*types.Named); ok && tp.TypeParams().Len() > 0 {
					continue
				}
				modTypes = append(modTypes, tn.Type(), types.NewPointer(tn.Type()))
			}
		}
	}
	uncomparableIn := func(static types.Type, d dynSet) []types.Type {
		var out []types.Type
		for _, t := range d.types {
			if !types.Comparable(t) {
				out = append(out, t)
			}
		}
		if d.top {
			it, _ := static.Underlying().(*types.Interface)
			for _, t := range modTypes {
				if !types.Comparable(t) && (it == nil || types.Implements(t, it)) {
					out = append(out, t)
				}
			}
		}
		return out
	}
	n := 0
	for _, f := range fns {
		for _, b := range f.Blocks {
			for _, ins := range b.Instrs {
				var x, y ssa.Value
				what := ""
				switch i := ins.(type) {
				case *ssa.BinOp:
					if i.Op != token.EQL && i.Op != token.NEQ {
						continue
					}
					if _, ok := i.X.Type().Underlying().(*types.Interface); !ok {
						continue
					}
					if _, ok := i.Y.Type().Underlying().(*types.Interface); !ok {
						continue
					}
					if isNilConst(i.X) || isNilConst(i.Y) {
						continue
					}
					x, y, what = i.X, i.Y, "comparison "+c.valShape(i.X)+" "+i.Op.String()+" "+c.valShape(i.Y)
				case *ssa.Lookup:
					mt, ok := i.X.Type().Underlying().(*types.Map)
					if !ok {
						continue
					}
					if _, ok := mt.Key().Underlying().(*types.Interface); !ok {
						continue
					}
					x, y, what = i.Index, i.Index, "map look-up with key "+c.valShape(i.Index)
				case *ssa.MapUpdate:
					mt := i.Map.Type().Underlying().(*types.Map)
					if _, ok := mt.Key().Underlying().(*types.Interface); !ok {
						continue
					}
					x, y, what = i.Key, i.Key, "map update with key "+c.valShape(i.Key)
				default:
					continue
				}
				n++
				ux := uncomparableIn(x.Type(), c.dynTypes(x, map[ssa.Value]bool{}, 0))
				uy := uncomparableIn(y.Type(), c.dynTypes(y, map[ssa.Value]bool{}, 0))
				var both []string
				for _, a := range ux {
					for _, bt := range uy {
						if types.Identical(a, bt) {
							both = append(both, types.TypeString(a, func(p *types.Package) string { return p.Name() }))
						}
					}
				}
				sort.Strings(both)
				both = dedupStrings(both)
				if len(both) == 0 {
					c.ok("PANIC-COMPARE", c.fname(f), what, ins.Pos(), "no uncomparable dynamic type is possible on both sides", "")
				} else {
					c.fail("PANIC-COMPARE", c.fname(f), what, ins.Pos(), "both operands can hold a value of the uncomparable type "+joinMax(both, 4)+": the comparison panics at run time (comparing uncomparable type) for such operands")
				}
			}
		}
	}
	c.rep.Extra["interface_comparisons_examined"] = n
}

func dedupStrings(l []string) []string {
	var out []string
	for i, s := range l {
		if i == 0 || s != l[i-1] {
			out = append(out, s)
		}
	}
	return out
}

// ---------------------------------------------------------------------------------------------
// T1-SHARECOPY (C06): a glyph assembled from another one (seac: base glyph plus accent) does not
// share storage with it.  `*g = *base` copies the slice headers of the struct: a later
// `g.Cmds = append(g.Cmds, …)` then writes into the spare capacity of the base glyph's array, so
// two composites built on one base overwrite each other's accent.  For every assignment of a
// whole struct value loaded from another object (`*p = *q`, p and q different) whose type has
// slice or map fields, each such field of the destination must be given fresh storage afterwards
// (slices.Clone, maps.Clone, append to nil, make, a literal) in the same function.
func (c *Ctx) shareCopyRule(pkgName string, rule string) {
	n := 0
	for _, f := range c.modFuncs {
		if f.Pkg == nil || f.Pkg.Pkg.Name() != pkgName {
			continue
		}
		for _, b := range f.Blocks {
			for _, ins := range b.Instrs {
				st, ok := ins.(*ssa.Store)
				if !ok {
					continue
				}
				ld, ok := st.Val.(*ssa.UnOp)
				if !ok || ld.Op != token.MUL {
					continue
				}
				if _, isSlice := ld.Type().Underlying().(*types.Slice); isSlice {
					// a slice field of one object stored as it is into a field of another one
					dst, ok1 := st.Addr.(*ssa.FieldAddr)
					src, ok2 := ld.X.(*ssa.FieldAddr)
					if ok1 && ok2 && !isLocalCell(dst) && !isLocalCell(src) && origin(dst.X) != origin(src.X) {
						if _, isNamed := deref(dst.X.Type()).(*types.Named); isNamed && types.Identical(deref(dst.X.Type()), deref(src.X.Type())) {
							n++
							c.fail(rule, c.fname(f), "slice field copy "+c.valShape(st.Addr)+" = "+c.valShape(ld), st.Pos(), "the slice is stored into a second object of the same type without being cloned: both objects then share one array, and appending to or writing through one changes the other")
						}
					}
					continue
				}
				sT, ok := ld.Type().Underlying().(*types.Struct)
				if !ok {
					continue
				}
				if origin(ld.X) == origin(st.Addr) {
					continue
				}
				// both ends are objects that exist apart from this statement: a copy into or out of
				// a local variable or a literal's temporary moves a value, it does not make two
				// long-lived objects share storage
				if isLocalCell(st.Addr) || isLocalCell(ld.X) {
					continue
				}
				if _, isGlobal := ld.X.(*ssa.Global); isGlobal {
					continue
				}
				var shared []string
				for i := 0; i < sT.NumFields(); i++ {
					fld := sT.Field(i)
					switch fld.Type().Underlying().(type) {
					case *types.Slice, *types.Map:
					default:
						continue
					}
					fresh := false
					for _, b2 := range f.Blocks {
						for _, in2 := range b2.Instrs {
							st2, ok := in2.(*ssa.Store)
							if !ok {
								continue
							}
							fa, ok := st2.Addr.(*ssa.FieldAddr)
							if !ok || fa.Field != i || origin(fa.X) != origin(st.Addr) {
								continue
							}
							if !dominatesInstr(st, st2) {
								continue
							}
							if freshStorage(st2.Val) {
								fresh = true
							}
						}
					}
					if !fresh {
						shared = append(shared, fld.Name())
					}
				}
				n++
				construct := "struct copy " + c.valShape(st.Addr) + " = " + c.valShape(ld)
				if len(shared) == 0 {
					c.ok(rule, c.fname(f), construct, st.Pos(), "every slice or map field of the copy is given fresh storage afterwards", "")
				} else {
					c.fail(rule, c.fname(f), construct, st.Pos(), "the copy shares the storage of the field(s) "+strings.Join(shared, ", ")+" with the object it was copied from: appending to or writing through one changes the other (two composite glyphs on the same base glyph overwrite each other's accent)")
				}
			}
		}
	}
	c.rep.Extra["struct_copies_examined"] = n
}

// freshStorage: the value is storage nothing else refers to.
func freshStorage(v ssa.Value) bool {
	switch x := v.(type) {
	case *ssa.Const:
		return x.Value == nil
	case *ssa.MakeSlice, *ssa.MakeMap:
		return true
	case *ssa.Slice:
		if _, ok := x.X.(*ssa.Alloc); ok {
			return true // a composite literal
		}
	case *ssa.ChangeType:
		return freshStorage(x.X)
	case *ssa.Call:
		if b, ok := x.Call.Value.(*ssa.Builtin); ok && b.Name() == "append" {
			first := x.Call.Args[0]
			if ct, ok := first.(*ssa.ChangeType); ok {
				first = ct.X
			}
			if cst, ok := first.(*ssa.Const); ok && cst.Value == nil {
				return true
			}
			return freshStorage(first) && !isNilConst(first)
		}
		if sc := x.Call.StaticCallee(); sc != nil {
			g := sc
			if og := g.Origin(); og != nil {
				g = og
			}
			switch calleeName(g) {
			case "slices.Clone", "maps.Clone", "bytes.Clone", "slices.Collect", "slices.Sorted", "slices.AppendSeq":
				return true
			}
		}
	}
	return false
}

// isLocalCell: the address is (inside) a local variable or temporary of the function.
func isLocalCell(a ssa.Value) bool {
	for {
		switch x := a.(type) {
		case *ssa.Alloc:
			return true
		case *ssa.FieldAddr:
			a = x.X
		case *ssa.IndexAddr:
			if _, ok := x.X.Type().Underlying().(*types.Pointer); ok {
				a = x.X // element of an array variable
			} else {
				return false
			}
		default:
			return false
		}
	}
}

func deref(t types.Type) types.Type {
	if p, ok := t.Underlying().(*types.Pointer); ok {
		return p.Elem()
	}
	return t
}

// ---------------------------------------------------------------------------------------------
// CMAP-CHOICE (C07): ReadCMap returns the CMap the file defines — of the entries of the CMap
// directory the first one (in sorted name order, C17) that is a dictionary, whatever that
// dictionary contains.  A standard-form CMap may lack any block: one that only says `usecmap` has
// no code-space ranges of its own, and is a valid CMap all the same.  In ReadCMap and the helpers
// it calls after the program has run, the candidate dictionaries (the values obtained from a
// directory entry by a type test for Dict) are followed: nothing read from a candidate except its
// CMapName entry (which is filled in when missing) may reach a branch condition.
func (c *Ctx) cmapChoiceRule() {
	rc := c.fn("postscript", "ReadCMap")
	if rc == nil {
		abort("anchor: ReadCMap not found")
	}
	ia := c.interp()
	dictT := c.typeObj("postscript", "Dict")
	// the functions in which the choice is made
	exclude := c.reachable([]*ssa.Function{c.method("postscript", "Interpreter", "Execute"), c.fn("postscript", "NewInterpreter")})
	_ = ia
	in := map[*ssa.Function]bool{rc: true}
	for work := []*ssa.Function{rc}; len(work) > 0; {
		f := work[len(work)-1]
		work = work[:len(work)-1]
		eachInstr(f, func(ins ssa.Instruction) {
			if call, ok := ins.(ssa.CallInstruction); ok {
				if sc := call.Common().StaticCallee(); sc != nil && sc.Pkg != nil && c.pkgs[sc.Pkg.Pkg.Path()] != nil && !exclude[sc] && !in[sc] && len(sc.Blocks) > 0 {
					in[sc] = true
					work = append(work, sc)
				}
			}
			if mc, ok := ins.(*ssa.MakeClosure); ok {
				if fn, ok := mc.Fn.(*ssa.Function); ok && !in[fn] {
					in[fn] = true
					work = append(work, fn)
				}
			}
		})
	}
	isDict := func(t types.Type) bool {
		n, ok := t.(*types.Named)
		return ok && n.Obj() == dictT
	}
	tainted := map[ssa.Value]string{}
	var work []ssa.Value
	taint := func(v ssa.Value, why string) {
		if v == nil {
			return
		}
		if _, ok := tainted[v]; !ok {
			tainted[v] = why
			work = append(work, v)
		}
	}
	candidates := 0
	for f := range in {
		eachInstr(f, func(ins ssa.Instruction) {
			ta, ok := ins.(*ssa.TypeAssert)
			if !ok || !isDict(ta.AssertedType) {
				return
			}
			candidates++
			if !ta.CommaOk {
				taint(ta, "the candidate dictionary")
				return
			}
			for _, r := range *ta.Referrers() {
				if ex, ok := r.(*ssa.Extract); ok && ex.Index == 0 {
					taint(ex, "the candidate dictionary")
				}
			}
		})
	}
	var bad []string
	var badPos token.Pos
	for len(work) > 0 {
		v := work[len(work)-1]
		work = work[:len(work)-1]
		why := tainted[v]
		refs := v.Referrers()
		if refs == nil {
			continue
		}
		for _, r := range *refs {
			switch x := r.(type) {
			case *ssa.Lookup:
				if x.X == v {
					if k, ok := constString(x.Index); ok && k == "CMapName" {
						continue
					}
					key := c.valShape(x.Index)
					if k, ok := constString(x.Index); ok {
						key = "/" + k
					}
					taint(x, "the candidate's entry "+key)
				} else {
					taint(x, why)
				}
			case *ssa.MapUpdate, *ssa.Return, *ssa.Store, *ssa.DebugRef:
				if st, ok := r.(*ssa.Store); ok && st.Val == v {
					if al, ok := st.Addr.(*ssa.Alloc); ok {
						// a local variable holding the value
						for _, r2 := range *al.Referrers() {
							if ld, ok := r2.(*ssa.UnOp); ok && ld.Op == token.MUL {
								taint(ld, why)
							}
						}
					}
				}
			case *ssa.If:
				bad = append(bad, fmt.Sprintf("a branch at %s depends on %s", c.pos(x.Cond.Pos()), why))
				if badPos == token.NoPos {
					badPos = x.Cond.Pos()
				}
			case ssa.CallInstruction:
				cc := x.Common()
				if b, ok := cc.Value.(*ssa.Builtin); ok {
					if b.Name() == "len" {
						taint(x.Value(), "the length of "+why)
					}
					continue
				}
				if sc := cc.StaticCallee(); sc != nil && in[sc] {
					for i, a := range cc.Args {
						if a == v && i < len(sc.Params) {
							taint(sc.Params[i], why)
						}
					}
					continue
				}
				if x.Value() != nil {
					taint(x.Value(), why)
				}
			case *ssa.Range:
				taint(x, "the contents of the candidate dictionary")
			case *ssa.Next:
				taint(x, why)
			case ssa.Value:
				taint(x, why)
			}
		}
	}
	sort.Strings(bad)
	bad = dedupStrings(bad)
	c.check(candidates > 0, "CMAP-CHOICE", c.fname(rc), "candidates are found by a type test for Dict", rc.Pos(), fmt.Sprintf("%d type tests in %d functions", candidates, len(in)), "no type test for Dict in ReadCMap or its helpers: the rule lost its anchor")
	c.check(len(bad) == 0, "CMAP-CHOICE", c.fname(rc), "the first dictionary of the directory is returned whatever it contains", badPos, fmt.Sprintf("%d values read from the candidates followed, none reaches a branch", len(tainted)),
		"which CMap is returned (or whether any is) depends on more than the entries being dictionaries: "+joinMax(bad, 3)+" — a valid CMap that, for example, only says usecmap and has no code-space block is then skipped")
}

// ---------------------------------------------------------------------------------------------
// AFM-PERGLYPH (C15): what the writer puts on a glyph's character-metrics line — its code, width,
// name and box — is a function of that glyph and of the metrics alone.  The values formatted
// into the line that begins `C <code>` are followed backwards through the function: none may
// depend on state carried from one pass of a loop to the next other than a plain counter (an
// index that starts at a constant or at another such value and goes up by one).  A search for
// the glyph's code that resumes where the previous glyph was found assigns -1 to every glyph the
// list visits out of code order (.notdef comes first whatever its code).
func (c *Ctx) afmPerGlyphRule() {
	found := 0
	for _, f := range c.modFuncs {
		if f.Pkg == nil || f.Pkg.Pkg.Name() != "afm" {
			continue
		}
		dom := f
		_ = dom
		for _, b := range f.Blocks {
			for _, ins := range b.Instrs {
				call, ok := ins.(*ssa.Call)
				if !ok {
					continue
				}
				k := -1
				for i, a := range call.Call.Args {
					if s, ok := constString(a); ok && strings.HasPrefix(s, "C %d") {
						k = i
					}
				}
				if k < 0 || k+1 >= len(call.Call.Args) {
					continue
				}
				found++
				vals := variadicValues(call.Call.Args[k+1])
				var bad []string
				for _, v := range vals {
					bad = append(bad, c.carriedState(f, call, v)...)
				}
				sort.Strings(bad)
				bad = dedupStrings(bad)
				c.check(len(bad) == 0, "AFM-PERGLYPH", c.fname(f), "the values on a glyph's C line depend on that glyph only", call.Pos(), fmt.Sprintf("%d formatted values followed back to the glyph, the metrics and constants", len(vals)),
					"a value written on a glyph's character-metrics line depends on the glyphs written before it: "+joinMax(bad, 3)+" — the code (or width, or box) that a glyph gets then varies with its position in the list, and is lost for glyphs visited out of order")
			}
		}
	}
	c.check(found >= 1, "AFM-PERGLYPH", "afm", "the character-metrics line is formatted from a constant layout `C %d …`", token.NoPos, fmt.Sprintf("%d format calls", found), "no call that formats a line beginning `C %d` was found in package afm: the rule lost its anchor")
}

// variadicValues: the values passed in a `...any` argument built at the call site.
func variadicValues(arg ssa.Value) []ssa.Value {
	sl, ok := arg.(*ssa.Slice)
	if !ok {
		return nil
	}
	al, ok := sl.X.(*ssa.Alloc)
	if !ok {
		return nil
	}
	var out []ssa.Value
	for _, r := range *al.Referrers() {
		if ia, ok := r.(*ssa.IndexAddr); ok {
			for _, r2 := range *ia.Referrers() {
				if st, ok := r2.(*ssa.Store); ok && st.Addr == ssa.Value(ia) {
					out = append(out, st.Val)
				}
			}
		}
	}
	return out
}

func isLoopHeader(b *ssa.BasicBlock) bool {
	for _, p := range b.Preds {
		if b.Dominates(p) {
			return true
		}
	}
	return false
}

// carriedState follows v backwards and reports the loop-carried values it depends on.
func (c *Ctx) carriedState(f *ssa.Function, at ssa.Instruction, v ssa.Value) []string {
	var bad []string
	seen := map[ssa.Value]bool{}
	var rec func(v ssa.Value)
	rec = func(v ssa.Value) {
		if v == nil || seen[v] {
			return
		}
		seen[v] = true
		switch x := v.(type) {
		case *ssa.Phi:
			if isLoopHeader(x.Block()) {
				counter := true
				for i, e := range x.Edges {
					if x.Block().Dominates(x.Block().Preds[i]) {
						// back edge: φ + 1
						bo, ok := origin(e).(*ssa.BinOp)
						one, isC := int64(0), false
						if ok {
							one, isC = constInt(bo.Y)
						}
						if !(ok && bo.Op == token.ADD && isC && one == 1 && origin(bo.X) == ssa.Value(x)) {
							counter = false
						}
					}
				}
				if !counter {
					bad = append(bad, fmt.Sprintf("a value carried round the loop at %s (%s)", c.pos(phiPos(x)), c.valShape(x)))
					return
				}
				for i, e := range x.Edges {
					if !x.Block().Dominates(x.Block().Preds[i]) {
						rec(e)
					}
				}
				return
			}
			for _, e := range x.Edges {
				rec(e)
			}
		case *ssa.Alloc:
			// a local cell: what was stored into it; a cell that outlives a pass of a loop
			// around the formatting call and is stored to inside that loop carries state
			for _, r := range *x.Referrers() {
				switch s := r.(type) {
				case *ssa.Store:
					if s.Addr == ssa.Value(x) {
						rec(s.Val)
					}
				case *ssa.IndexAddr, *ssa.FieldAddr:
					for _, r2 := range *r.(ssa.Value).Referrers() {
						if st, ok := r2.(*ssa.Store); ok {
							rec(st.Val)
						}
					}
				}
			}
			for _, h := range f.Blocks {
				if !isLoopHeader(h) || !h.Dominates(at.Block()) || !x.Block().Dominates(h) || x.Block() == h {
					continue
				}
				loop := loopBlocks(h)
				if !loop[at.Block()] {
					continue
				}
				for _, r := range *x.Referrers() {
					if st, ok := r.(*ssa.Store); ok && st.Addr == ssa.Value(x) && loop[st.Block()] {
						bad = append(bad, fmt.Sprintf("the variable declared at %s, assigned inside the loop at %s", c.pos(x.Pos()), c.pos(st.Pos())))
					}
				}
			}
		case ssa.Instruction:
			for _, op := range x.Operands(nil) {
				if *op != nil {
					rec(*op)
				}
			}
		}
	}
	rec(v)
	return bad
}

func phiPos(p *ssa.Phi) token.Pos {
	if p.Pos() != token.NoPos {
		return p.Pos()
	}
	for _, ins := range p.Block().Instrs {
		if ins.Pos() != token.NoPos {
			return ins.Pos()
		}
	}
	return token.NoPos
}

// ---------------------------------------------------------------------------------------------
// AFM-ONELINE (C15): the writer puts every text field on one line; what the reader stores into a
// text field of the metrics can therefore contain no line end, or the next cycle reads the rest
// of the value as a line of its own.  The values stored into the string fields of Metrics by the
// reader and its helpers are followed backwards (concatenations, φ, formatting calls, the field's
// own previous value): no string constant with a line end may take part.
func (c *Ctx) afmOneLineRule() {
	metricsT := c.typeObj("afm", "Metrics")
	var stores []*ssa.Store
	for _, f := range c.modFuncs {
		if f.Pkg == nil || f.Pkg.Pkg.Name() != "afm" {
			continue
		}
		eachInstr(f, func(ins ssa.Instruction) {
			st, ok := ins.(*ssa.Store)
			if !ok {
				return
			}
			fa, ok := st.Addr.(*ssa.FieldAddr)
			if !ok || !pointsTo(fa.X.Type(), metricsT) {
				return
			}
			if b, ok := st.Val.Type().Underlying().(*types.Basic); !ok || b.Kind() != types.String {
				return
			}
			stores = append(stores, st)
		})
	}
	n := 0
	for _, st := range stores {
		fa := st.Addr.(*ssa.FieldAddr)
		var bad []string
		seen := map[ssa.Value]bool{}
		var rec func(v ssa.Value, depth int)
		rec = func(v ssa.Value, depth int) {
			if v == nil || seen[v] || depth > 12 {
				return
			}
			seen[v] = true
			switch x := v.(type) {
			case *ssa.Const:
				if s, ok := constString(x); ok && strings.ContainsAny(s, "\n\r") {
					bad = append(bad, fmt.Sprintf("%q", s))
				}
			case *ssa.Phi:
				for _, e := range x.Edges {
					rec(e, depth+1)
				}
			case *ssa.BinOp:
				if x.Op == token.ADD {
					rec(x.X, depth+1)
					rec(x.Y, depth+1)
				}
			case *ssa.UnOp:
				if x.Op == token.MUL {
					if fa2, ok := x.X.(*ssa.FieldAddr); ok && pointsTo(fa2.X.Type(), metricsT) {
						// the field's previous value: whatever is stored into that field
						for _, s2 := range stores {
							if s2.Addr.(*ssa.FieldAddr).Field == fa2.Field {
								rec(s2.Val, depth+1)
							}
						}
					}
					if al, ok := x.X.(*ssa.Alloc); ok {
						for _, r := range *al.Referrers() {
							if s2, ok := r.(*ssa.Store); ok && s2.Addr == ssa.Value(al) {
								rec(s2.Val, depth+1)
							}
						}
					}
				}
			case *ssa.Call:
				sc := x.Call.StaticCallee()
				name := ""
				if sc != nil {
					name = calleeName(sc)
				}
				switch {
				case name == "strings.Join" || strings.HasPrefix(name, "fmt.Sprint") || name == "strings.Repeat" || name == "strings.ReplaceAll" || name == "strings.Replace":
					for _, a := range x.Call.Args {
						rec(a, depth+1)
						for _, vv := range variadicValues(a) {
							rec(vv, depth+1)
						}
					}
				case sc != nil && sc.Pkg != nil && c.pkgs[sc.Pkg.Pkg.Path()] != nil && len(sc.Blocks) > 0:
					for _, r := range returns(sc) {
						for _, rv := range r.Results {
							if b, ok := rv.Type().Underlying().(*types.Basic); ok && b.Kind() == types.String {
								rec(rv, depth+1)
							}
						}
					}
				}
			case *ssa.MakeInterface:
				rec(x.X, depth+1)
			case *ssa.Extract:
				rec(x.Tuple, depth+1)
			case *ssa.Slice:
				if _, isAlloc := x.X.(*ssa.Alloc); isAlloc {
					for _, vv := range variadicValues(x) {
						rec(vv, depth+1)
					}
				}
			}
		}
		rec(st.Val, 0)
		n++
		fld := deref(fa.X.Type()).Underlying().(*types.Struct).Field(fa.Field).Name()
		c.check(len(bad) == 0, "AFM-ONELINE", c.fname(st.Parent()), "text stored into Metrics."+fld+" has no line end", st.Pos(), "no string constant with a line end takes part in the value", "the reader can store a value with the line end "+strings.Join(dedupStrings(bad), ", ")+" into Metrics."+fld+": the writer puts the field on one line, so the next cycle reads the rest of the value as a separate line (the field changes, or another field is overwritten)")
	}
	c.floor("AFM-ONELINE", 1)
}

// ---------------------------------------------------------------------------------------------
// ISO-POOL (C18): an object taken from a sync.Pool belongs to the function that took it only until
// it is put back; afterwards another goroutine may get and overwrite it.  Nothing that refers to
// the pooled object's memory — the object, a slice of its buffer, the result of appending to
// that slice — may be returned or stored outside the function.  (Copying the bytes out is fine:
// only values that can hold a reference are followed.)
func (c *Ctx) poolRule() {
	hasRefs := func(t types.Type) bool {
		switch u := t.Underlying().(type) {
		case *types.Pointer, *types.Slice, *types.Map, *types.Interface, *types.Chan, *types.Signature:
			return true
		case *types.Struct:
			return isAggregateWithRefs(u)
		}
		return false
	}
	n := 0
	for _, f := range c.modFuncs {
		var gets []*ssa.Call
		eachInstr(f, func(ins ssa.Instruction) {
			if call, ok := ins.(*ssa.Call); ok {
				if sc := call.Call.StaticCallee(); sc != nil && calleeName(sc) == "(*sync.Pool).Get" {
					gets = append(gets, call)
				}
			}
		})
		for _, get := range gets {
			n++
			tainted := map[ssa.Value]bool{get: true}
			cells := map[ssa.Value]bool{}
			var bad []string
			// the function and the closures it makes share the cells of captured variables
			fns := []*ssa.Function{f}
			fns = append(fns, f.AnonFuncs...)
			freeOf := map[ssa.Value]ssa.Value{} // FreeVar -> the cell bound to it
			for _, g := range fns {
				eachInstr(g, func(ins ssa.Instruction) {
					if mc, ok := ins.(*ssa.MakeClosure); ok {
						if fn, ok := mc.Fn.(*ssa.Function); ok {
							for i, b := range mc.Bindings {
								if i < len(fn.FreeVars) {
									freeOf[fn.FreeVars[i]] = b
								}
							}
						}
					}
				})
			}
			cellOf := func(a ssa.Value) ssa.Value {
				if fv, ok := a.(*ssa.FreeVar); ok {
					if b, ok := freeOf[fv]; ok {
						return b
					}
				}
				return a
			}
			for changed := true; changed; {
				changed = false
				mark := func(v ssa.Value) {
					if v != nil && !tainted[v] && hasRefs(v.Type()) {
						tainted[v] = true
						changed = true
					}
				}
				for _, g := range fns {
					eachInstr(g, func(ins ssa.Instruction) {
						switch x := ins.(type) {
						case *ssa.Store:
							if tainted[x.Val] {
								a := cellOf(x.Addr)
								if _, isAlloc := a.(*ssa.Alloc); isAlloc {
									if !cells[a] {
										cells[a] = true
										changed = true
									}
								}
							}
						case *ssa.UnOp:
							if x.Op == token.MUL && (cells[cellOf(x.X)] || tainted[x.X]) {
								mark(x)
							}
						case *ssa.Call:
							for _, a := range x.Call.Args {
								if tainted[a] {
									mark(x)
								}
							}
						case ssa.Value:
							for _, op := range ins.Operands(nil) {
								if *op != nil && tainted[*op] {
									mark(x)
								}
							}
						}
					})
				}
			}
			for _, g := range fns {
				eachInstr(g, func(ins ssa.Instruction) {
					switch x := ins.(type) {
					case *ssa.Return:
						if g != f {
							return
						}
						for _, r := range x.Results {
							if tainted[r] {
								bad = append(bad, fmt.Sprintf("%s is returned at %s", c.valShape(r), c.pos(x.Pos())))
							}
						}
					case *ssa.Store:
						if !tainted[x.Val] {
							return
						}
						a := cellOf(x.Addr)
						if _, isAlloc := a.(*ssa.Alloc); isAlloc {
							return
						}
						// writing into the pooled object itself is how it is used
						base := a
						for {
							switch y := base.(type) {
							case *ssa.FieldAddr:
								base = y.X
								continue
							case *ssa.IndexAddr:
								base = y.X
								continue
							}
							break
						}
						if tainted[base] {
							return
						}
						bad = append(bad, fmt.Sprintf("%s is stored into %s at %s", c.valShape(x.Val), c.valShape(x.Addr), c.pos(x.Pos())))
					}
				})
			}
			sort.Strings(bad)
			bad = dedupStrings(bad)
			c.check(len(bad) == 0, "ISO-POOL", c.fname(f), "memory of the pooled object stays inside the function", get.Pos(), "nothing derived from the pooled object is returned or stored outside", "memory of an object taken from a sync.Pool outlives the function that took it: "+joinMax(bad, 3)+"; once the object is back in the pool another goroutine's call gets and overwrites it, so concurrent callers see each other's data")
		}
	}
	c.rep.Extra["sync_pool_gets_examined"] = n
}
