package main

import (
	"fmt"
	"go/ast"
	"go/constant"
	"go/token"
	"go/types"
)

// Abstract evaluation of *pure classifier code*: boolean/arithmetic
// expressions and if/switch/return statements that touch their variables
// only through comparisons and arithmetic with constants.  It is used to
// compute, for every value of a small domain (all 256 bytes, or one
// representative per cell of the partition induced by the constants), which
// outcome a predicate selects — the "RangeSet" of DESIGN.md §3.3.  No
// function of the repository is called; anything that is not such pure code
// makes the evaluation fail (undecided).

type aval struct {
	isBool bool
	b      bool
	i      int64
}

type aenv struct {
	info *types.Info
	vars map[types.Object]aval
	// hook may supply values for expressions the evaluator does not model
	// (element loads, len(...) of runtime data)
	hook func(e ast.Expr) (aval, bool)
	// intBits: width of int/uint on the architecture analysed (0: 64)
	intBits int
}

type evalErr struct{ msg string }

func (e evalErr) Error() string { return e.msg }

func (env *aenv) fail(n ast.Node, format string, a ...any) {
	panic(evalErr{fmt.Sprintf(format, a...)})
}

func (env *aenv) eval(e ast.Expr) aval {
	if tv, ok := env.info.Types[e]; ok && tv.Value != nil {
		switch tv.Value.Kind() {
		case constant.Bool:
			return aval{isBool: true, b: constant.BoolVal(tv.Value)}
		case constant.Int:
			v, _ := constant.Int64Val(tv.Value)
			return aval{i: v}
		case constant.Float:
			if iv := constant.ToInt(tv.Value); iv.Kind() == constant.Int {
				v, _ := constant.Int64Val(iv)
				return aval{i: v}
			}
		}
	}
	if env.hook != nil {
		if v, ok := env.hook(e); ok {
			return v
		}
	}
	switch e := e.(type) {
	case *ast.ParenExpr:
		return env.eval(e.X)
	case *ast.Ident:
		if v, ok := env.vars[env.info.ObjectOf(e)]; ok {
			return v
		}
		env.fail(e, "free variable %s", e.Name)
	case *ast.UnaryExpr:
		x := env.eval(e.X)
		switch e.Op {
		case token.NOT:
			return aval{isBool: true, b: !x.b}
		case token.SUB:
			return env.wrap(e, aval{i: -x.i})
		case token.ADD:
			return x
		}
	case *ast.BinaryExpr:
		switch e.Op {
		case token.LAND:
			if !env.eval(e.X).b {
				return aval{isBool: true, b: false}
			}
			return aval{isBool: true, b: env.eval(e.Y).b}
		case token.LOR:
			if env.eval(e.X).b {
				return aval{isBool: true, b: true}
			}
			return aval{isBool: true, b: env.eval(e.Y).b}
		}
		x, y := env.eval(e.X), env.eval(e.Y)
		switch e.Op {
		case token.EQL:
			if x.isBool {
				return aval{isBool: true, b: x.b == y.b}
			}
			return aval{isBool: true, b: x.i == y.i}
		case token.NEQ:
			if x.isBool {
				return aval{isBool: true, b: x.b != y.b}
			}
			return aval{isBool: true, b: x.i != y.i}
		case token.LSS:
			return aval{isBool: true, b: x.i < y.i}
		case token.LEQ:
			return aval{isBool: true, b: x.i <= y.i}
		case token.GTR:
			return aval{isBool: true, b: x.i > y.i}
		case token.GEQ:
			return aval{isBool: true, b: x.i >= y.i}
		case token.ADD:
			return env.wrap(e, aval{i: x.i + y.i})
		case token.SUB:
			return env.wrap(e, aval{i: x.i - y.i})
		case token.MUL:
			return env.wrap(e, aval{i: x.i * y.i})
		case token.QUO:
			if y.i == 0 {
				env.fail(e, "division by zero")
			}
			return env.wrap(e, aval{i: x.i / y.i})
		case token.REM:
			if y.i == 0 {
				env.fail(e, "division by zero")
			}
			return env.wrap(e, aval{i: x.i % y.i})
		case token.SHL:
			return env.wrap(e, aval{i: x.i << uint(y.i)})
		case token.SHR:
			return env.wrap(e, aval{i: x.i >> uint(y.i)})
		case token.AND:
			return env.wrap(e, aval{i: x.i & y.i})
		case token.OR:
			return env.wrap(e, aval{i: x.i | y.i})
		case token.XOR:
			return env.wrap(e, aval{i: x.i ^ y.i})
		}
	case *ast.CallExpr:
		// conversions between integer types
		if tv, ok := env.info.Types[e.Fun]; ok && tv.IsType() && len(e.Args) == 1 {
			x := env.eval(e.Args[0])
			if x.isBool {
				env.fail(e, "conversion of a boolean")
			}
			return env.wrapTo(tv.Type, x)
		}
		env.fail(e, "call %s", types.ExprString(e.Fun))
	}
	env.fail(e, "expression %s is not pure comparison/arithmetic code", types.ExprString(e))
	return aval{}
}

func (env *aenv) wrap(e ast.Expr, v aval) aval {
	t := env.info.TypeOf(e)
	if t == nil {
		return v
	}
	return env.wrapTo(t, v)
}

func (env *aenv) wrapTo(t types.Type, v aval) aval {
	b, ok := t.Underlying().(*types.Basic)
	if !ok {
		return v
	}
	switch b.Kind() {
	case types.Uint8:
		v.i = int64(uint8(v.i))
	case types.Int8:
		v.i = int64(int8(v.i))
	case types.Uint16:
		v.i = int64(uint16(v.i))
	case types.Int16:
		v.i = int64(int16(v.i))
	case types.Uint32:
		v.i = int64(uint32(v.i))
	case types.Int32:
		v.i = int64(int32(v.i))
	case types.Int:
		if env.intBits == 32 {
			v.i = int64(int32(v.i))
		}
	case types.Uint, types.Uintptr:
		if env.intBits == 32 {
			v.i = int64(uint32(v.i))
		}
	}
	return v
}

// outcome of running a statement list
type outcome struct {
	kind   string // "return", "break", "continue", "fallout", "goto"
	label  string
	vals   []aval     // returned constants (for kind return, when evaluable)
	clause ast.Node   // the case clause / branch that was selected last
	stmts  []ast.Stmt // the straight-line statements executed (assignments etc.)
	// values appended by `x = append(x, v…)` statements, evaluated when the
	// statement was reached (-1: not evaluable); appendTo names the slice
	appends  []int64
	appendTo []string
	// assignments of evaluable values to variables not tracked before: name=value
	sets map[string]int64
}

// run abstractly executes a statement list.  Assignments to variables that
// are in env update env when the right-hand side is evaluable; other
// statements are recorded in outcome.stmts and otherwise ignored when
// `lenient` is set, else they make the evaluation fail.
func (env *aenv) run(list []ast.Stmt, lenient bool, out *outcome) bool {
	for _, s := range list {
		if env.stmt(s, lenient, out) {
			return true
		}
	}
	return false
}

func (env *aenv) tryEval(e ast.Expr) (v aval, ok bool) {
	defer func() {
		if r := recover(); r != nil {
			if _, isE := r.(evalErr); isE {
				ok = false
				return
			}
			panic(r)
		}
	}()
	return env.eval(e), true
}

// stmt returns true when control left the list (return/break/continue).
func (env *aenv) stmt(s ast.Stmt, lenient bool, out *outcome) bool {
	switch s := s.(type) {
	case *ast.ReturnStmt:
		out.kind = "return"
		for _, r := range s.Results {
			if v, ok := env.tryEval(r); ok {
				out.vals = append(out.vals, v)
			} else {
				out.vals = append(out.vals, aval{i: -999999})
			}
		}
		out.stmts = append(out.stmts, s)
		return true
	case *ast.BranchStmt:
		switch s.Tok {
		case token.BREAK:
			out.kind = "break"
		case token.CONTINUE:
			out.kind = "continue"
		case token.GOTO:
			out.kind = "goto"
		default:
			return false
		}
		if s.Label != nil {
			out.label = s.Label.Name
		}
		return true
	case *ast.BlockStmt:
		return env.run(s.List, lenient, out)
	case *ast.IfStmt:
		if s.Init != nil {
			if env.stmt(s.Init, lenient, out) {
				return true
			}
		}
		c := env.eval(s.Cond)
		if c.b {
			out.clause = s.Body
			return env.run(s.Body.List, lenient, out)
		}
		if s.Else != nil {
			out.clause = s.Else
			return env.stmt(s.Else, lenient, out)
		}
		return false
	case *ast.SwitchStmt:
		if s.Init != nil {
			if env.stmt(s.Init, lenient, out) {
				return true
			}
		}
		var tag *aval
		symbolicTag := false
		if s.Tag != nil {
			if t, ok := env.tryEval(s.Tag); ok {
				tag = &t
			} else {
				// the tag itself has no value here (a free variable): decide each case as the
				// comparison `tag == case`, which the hook may be able to answer
				symbolicTag = true
			}
		}
		var def *ast.CaseClause
		var sel *ast.CaseClause
		for _, cc := range s.Body.List {
			cl := cc.(*ast.CaseClause)
			if cl.List == nil {
				def = cl
				continue
			}
			for _, e := range cl.List {
				if symbolicTag {
					if env.eval(&ast.BinaryExpr{X: s.Tag, Op: token.EQL, Y: e}).b {
						sel = cl
						break
					}
					continue
				}
				v := env.eval(e)
				if tag != nil {
					if v.isBool == tag.isBool && v.i == tag.i && v.b == tag.b {
						sel = cl
					}
				} else if v.b {
					sel = cl
				}
				if sel != nil {
					break
				}
			}
			if sel != nil {
				break
			}
		}
		if sel == nil {
			sel = def
		}
		if sel == nil {
			return false
		}
		out.clause = sel
		var o2 outcome
		left := env.run(sel.Body, lenient, &o2)
		out.stmts = append(out.stmts, o2.stmts...)
		out.appends = append(out.appends, o2.appends...)
		out.appendTo = append(out.appendTo, o2.appendTo...)
		for k, v := range o2.sets {
			if out.sets == nil {
				out.sets = map[string]int64{}
			}
			out.sets[k] = v
		}
		out.vals = o2.vals
		if left {
			if o2.kind == "break" && o2.label == "" {
				return false // leaves the switch only
			}
			out.kind, out.label = o2.kind, o2.label
			return true
		}
		return false
	case *ast.AssignStmt:
		out.stmts = append(out.stmts, s)
		if len(s.Lhs) == 1 && len(s.Rhs) == 1 {
			if call, ok := s.Rhs[0].(*ast.CallExpr); ok {
				if id, ok := call.Fun.(*ast.Ident); ok && id.Name == "append" {
					if _, isB := env.info.ObjectOf(id).(*types.Builtin); isB && len(call.Args) >= 1 {
						for _, a := range call.Args[1:] {
							if v, ok := env.tryEval(a); ok && !v.isBool {
								out.appends = append(out.appends, v.i)
							} else {
								out.appends = append(out.appends, -1)
							}
							out.appendTo = append(out.appendTo, types.ExprString(call.Args[0]))
						}
					}
				}
			}
		}
		if len(s.Lhs) == len(s.Rhs) {
			for i, l := range s.Lhs {
				id, ok := l.(*ast.Ident)
				if !ok {
					continue
				}
				obj := env.info.ObjectOf(id)
				var v aval
				var okv bool
				switch s.Tok {
				case token.ASSIGN, token.DEFINE:
					v, okv = env.tryEval(s.Rhs[i])
				default:
					// compound: x op= y
					cur, has := env.vars[obj]
					if !has {
						continue
					}
					y, oky := env.tryEval(s.Rhs[i])
					if !oky {
						delete(env.vars, obj)
						continue
					}
					switch s.Tok {
					case token.ADD_ASSIGN:
						v, okv = env.wrapTo(obj.Type(), aval{i: cur.i + y.i}), true
					case token.SUB_ASSIGN:
						v, okv = env.wrapTo(obj.Type(), aval{i: cur.i - y.i}), true
					case token.MUL_ASSIGN:
						v, okv = env.wrapTo(obj.Type(), aval{i: cur.i * y.i}), true
					}
				}
				if okv {
					env.vars[obj] = v
					if out.sets == nil {
						out.sets = map[string]int64{}
					}
					if v.isBool {
						if v.b {
							out.sets[id.Name] = 1
						} else {
							out.sets[id.Name] = 0
						}
					} else {
						out.sets[id.Name] = v.i
					}
				} else {
					delete(env.vars, obj)
				}
			}
		}
		return false
	case *ast.IncDecStmt:
		out.stmts = append(out.stmts, s)
		if id, ok := s.X.(*ast.Ident); ok {
			obj := env.info.ObjectOf(id)
			if cur, has := env.vars[obj]; has {
				if s.Tok == token.INC {
					cur.i++
				} else {
					cur.i--
				}
				env.vars[obj] = env.wrapTo(obj.Type(), cur)
			}
		}
		return false
	case *ast.DeclStmt:
		out.stmts = append(out.stmts, s)
		if gd, ok := s.Decl.(*ast.GenDecl); ok {
			for _, sp := range gd.Specs {
				if vs, ok := sp.(*ast.ValueSpec); ok {
					for i, n := range vs.Names {
						obj := env.info.Defs[n]
						if i < len(vs.Values) {
							if v, ok := env.tryEval(vs.Values[i]); ok {
								env.vars[obj] = v
							}
						} else if b, ok := obj.Type().Underlying().(*types.Basic); ok {
							if b.Info()&types.IsInteger != 0 {
								env.vars[obj] = aval{}
							} else if b.Info()&types.IsBoolean != 0 {
								env.vars[obj] = aval{isBool: true}
							}
						}
					}
				}
			}
		}
		return false
	case *ast.ExprStmt, *ast.EmptyStmt:
		out.stmts = append(out.stmts, s)
		return false
	case *ast.LabeledStmt:
		return env.stmt(s.Stmt, lenient, out)
	}
	if lenient {
		out.stmts = append(out.stmts, s)
		return false
	}
	env.fail(s, "statement %T is not pure classifier code", s)
	return false
}

// classify runs fn(arg) for a one-parameter pure classifier function and
// returns the returned values.
func classifyFunc(info *types.Info, fd *ast.FuncDecl, arg int64) (vals []aval, err error) {
	defer func() {
		if r := recover(); r != nil {
			if e, ok := r.(evalErr); ok {
				err = e
				return
			}
			panic(r)
		}
	}()
	env := &aenv{info: info, vars: map[types.Object]aval{}}
	params := fd.Type.Params.List
	if len(params) != 1 || len(params[0].Names) != 1 {
		return nil, evalErr{"not a one-parameter function"}
	}
	pobj := info.Defs[params[0].Names[0]]
	env.vars[pobj] = env.wrapTo(pobj.Type(), aval{i: arg})
	var out outcome
	if !env.run(fd.Body.List, false, &out) || out.kind != "return" {
		return nil, evalErr{"function does not return"}
	}
	return out.vals, nil
}

// byteSet evaluates a boolean expression over variable obj for all bytes.
func byteSet(info *types.Info, e ast.Expr, obj types.Object) (set [256]bool, err error) {
	defer func() {
		if r := recover(); r != nil {
			if ee, ok := r.(evalErr); ok {
				err = ee
				return
			}
			panic(r)
		}
	}()
	for b := 0; b < 256; b++ {
		env := &aenv{info: info, vars: map[types.Object]aval{obj: {i: int64(b)}}}
		set[b] = env.eval(e).b
	}
	return set, nil
}

func setString(set [256]bool) string {
	s := ""
	for i := 0; i < 256; {
		if !set[i] {
			i++
			continue
		}
		j := i
		for j+1 < 256 && set[j+1] {
			j++
		}
		if s != "" {
			s += ","
		}
		if i == j {
			s += fmt.Sprintf("%d", i)
		} else {
			s += fmt.Sprintf("%d-%d", i, j)
		}
		i = j + 1
	}
	if s == "" {
		return "∅"
	}
	return s
}

func setOf(pred func(b int) bool) (set [256]bool) {
	for i := 0; i < 256; i++ {
		set[i] = pred(i)
	}
	return
}
