package main

import (
	"go/token"
	"strings"

	"golang.org/x/tools/go/ssa"
)

// Round 6, worker G: helpers of the PFB, AFM and glyph-name rules.

// dropIdleMasksY7 removes the constant operand of an `&` that cannot clear any bit: x & m == x
// whenever every bit that can be one in x is one in m ((v>>4)&0x0f for a byte v is v>>4).  The
// rewriting is applied bottom-up; width gives the significant bits of the symbols.
func dropIdleMasksY7(v sv, width map[string]uint) sv {
	if !isTermB(v) {
		return v
	}
	args := make([]sv, len(v.args))
	for i, a := range v.args {
		args[i] = dropIdleMasksY7(a, width)
	}
	base, _, _ := splitOpB(v.op)
	if base == "&" && len(args) >= 2 {
		for i, a := range args {
			if a.k != svInt {
				continue
			}
			var rest []sv
			rest = append(rest, args[:i]...)
			rest = append(rest, args[i+1:]...)
			m := ^uint64(0)
			for _, r := range rest {
				m &= bitMaskX8(r, width)
			}
			if m&^uint64(a.i) != 0 {
				continue
			}
			if len(rest) == 1 {
				return rest[0]
			}
			return dropIdleMasksY7(term(v.op, rest...), width)
		}
	}
	return term(v.op, args...)
}

// loopOwnerY7: the line loop of a table parser sits in loopFn.  If loopFn itself opens the file
// it reads, it is the parser (nil is returned).  Otherwise the parser is the function reachable
// from root that opens a file and reaches loopFn, the one closest to it (the smallest set of
// reachable functions); nil if there is none.
func (c *Ctx) loopOwnerY7(root, loopFn *ssa.Function) *ssa.Function {
	opens := func(f *ssa.Function) bool {
		found := false
		eachInstr(f, func(ins ssa.Instruction) {
			if call, ok := ins.(ssa.CallInstruction); ok {
				if n := callName(call); strings.HasSuffix(n, ".Open") || strings.HasSuffix(n, ".ReadFile") {
					found = true
				}
			}
		})
		return found
	}
	if opens(loopFn) {
		return nil
	}
	var best *ssa.Function
	bestN := 0
	for _, g := range c.afmWriterFuncs(root) {
		if g == loopFn || !opens(g) {
			continue
		}
		sub := c.afmWriterFuncs(g)
		reaches := false
		for _, h := range sub {
			if h == loopFn {
				reaches = true
			}
		}
		if reaches && (best == nil || len(sub) < bestN) {
			best, bestN = g, len(sub)
		}
	}
	return best
}

// sharedMapCellY7: the map published by instruction i of block b is read out of the local
// variable al, which closures of fn may share (a variable captured by reference lives in a cell).
// The variable must only ever hold maps made in fn (or by a helper that returns a fresh map), its
// address must go nowhere but into closures of fn, and every update of a map read out of it must
// precede the publication: an update in fn itself by its position, an update inside a closure
// because the closure is only ever called in place — directly, or by a module function that does
// nothing with the function value it is handed but call it — by a call that the publication
// cannot precede.  fresh=false: the variable is not of that kind; late: the updates that may
// follow the publication.
func (c *Ctx) sharedMapCellY7(fn *ssa.Function, al *ssa.Alloc, ld *ssa.UnOp, b *ssa.BasicBlock, i int) (fresh bool, late []string) {
	if al.Referrers() == nil {
		return false, nil
	}
	freshVal := func(v ssa.Value) bool {
		switch x := v.(type) {
		case *ssa.MakeMap:
			return true
		case *ssa.Call:
			g := x.Call.StaticCallee()
			return g != nil && c.inModule(g) && c.effects().returnsFresh(g)
		}
		return false
	}
	// updates of maps loaded from the cell address a (in function f)
	var updatesOf func(a ssa.Value) (ups []*ssa.MapUpdate, ok bool)
	updatesOf = func(a ssa.Value) ([]*ssa.MapUpdate, bool) {
		var ups []*ssa.MapUpdate
		for _, r := range *a.Referrers() {
			switch y := r.(type) {
			case *ssa.Store:
				// in fn itself only the stores whose value the published read can see count
				// (below); a function literal may only put fresh maps into the variable
				if y.Addr != a || (a != ssa.Value(al) && !freshVal(y.Val)) {
					return nil, false
				}
			case *ssa.UnOp:
				if y.Op != token.MUL {
					return nil, false
				}
				if y.Referrers() != nil {
					for _, rr := range *y.Referrers() {
						if mu, isU := rr.(*ssa.MapUpdate); isU && mu.Map == ssa.Value(y) {
							ups = append(ups, mu)
						}
					}
				}
			case *ssa.DebugRef:
			case *ssa.MakeClosure:
				// handled by the caller (only at the top level)
			default:
				return nil, false
			}
		}
		return ups, true
	}
	ups, ok := updatesOf(al)
	if !ok {
		return false, nil
	}
	// the stores whose value the read of the published map can see: backwards from the read to
	// the nearest store on every path; the entry of fn must not be reached (the variable would
	// still hold nil)
	{
		seen := map[*ssa.BasicBlock]bool{}
		var back func(blk *ssa.BasicBlock, from int) bool
		back = func(blk *ssa.BasicBlock, from int) bool {
			for j := from; j >= 0; j-- {
				if st, isS := blk.Instrs[j].(*ssa.Store); isS && st.Addr == ssa.Value(al) {
					return freshVal(st.Val)
				}
			}
			if len(blk.Preds) == 0 {
				return false
			}
			for _, p := range blk.Preds {
				if seen[p] {
					continue
				}
				seen[p] = true
				if !back(p, len(p.Instrs)-1) {
					return false
				}
			}
			return true
		}
		at := -1
		for j, ins := range ld.Block().Instrs {
			if ins == ssa.Instruction(ld) {
				at = j
			}
		}
		if at < 0 || !back(ld.Block(), at) {
			return false, nil
		}
	}
	for _, mu := range ups {
		if reaches(b, i, mu) {
			late = append(late, c.pos(mu.Pos()))
		}
	}
	// a module function that only calls the function value it receives as parameter k
	onlyCalls := func(g *ssa.Function, k int) bool {
		if g == nil || !c.inModule(g) || len(g.Blocks) == 0 || k >= len(g.Params) {
			return false
		}
		refs := g.Params[k].Referrers()
		if refs == nil {
			return true
		}
		for _, r := range *refs {
			switch y := r.(type) {
			case *ssa.Call:
				if y.Call.IsInvoke() || y.Call.Value != ssa.Value(g.Params[k]) {
					return false
				}
				for _, a := range y.Call.Args {
					if a == ssa.Value(g.Params[k]) {
						return false
					}
				}
			case *ssa.DebugRef:
			default:
				return false
			}
		}
		return true
	}
	for _, r := range *al.Referrers() {
		mc, isC := r.(*ssa.MakeClosure)
		if !isC {
			continue
		}
		g, _ := mc.Fn.(*ssa.Function)
		if g == nil {
			return false, nil
		}
		var inner []*ssa.MapUpdate
		for k, bnd := range mc.Bindings {
			if bnd != ssa.Value(al) || k >= len(g.FreeVars) {
				continue
			}
			fv := g.FreeVars[k]
			if fv.Referrers() == nil {
				continue
			}
			for _, rr := range *fv.Referrers() {
				if _, nested := rr.(*ssa.MakeClosure); nested {
					return false, nil
				}
			}
			u, ok := updatesOf(fv)
			if !ok {
				return false, nil
			}
			inner = append(inner, u...)
		}
		if len(inner) == 0 {
			continue // the closure only reads the map
		}
		// where the closure runs
		if mc.Referrers() == nil {
			continue
		}
		for _, rr := range *mc.Referrers() {
			inPlace := false
			if call, isCall := rr.(*ssa.Call); isCall && !call.Call.IsInvoke() {
				if call.Call.Value == ssa.Value(mc) {
					inPlace = true
					for _, a := range call.Call.Args {
						if a == ssa.Value(mc) {
							inPlace = false
						}
					}
				} else if callee := call.Call.StaticCallee(); callee != nil {
					inPlace = true
					off := len(callee.Params) - len(call.Call.Args)
					for k, a := range call.Call.Args {
						if a == ssa.Value(mc) && (off != 0 || !onlyCalls(callee, k)) {
							inPlace = false
						}
					}
				}
				if inPlace && reaches(b, i, call) {
					for _, mu := range inner {
						late = append(late, c.pos(mu.Pos())+" (in a function literal called at "+c.pos(call.Pos())+")")
					}
				}
			}
			if _, isDbg := rr.(*ssa.DebugRef); isDbg {
				continue
			}
			if !inPlace {
				for _, mu := range inner {
					late = append(late, c.pos(mu.Pos())+" (in a function literal whose calls cannot all be placed before the publication)")
				}
			}
		}
	}
	return true, late
}
